package main

// What a converted row group SAYS about itself must be true of its rows.
//
// ConvertRowGroup returns a RowGroup: besides Rows() it reports NumRows(),
// Schema(), ColumnChunks() and SortingColumns(), and consumers trust them:
// MergeRowGroups without an explicit sorting option merges its (converted)
// inputs on the sorting columns they have in common instead of concatenating
// them.  A target that drops, keeps, reorders or adds the columns the source
// is sorted by changes what can be said about the order of the converted rows
// (only a prefix of the sorting columns that survives says something).
//
// Scenario: a generated schema pair (main.go) whose source rows are split into
// 1-3 row groups, each sorted by 1-3 non-repeated leaf columns (ascending /
// descending, nulls first / last) and declaring so (parquet.Buffer with
// SortingRowGroupConfig, or a file written with SortingWriterConfig); the edit
// script is biased towards deleting sorting columns and their ancestors.
//
// Predicate, on every converted row group: NumRows() is the number of rows
// Rows() yields; Schema() is the target; there is one column chunk per target
// column, with its index and type; the rows are the projection of the source
// rows, in the source order; every declared sorting column is a column of the
// target and the rows ARE in the declared order.  Downstream: MergeRowGroups
// (inputs + target schema, and explicitly converted inputs), no sorting
// option: the rows are the projected rows of all inputs; they are in the order
// the merged row group declares; if it declares none they are the inputs one
// after the other.
//
// The order of two values is the one of the library's column type
// (Type.Compare, trusted here; other properties are about it), nulls first or
// last as declared, outermost.

import (
	"bytes"
	"encoding/json"
	"fmt"
	"sort"
	"strings"

	"github.com/parquet-go/parquet-go"

	"verif/harness/core"
	"verif/harness/gen"
)

type sortKey struct {
	Col        int  `json:"col"` // column of the source
	Desc       bool `json:"desc,omitempty"`
	NullsFirst bool `json:"nulls_first,omitempty"`
}

type sortedCase struct {
	Kind   string    `json:"kind"` // sorted
	Case   c12Case   `json:"case"`
	Keys   []sortKey `json:"keys"`
	Groups int       `json:"groups"` // number of source row groups
	File   bool      `json:"file"`   // the row groups are row groups of files (else parquet.Buffer)
}

// orderable leaves: kinds whose order is total on the generated values (no NaN)
var orderable = map[string]bool{"bool": true, "int32": true, "int64": true, "uint32": true, "uint64": true, "date": true, "ts": true,
	"bytes": true, "string": true, "flba": true, "uuid": true}

// sortCandidates: the columns of n a row group can be sorted by (one value per
// row: no repeated node on the path).
func sortCandidates(n *gen.Node) []int {
	var out []int
	col := 0
	var rec func(n *gen.Node)
	rec = func(n *gen.Node) {
		if n.Leaf != "" {
			if orderable[n.Leaf] {
				out = append(out, col)
			}
			col++
			return
		}
		for _, f := range n.Fields {
			if f.Rep == gen.Rpt {
				col += len(f.Leaves())
				continue
			}
			rec(f)
		}
	}
	rec(n)
	return out
}

func columnValue(row parquet.Row, ci int) (parquet.Value, bool) {
	for _, v := range row {
		if v.Column() == ci {
			return v, true
		}
	}
	return parquet.Value{}, false
}

type orderCol struct {
	col        int
	typ        parquet.Type
	desc       bool
	nullsFirst bool
	name       string
}

func (o orderCol) String() string {
	s := "ascending("
	if o.desc {
		s = "descending("
	}
	s += o.name + ")"
	if o.nullsFirst {
		s = "nulls_first+" + s
	}
	return s
}

// compareBy orders two rows by the columns; ok=false when a row lacks a value.
func compareBy(cols []orderCol, a, b parquet.Row) (int, bool) {
	for _, o := range cols {
		x, ok1 := columnValue(a, o.col)
		y, ok2 := columnValue(b, o.col)
		if !ok1 || !ok2 {
			return 0, false
		}
		var c int
		switch {
		case x.IsNull() && y.IsNull():
		case x.IsNull():
			c = +1
			if o.nullsFirst {
				c = -1
			}
		case y.IsNull():
			c = -1
			if o.nullsFirst {
				c = +1
			}
		default:
			c = o.typ.Compare(x, y)
			if o.desc {
				c = -c
			}
		}
		if c != 0 {
			return c, true
		}
	}
	return 0, true
}

// orderColsOf resolves sorting columns in a schema; "" or what is wrong.
func orderColsOf(schema *parquet.Schema, tree *gen.Node, sorting []parquet.SortingColumn) ([]orderCol, string) {
	idx := leafPathIndex(tree)
	var out []orderCol
	for _, sc := range sorting {
		key := ""
		for _, x := range sc.Path() {
			key += "." + x
		}
		ci, ok := idx[key]
		if !ok {
			return nil, fmt.Sprintf("sorting column %v is not a column of the schema", sc.Path())
		}
		leaf, ok := schema.Lookup(sc.Path()...)
		if !ok || leaf.ColumnIndex != ci {
			return nil, fmt.Sprintf("sorting column %v: Schema.Lookup gives column %d, %v (expected column %d)", sc.Path(), leaf.ColumnIndex, ok, ci)
		}
		out = append(out, orderCol{col: ci, typ: leaf.Node.Type(), desc: sc.Descending(), nullsFirst: sc.NullsFirst(), name: strings.Join(sc.Path(), ".")})
	}
	return out, ""
}

func showOrder(cols []orderCol) string {
	parts := make([]string, len(cols))
	for i, o := range cols {
		parts[i] = o.String()
	}
	return "[" + strings.Join(parts, " ") + "]"
}

// unsortedAt returns the first i such that rows[i] > rows[i+1], or -1.
func unsortedAt(cols []orderCol, rows []parquet.Row) (int, string) {
	for i := 0; i+1 < len(rows); i++ {
		c, ok := compareBy(cols, rows[i], rows[i+1])
		if !ok {
			return i, "a row has no value in a sorting column"
		}
		if c > 0 {
			return i, ""
		}
	}
	return -1, ""
}

func (sc *sortedCase) sortingColumns(b *built) []parquet.SortingColumn {
	var out []parquet.SortingColumn
	for _, k := range sc.Keys {
		path := leafPath(b.src, k.Col)
		var c parquet.SortingColumn
		if k.Desc {
			c = parquet.Descending(path...)
		} else {
			c = parquet.Ascending(path...)
		}
		if k.NullsFirst {
			c = parquet.NullsFirst(c)
		}
		out = append(out, c)
	}
	return out
}

// sortedMismatch: the declared sorting columns differ from the model's
// (Convert/Sorting.v kept_prefix: the longest prefix of the source's sorting
// columns that the target keeps).
type sortedMismatch struct{ cs, impl, model string }

// runSorted executes the case; "" or (class, what).  stats: the number of
// sorting columns the converted row groups declared / the source declared.
func runSorted(c *core.Ctx, sc *sortedCase) (class, what string, declared, kept int, mm *sortedMismatch) {
	b := sc.Case.build()
	if !b.compatible || b.layoutErr != "" || len(sc.Case.Variants) > 0 || len(b.rows) == 0 {
		return "", "", 0, 0, nil
	}
	info := " [source " + b.src.Text() + " -> target " + b.tgt.Text() + "]"
	sorting := sc.sortingColumns(b)
	srcOrder, bad := orderColsOf(b.ss, b.src, sorting)
	if bad != "" {
		return "harness-sorted-source", bad + info, 0, 0, nil
	}
	info = " [sorted by " + showOrder(srcOrder) + "]" + info
	// the sorting columns present on both sides, by path
	tgtIdx := leafPathIndex(b.tgt)
	flags := ""
	for _, o := range srcOrder {
		if ci, ok := tgtIdx["."+o.name]; ok && !b.added[ci] {
			flags += "1"
		} else {
			flags += "0"
		}
	}
	kept = len(flags) - len(strings.TrimLeft(flags, "1"))
	modelKept := -1
	if c != nil && c.HasOracle() {
		fmt.Sscan(c.Ask("c12.sorting "+flags), &modelKept)
	}

	// split into row groups, each sorted by the keys (stable: the harness's own order)
	groups := max(1, min(sc.Groups, len(b.rows)))
	var srcGroups, wantGroups [][]parquet.Row
	for g := 0; g < groups; g++ {
		lo, hi := g*len(b.rows)/groups, (g+1)*len(b.rows)/groups
		perm := make([]int, hi-lo)
		for i := range perm {
			perm[i] = lo + i
		}
		okAll := true
		sort.SliceStable(perm, func(i, j int) bool {
			c, ok := compareBy(srcOrder, b.rows[perm[i]], b.rows[perm[j]])
			okAll = okAll && ok
			return c < 0
		})
		if !okAll {
			return "harness-sorted-source", "a source row has no value in a sorting column" + info, 0, 0, nil
		}
		var rs, ws []parquet.Row
		for _, i := range perm {
			rs, ws = append(rs, b.rows[i]), append(ws, b.want[i])
		}
		srcGroups, wantGroups = append(srcGroups, rs), append(wantGroups, ws)
	}

	fail := func(cl, msg string) (string, string, int, int) { return cl, msg + info, declared, kept }
	srcText := func(n int) string { return showOrder(srcOrder[:max(0, min(n, len(srcOrder)))]) }
	var rgs, crgs []parquet.RowGroup
	var allWant []parquet.Row
	err := guarded(func() error {
		for g, rows := range srcGroups {
			var rg parquet.RowGroup
			if sc.File {
				var buf bytes.Buffer
				w := parquet.NewGenericWriter[any](&buf, b.ss, parquet.SortingWriterConfig(parquet.SortingColumns(sorting...)))
				if _, err := w.WriteRows(cloneRows(rows)); err != nil {
					return err
				}
				if err := w.Close(); err != nil {
					return err
				}
				f, err := openFile(buf.Bytes())
				if err != nil {
					return err
				}
				if len(f.RowGroups()) != 1 {
					return fmt.Errorf("harness: %d row groups in a file of %d rows", len(f.RowGroups()), len(rows))
				}
				rg = f.RowGroups()[0]
			} else {
				buf := parquet.NewBuffer(b.ss, parquet.SortingRowGroupConfig(parquet.SortingColumns(sorting...)))
				if _, err := buf.WriteRows(cloneRows(rows)); err != nil {
					return err
				}
				rg = buf
			}
			if got := rg.SortingColumns(); len(got) != len(sorting) {
				class, what, _, _ = fail("harness-sorted-source", fmt.Sprintf("the source row group declares %d sorting columns, %d were configured", len(got), len(sorting)))
				return nil
			}
			rgs = append(rgs, rg)
			conv, err := parquet.Convert(b.ts, rg.Schema())
			if err != nil {
				return err
			}
			crg := parquet.ConvertRowGroup(rg, conv)
			crgs = append(crgs, crg)
			where := fmt.Sprintf("ConvertRowGroup (input %d of %d)", g, len(srcGroups))
			// --- metadata
			if crg.NumRows() != int64(len(rows)) {
				class, what, _, _ = fail("converted-metadata-wrong", fmt.Sprintf("%s: NumRows() = %d for %d rows", where, crg.NumRows(), len(rows)))
				return nil
			}
			if e := schemaLayoutError(b.tgt, crg.Schema()); e != "" || !parquet.EqualNodes(crg.Schema(), b.ts) {
				class, what, _, _ = fail("converted-metadata-wrong", fmt.Sprintf("%s: Schema() is not the target schema (%s): %s", where, e, crg.Schema()))
				return nil
			}
			chunks := crg.ColumnChunks()
			if len(chunks) != len(b.added) {
				class, what, _, _ = fail("converted-metadata-wrong", fmt.Sprintf("%s: %d column chunks for %d columns", where, len(chunks), len(b.added)))
				return nil
			}
			tl := b.tgt.Leaves()
			for i, cc := range chunks {
				if cc.Column() != i || cc.Type().Kind() != physicalKinds[structable(tl[i]).Leaf] {
					class, what, _, _ = fail("converted-metadata-wrong", fmt.Sprintf("%s: column chunk %d (%s %s) says column %d of type %s", where, i, strings.Join(leafPath(b.tgt, i), "."), tl[i].Leaf, cc.Column(), cc.Type()))
					return nil
				}
			}
			// --- rows
			r := crg.Rows()
			got, err := readAll(r, 1+int(sc.Case.Seed%7))
			r.Close()
			if err != nil {
				return fmt.Errorf("%s.Rows: %w", where, err)
			}
			bb := *b
			bb.want = wantGroups[g]
			if cl, w := compareRows(&bb, got); cl != "" {
				class, what, _, _ = fail(cl, where+".Rows: "+w)
				return nil
			}
			// --- the declared order
			decl := crg.SortingColumns()
			order, bad := orderColsOf(b.ts, b.tgt, decl)
			if bad != "" {
				class, what, _, _ = fail("sorting-columns-not-true", where+": "+bad)
				return nil
			}
			declared = max(declared, len(decl))
			if modelKept >= 0 && mm == nil && showOrder(order) != srcText(modelKept) {
				mm = &sortedMismatch{"c12.sorting " + flags + info, showOrder(order), srcText(modelKept)}
			}
			if i, bad := unsortedAt(order, got); i >= 0 {
				class, what, _, _ = fail("sorting-columns-not-true", fmt.Sprintf("%s declares the sorting columns %s, its rows are not in that order: row %d [%s] comes before row %d [%s] %s",
					where, showOrder(order), i, core.Trunc(safeCanonRow(got[i]), 200), i+1, core.Trunc(safeCanonRow(got[i+1]), 200), bad))
				return nil
			}
			allWant = append(allWant, wantGroups[g]...)
		}
		// --- downstream: merges that detect the order from their inputs
		for mi, m := range []struct {
			name string
			make func() (parquet.RowGroup, error)
		}{
			{"MergeRowGroups(inputs, target schema)", func() (parquet.RowGroup, error) { return parquet.MergeRowGroups(rgs, b.ts) }},
			{"MergeRowGroups(converted inputs, target schema)", func() (parquet.RowGroup, error) { return parquet.MergeRowGroups(crgs, b.ts) }},
			// without a schema the merge derives one from its inputs (MergeNodes);
			// examined when that is the target, column for column
			{"MergeRowGroups(converted inputs)", func() (parquet.RowGroup, error) { return parquet.MergeRowGroups(crgs) }},
		} {
			mrg, err := m.make()
			if err != nil {
				return fmt.Errorf("%s: %w", m.name, err)
			}
			if mi == 2 && (schemaLayoutError(b.tgt, mrg.Schema()) != "" || !parquet.EqualNodes(mrg.Schema(), b.ts)) {
				continue
			}
			cl, w, err := mergedRowsCheck(b, m.name, mrg, allWant, 2+int(sc.Case.Seed%5))
			if err != nil {
				return err
			}
			if cl != "" {
				class, what, _, _ = fail(cl, w)
				return nil
			}
		}
		return nil
	})
	if err != nil {
		cl := "error-on-compatible-target"
		if strings.HasPrefix(err.Error(), "PANIC") {
			cl = "panic-on-compatible-target"
		}
		cl, what, _, _ = fail(cl, "sorted row groups: "+core.Trunc(err.Error(), 300))
		return cl, what, declared, kept, mm
	}
	return class, what, declared, kept, mm
}

// mergedRowsCheck: a merged row group holds the wanted rows (all inputs), in
// the order it declares; when it declares none, the inputs one after the other.
func mergedRowsCheck(b *built, name string, mrg parquet.RowGroup, allWant []parquet.Row, batch int) (class, what string, err error) {
	if mrg.NumRows() != int64(len(allWant)) {
		return "converted-metadata-wrong", fmt.Sprintf("%s: NumRows() = %d for %d rows", name, mrg.NumRows(), len(allWant)), nil
	}
	r := mrg.Rows()
	got, err := readAll(r, batch)
	r.Close()
	if err != nil {
		return "", "", fmt.Errorf("%s.Rows: %w", name, err)
	}
	order, bad := orderColsOf(b.ts, b.tgt, mrg.SortingColumns())
	if bad != "" {
		return "sorting-columns-not-true", name + ": " + bad, nil
	}
	bb := *b
	bb.want = allWant
	if len(order) == 0 {
		// no order to merge on: the inputs one after the other
		if cl, w := compareRows(&bb, got); cl != "" {
			return cl, name + " (no sorting columns: concatenation): " + w, nil
		}
		return "", "", nil
	}
	if i, bad := unsortedAt(order, got); i >= 0 {
		return "sorting-columns-not-true", fmt.Sprintf("%s declares the sorting columns %s, its rows are not in that order: row %d [%s] comes before row %d [%s] %s",
			name, showOrder(order), i, core.Trunc(safeCanonRow(got[i]), 200), i+1, core.Trunc(safeCanonRow(got[i+1]), 200), bad), nil
	}
	// the same rows: put both sides in one canonical order
	if len(got) != len(allWant) {
		return "row-count", fmt.Sprintf("%s: %d rows in, %d rows out", name, len(allWant), len(got)), nil
	}
	byText := func(rows []parquet.Row) []parquet.Row {
		keys := make([]string, len(rows))
		idx := make([]int, len(rows))
		for i, r := range rows {
			keys[i], idx[i] = safeCanonRow(r), i
		}
		sort.SliceStable(idx, func(i, j int) bool { return keys[idx[i]] < keys[idx[j]] })
		out := make([]parquet.Row, len(rows))
		for i, j := range idx {
			out[i] = rows[j]
		}
		return out
	}
	bb.want = byText(allWant)
	if cl, w := compareRows(&bb, byText(got)); cl != "" {
		return cl, name + " (rows put in one canonical order on both sides): " + w, nil
	}
	return "", "", nil
}

func shrinkSorted(c *core.Ctx, sc sortedCase, class string) sortedCase {
	fails := func(t *sortedCase) bool {
		cl, _, _, _, mm := runSorted(c, t)
		if class == "corr:C12.sorting" {
			return mm != nil
		}
		return cl == class
	}
	for sc.Case.NRows > 1 {
		t := sc
		t.Case.NRows = sc.Case.NRows / 2
		if !fails(&t) {
			break
		}
		sc = t
	}
	for changed := true; changed; {
		changed = false
		for i := range sc.Case.Edits {
			t := sc
			t.Case.Edits = append(append([]edit(nil), sc.Case.Edits[:i]...), sc.Case.Edits[i+1:]...)
			if fails(&t) {
				sc, changed = t, true
				break
			}
		}
	}
	for len(sc.Keys) > 1 {
		t := sc
		t.Keys = sc.Keys[:len(sc.Keys)-1]
		if !fails(&t) {
			break
		}
		sc = t
	}
	for sc.Groups > 1 {
		t := sc
		t.Groups--
		if !fails(&t) {
			break
		}
		sc = t
	}
	for sc.Case.NRows > 1 {
		t := sc
		t.Case.NRows--
		if !fails(&t) {
			break
		}
		sc = t
	}
	return sc
}

func runSortedCase(c *core.Ctx, sc sortedCase, sample bool) {
	class, what, declared, kept, mm := runSorted(c, &sc)
	if class != "" && !reported[class] {
		reported[class] = true
		min := shrinkSorted(c, sc, class)
		if cl, w, _, _, _ := runSorted(c, &min); cl == class {
			what = w
		} else {
			min = sc
		}
		c.Violation(class, what, min)
	}
	if mm != nil && !reported["corr:C12.sorting"] {
		reported["corr:C12.sorting"] = true
		min := shrinkSorted(c, sc, "corr:C12.sorting")
		if _, _, _, _, m2 := runSorted(c, &min); m2 != nil {
			mm = m2
		} else {
			min = sc
		}
		c.Mismatch("corr:C12.sorting", mm.cs, mm.impl, mm.model, min)
	}
	key, _ := json.Marshal(sc)
	// non-trivial: a sorting column was dropped or kept by a target that differs from the source
	c.Case(fmt.Sprintf("sorted/keys=%d/kept=%d/declared=%d", len(sc.Keys), kept, declared), string(key), len(sc.Case.Edits) > 0 && sc.Case.NRows > 1)
	if sample {
		b := sc.Case.build()
		c.Sample(map[string]any{"case": sc, "source": b.src.Text(), "target": b.tgt.Text()})
	}
}

func sortedCases(c *core.Ctx) {
	n := c.N(500, 4000)
	for i, made := 0, 0; made < n && i < 20*n; i++ {
		seed := c.Seed*9000011 + int64(i)
		cs := c12Case{Seed: seed, NRows: []int{2, 3, 6, 12}[c.Rng.Intn(4)], MaxDepth: 1 + c.Rng.Intn(3), MaxFields: 2 + c.Rng.Intn(3), NullBias: c.Rng.Intn(8), Kind: "compat"}
		src := cs.sourceBase()
		cand := sortCandidates(src)
		if len(cand) == 0 {
			continue
		}
		sc := sortedCase{Kind: "sorted", Groups: 1 + c.Rng.Intn(3), File: c.Rng.Intn(2) == 0}
		for _, j := range c.Rng.Perm(len(cand))[:min(len(cand), 1+c.Rng.Intn(3))] {
			sc.Keys = append(sc.Keys, sortKey{Col: cand[j], Desc: c.Rng.Intn(3) == 0, NullsFirst: c.Rng.Intn(2) == 0})
		}
		// the edit script: the usual one, and deletions aimed at the sorting
		// columns (the leaf or one of its ancestors), so that every position of
		// the sorting prefix is dropped / kept about as often
		cs.Edits = genEdits(c.Rng, src, c.Rng.Intn(4), []string{"del", "add", "perm", "opt"})
		for _, k := range sc.Keys {
			if c.Rng.Intn(3) != 0 {
				continue
			}
			path := leafPath(src, k.Col)
			cut := 1 + c.Rng.Intn(len(path))
			if c.Rng.Intn(2) == 0 {
				cut = len(path)
			}
			e := edit{Op: "del", Path: path[:cut-1], Name: path[cut-1]}
			cs.Edits = append(cs.Edits, edit{})
			at := c.Rng.Intn(len(cs.Edits))
			copy(cs.Edits[at+1:], cs.Edits[at:])
			cs.Edits[at] = e
		}
		if !compatible(src, applyEdits(src, cs.Edits)) {
			continue
		}
		sc.Case = cs
		runSortedCase(c, sc, made < 2)
		made++
	}
}
