package main

// Sizes: row groups of a few thousand rows, pages that end on different rows
// in different columns, values read more than 1024 at a time, and sorted
// merges whose inputs overlap only in part.
//
// MergeRowGroups with sorting columns does not merge row by row where it can
// avoid it (merge_refine.go): a stretch of at least 1024 rows of key space
// that only one input covers is cut out of that input at page boundaries and
// read on its own.  Whatever the plan, the statement is about the rows that
// come out: the projection of every source row, in the declared order.
//
// Scenario: a generated pair whose source has a non-repeated sorting column of
// a kind with many distinct values, kept by the target; 2600-4000 rows sorted
// by it and dealt to two files: the first `lone` rows to A, the last `lone`
// rows to B, the `overlap` rows in between alternately (so the inputs overlap
// in the middle only; overlap = 0: they only touch); small pages (256-1024
// bytes per column); B optionally written with the TARGET schema (an input
// that needs no conversion next to one that does).
//
// Predicate: MergeRowGroups(inputs, target, sorting columns),
// MergeRowGroups(inputs, target) and MergeRowGroups(converted inputs, target)
// hold the projected rows of both inputs, in the declared order
// (mergedRowsCheck); the row paths over the big file A (ConvertRowGroup.Rows,
// CopyRows into a writer of the target schema, NewGenericReader(file,
// schema)) yield the projected rows; the column-chunk view of A (chunks.go),
// read 1025-4096 values at a time, agrees with them.

import (
	"bytes"
	"encoding/json"
	"fmt"
	"sort"
	"strings"

	"math/rand"

	"github.com/parquet-go/parquet-go"

	"verif/harness/core"
	"verif/harness/gen"
)

type largeCase struct {
	Kind     string  `json:"kind"` // large
	Case     c12Case `json:"case"` // NRows = 2*Lone + Overlap
	Key      sortKey `json:"key"`
	Lone     int     `json:"lone"`
	Overlap  int     `json:"overlap"`
	InTarget bool    `json:"in_target"` // B is written with the target schema
	PageSize int     `json:"page_size"`
	Batch    int     `json:"batch"` // values read at a time in the column-chunk view
}

// wideKinds: sorting columns whose generated values are mostly distinct.
var wideKinds = map[string]bool{"int32": true, "int64": true, "uint32": true, "uint64": true, "date": true, "ts": true,
	"bytes": true, "string": true, "flba": true, "uuid": true}

func writeSortedFile(schema *parquet.Schema, rows []parquet.Row, sorting []parquet.SortingColumn, pageSize int) (*parquet.File, []byte, error) {
	var buf bytes.Buffer
	w := parquet.NewGenericWriter[any](&buf, schema, parquet.PageBufferSize(pageSize),
		parquet.SortingWriterConfig(parquet.SortingColumns(sorting...)))
	// written a few rows at a time, so that the pages of the columns do not all end on the same rows
	for i := 0; i < len(rows); i += 7 {
		if _, err := w.WriteRows(cloneRows(rows[i:min(i+7, len(rows))])); err != nil {
			return nil, nil, err
		}
	}
	if err := w.Close(); err != nil {
		return nil, nil, err
	}
	f, err := openFile(buf.Bytes())
	if err != nil {
		return nil, nil, err
	}
	if len(f.RowGroups()) != 1 {
		return nil, nil, fmt.Errorf("harness: %d row groups in a file of %d rows", len(f.RowGroups()), len(rows))
	}
	return f, buf.Bytes(), nil
}

// runLarge executes the case; out collects what it finds.  ok=false: the case
// does not apply (the key is not kept by the target).
func runLarge(c *core.Ctx, lc *largeCase) (out *findings, ok bool) {
	out = &findings{}
	b := lc.Case.build()
	if !b.compatible || b.layoutErr != "" || len(lc.Case.Variants) > 0 || len(b.rows) < 2 {
		return out, false
	}
	info := " [source " + b.src.Text() + " -> target " + b.tgt.Text() + "]"
	sc := sortedCase{Keys: []sortKey{lc.Key}}
	sorting := sc.sortingColumns(b)
	srcOrder, bad := orderColsOf(b.ss, b.src, sorting)
	if bad != "" {
		return out, false
	}
	ti, kept := leafPathIndex(b.tgt)["."+srcOrder[0].name]
	if !kept || b.added[ti] {
		return out, false
	}
	info = " [sorted by " + showOrder(srcOrder) + "]" + info
	nAdded := 0
	for _, a := range b.added {
		if a {
			nAdded++
		}
	}

	// the rows in key order, dealt to A and B
	perm := make([]int, len(b.rows))
	for i := range perm {
		perm[i] = i
	}
	okAll := true
	sort.SliceStable(perm, func(i, j int) bool {
		c, ok := compareBy(srcOrder, b.rows[perm[i]], b.rows[perm[j]])
		okAll = okAll && ok
		return c < 0
	})
	if !okAll {
		out.viol("harness-sorted-source", "a source row has no value in the sorting column"+info)
		return out, true
	}
	lone := min(lc.Lone, len(perm)/2)
	var ia, ib []int
	for k, i := range perm {
		switch {
		case k < lone:
			ia = append(ia, i)
		case k >= len(perm)-lone:
			ib = append(ib, i)
		case (k-lone)%2 == 0:
			ia = append(ia, i)
		default:
			ib = append(ib, i)
		}
	}
	pick := func(rows []parquet.Row, idx []int) []parquet.Row {
		o := make([]parquet.Row, len(idx))
		for k, i := range idx {
			o[k] = rows[i]
		}
		return o
	}
	rowsA, wantA, rowsB, wantB := pick(b.rows, ia), pick(b.want, ia), pick(b.rows, ib), pick(b.want, ib)
	allWant := append(append([]parquet.Row{}, wantA...), wantB...)

	err := guarded(func() error {
		fa, dataA, err := writeSortedFile(b.ss, rowsA, sorting, lc.PageSize)
		if err != nil {
			return fmt.Errorf("writing input A: %w", err)
		}
		var fb *parquet.File
		if lc.InTarget {
			fb, _, err = writeSortedFile(b.ts, wantB, sorting, lc.PageSize)
		} else {
			fb, _, err = writeSortedFile(b.ss, rowsB, sorting, lc.PageSize)
		}
		if err != nil {
			return fmt.Errorf("writing input B: %w", err)
		}
		rgs := []parquet.RowGroup{fa.RowGroups()[0], fb.RowGroups()[0]}
		var crgs []parquet.RowGroup
		for _, rg := range rgs {
			conv, err := parquet.Convert(b.ts, rg.Schema())
			if err != nil {
				return err
			}
			crgs = append(crgs, parquet.ConvertRowGroup(rg, conv))
		}
		shape := fmt.Sprintf(" (A: %d rows, B: %d rows", len(rowsA), len(rowsB))
		if lc.InTarget {
			shape += " written with the target schema"
		}
		shape += fmt.Sprintf("; %d rows of key space on either side covered by one input only; pages of %d bytes)", lone, lc.PageSize)
		for _, m := range []struct {
			name string
			make func() (parquet.RowGroup, error)
		}{
			{"MergeRowGroups(inputs, target schema, sorting columns)", func() (parquet.RowGroup, error) {
				return parquet.MergeRowGroups(rgs, b.ts, parquet.SortingRowGroupConfig(parquet.SortingColumns(sorting...)))
			}},
			{"MergeRowGroups(inputs, target schema)", func() (parquet.RowGroup, error) { return parquet.MergeRowGroups(rgs, b.ts) }},
			{"MergeRowGroups(converted inputs, target schema)", func() (parquet.RowGroup, error) { return parquet.MergeRowGroups(crgs, b.ts) }},
		} {
			mrg, err := m.make()
			if err != nil {
				return fmt.Errorf("%s: %w", m.name, err)
			}
			cl, w, err := mergedRowsCheck(b, m.name+shape, mrg, allWant, 50+int(lc.Case.Seed%50))
			if err != nil {
				return err
			}
			if cl != "" {
				out.viol(cl, w+info)
				break
			}
		}
		// the big file A on its own
		ba := *b
		ba.rows, ba.rowsA, ba.want, ba.vals = rowsA, rowsA, wantA, nil
		for _, p := range paths {
			switch p.name {
			case "ConvertRowGroup.Rows", "CopyRows", "NewGenericReader(schema)":
			default:
				continue
			}
			got, err := p.run(&ba, dataA, &lc.Case)
			if err != nil {
				return fmt.Errorf("%s over %d rows: %w", p.name, len(rowsA), err)
			}
			if cl, what := compareRows(&ba, got); cl != "" {
				out.viol(cl, fmt.Sprintf("%s over %d rows: %s", p.name, len(rowsA), what)+info)
			}
		}
		if b.nRebuilt == 0 && b.nWidened == 0 {
			rng := rand.New(rand.NewSource(lc.Case.Seed ^ 0x4B3A2918))
			checkChunkViewOf(nil, out, &ba, dataA, &lc.Case, nAdded, "", "", info, rng, 3, lc.Batch)
		}
		return nil
	})
	if err != nil {
		cl := "error-on-compatible-target"
		if strings.HasPrefix(err.Error(), "PANIC") {
			cl = "panic-on-compatible-target"
		}
		out.viol(cl, "large row groups: "+core.Trunc(err.Error(), 300)+info)
	}
	return out, true
}

func shrinkLarge(c *core.Ctx, lc largeCase, class string) largeCase {
	fails := func(t *largeCase) bool {
		o, ok := runLarge(c, t)
		return ok && o.first(class) != nil
	}
	for changed := true; changed; {
		changed = false
		for i := range lc.Case.Edits {
			t := lc
			t.Case.Edits = append(append([]edit(nil), lc.Case.Edits[:i]...), lc.Case.Edits[i+1:]...)
			if fails(&t) {
				lc, changed = t, true
				break
			}
		}
	}
	if t := lc; t.InTarget {
		t.InTarget = false
		if fails(&t) {
			lc = t
		}
	}
	for lc.Overlap > 0 {
		t := lc
		t.Overlap /= 2
		t.Case.NRows = 2*t.Lone + t.Overlap
		if !fails(&t) {
			break
		}
		lc = t
	}
	for _, n := range []int{2, 40, 600, 1024, 1100} {
		if n >= lc.Lone {
			break
		}
		t := lc
		t.Lone = n
		t.Case.NRows = 2*t.Lone + t.Overlap
		if fails(&t) {
			lc = t
			break
		}
	}
	return lc
}

func runLargeCase(c *core.Ctx, lc largeCase, sample bool) {
	out, ok := runLarge(c, &lc)
	if !ok {
		return
	}
	for _, f := range out.list {
		if reported[f.class] {
			continue
		}
		reported[f.class] = true
		min := shrinkLarge(c, lc, f.class)
		mo, _ := runLarge(c, &min)
		g := mo.first(f.class)
		if g == nil {
			g, min = &f, lc
		}
		c.Violation(g.class, g.what, min)
	}
	key, _ := json.Marshal(lc)
	c.Case(fmt.Sprintf("large/overlap=%d/B-in-target=%v", lc.Overlap, lc.InTarget), string(key), len(lc.Case.Edits) > 0)
	if sample {
		b := lc.Case.build()
		c.Sample(map[string]any{"case": lc, "source": b.src.Text(), "target": b.tgt.Text()})
	}
}

func largeCases(c *core.Ctx) {
	n := c.N(14, 120)
	for i, made := 0, 0; made < n && i < 40*n; i++ {
		seed := c.Seed*5000011 + int64(i)
		cs := c12Case{Seed: seed, MaxDepth: 1 + c.Rng.Intn(2), MaxFields: 2 + c.Rng.Intn(2), NullBias: c.Rng.Intn(6), Kind: "compat"}
		src := cs.sourceBase()
		var cand []int
		leaves := src.Leaves()
		for _, ci := range sortCandidates(src) {
			if wideKinds[leaves[ci].Leaf] {
				cand = append(cand, ci)
			}
		}
		if len(cand) == 0 || (made%2 == 0 && !src.HasRepeated()) {
			continue
		}
		lc := largeCase{Kind: "large", Lone: 1300 + c.Rng.Intn(400), Overlap: []int{0, 40, 400}[c.Rng.Intn(3)], InTarget: c.Rng.Intn(3) == 0,
			PageSize: []int{256, 512, 1024}[c.Rng.Intn(3)], Batch: []int{1025, 3000, 4096}[c.Rng.Intn(3)]}
		lc.Key = sortKey{Col: cand[c.Rng.Intn(len(cand))], Desc: c.Rng.Intn(3) == 0, NullsFirst: c.Rng.Intn(2) == 0}
		// a null page in the sorting column rules out every cut: no nulls when a
		// node above the key (or the key) is optional
		if optionalOnPath(src, leafPath(src, lc.Key.Col)) {
			cs.NullBias = 0
		}
		cs.NRows = 2*lc.Lone + lc.Overlap
		keyPath := "." + strings.Join(leafPath(src, lc.Key.Col), ".")
		for try := 0; try < 6; try++ {
			ops := []string{"del", "add", "add", "perm", "opt"}
			if try >= 3 {
				ops = []string{"add", "perm", "opt"}
			}
			cs.Edits = genEdits(c.Rng, src, 1+c.Rng.Intn(4), ops)
			tgt := applyEdits(src, cs.Edits)
			var added []bool
			addedLeaves(src, tgt, false, &added)
			if ti, ok := leafPathIndex(tgt)[keyPath]; ok && !added[ti] && compatible(src, tgt) {
				break
			}
			cs.Edits = nil
		}
		if cs.Edits == nil {
			continue
		}
		// every other case: one more column, added next to a column of a
		// repeated structure at the same repetition depth (the column-chunk view
		// gives such a column the levels of that sibling)
		if made%2 == 0 {
			if e := repeatedSiblingAdd(c.Rng, applyEdits(src, cs.Edits), src, len(cs.Edits)); e != nil {
				cs.Edits = append(cs.Edits, *e)
			}
		}
		lc.Case = cs
		runLargeCase(c, lc, made < 1)
		made++
	}
}

func optionalOnPath(root *gen.Node, path []string) bool {
	n := root
	for _, name := range path {
		i := fieldIndex(n, name)
		if i < 0 {
			return false
		}
		n = n.Fields[i]
		if n.Rep == gen.Opt {
			return true
		}
	}
	return false
}

// repeatedSiblingAdd: an edit that adds a leaf to a group of cur next to a leaf
// that cur shares with src and that has a repeated node on its path (itself
// included), with the same number of repeated nodes on its path; nil if there
// is no such leaf.
func repeatedSiblingAdd(rng *rand.Rand, cur, src *gen.Node, n int) *edit {
	type spot struct {
		path []string
		rpt  bool // the sibling is itself repeated
	}
	var spots []spot
	var rec func(g, s *gen.Node, path []string, above bool)
	rec = func(g, s *gen.Node, path []string, above bool) {
		for _, f := range g.Fields {
			si := fieldIndex(s, f.Name)
			if si < 0 || (s.Fields[si].Leaf != "") != (f.Leaf != "") || isVariantNode(f) {
				continue
			}
			if f.Leaf != "" {
				if above || f.Rep == gen.Rpt {
					spots = append(spots, spot{append([]string(nil), path...), f.Rep == gen.Rpt})
				}
				continue
			}
			rec(f, s.Fields[si], append(append([]string(nil), path...), f.Name), above || f.Rep == gen.Rpt)
		}
	}
	rec(cur, src, nil, false)
	if len(spots) == 0 {
		return nil
	}
	sp := spots[rng.Intn(len(spots))]
	nd := &gen.Node{Rep: []int{gen.Req, gen.Opt}[rng.Intn(2)], Leaf: addLeafKinds[rng.Intn(len(addLeafKinds))]}
	if sp.rpt {
		nd.Rep = gen.Rpt
	}
	if nd.Leaf == "flba" {
		nd.Size = []int{1, 3, 8, 12}[rng.Intn(4)]
	}
	return &edit{Op: "add", Path: sp.path, Name: fmt.Sprintf("r%d", n), Pos: rng.Intn(8), Node: nd}
}
