package main

import (
	"time"

	"github.com/parquet-go/parquet-go"
)

// ---------------------------------------------------------------------------
// catalogue, part 4: T written with an explicit schema (handed to every
// constructor) that is, or is not, SchemaOf(T)
// ---------------------------------------------------------------------------

// same: the explicit schema equals SchemaOf(T) (EqualNodes): typed regime
func same[T any](name string, opts ...catOpt) *cat {
	var zero T
	return mkx[T](name+"/same", parquet.NewSchema(name, parquet.SchemaOf(zero)), opts...)
}

// sorted: the top-level fields of SchemaOf(T) in alphabetical order (a
// parquet.Group); the nodes below keep their order
func sorted[T any](name string, opts ...catOpt) *cat {
	var zero T
	g := parquet.Group{}
	for _, f := range parquet.SchemaOf(zero).Fields() {
		g[f.Name()] = f
	}
	return mkx[T](name+"/sorted", parquet.NewSchema(name, g), opts...)
}

// deepSorted: every group of SchemaOf(T) rebuilt as a parquet.Group
// (alphabetical order at every depth; LIST, MAP and logical types kept)
func deepSorted[T any](name string, opts ...catOpt) *cat {
	var zero T
	return mkx[T](name+"/deepsorted", parquet.NewSchema(name, regroup(parquet.SchemaOf(zero))), opts...)
}

func regroup(n parquet.Node) parquet.Node {
	if n.Leaf() || isListNode(n) || isMapNode(n) || isVariantNode(n) {
		return n
	}
	g := parquet.Group{}
	for _, f := range n.Fields() {
		g[f.Name()] = regroup(f)
	}
	var out parquet.Node = g
	switch {
	case n.Optional():
		out = parquet.Optional(out)
	case n.Repeated():
		out = parquet.Repeated(out)
	}
	return out
}

// optional in the schema where the Go field is a plain value, and the reverse
type ConvOpt struct {
	A int32   `parquet:"a"`
	B string  `parquet:"b,optional"`
	C float64 `parquet:"c"`
	D []byte  `parquet:"d"`
	E int64   `parquet:"e"`
	S In      `parquet:"s"`
	F bool    `parquet:"f"`
	U [4]byte `parquet:"u"`
}

func convOptSchema() *parquet.Schema {
	return parquet.NewSchema("ConvOpt", parquet.Group{
		"a": parquet.Optional(parquet.Int(32)),
		"b": parquet.String(),
		"c": parquet.Optional(parquet.Leaf(parquet.DoubleType)),
		"d": parquet.Optional(parquet.Leaf(parquet.ByteArrayType)),
		"e": parquet.Int(64),
		"s": parquet.Optional(parquet.Group{"X": parquet.Int(32), "Y": parquet.Optional(parquet.Int(32))}),
		"f": parquet.Optional(parquet.Leaf(parquet.BooleanType)),
		"u": parquet.Optional(parquet.Leaf(parquet.FixedLenByteArrayType(4))),
	})
}

// LIST in the schema where the Go slice has no `list` tag
type ConvList struct {
	A []int32  `parquet:"a"`
	C []In     `parquet:"c"`
	D []string `parquet:"d"`
	E [][]byte `parquet:"e"`
	N int32    `parquet:"n"`
}

func convListSchema() *parquet.Schema {
	return parquet.NewSchema("ConvList", parquet.Group{
		"a": parquet.List(parquet.Int(32)),
		"c": parquet.List(parquet.Group{"X": parquet.Int(32), "Y": parquet.Optional(parquet.Int(32))}),
		"d": parquet.Optional(parquet.List(parquet.String())),
		"e": parquet.List(parquet.Optional(parquet.Leaf(parquet.ByteArrayType))),
		"n": parquet.Int(32),
	})
}

// plain repeated in the schema where the Go slice has the `list` tag
type ConvUnlist struct {
	B []string `parquet:"b,list"`
	N int32    `parquet:"n"`
}

func convUnlistSchema() *parquet.Schema {
	return parquet.NewSchema("ConvUnlist", parquet.Group{
		"b": parquet.Repeated(parquet.String()),
		"n": parquet.Int(32),
	})
}

// another physical / logical type in the schema than the Go type's default
type ConvKinds struct {
	A int32         `parquet:"a"`
	B int64         `parquet:"b"`
	C uint32        `parquet:"c"`
	D int8          `parquet:"d"`
	T time.Time     `parquet:"t"`
	U time.Time     `parquet:"u"`
	W time.Duration `parquet:"w"`
	S string        `parquet:"s"`
	Y []byte        `parquet:"y"`
}

func convKindsSchema() *parquet.Schema {
	return parquet.NewSchema("ConvKinds", parquet.Group{
		"a": parquet.Int(64),
		"b": parquet.Int(32),
		"c": parquet.Uint(64),
		"d": parquet.Int(64),
		"t": parquet.Timestamp(parquet.Millisecond),
		"u": parquet.Date(),
		"w": parquet.Time(parquet.Millisecond),
		"s": parquet.Leaf(parquet.ByteArrayType),
		"y": parquet.String(),
	})
}

// every kind of nesting with the fields declared in reverse alphabetical
// order at every depth: a parquet.Group schema never equals SchemaOf(ZRev)
type ZRev struct {
	Z []struct {
		Y []int32 `parquet:"y"`
		X *int32  `parquet:"x"`
		W string  `parquet:"w,optional"`
	} `parquet:"z"`
	Y []string `parquet:"y,list"`
	X *struct {
		B []int64 `parquet:"b,list"`
		A int32   `parquet:"a,optional"`
	} `parquet:"x"`
	W map[string]int32 `parquet:"w"`
	V [][]int32        `parquet:"v,list"`
	U int64            `parquet:"u,optional"`
	T []int32          `parquet:"t,list" parquet-element:",optional"`
}

func catalogueConv() []*cat {
	return []*cat{
		mk[ZRev]("ZRev", longLists),
		sorted[ZRev]("ZRev", longLists),
		deepSorted[ZRev]("ZRev", longLists),
		same[ReqScalars]("ReqScalars"),
		same[OptScalars]("OptScalars"),
		same[Wide]("Wide"),
		same[Deep3List]("Deep3List"),
		same[ElemOptional]("ElemOptional"),
		same[MapStruct]("MapStruct"),
		sorted[ReqScalars]("ReqScalars"),
		sorted[OptScalars]("OptScalars"),
		sorted[Ptrs]("Ptrs"),
		sorted[RepScalars]("RepScalars"),
		sorted[ListScalars]("ListScalars"),
		sorted[Wide]("Wide"),
		sorted[Embedded2]("Embedded2"),
		sorted[OptSpecial]("OptSpecial", noDeep),
		sorted[Nested3]("Nested3"),
		sorted[LongStructElems]("LongStructElems", longLists),
		sorted[TimeNested]("TimeNested", noRecon, nodeGen),
		sorted[IntOptPtr]("IntOptPtr"),
		deepSorted[NestedStructs]("NestedStructs"),
		deepSorted[OGR]("OGR"),
		deepSorted[ROG]("ROG"),
		deepSorted[Deep3]("Deep3"),
		deepSorted[Wide]("Wide"),
		deepSorted[PtrStruct]("PtrStruct"),
		deepSorted[OptStruct]("OptStruct"),
		mkx[ConvOpt]("ConvOpt", convOptSchema()),
		mkx[ConvList]("ConvList", convListSchema()),
		mkx[ConvUnlist]("ConvUnlist", convUnlistSchema()),
		mkx[ConvKinds]("ConvKinds", convKindsSchema(), noRecon, nodeGen),
	}
}
