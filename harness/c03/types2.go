package main

import (
	"encoding/json"
	"time"

	"github.com/google/uuid"
	"github.com/parquet-go/parquet-go"
)

// ---------------------------------------------------------------------------
// catalogue, part 2: every struct tag option of schema.go makeNodeOf / nodeOf
// ---------------------------------------------------------------------------

// int(n) / uint(n) on every integer kind: narrower, equal and wider than the Go type
type IntWidths struct {
	A int8   `parquet:"a,int(8)"`
	B int16  `parquet:"b,int(16)"`
	C int32  `parquet:"c,int(32)"`
	D int64  `parquet:"d,int(64)"`
	E int    `parquet:"e,int(64)"`
	F uint8  `parquet:"f,uint(8)"`
	G uint16 `parquet:"g,uint(16)"`
	H uint32 `parquet:"h,uint(32)"`
	I uint64 `parquet:"i,uint(64)"`
	J uint   `parquet:"j,uint(64)"`
	K int8   `parquet:"k,int(64)"`
	L uint16 `parquet:"l,uint(64)"`
	M uint8  `parquet:"m,uint(64)"`
	N int16  `parquet:"n,int(32)"`
	O uint16 `parquet:"o,uint(32)"`
}

// 64-bit Go integers on 32-bit columns (the typed writer documents "uint64
// with int(32) tag, or int with int(32)"): the low 32 bits are stored
type IntNarrow struct {
	A int64  `parquet:"a,int(32)"`
	B uint64 `parquet:"b,uint(32)"`
	C int    `parquet:"c,int(32)"`
	D uint   `parquet:"d,uint(32)"`
	E int64  `parquet:"e,int(16)"`
	F uint64 `parquet:"f,int(32)"`
}

// signedness crossed: int(n) on unsigned Go types and uint(n) on signed ones
type IntCross struct {
	A uint32 `parquet:"a,int(32)"`
	B int32  `parquet:"b,uint(32)"`
	C uint32 `parquet:"c,int(64)"`
	D int32  `parquet:"d,uint(64)"`
	E uint8  `parquet:"e,int(32)"`
	F int8   `parquet:"f,uint(32)"`
	G uint64 `parquet:"g,int(64)"`
	H int64  `parquet:"h,uint(64)"`
}

type IntOptPtr struct {
	A int16   `parquet:"a,optional,int(64)"`
	B uint8   `parquet:"b,optional,uint(64)"`
	C *int16  `parquet:"c,int(64)"`
	D *uint32 `parquet:"d,uint(64)"`
	E *int64  `parquet:"e,int(64)"`
	F uint32  `parquet:"f,optional,uint(64)"`
	G *int8   `parquet:"g,int(32)"`
	H []int16 `parquet:"h,list" parquet-element:",int(64)"`
}

type UintptrT struct {
	A uintptr
	B uintptr `parquet:"b,optional"`
}

// decimal(scale:precision) on every accepted Go type
type Decimals struct {
	A int32    `parquet:"a,decimal(2:9)"`
	B int64    `parquet:"b,decimal(3:18)"`
	C [5]byte  `parquet:"c,decimal(2:10)"`
	D []byte   `parquet:"d,decimal(2:10)"`
	E [16]byte `parquet:"e,decimal(4:38)"`
}

type DecimalsOpt struct {
	A int32    `parquet:"a,optional,decimal(2:9)"`
	B *int64   `parquet:"b,decimal(3:18)"`
	C [5]byte  `parquet:"c,optional,decimal(2:10)"`
	D []byte   `parquet:"d,optional,decimal(2:10)"`
	E *int32   `parquet:"e,decimal(0:4)"`
	F *[5]byte `parquet:"f,decimal(2:10)"`
}

// date / timestamp / time on integers
type TimeInts struct {
	D  int32  `parquet:"d,date"`
	Ts int64  `parquet:"ts,timestamp"`
	Tm int64  `parquet:"tm,timestamp(millisecond)"`
	Tu int64  `parquet:"tu,timestamp(microsecond)"`
	Tn int64  `parquet:"tn,timestamp(nanosecond:local)"`
	Lm int32  `parquet:"lm,time(millisecond)"`
	Lu int64  `parquet:"lu,time(microsecond)"`
	Ln int64  `parquet:"ln,time(nanosecond:local)"`
	Pd *int32 `parquet:"pd,date"`
	Pt *int64 `parquet:"pt,timestamp(microsecond)"`
	Od int32  `parquet:"od,optional,date"`
	Ot int64  `parquet:"ot,optional,timestamp(millisecond)"`
}

// time.Time with every unit
type TimeTimes struct {
	N  time.Time
	Tm time.Time `parquet:"tm,timestamp(millisecond)"`
	Tu time.Time `parquet:"tu,timestamp(microsecond)"`
	Tn time.Time `parquet:"tn,timestamp(nanosecond)"`
	Tl time.Time `parquet:"tl,timestamp(millisecond:local)"`
	Td time.Time `parquet:"td,timestamp"`
}

type TimeDate struct {
	D time.Time `parquet:"d,date"`
}

type TimeDatePtr struct {
	D *time.Time `parquet:"d,date"`
	E int32
}

type TimeTimesOpt struct {
	O  time.Time  `parquet:"o,optional"`
	Om time.Time  `parquet:"om,optional,timestamp(millisecond)"`
	P  *time.Time `parquet:"p"`
	Pm *time.Time `parquet:"pm,timestamp(millisecond)"`
	Pu *time.Time `parquet:"pu,timestamp(microsecond)"`
	Po *time.Time `parquet:"po,optional"`
}

// time.Time inside repeated / optional groups and lists
type TimeNested struct {
	L  []time.Time `parquet:"l,list"`
	R  []time.Time
	Lm []time.Time `parquet:"lm,list" parquet-element:",timestamp(millisecond)"`
	G  []struct {
		T time.Time `parquet:"t,optional"`
		U time.Time `parquet:"u,timestamp(microsecond)"`
		V *time.Time
	}
	P *struct {
		T time.Time `parquet:"t,optional"`
		W time.Time
	}
	M map[string]time.Time
}

type Durations struct {
	P  time.Duration
	N  time.Duration  `parquet:"n,time"`
	Ms time.Duration  `parquet:"ms,time(millisecond)"`
	Us time.Duration  `parquet:"us,time(microsecond)"`
	Ns time.Duration  `parquet:"ns,time(nanosecond)"`
	O  time.Duration  `parquet:"o,optional"`
	Om time.Duration  `parquet:"om,optional,time(millisecond)"`
	Pp *time.Duration `parquet:"pp,time(microsecond)"`
	Pm *time.Duration `parquet:"pm,time(millisecond)"`
	Pq *time.Duration
	L  []time.Duration `parquet:"l,list"`
}

// uuid / enum / string / bytes / interval
type UUIDs struct {
	A [16]byte  `parquet:"a,uuid"`
	B string    `parquet:"b,uuid"`
	C uuid.UUID `parquet:"c"`
	E string    `parquet:"e,optional,uuid"`
	F []uuid.UUID
	G *uuid.UUID
}

type Strings struct {
	E  string   `parquet:"e,enum"`
	S  []byte   `parquet:"s,string"`
	B  string   `parquet:"b,bytes"`
	Bb []byte   `parquet:"bb,bytes"`
	Eo string   `parquet:"eo,optional,enum"`
	So []byte   `parquet:"so,optional,string"`
	Le []string `parquet:"le,list" parquet-element:",enum"`
	Ls [][]byte `parquet:"ls,list" parquet-element:",string"`
}

type Intervals struct {
	A [12]byte         `parquet:"a,interval"`
	B parquet.Interval `parquet:"b,interval"`
	D parquet.Interval `parquet:"d,optional,interval"`
	E [12]byte         `parquet:"e,optional,interval"`
}

type Geo struct {
	A []byte `parquet:"a,geometry"`
	B []byte `parquet:"b,geography"`
	C []byte `parquet:"c,optional,geometry"`
}

// json on strings and byte slices (stored as they are)
type JSONBytes struct {
	S  string   `parquet:"s,json"`
	B  []byte   `parquet:"b,json"`
	So string   `parquet:"so,optional,json"`
	Bo []byte   `parquet:"bo,optional,json"`
	Ls []string `parquet:"ls,list" parquet-element:",json"`
}

type JIn struct {
	X int32  `json:"x"`
	Y string `json:"y,omitempty"`
}

// json on structured Go values (stored as their encoding/json text)
type JSONValues struct {
	St JIn              `parquet:"st,json"`
	M  map[string]int64 `parquet:"m,json"`
	L  []int32          `parquet:"l,json"`
	I  int64            `parquet:"i,json"`
	F  float64          `parquet:"f,json"`
	Bo bool             `parquet:"bo,json"`
}

type JSONValuesOpt struct {
	St JIn              `parquet:"st,optional,json"`
	M  map[string]int64 `parquet:"m,optional,json"`
	I  int64            `parquet:"i,optional,json"`
	G  []struct {
		J JIn `parquet:"j,json"`
		K JIn `parquet:"k,optional,json"`
	}
	P *struct {
		J JIn `parquet:"j,json"`
	}
}

type RawMessages struct {
	A json.RawMessage
	B json.RawMessage `parquet:"b,json"`
	C json.RawMessage `parquet:"c,optional"`
	D json.RawMessage `parquet:"d,optional,json"`
	G []struct {
		R json.RawMessage `parquet:"r,optional"`
		S json.RawMessage
	}
	P *struct {
		R json.RawMessage `parquet:"r,optional"`
		S json.RawMessage
	}
}

type JSONNumbers struct {
	A json.Number
	B json.Number `parquet:"b,optional"`
	G []struct {
		N json.Number
	}
}

// encodings and per-field codecs: the streams must not depend on them
type Encodings struct {
	A int64     `parquet:"a,delta"`
	B int32     `parquet:"b,delta"`
	C string    `parquet:"c,delta"`
	D []byte    `parquet:"d,delta"`
	E [8]byte   `parquet:"e,delta"`
	F float32   `parquet:"f,split"`
	G float64   `parquet:"g,split"`
	H int32     `parquet:"h,split"`
	I int64     `parquet:"i,split"`
	J [4]byte   `parquet:"j,split"`
	K string    `parquet:"k,dict"`
	L int64     `parquet:"l,dict"`
	M float64   `parquet:"m,plain"`
	N bool      `parquet:"n,plain"`
	O uint16    `parquet:"o,delta"`
	P time.Time `parquet:"p,delta"`
	Q *float64  `parquet:"q,split"`
	R [16]byte  `parquet:"r,dict"`
}

type EncodingsOpt struct {
	A int64     `parquet:"a,optional,delta"`
	C string    `parquet:"c,optional,delta"`
	G float64   `parquet:"g,optional,split"`
	K string    `parquet:"k,optional,dict"`
	L *int64    `parquet:"l,dict"`
	T []string  `parquet:"t,list,dict"`
	U []float32 `parquet:"u,list" parquet-element:",split"`
}

type Codecs struct {
	A string   `parquet:"a,snappy"`
	B int64    `parquet:"b,gzip"`
	C []byte   `parquet:"c,zstd"`
	D float64  `parquet:"d,lz4"`
	E string   `parquet:"e,brotli"`
	F int32    `parquet:"f,uncompressed"`
	G string   `parquet:"g,optional,dict,zstd"`
	H []int32  `parquet:"h,list,snappy"`
	I *string  `parquet:"i,gzip"`
	J []string `parquet:"j,snappy"`
}

// skipped, unexported and renamed fields
type SkipRename struct {
	A     int32 `parquet:"-"`
	B     int32 `parquet:"renamed"`
	c     int64
	e     string
	F     *int32 `parquet:"-"`
	G     int64  `parquet:",optional"`
	h     []int32
	I     []int32 `parquet:"eye,list"`
	J     int8    `parquet:"-"`
	K     int16
	l     bool
	M     bool   `parquet:"m"`
	N     string `parquet:"zz_last,optional"`
	inner struct{ X int64 }
	O     struct {
		p int32
		Q int32 `parquet:"q,optional"`
		R int8  `parquet:"-"`
		S *int32
	}
}

// a column named "-"
type DashName struct {
	A int32  `parquet:"-"`
	D string `parquet:"-,"`
	J int8   `parquet:"-"`
}

// field ids
type FieldIDs struct {
	A int32            `parquet:"a,id(1)"`
	B string           `parquet:"b,optional,id(2)"`
	C []int64          `parquet:"c,list,id(3)"`
	D map[string]int32 `parquet:"d,id(4)"`
}

// pointers to maps, slices of pointers to structs (pointer chains **T and
// pointers to slices *[]T: known findings, see known.go)
type PtrMore struct {
	G *map[string]int32
	H []*In `parquet:"h,list"`
	I []*In
	J *In `parquet:"j,optional"`
	K map[string]*int32
}

// arrays of fixed size bytes of many sizes (null-index kernels per size)
type ByteArrays struct {
	A1  [1]byte
	A2  [2]byte
	A3  [3]byte
	A7  [7]byte
	A8  [8]byte
	A12 [12]byte
	A17 [17]byte
	A32 [32]byte
	O1  [1]byte  `parquet:"o1,optional"`
	O2  [2]byte  `parquet:"o2,optional"`
	O8  [8]byte  `parquet:"o8,optional"`
	O17 [17]byte `parquet:"o17,optional"`
	O32 [32]byte `parquet:"o32,optional"`
	P5  *[5]byte
	L4  [][4]byte `parquet:"l4,list"`
	R6  [][6]byte
}

// `optional` on every Go kind (besides OptScalars)
type OptKinds struct {
	Sl  []int32          `parquet:"sl,optional"`
	Ls  []int32          `parquet:"ls,optional,list"`
	M   map[string]int32 `parquet:"m,optional"`
	St  In               `parquet:"st,optional"`
	Ps  *In              `parquet:"ps,optional"`
	Pi  *int32           `parquet:"pi,optional"`
	Bs  [][]byte         `parquet:"bs,optional"`
	Ss  []string         `parquet:"ss,optional"`
	Sts []In             `parquet:"sts,optional"`
	T   time.Time        `parquet:"t,optional"`
	D   time.Duration    `parquet:"d,optional"`
	U   uuid.UUID        `parquet:"u,optional"`
	Up  uintptr          `parquet:"up,optional"`
}

// parquet-key / parquet-value / parquet-element option tags
type MapTags struct {
	A map[string]int64     `parquet:"a" parquet-key:",enum" parquet-value:",timestamp(millisecond)"`
	B map[string]string    `parquet:"b" parquet-value:",optional"`
	C map[int32][]byte     `parquet:"c" parquet-key:",int(64)" parquet-value:",string"`
	D map[string][]int32   `parquet:"d" parquet-value:",list"`
	E map[string]time.Time `parquet:"e" parquet-value:",timestamp(microsecond)"`
	F map[uuid.UUID]int32
	G map[string]In
	H map[string]*In
	I map[string]string `parquet:"i,optional" parquet-key:",uuid"`
}

type ElemTags struct {
	A []int32     `parquet:"a,list" parquet-element:",optional,int(64)"`
	B []time.Time `parquet:"b,list" parquet-element:",timestamp(millisecond)"`
	C []string    `parquet:"c,list" parquet-element:",optional,enum"`
	D [][]int32   `parquet:"d,list" parquet-element:",list,optional"`
	E []float64   `parquet:"e,optional,list" parquet-element:",optional"`
	F [][16]byte  `parquet:"f,list" parquet-element:",uuid"`
	G []In        `parquet:"g,list" parquet-element:",optional"`
	H []*In       `parquet:"h,list"`
	I []uint32    `parquet:"i,list" parquet-element:",uint(64)"`
}

// maps in more positions
type MapsMore struct {
	A map[string][]string
	B map[string]map[string]int32
	C []map[string]int32
	D map[int64]*In
	E map[string][]In
	F *map[string]int32
	G map[string][]byte
	H map[bool]int32
	I map[float64]string
}

type MapJSON struct {
	A map[string]any   `parquet:"a,json"`
	B map[string]int32 `parquet:"b,json,optional"`
}

// rows with more than 1024 elements in a list
type HugeLists struct {
	A []int32 `parquet:"a,list"`
	B []string
	C []struct {
		X int32 `parquet:"x,optional"`
		Y *int64
	}
	D []int64   `parquet:"d,list" parquet-element:",optional"`
	E [][]int32 `parquet:"e,list"`
}

func catalogue2() []*cat {
	return []*cat{
		mk[IntWidths]("IntWidths"),
		mk[IntNarrow]("IntNarrow", noDeep),
		mk[IntCross]("IntCross"),
		mk[IntOptPtr]("IntOptPtr"),
		mk[UintptrT]("UintptrT"),
		mk[Decimals]("Decimals", nodeGen),
		mk[DecimalsOpt]("DecimalsOpt", nodeGen),
		mk[TimeInts]("TimeInts"),
		mk[TimeTimes]("TimeTimes", noRecon, nodeGen),
		mk[TimeDate]("TimeDate", noRecon, nodeGen),
		mk[TimeDatePtr]("TimeDatePtr", noRecon, nodeGen),
		mk[TimeTimesOpt]("TimeTimesOpt", noRecon, nodeGen),
		mk[TimeNested]("TimeNested", noRecon, nodeGen),
		mk[Durations]("Durations", noRecon),
		mk[UUIDs]("UUIDs", nodeGen),
		mk[Strings]("Strings"),
		mk[Intervals]("Intervals"),
		mk[Geo]("Geo"),
		mk[JSONBytes]("JSONBytes"),
		mk[JSONValues]("JSONValues", noRecon),
		mk[JSONValuesOpt]("JSONValuesOpt", noRecon),
		mk[RawMessages]("RawMessages", nodeGen),
		mk[JSONNumbers]("JSONNumbers"),
		mk[Encodings]("Encodings", noDeep),
		mk[EncodingsOpt]("EncodingsOpt"),
		mk[Codecs]("Codecs"),
		mk[SkipRename]("SkipRename", noDeep, nodeGen),
		mk[DashName]("DashName", noDeep),
		mk[FieldIDs]("FieldIDs"),
		// noDeep: a nil element of I []*In (repeated group: the schema has no null
		// there) is the zero struct and reads back as a pointer to it; the
		// model-level comparison of Reconstruct(Deconstruct(v)) with v applies
		mk[PtrMore]("PtrMore", noDeep),
		mk[ByteArrays]("ByteArrays"),
		mk[OptKinds]("OptKinds", noDeep),
		mk[MapTags]("MapTags", noRecon, nodeGen),
		mk[ElemTags]("ElemTags", noRecon),
		mk[MapsMore]("MapsMore"),
		mk[MapJSON]("MapJSON", noRecon),
		mk[HugeLists]("HugeLists", hugeLists, few(6)),
	}
}
