package main

import (
	"encoding/json"
	"fmt"
	"io"
	"math"
	"reflect"
	"strconv"
	"strings"
	"time"

	"github.com/google/uuid"
	"github.com/parquet-go/parquet-go"
	"github.com/parquet-go/parquet-go/deprecated"

	"verif/harness/core"
)

// ---------------------------------------------------------------------------
// the catalogue of compiled struct types
// ---------------------------------------------------------------------------

// required scalars of every kind
type ReqScalars struct {
	B   bool
	I8  int8
	I16 int16
	I32 int32
	I64 int64
	I   int
	U8  uint8
	U16 uint16
	U32 uint32
	U64 uint64
	U   uint
	F32 float32
	F64 float64
	S   string
	Bs  []byte
	A16 [16]byte
	A4  [4]byte
}

type ReqSpecial struct {
	ID  uuid.UUID
	T   time.Time
	I96 deprecated.Int96
	D   int32  `parquet:"d,date"`
	E   string `parquet:"e,enum"`
}

// explicit integer logical types wider than the Go field (sign and zero
// extension into the physical type)
type IntTags struct {
	A int32  `parquet:"a,int(64)"`
	B int16  `parquet:"b,int(64)"`
	C int8   `parquet:"c,int(32)"`
	D uint32 `parquet:"d,uint(64)"`
	E uint8  `parquet:"e,uint(32)"`
	F int32  `parquet:"f,optional,int(64)"`
	G *int32 `parquet:"g,int(64)"`
}

// `optional`-tagged non-pointer scalars: the zero value is null
type OptOne struct {
	A int32 `parquet:"a,optional"`
}

type OptTwo struct {
	A int64  `parquet:"a,optional"`
	B string `parquet:"b,optional"`
}

type OptScalars struct {
	B   bool     `parquet:"b,optional"`
	I8  int8     `parquet:"i8,optional"`
	I16 int16    `parquet:"i16,optional"`
	I32 int32    `parquet:"i32,optional"`
	I64 int64    `parquet:"i64,optional"`
	I   int      `parquet:"i,optional"`
	U8  uint8    `parquet:"u8,optional"`
	U16 uint16   `parquet:"u16,optional"`
	U32 uint32   `parquet:"u32,optional"`
	U64 uint64   `parquet:"u64,optional"`
	U   uint     `parquet:"u,optional"`
	F32 float32  `parquet:"f32,optional"`
	F64 float64  `parquet:"f64,optional"`
	S   string   `parquet:"s,optional"`
	Bs  []byte   `parquet:"bs,optional"`
	A16 [16]byte `parquet:"a16,optional"`
	A4  [4]byte  `parquet:"a4,optional"`
}

type OptSpecial struct {
	ID  uuid.UUID        `parquet:"id,optional"`
	T   time.Time        `parquet:"t,optional"`
	I96 deprecated.Int96 `parquet:"i96,optional"`
}

// pointers: nil is null
type Ptrs struct {
	PB   *bool
	P32  *int32
	P64  *int64
	PU32 *uint32
	PF32 *float32
	PF64 *float64
	PS   *string
	PA   *[16]byte
}

type PtrMix struct {
	A *int32 `parquet:"a"`
	B int32  `parquet:"b,optional"`
	C *int64 `parquet:"c,optional"`
	D string `parquet:"d"`
}

// repeated scalars
type RepScalars struct {
	A []int32
	B []string
	C []float64
	D []bool
	E []int64
	F [][]byte
}

// LIST slices
type ListScalars struct {
	A []int32   `parquet:"a,list"`
	B []string  `parquet:"b,list"`
	C []float32 `parquet:"c,list"`
}

type Nested2 struct {
	A [][]int32 `parquet:"a,list"`
}

type Nested3 struct {
	A [][][]int64 `parquet:"a,list"`
	B [][]string  `parquet:"b,list"`
}

type Item struct {
	X int32
	Y string `parquet:"y,optional"`
	Z *int64
}

type RepStructs struct {
	Items []Item
}

type ListStructs struct {
	Items []Item `parquet:"items,list"`
}

type PtrStruct struct {
	P *Item
	Q int32
}

type Inner2 struct {
	C int32
	D *string
}

type Inner1 struct {
	B Inner2
	E []int32
}

type NestedStructs struct {
	A Inner1
	F int64 `parquet:"f,optional"`
}

type Base struct {
	ID   int64
	Name string `parquet:"name,optional"`
}

type Embedded struct {
	Base
	X  int32
	Ys []int32
}

type Base2 struct {
	Tags []string `parquet:"tags,list"`
	P    *int32
}

type Embedded2 struct {
	Base
	Base2
	Z float64 `parquet:"z,optional"`
}

// two levels of embedding, none of the embedded structs at offset 0
type EmbLeaf struct {
	V int32
	W string `parquet:"w,optional"`
}

type EmbMid struct {
	Pad int64
	EmbLeaf
	Q *int32
}

type Embedded3 struct {
	First int64
	EmbMid
	Last float64 `parquet:"last,optional"`
}

// maps (one entry per map unless the type is flagged multimap)
type MapSI struct {
	M map[string]int64
}

type MapIS struct {
	M map[int32]string
	N int32
}

type MapOptVal struct {
	M map[string]*int64
}

type MapStruct struct {
	M map[string]Item
}

type MapMulti struct {
	M map[string]int32
	K map[int64]string
}

type OptMap struct {
	M map[string]int32 `parquet:"m,optional"`
}

// optional groups containing repeated fields and vice versa
type OGR struct {
	G *struct {
		Xs []int32
		Y  int32    `parquet:"y,optional"`
		Zs []string `parquet:"zs,list"`
	}
	H int32
}

type ROG struct {
	Gs []struct {
		P *struct {
			A int32
			B []string
		}
		Q int64 `parquet:"q,optional"`
	}
}

// three levels of nesting
type Deep3 struct {
	L1 []struct {
		L2 []struct {
			L3 []int32
			O  *int32
		}
		S string `parquet:"s,optional"`
	}
	T *string
}

type Deep3List struct {
	L1 []struct {
		L2 []struct {
			L3 []int64 `parquet:"l3,list"`
		} `parquet:"l2,list"`
		O *struct {
			V []int32 `parquet:"v,list"`
		}
	} `parquet:"l1,list"`
}

// optional LIST: nil is null, empty is an empty list
type OptList struct {
	A []int32  `parquet:"a,optional,list"`
	B []string `parquet:"b,optional,list"`
}

// `optional` on a bare slice
type OptBareSlice struct {
	A []int32 `parquet:"a,optional"`
}

// list with optional elements
type ElemOptional struct {
	L []int32  `parquet:"l,list" parquet-element:",optional"`
	M []string `parquet:"m,list" parquet-element:",optional"`
}

type ListPtrElems struct {
	L []*int32 `parquet:"l,list"`
}

// optional non-pointer struct: the zero struct is null
type In struct {
	X int32
	Y *int32
}

type OptStruct struct {
	A In `parquet:"a,optional"`
	B int32
}

type OptStruct2 struct {
	A struct {
		F float64
		S string
	} `parquet:"a,optional"`
}

// long lists of optional / pointer elements (runs inside the sub-array)
type LongOptElems struct {
	L []int32 `parquet:"l,list" parquet-element:",optional"`
}

type LongStructElems struct {
	Items []struct {
		A int32  `parquet:"a,optional"`
		B *int32 `parquet:"b"`
		C string `parquet:"c,optional"`
	}
}

type Wide struct {
	A int32             `parquet:"a,optional"`
	B *string           `parquet:"b"`
	C []int64           `parquet:"c,list"`
	D map[string]string `parquet:"d"`
	E Base
	F *Item
	G []Item
	H [16]byte `parquet:"h,optional"`
	I float64
	J bool `parquet:"j,optional"`
}

// the narrow struct of the exhaustive null-run sweep
type SweepNarrow struct {
	A int32    `parquet:"a,optional"`
	S string   `parquet:"s,optional"`
	U [16]byte `parquet:"u,optional"`
	W int64    `parquet:"w,optional"`
}

// the wide struct of the null-run sweep: one optional field per null-index kernel
type SweepRow struct {
	I32 int32    `parquet:"i32,optional"`
	I64 int64    `parquet:"i64,optional"`
	B   bool     `parquet:"b,optional"`
	I16 int16    `parquet:"i16,optional"`
	U8  uint8    `parquet:"u8,optional"`
	A16 [16]byte `parquet:"a16,optional"`
	A3  [3]byte  `parquet:"a3,optional"`
	S   string   `parquet:"s,optional"`
	Bs  []byte   `parquet:"bs,optional"`
	F32 float32  `parquet:"f32,optional"`
	F64 float64  `parquet:"f64,optional"`
	St  In       `parquet:"st,optional"`
	P   *int32   `parquet:"p"`
}

var theCatalogue []*cat

func catalogue() []*cat {
	if theCatalogue != nil {
		return theCatalogue
	}
	theCatalogue = []*cat{
		mk[ReqScalars]("ReqScalars"),
		mk[ReqSpecial]("ReqSpecial", noDeep),
		mk[IntTags]("IntTags"),
		mk[OptOne]("OptOne"),
		mk[OptTwo]("OptTwo"),
		mk[OptScalars]("OptScalars"),
		mk[OptSpecial]("OptSpecial", noDeep),
		mk[Ptrs]("Ptrs"),
		mk[PtrMix]("PtrMix"),
		mk[RepScalars]("RepScalars"),
		mk[ListScalars]("ListScalars"),
		mk[Nested2]("Nested2"),
		mk[Nested3]("Nested3"),
		mk[RepStructs]("RepStructs"),
		mk[ListStructs]("ListStructs"),
		mk[PtrStruct]("PtrStruct"),
		mk[NestedStructs]("NestedStructs"),
		mk[Embedded]("Embedded"),
		mk[Embedded2]("Embedded2"),
		mk[Embedded3]("Embedded3"),
		mk[MapSI]("MapSI"),
		mk[MapIS]("MapIS"),
		mk[MapOptVal]("MapOptVal"),
		mk[MapStruct]("MapStruct"),
		mk[MapMulti]("MapMulti", multimap),
		mk[OptMap]("OptMap"),
		mk[OGR]("OGR"),
		mk[ROG]("ROG"),
		mk[Deep3]("Deep3"),
		mk[Deep3List]("Deep3List"),
		mk[OptList]("OptList"),
		mk[OptBareSlice]("OptBareSlice"),
		mk[ElemOptional]("ElemOptional"),
		mk[ListPtrElems]("ListPtrElems"),
		mk[OptStruct]("OptStruct"),
		mk[OptStruct2]("OptStruct2"),
		mk[LongOptElems]("LongOptElems", longLists),
		mk[LongStructElems]("LongStructElems", longLists),
		mk[Wide]("Wide"),
		mk[SweepRow]("SweepRow"),
	}
	theCatalogue = append(theCatalogue, catalogue2()...)
	theCatalogue = append(theCatalogue, catalogueAny()...)
	theCatalogue = append(theCatalogue, catalogueConv()...)
	theCatalogue = append(theCatalogue, catalogueEmbed()...)
	return theCatalogue
}

// ---------------------------------------------------------------------------
// corpus: the regressions first
// ---------------------------------------------------------------------------

func corpus(c *core.Ctx, byName map[string]*cat) {
	one := func(name string, rows any, split []int) {
		ct := byName[name]
		if ct == nil {
			return
		}
		runCase(c, ct, reflect.ValueOf(rows), split, "corpus", reflect.ValueOf(rows).Len() <= 6)
	}
	// 697c643: 130 rows, only row 1 / row 65 non-zero on an `optional` int32 field
	for _, k := range []int{1, 65, 63, 64, 127, 129} {
		rows := make([]OptOne, 130)
		rows[k].A = 7
		one("OptOne", rows, nil)
	}
	{
		rows := make([]OptOne, 3)
		rows[1].A = 1
		one("OptOne", rows, nil)
		if byName["OptOne"] != nil {
			c.Sample(mkReplay(byName["OptOne"], reflect.ValueOf(rows), nil))
		}
	}
	// 9b5ffc8: 9..15 (17..23) non-null values written at once on an optional field
	for _, k := range []int{9, 10, 11, 12, 13, 14, 15, 17, 23, 25} {
		rows := make([]OptTwo, k+2)
		for i := 1; i <= k; i++ {
			rows[i].A = int64(i)
			rows[i].B = "v"
		}
		one("OptTwo", rows, nil)
		r1 := make([]OptOne, k)
		for i := range r1 {
			r1[i].A = int32(i + 1)
		}
		one("OptOne", r1, nil)
	}
	// optional struct: zero is null (f2cbf09), -0.0 in an optional float (4665d0c)
	i1 := int32(1)
	one("OptStruct", []OptStruct{{}, {A: In{X: 1}}, {A: In{Y: &i1}}, {B: 2}}, nil)
	one("OptScalars", []OptScalars{{F32: float32(math.Copysign(0, -1)), F64: math.Copysign(0, -1)}, {F32: 1, F64: 2}, {}}, nil)
	one("ReqScalars", []ReqScalars{{F32: float32(math.Copysign(0, -1)), F64: math.Copysign(0, -1)}, {}}, nil)
	nz := math.Copysign(0, -1)
	nz32 := float32(nz)
	one("Ptrs", []Ptrs{{PF32: &nz32, PF64: &nz}, {}}, nil)
	// list with optional elements (1b898ea)
	one("ElemOptional", []ElemOptional{{L: []int32{0, 1, 0}, M: []string{"", "a"}}, {}, {L: []int32{}}, {L: []int32{5}}}, nil)
	// nil versus empty
	one("OptList", []OptList{{}, {A: []int32{}}, {A: []int32{0}}, {B: []string{}}, {A: []int32{1, 2}, B: []string{"", "x"}}}, nil)
	one("ListScalars", []ListScalars{{}, {A: []int32{}}, {A: []int32{0, 0}}, {B: []string{""}}}, nil)
	one("RepScalars", []RepScalars{{}, {A: []int32{}, F: [][]byte{nil, {}, {1}}}, {B: []string{"", "a", ""}}}, nil)
	one("Nested2", []Nested2{{}, {A: [][]int32{}}, {A: [][]int32{nil}}, {A: [][]int32{{}}}, {A: [][]int32{{1}, {}, {2, 3}}}}, nil)
	s := "s"
	one("Deep3", []Deep3{{}, {T: &s}, {L1: []struct {
		L2 []struct {
			L3 []int32
			O  *int32
		}
		S string `parquet:"s,optional"`
	}{{}, {S: "x"}}}}, nil)
	one("MapSI", []MapSI{{}, {M: map[string]int64{}}, {M: map[string]int64{"k": 0}}, {M: map[string]int64{"": 5}}}, nil)
}

// ---------------------------------------------------------------------------
// the null-run sweep
// ---------------------------------------------------------------------------

type sweepReplay struct {
	Sweep  string `json:"sweep"`  // pattern as a string of 0 (null) / 1 (non-null), one per row
	Invert bool   `json:"invert"` // some columns use the complement
	Wide   bool   `json:"wide"`   // SweepRow (one optional column per null-index kernel) instead of SweepNarrow
}

type vmScan struct {
	words []uint64
	n     int
	runs  [][3]int
}

var vmScans []vmScan

func bitsOf(flags []bool) []uint64 {
	w := make([]uint64, (len(flags)+63)/64)
	for i, f := range flags {
		if f {
			w[i/64] |= 1 << (i % 64)
		}
	}
	return w
}

func parseRuns(s string) ([][3]int, bool) {
	var out [][3]int
	if s == "_" || s == "" {
		return out, true
	}
	for _, t := range strings.Split(s, ",") {
		var a, b, e int
		if _, err := fmt.Sscanf(t, "%d:%d:%d", &a, &b, &e); err != nil {
			return nil, false
		}
		out = append(out, [3]int{a, b, e})
	}
	return out, true
}

func sweepRowOf(nonnull bool, i int) SweepRow {
	if !nonnull {
		return SweepRow{}
	}
	x := int32(i + 1)
	r := SweepRow{I32: x, I64: int64(x) << 33, B: true, I16: int16(x), U8: uint8(i%255 + 1), S: "s" + fmt.Sprint(i), Bs: []byte{byte(i)},
		F32: float32(i) + 0.5, F64: -float64(i) - 0.25, St: In{X: x}, P: &x}
	r.A16[i%16] = byte(i%255 + 1)
	r.A3[i%3] = byte(i%255 + 1)
	return r
}

// sweepCheck writes the pattern through the typed path (GenericBuffer[T] and
// GenericWriter[T]) in ONE Write call and compares the null positions of every
// column with the pattern, the values with the written ones, and the run
// structure with the model's scanner.
func sweepWide(c *core.Ctx, s *sweepReplay, full bool) bool {
	n := len(s.Sweep)
	flags := make([]bool, n) // true = non-null
	for i := range flags {
		flags[i] = s.Sweep[i] == '1'
	}
	rows := make([]SweepRow, n)
	for i := range rows {
		f := flags[i]
		rows[i] = sweepRowOf(f, i)
		if s.Invert {
			// half of the columns follow the complement
			alt := sweepRowOf(!f, i)
			rows[i].I64, rows[i].I16, rows[i].A16, rows[i].Bs, rows[i].F64, rows[i].P = alt.I64, alt.I16, alt.A16, alt.Bs, alt.F64, alt.P
		}
	}
	invCols := map[int]bool{}
	if s.Invert {
		for _, j := range []int{1, 3, 5, 8, 10, 13} {
			invCols[j] = true
		}
	}
	ct := sweepCat()
	ok := true
	res := guard(func() ([]parquet.Row, error) {
		buf := parquet.NewGenericBuffer[SweepRow]()
		if _, err := buf.Write(rows); err != nil {
			return nil, err
		}
		return readAll(buf.Rows())
	})
	if res.err != "" || len(res.rows) != n {
		c.Violation("sweep-path-error", fmt.Sprintf("GenericBuffer[SweepRow].Write of pattern %s: %s (%d rows back)", s.Sweep, res.err, len(res.rows)), s)
		return false
	}
	ref := make([]parquet.Row, n)
	for i := range rows {
		ref[i] = ct.schema.Deconstruct(nil, &rows[i])
	}
	for i := 0; i < n && ok; i++ {
		got, want := canonRow(res.rows[i]), canonRow(ref[i])
		for _, e := range got {
			// independent predicate: null exactly where the pattern says so
			expectNull := !flags[i]
			col := e.col
			if col == 12 { // st.Y is always nil; its definition level tells whether st is present
				if (e.d >= 1) != flags[i] {
					c.Violation("sweep-null-positions", fmt.Sprintf("pattern %s (invert=%v): row %d column %d has definition level %d", s.Sweep, s.Invert, i, col, e.d), s)
					ok = false
				}
				continue
			}
			if invCols[col] {
				expectNull = !expectNull
			}
			if (e.val == "N") != expectNull {
				c.Violation("sweep-null-positions", fmt.Sprintf("pattern %s (invert=%v): row %d column %d is %s:d%d but the written value is null=%v", s.Sweep, s.Invert, i, col, e.val, e.d, expectNull), s)
				ok = false
				break
			}
		}
		same := len(got) == len(want)
		for k := 0; same && k < len(got); k++ {
			same = got[k] == want[k]
		}
		if ok && !same {
			c.Violation("sweep-streams-differ", fmt.Sprintf("pattern %s (invert=%v) row %d: typed path [%s], Deconstruct [%s]", s.Sweep, s.Invert, i, rowText(got), rowText(want)), s)
			ok = false
		}
	}
	if full && ok {
		ok = checkCase(c, ct, reflect.ValueOf(rows), nil, false)
	}
	if ok {
		ok = scanTie(c, s, flags)
	}
	return ok
}

// scanTie: the model's scanner on the bitmap nullIndex builds for column 0
// must describe the pattern.
func scanTie(c *core.Ctx, s *sweepReplay, flags []bool) bool {
	n := len(flags)
	ok := true
	if c.HasOracle() {
		words := bitsOf(flags)
		var ws []string
		for _, w := range words {
			ws = append(ws, core.Us(w))
		}
		ans := c.Ask(fmt.Sprintf("c03.scan %s %x", strings.Join(ws, ","), n))
		runs, good := parseRuns(ans)
		pos := 0
		for _, r := range runs {
			if !good || r[1] != pos || r[2] <= r[1] {
				good = false
				break
			}
			for i := r[1]; i < r[2] && i < n; i++ {
				if flags[i] == (r[0] == 1) {
					good = false
				}
			}
			pos = r[2]
		}
		if !good || pos != n {
			c.Mismatch("corr:C03.scan", fmt.Sprintf("words %s n %d", strings.Join(ws, ","), n), s.Sweep, ans, s)
			ok = false
		} else if len(vmScans) < 150 && (len(vmScans) < 20 || c.Rng.Intn(40) == 0) {
			vmScans = append(vmScans, vmScan{words: words, n: n, runs: runs})
		}
	}
	return ok
}

// sweepCheck writes the pattern through the typed path in ONE Write call and
// compares null positions, levels and values of every column with what was
// written, and the run structure with the model's scanner.
func sweepCheck(c *core.Ctx, s *sweepReplay, full bool) bool {
	if s.Wide {
		return sweepWide(c, s, full)
	}
	n := len(s.Sweep)
	flags := make([]bool, n) // true = non-null
	rows := make([]SweepNarrow, n)
	for i := range rows {
		flags[i] = s.Sweep[i] == '1'
		if flags[i] {
			rows[i].A = int32(i + 1)
			rows[i].S = "s" + strconv.Itoa(i)
		}
		if flags[i] != s.Invert {
			rows[i].U[i%16] = byte(i%255 + 1)
			rows[i].W = int64(i+1) << 33
		}
	}
	var back []parquet.Row
	res := guard(func() ([]parquet.Row, error) {
		// one buffer, Reset between patterns (a fresh one every 64th pattern)
		if narrowBuf == nil || narrowUses%64 == 0 {
			narrowBuf = parquet.NewGenericBuffer[SweepNarrow]()
		}
		narrowUses++
		buf := narrowBuf
		buf.Reset()
		if _, err := buf.Write(rows); err != nil {
			return nil, err
		}
		rr := buf.Rows()
		defer rr.Close()
		back = make([]parquet.Row, n+1)
		k, err := rr.ReadRows(back)
		if err != nil && err != io.EOF {
			return nil, err
		}
		back = back[:k]
		return nil, nil
	})
	if res.err != "" || len(back) != n {
		narrowBuf = nil // never reuse a buffer a failed (possibly still running) write has touched
		c.Violation("sweep-path-error", fmt.Sprintf("GenericBuffer[SweepNarrow].Write of pattern %s: %s (%d rows back)", s.Sweep, res.err, len(back)), s)
		return false
	}
	for i, row := range back {
		if len(row) != 4 {
			c.Violation("sweep-streams-differ", fmt.Sprintf("pattern %s row %d has %d values", s.Sweep, i, len(row)), s)
			return false
		}
		for _, v := range row {
			col := v.Column()
			nonnull := flags[i]
			if col >= 2 {
				nonnull = flags[i] != s.Invert
			}
			wantD := 0
			if nonnull {
				wantD = 1
			}
			if v.IsNull() == nonnull {
				c.Violation("sweep-null-positions", fmt.Sprintf("pattern %s (invert=%v): row %d column %d read back null=%v but was written null=%v", s.Sweep, s.Invert, i, col, v.IsNull(), !nonnull), s)
				return false
			}
			good := v.DefinitionLevel() == wantD && v.RepetitionLevel() == 0
			if good && nonnull {
				switch col {
				case 0:
					good = v.Int32() == rows[i].A
				case 1:
					good = string(v.ByteArray()) == rows[i].S
				case 2:
					good = string(v.ByteArray()) == string(rows[i].U[:])
				case 3:
					good = v.Int64() == rows[i].W
				}
			}
			if !good {
				c.Violation("sweep-streams-differ", fmt.Sprintf("pattern %s (invert=%v): row %d column %d read back %v (r=%d d=%d), written %+v", s.Sweep, s.Invert, i, col, v, v.RepetitionLevel(), v.DefinitionLevel(), rows[i]), s)
				return false
			}
		}
	}
	return scanTie(c, s, flags)
}

var (
	narrowBuf  *parquet.GenericBuffer[SweepNarrow]
	narrowUses int
)

var sweepCatV *cat

func sweepCat() *cat {
	if sweepCatV == nil {
		for _, ct := range catalogue() {
			if ct.name == "SweepRow" {
				sweepCatV = ct
			}
		}
	}
	return sweepCatV
}

func runSweep(c *core.Ctx) {
	// all patterns of 64 rows with at most 3 runs
	type pat struct {
		a, b int
		p    bool
	}
	var pats []pat
	seen := map[string]bool{}
	mkPat := func(p pat) string {
		var sb strings.Builder
		for i := 0; i < 64; i++ {
			v := p.p
			if i >= p.a && i < p.b {
				v = !v
			}
			if v {
				sb.WriteByte('1')
			} else {
				sb.WriteByte('0')
			}
		}
		return sb.String()
	}
	for a := 0; a <= 64; a++ {
		for b := a; b <= 64; b++ {
			for _, p := range []bool{false, true} {
				s := mkPat(pat{a, b, p})
				if !seen[s] {
					seen[s] = true
					pats = append(pats, pat{a, b, p})
				}
			}
		}
	}
	run := func(p pat, off int, invert bool, wide bool, full bool) {
		body := mkPat(p)
		// the rows before the pattern hold the complement of its first row
		pre := "1"
		if body[0] == '1' {
			pre = "0"
		}
		s := &sweepReplay{Sweep: strings.Repeat(pre, off) + body, Invert: invert, Wide: wide}
		full = full && wide
		if tooManyHangs(c) {
			return
		}
		h0 := hangs
		if c.Probe(func() { sweepCheck(c, s, full) }) {
			if hangs > h0 {
				// the write does not return: report as is, every further probe costs the timeout
				sweepCheck(c, s, full)
				c.Case("sweep", fmt.Sprintf("%s/%v/%v", s.Sweep, invert, wide), true)
				return
			}
			// shrink: drop rows from the end, then from the front
			cur := *s
			for len(cur.Sweep) > 1 {
				t := cur
				t.Sweep = cur.Sweep[:len(cur.Sweep)-1]
				if !c.Probe(func() { sweepCheck(c, &t, full) }) {
					break
				}
				cur = t
			}
			for len(cur.Sweep) > 1 {
				t := cur
				t.Sweep = cur.Sweep[1:]
				if !c.Probe(func() { sweepCheck(c, &t, full) }) {
					break
				}
				cur = t
			}
			sweepCheck(c, &cur, full)
		}
		c.Case("sweep", fmt.Sprintf("%s/%v/%v", s.Sweep, invert, wide), true)
	}
	if c.Quick() {
		k := c.N(5000, 0)
		for i := 0; i < k; i++ {
			p := pats[c.Rng.Intn(len(pats))]
			run(p, c.Rng.Intn(64), i%4 == 3, i%3 == 0, i%50 == 0)
		}
		// every run length 1..130 at a sample of in-word offsets
		for l := 1; l <= 130; l++ {
			for _, off := range []int{c.Rng.Intn(64), 63} {
				s := &sweepReplay{Sweep: strings.Repeat("0", off) + strings.Repeat("1", l) + "0", Invert: l%2 == 0, Wide: l%4 == 1}
				if tooManyHangs(c) {
					break
				}
				sweepCheck(c, s, false)
				c.Case("sweep-runs", s.Sweep, true)
			}
		}
		c.Note("null-run sweep sampled: %d of the %d single-word patterns with <= 3 runs x 64 offsets; run lengths 1..130 at 2 offsets each", k, len(pats)*64)
		return
	}
	cnt := 0
	for _, p := range pats {
		for off := 0; off < 64; off++ {
			run(p, off, (cnt/7)%5 == 4, cnt%23 == 0, cnt%997 == 0)
			cnt++
		}
	}
	for l := 1; l <= 130; l++ {
		for off := 0; off < 64; off++ {
			for _, first := range []string{"0", "1"} {
				second := "1"
				if first == "1" {
					second = "0"
				}
				s := &sweepReplay{Sweep: strings.Repeat(first, off) + strings.Repeat(second, l) + first, Invert: (l+off)%3 == 0, Wide: (l+off)%16 == 0}
				if tooManyHangs(c) {
					break
				}
				if !sweepCheck(c, s, false) {
					cnt++
				}
				c.Case("sweep-runs", s.Sweep, true)
			}
		}
	}
	c.Note("null-run sweep exhaustive: all %d single-word patterns with <= 3 runs x all 64 in-word offsets on a 4-column struct (int32, string, [16]byte, int64 kernels), every 23rd also on the 14-column struct covering every null-index kernel; every run length 1..130 at every in-word offset, both polarities", len(pats))
}

var _ = json.Marshal
