package main

// Caller memory reuse.  When Write / WriteRows / WriteRowValues return, the
// library must have copied whatever it needs: an application fills ONE batch
// slice (and the byte slices, strings, arrays, nested slices, maps and pointer
// targets hanging off it) again and again.  execReuse feeds every ingestion
// path from one reused backing store per path: the batch is loaded into the
// store (in place: the same []T / []*T / []any / []Row / []Value memory, the
// same byte regions, the same pooled nested slices, maps and pointer targets),
// the call is made, and right after it returned the whole store is overwritten
// with a poison pattern (every byte of every byte slice / string / array
// changed, every number changed, maps emptied, slice / pointer / interface
// headers cleared, the []Row and []Value handed to WriteRows / WriteRowValues
// overwritten) before the next batch is loaded over it.  The streams are read
// after the last poisoning and must be exactly those of the same batches
// written from fresh memory.

import (
	"bytes"
	"fmt"
	"os"
	"reflect"
	"sync"
	"time"
	"unsafe"

	"github.com/parquet-go/parquet-go"

	"verif/harness/core"
)

const numReuse = 13

// reuseNames: the paths fed from reused memory; reuseFresh: the path of the
// fresh-memory matrix each of them is compared with
var reuseNames = [numReuse]string{
	"2:GenericWriter[T].Write",
	"3:Writer.Write(any)",
	"4:GenericBuffer[T].Write",
	"5:Buffer.Write(any)",
	"6:RowBuffer[T].Write",
	"7:GenericWriter[T].WriteRows(Deconstruct)",
	"8:ColumnWriters.WriteRowValues",
	"9:GenericWriter[any].Write",
	"12:GenericWriter[*T].Write",
	"13:GenericBuffer[*T].Write",
	"14:GenericBuffer[any].Write",
	"15:RowBuffer[T].WriteRows(Deconstruct)",
	"16:Buffer.WriteRows(Deconstruct)",
}

var reuseFresh = [numReuse]int{1, 2, 3, 4, 5, 6, 7, 8, 11, 12, 13, 0, 0}

// ---------------------------------------------------------------------------
// the arena: the application's reusable memory
// ---------------------------------------------------------------------------

type chunkList struct {
	chunks []reflect.Value // slices of the element type, len == cap
	used   []int
	cur    int
}

type objList struct {
	objs []reflect.Value // pointers (pooled targets) or maps
	cur  int
}

type arena struct {
	bytes  [][]byte
	bused  []int
	bcur   int
	chunks map[reflect.Type]*chunkList
	objs   map[reflect.Type]*objList
	maps   map[reflect.Type]*objList
}

func newArena() *arena {
	return &arena{chunks: map[reflect.Type]*chunkList{}, objs: map[reflect.Type]*objList{}, maps: map[reflect.Type]*objList{}}
}

// reset: the next batch is laid out over the same memory
func (a *arena) reset() {
	a.bcur = 0
	for i := range a.bused {
		a.bused[i] = 0
	}
	for _, cl := range a.chunks {
		cl.cur = 0
		for i := range cl.used {
			cl.used[i] = 0
		}
	}
	for _, ol := range a.objs {
		ol.cur = 0
	}
	for _, ol := range a.maps {
		ol.cur = 0
	}
}

func (a *arena) allocBytes(n int) []byte {
	for {
		if a.bcur < len(a.bytes) {
			ch, off := a.bytes[a.bcur], a.bused[a.bcur]
			if off+n <= len(ch) {
				a.bused[a.bcur] = off + n
				return ch[off : off+n : off+n]
			}
			a.bcur++
			continue
		}
		size := 4096
		if k := len(a.bytes); k > 0 {
			size = 2 * len(a.bytes[k-1])
		}
		if size < n {
			size = n
		}
		a.bytes = append(a.bytes, make([]byte, size))
		a.bused = append(a.bused, 0)
	}
}

// alloc: a slice of n elements of type et (len == cap == n) in reused memory
func (a *arena) alloc(et reflect.Type, n int) reflect.Value {
	cl := a.chunks[et]
	if cl == nil {
		cl = &chunkList{}
		a.chunks[et] = cl
	}
	for {
		if cl.cur < len(cl.chunks) {
			ch, off := cl.chunks[cl.cur], cl.used[cl.cur]
			if off+n <= ch.Len() {
				cl.used[cl.cur] = off + n
				return ch.Slice3(off, off+n, off+n)
			}
			cl.cur++
			continue
		}
		size := 64
		if k := len(cl.chunks); k > 0 {
			size = 2 * cl.chunks[k-1].Len()
		}
		if size < n {
			size = n
		}
		cl.chunks = append(cl.chunks, reflect.MakeSlice(reflect.SliceOf(et), size, size))
		cl.used = append(cl.used, 0)
	}
}

// obj: a pooled *t
func (a *arena) obj(t reflect.Type) reflect.Value {
	ol := a.objs[t]
	if ol == nil {
		ol = &objList{}
		a.objs[t] = ol
	}
	if ol.cur == len(ol.objs) {
		ol.objs = append(ol.objs, reflect.New(t))
	}
	ol.cur++
	return ol.objs[ol.cur-1]
}

// mapOf: a pooled, emptied map of type t
func (a *arena) mapOf(t reflect.Type) reflect.Value {
	ol := a.maps[t]
	if ol == nil {
		ol = &objList{}
		a.maps[t] = ol
	}
	if ol.cur == len(ol.objs) {
		ol.objs = append(ol.objs, reflect.MakeMap(t))
	}
	ol.cur++
	m := ol.objs[ol.cur-1]
	m.Clear()
	return m
}

var timeType = reflect.TypeOf(time.Time{})

// load overwrites dst with a structural copy of src that lives in the arena
func (a *arena) load(dst, src reflect.Value) {
	switch src.Kind() {
	case reflect.Pointer:
		if src.IsNil() {
			dst.SetZero()
			return
		}
		p := a.obj(src.Type().Elem())
		a.load(p.Elem(), src.Elem())
		dst.Set(p)
	case reflect.Interface:
		if src.IsNil() {
			dst.SetZero()
			return
		}
		e := src.Elem()
		tmp := a.obj(e.Type())
		a.load(tmp.Elem(), e)
		dst.Set(tmp.Elem())
	case reflect.Struct:
		dst.Set(src) // unexported fields, time.Time
		if src.Type() == timeType {
			return
		}
		for i := 0; i < src.NumField(); i++ {
			if dst.Field(i).CanSet() {
				a.load(dst.Field(i), src.Field(i))
			}
		}
	case reflect.Slice:
		if src.IsNil() {
			dst.SetZero()
			return
		}
		n := src.Len()
		var s reflect.Value
		if n == 0 && src.Cap() > 0 {
			// an empty slice with capacity (empties.go) stays one
			if src.Type().Elem().Kind() == reflect.Uint8 {
				s = reflect.ValueOf(a.allocBytes(1)[:0])
			} else {
				s = a.alloc(src.Type().Elem(), 1).Slice(0, 0)
			}
		} else if src.Type().Elem().Kind() == reflect.Uint8 {
			b := a.allocBytes(n)
			copy(b, src.Bytes())
			s = reflect.ValueOf(b)
		} else {
			s = a.alloc(src.Type().Elem(), n)
			for i := 0; i < n; i++ {
				a.load(s.Index(i), src.Index(i))
			}
		}
		if s.Type() != dst.Type() {
			s = s.Convert(dst.Type())
		}
		dst.Set(s)
	case reflect.Map:
		if src.IsNil() {
			dst.SetZero()
			return
		}
		m := a.mapOf(src.Type())
		for it := src.MapRange(); it.Next(); {
			k := a.obj(src.Type().Key()).Elem()
			a.load(k, it.Key())
			e := a.obj(src.Type().Elem()).Elem()
			a.load(e, it.Value())
			m.SetMapIndex(k, e)
		}
		dst.Set(m)
	case reflect.String:
		n := src.Len()
		if n == 0 {
			if unsafe.StringData(src.String()) == nil {
				dst.SetString("")
				return
			}
			// an empty string WITH a data pointer (empties.go) stays one: a
			// zero-length string laid over the application's reused bytes
			b := a.allocBytes(1)
			dst.SetString(unsafe.String(&b[0], 0))
			return
		}
		b := a.allocBytes(n)
		copy(b, src.String())
		dst.SetString(unsafe.String(&b[0], n)) // a string over the application's reused bytes
	case reflect.Array:
		if src.Type().Elem().Kind() == reflect.Uint8 {
			reflect.Copy(dst, src)
			return
		}
		for i := 0; i < src.Len(); i++ {
			a.load(dst.Index(i), src.Index(i))
		}
	default:
		dst.Set(src)
	}
}

const poisonBits = 0x5A5A5A5A5A5A5A5A

// poisonValue overwrites the memory of v itself (not what it points to)
func poisonValue(v reflect.Value) {
	if !v.CanSet() {
		return
	}
	switch v.Kind() {
	case reflect.Bool:
		v.SetBool(!v.Bool())
	case reflect.Int, reflect.Int8, reflect.Int16, reflect.Int32, reflect.Int64:
		v.SetInt(v.Int() ^ poisonBits)
	case reflect.Uint, reflect.Uint8, reflect.Uint16, reflect.Uint32, reflect.Uint64, reflect.Uintptr:
		v.SetUint(v.Uint() ^ poisonBits)
	case reflect.Float32, reflect.Float64:
		if v.Float() == 9.75 {
			v.SetFloat(-1.25)
		} else {
			v.SetFloat(9.75)
		}
	case reflect.String:
		v.SetString("\xa5\xa5\xa5")
	case reflect.Struct:
		if v.Type() == timeType {
			v.Set(reflect.ValueOf(time.Unix(0x5A5A5A5A, 0x5A5A).UTC()))
			return
		}
		for i := 0; i < v.NumField(); i++ {
			poisonValue(v.Field(i))
		}
	case reflect.Array:
		for i := 0; i < v.Len(); i++ {
			poisonValue(v.Index(i))
		}
	default: // slices, pointers, maps, interfaces: the header is cleared
		v.SetZero()
	}
}

// poison overwrites everything that was laid out since the last reset
func (a *arena) poison() {
	for _, ol := range a.maps {
		for _, m := range ol.objs[:ol.cur] {
			m.Clear()
		}
	}
	for _, cl := range a.chunks {
		for i, ch := range cl.chunks {
			for j := 0; j < cl.used[i]; j++ {
				poisonValue(ch.Index(j))
			}
		}
	}
	for _, ol := range a.objs {
		for _, p := range ol.objs[:ol.cur] {
			poisonValue(p.Elem())
		}
	}
	for i, ch := range a.bytes {
		for j := range ch[:a.bused[i]] {
			ch[j] ^= 0x5A
		}
	}
}

// feeder: the application's batch slice and the arena behind it
type feeder[T any] struct {
	a     *arena
	store []T
	sv    reflect.Value // store
	src   reflect.Value // the rows of the case (fresh memory, never handed to the library here)
}

func newFeeder[T any](rows []T, size int) *feeder[T] {
	f := &feeder[T]{a: newArena(), store: make([]T, size), src: reflect.ValueOf(rows)}
	f.sv = reflect.ValueOf(f.store)
	return f
}

// load lays rows [b0,b1) out in the store
func (f *feeder[T]) load(b0, b1 int) []T {
	f.a.reset()
	for i := b0; i < b1; i++ {
		f.a.load(f.sv.Index(i-b0), f.src.Index(i))
	}
	return f.store[: b1-b0 : b1-b0]
}

// poison overwrites the first k rows of the store and everything behind them
func (f *feeder[T]) poison(k int) {
	f.a.poison()
	for i := 0; i < k; i++ {
		poisonValue(f.sv.Index(i))
	}
}

var poisonBytes = []byte{0xa5, 0xa5, 0xa5, 0xa5, 0xa5}

// poisonRow overwrites the values of a row that was handed to the library
func poisonRow(row parquet.Row) {
	for j := range row {
		row[j] = parquet.ByteArrayValue(poisonBytes).Level(0, 0, row[j].Column())
	}
}

func execReuse[T any](ct *cat, rows []T, split []int) (res [numReuse]pathResult) {
	schema := ct.schema
	n := len(rows)
	bs := batches(n, split)
	maxLen := 1
	for _, b := range bs {
		if b[1]-b[0] > maxLen {
			maxLen = b[1] - b[0]
		}
	}
	var wopts []parquet.WriterOption
	var ropts []parquet.RowGroupOption
	if ct.explicit {
		wopts = []parquet.WriterOption{schema}
		ropts = []parquet.RowGroupOption{schema}
	}
	var wg sync.WaitGroup
	run := func(p int, f func() ([]parquet.Row, error)) {
		if pathDisabled[reuseFresh[p]] {
			res[p] = pathResult{skipped: true}
			return
		}
		wg.Add(1)
		go func() {
			defer wg.Done()
			res[p] = guardP(-1, f)
		}()
	}
	// batchWrite: one call per batch with the application's []T
	batchWrite := func(write func([]T) (int, error)) error {
		fd := newFeeder(rows, maxLen)
		for _, b := range bs {
			in := fd.load(b[0], b[1])
			k, err := write(in)
			fd.poison(len(in))
			if err != nil || k != len(in) {
				return fmt.Errorf("Write returned %d, %v", k, err)
			}
		}
		return nil
	}
	// rowWrite: one call per row with the application's single T (by value / by pointer)
	rowWrite := func(write func(any) error) error {
		fd := newFeeder(rows, 1)
		for i := range rows {
			in := fd.load(i, i+1)
			var err error
			if i%2 == 0 {
				err = write(&in[0])
			} else {
				err = write(in[0])
			}
			fd.poison(1)
			if err != nil {
				return err
			}
		}
		return nil
	}
	// ptrWrite: one call per batch with the application's []*T
	ptrWrite := func(write func([]*T) (int, error)) error {
		fd := newFeeder(rows, maxLen)
		ptrs := make([]*T, maxLen)
		for _, b := range bs {
			in := fd.load(b[0], b[1])
			for i := range in {
				ptrs[i] = &in[i]
			}
			k, err := write(ptrs[:len(in)])
			fd.poison(len(in))
			for i := range in {
				ptrs[i] = nil
			}
			if err != nil || k != len(in) {
				return fmt.Errorf("Write returned %d, %v", k, err)
			}
		}
		return nil
	}
	// anyWrite: one call per batch with the application's []any (rows by value / by pointer)
	anyWrite := func(odd int, write func([]any) (int, error)) error {
		fd := newFeeder(rows, maxLen)
		anys := make([]any, maxLen)
		for _, b := range bs {
			in := fd.load(b[0], b[1])
			for i := range in {
				if (b[0]+i)%2 == odd {
					anys[i] = in[i]
				} else {
					anys[i] = &in[i]
				}
			}
			k, err := write(anys[:len(in)])
			fd.poison(len(in))
			for i := range in {
				anys[i] = nil
			}
			if err != nil || k != len(in) {
				return fmt.Errorf("Write returned %d, %v", k, err)
			}
		}
		return nil
	}
	// shredWrite: one call per batch with the application's []Row, each row
	// deconstructed from the store into its reused []Value
	shredWrite := func(write func([]parquet.Row) (int, error)) error {
		fd := newFeeder(rows, maxLen)
		shred := make([]parquet.Row, maxLen)
		for _, b := range bs {
			in := fd.load(b[0], b[1])
			for i := range in {
				if (b[0]+i)%2 == 0 {
					shred[i] = schema.Deconstruct(shred[i][:0], &in[i])
				} else {
					shred[i] = schema.Deconstruct(shred[i][:0], in[i])
				}
			}
			k, err := write(shred[:len(in)])
			fd.poison(len(in))
			for i := range in {
				poisonRow(shred[i])
			}
			if err != nil || k != len(in) {
				return fmt.Errorf("WriteRows returned %d, %v", k, err)
			}
		}
		return nil
	}

	run(0, func() ([]parquet.Row, error) {
		var buf bytes.Buffer
		w := parquet.NewGenericWriter[T](&buf, wopts...)
		if err := batchWrite(w.Write); err != nil {
			return nil, err
		}
		if err := w.Close(); err != nil {
			return nil, err
		}
		return readFile(buf.Bytes())
	})
	run(1, func() ([]parquet.Row, error) {
		var buf bytes.Buffer
		w := parquet.NewWriter(&buf, schema)
		if err := rowWrite(w.Write); err != nil {
			return nil, err
		}
		if err := w.Close(); err != nil {
			return nil, err
		}
		return readFile(buf.Bytes())
	})
	run(2, func() ([]parquet.Row, error) {
		buf := parquet.NewGenericBuffer[T](ropts...)
		if err := batchWrite(buf.Write); err != nil {
			return nil, err
		}
		return readAll(buf.Rows())
	})
	run(3, func() ([]parquet.Row, error) {
		buf := parquet.NewBuffer(schema)
		if err := rowWrite(buf.Write); err != nil {
			return nil, err
		}
		return readAll(buf.Rows())
	})
	run(4, func() ([]parquet.Row, error) {
		buf := parquet.NewRowBuffer[T](ropts...)
		if err := batchWrite(buf.Write); err != nil {
			return nil, err
		}
		return readAll(buf.Rows())
	})
	run(5, func() ([]parquet.Row, error) {
		var buf bytes.Buffer
		w := parquet.NewGenericWriter[T](&buf, wopts...)
		if err := shredWrite(w.WriteRows); err != nil {
			return nil, err
		}
		if err := w.Close(); err != nil {
			return nil, err
		}
		return readFile(buf.Bytes())
	})
	// per-column writers: per batch, the values of each column are collected
	// from the rows deconstructed from the store into one reused []Value
	run(6, func() ([]parquet.Row, error) {
		var buf bytes.Buffer
		w := parquet.NewGenericWriter[T](&buf, wopts...)
		cws := w.ColumnWriters()
		cols := make([][]parquet.Value, len(cws))
		fd := newFeeder(rows, maxLen)
		var row parquet.Row
		for _, b := range bs {
			in := fd.load(b[0], b[1])
			for j := range cols {
				cols[j] = cols[j][:0]
			}
			for i := range in {
				row = schema.Deconstruct(row[:0], &in[i])
				for _, v := range row {
					cols[v.Column()] = append(cols[v.Column()], v)
				}
			}
			var werr error
			for j, cw := range cws {
				k, err := cw.WriteRowValues(cols[j])
				if err != nil {
					werr = err
				} else if k != len(in) {
					werr = fmt.Errorf("column %d: WriteRowValues counted %d rows, want %d", j, k, len(in))
				}
			}
			fd.poison(len(in))
			poisonRow(row)
			for j := range cols {
				poisonRow(cols[j])
			}
			if werr != nil {
				return nil, werr
			}
		}
		for _, cw := range cws {
			if err := cw.Close(); err != nil {
				return nil, err
			}
		}
		if err := w.Close(); err != nil {
			return nil, err
		}
		return readFile(buf.Bytes())
	})
	run(7, func() ([]parquet.Row, error) {
		var buf bytes.Buffer
		w := parquet.NewGenericWriter[any](&buf, schema)
		if err := anyWrite(0, w.Write); err != nil {
			return nil, err
		}
		if err := w.Close(); err != nil {
			return nil, err
		}
		return readFile(buf.Bytes())
	})
	run(8, func() ([]parquet.Row, error) {
		var buf bytes.Buffer
		w := parquet.NewGenericWriter[*T](&buf, wopts...)
		if err := ptrWrite(w.Write); err != nil {
			return nil, err
		}
		if err := w.Close(); err != nil {
			return nil, err
		}
		return readFile(buf.Bytes())
	})
	run(9, func() ([]parquet.Row, error) {
		buf := parquet.NewGenericBuffer[*T](ropts...)
		if err := ptrWrite(buf.Write); err != nil {
			return nil, err
		}
		return readAll(buf.Rows())
	})
	run(10, func() ([]parquet.Row, error) {
		buf := parquet.NewGenericBuffer[any](schema)
		if err := anyWrite(1, buf.Write); err != nil {
			return nil, err
		}
		return readAll(buf.Rows())
	})
	run(11, func() ([]parquet.Row, error) {
		buf := parquet.NewRowBuffer[T](ropts...)
		if err := shredWrite(buf.WriteRows); err != nil {
			return nil, err
		}
		return readAll(buf.Rows())
	})
	run(12, func() ([]parquet.Row, error) {
		buf := parquet.NewBuffer(schema)
		if err := shredWrite(buf.WriteRows); err != nil {
			return nil, err
		}
		return readAll(buf.Rows())
	})
	wg.Wait()
	return res
}

// withReuse: the case being checked is also fed from reused caller memory
// (set by runCase; always on for replays)
var reuseEnabled = os.Getenv("C03_NOREUSE") == "" // (the variable is a debugging aid)
var withReuse = reuseEnabled

var reuseCases int

// checkReuse runs the reuse regime and compares each path with the same path
// (for the WriteRows paths without a fresh counterpart: with Schema.Deconstruct)
// on fresh memory.  Returns false if something was reported.
func checkReuse(c *core.Ctx, ct *cat, n int, split []int, res [numReuse]pathResult, canon [][][]entry, text func([]entry) string, replay func() any) bool {
	reuseCases++
	for p, r := range res {
		if r.err != "" && !r.skipped {
			report(c, "path-error:"+ct.name, fmt.Sprintf("type %s, %d rows: path %s fed from reused caller memory failed: %s", ct.name, n, reuseNames[p], r.err), replay())
			return false
		}
	}
	for p, r := range res {
		fresh := canon[reuseFresh[p]]
		if r.skipped || fresh == nil {
			continue
		}
		if len(r.rows) != n {
			report(c, "row-count-differs:"+ct.name, fmt.Sprintf("type %s: path %s fed from reused caller memory returned %d rows for %d written", ct.name, reuseNames[p], len(r.rows), n), replay())
			return false
		}
		for i, row := range r.rows {
			got := canonRow(row)
			if !ct.multimap && sameEntries(fresh[i], got) {
				continue
			}
			a, b := text(fresh[i]), text(got)
			if a != b {
				report(c, "input-memory-retained:"+ct.name, fmt.Sprintf("type %s, row %d of %d, calls of %v rows: path %s fed from ONE reused backing store (overwritten after each call returned) stores [%s] but path %s gives [%s] for the same rows from fresh memory",
					ct.name, i, n, splitText(n, split), reuseNames[p], core.Trunc(b, 600), pathNames[reuseFresh[p]], core.Trunc(a, 600)), replay())
				return false
			}
		}
	}
	return true
}

func splitText(n int, split []int) string {
	var out []int
	for _, b := range batches(n, split) {
		out = append(out, b[1]-b[0])
	}
	return fmt.Sprint(out)
}
