package main

import (
	"bytes"
	"encoding/json"
	"fmt"
	"strings"

	"github.com/parquet-go/parquet-go"

	"verif/harness/core"
)

// ---------------------------------------------------------------------------
// known findings: Go types SchemaOf accepts on which the ingestion paths
// disagree and which are not repaired (known_findings.json, property C03).
// Each is pinned on one fixed input: the run reports the registered id when
// the paths behave exactly as recorded, nothing when they all produce the
// expected streams (the defect was repaired: drop the entry), and an ordinary
// violation for any other behaviour.
// ---------------------------------------------------------------------------

// threePaths: the streams of every row on Schema.Deconstruct, the typed
// GenericBuffer[T] and the reflection writer GenericWriter[any]; a path that
// panics or fails yields "PANIC: ..." / "ERROR: ..." for the row (the batch)
func threePaths[T any](rows []T) (decon, typed, refl []string) {
	var zero T
	schema := parquet.SchemaOf(zero)
	text := func(r pathResult, i int) string {
		if r.err != "" {
			return "FAILED: " + r.err
		}
		if i >= len(r.rows) {
			return fmt.Sprintf("MISSING (only %d rows)", len(r.rows))
		}
		return rowText(canonRow(r.rows[i]))
	}
	for i := range rows {
		r := guard(func() ([]parquet.Row, error) { return []parquet.Row{schema.Deconstruct(nil, &rows[i])}, nil })
		decon = append(decon, text(r, 0))
	}
	rt := guard(func() ([]parquet.Row, error) {
		buf := parquet.NewGenericBuffer[T]()
		if _, err := buf.Write(rows); err != nil {
			return nil, err
		}
		return readAll(buf.Rows())
	})
	rr := guard(func() ([]parquet.Row, error) {
		var out bytes.Buffer
		w := parquet.NewGenericWriter[any](&out, schema)
		for i := range rows {
			if _, err := w.Write([]any{rows[i]}); err != nil {
				return nil, err
			}
		}
		if err := w.Close(); err != nil {
			return nil, err
		}
		return readFile(out.Bytes())
	})
	for i := range rows {
		typed = append(typed, text(rt, i))
		refl = append(refl, text(rr, i))
	}
	return
}

type knownCase struct {
	id     string
	input  string
	expect []string // the streams every path should give, per row
	run    func() (decon, typed, refl []string)
	pinned func(decon, typed, refl []string) bool
}

type kPtrChain struct{ A **int32 }
type kPtrSlice struct{ E *[]int32 }
type kRepPtr struct{ F []*int32 }
type kJSONPtr struct {
	Ps *string `parquet:"ps,json"`
}
type kRawString struct{ A json.RawMessage }
type kRawNull struct {
	B json.RawMessage `parquet:"b,json,optional"`
}

func knownCases() []knownCase {
	one := int32(1)
	p1 := &one
	var pnil *int32
	has := func(s, sub string) bool { return strings.Contains(s, sub) }
	return []knownCase{
		{
			id:     "ptr-chain",
			input:  "struct{A **int32}: rows {nil}, {&(*int32)(nil)}, {&&1}; SchemaOf: optional int32 A",
			expect: []string{"c0=N:r0:d0", "c0=N:r0:d0", "c0=x01000000:r0:d1"},
			run:    func() (a, b, c []string) { return threePaths([]kPtrChain{{}, {A: &pnil}, {A: &p1}}) },
			pinned: func(d, t, r []string) bool {
				return d[0] == "c0=N:r0:d0" && has(d[1], "cannot create parquet value of type INT32 from go value of type *int32") && has(d[2], "from go value of type *int32")
			},
		},
		{
			id:     "ptr-to-slice",
			input:  "struct{E *[]int32}: rows {nil}, {&[]int32{1,2}}; SchemaOf: optional int32 E (the repetition is lost)",
			expect: []string{"c0=N:r0:d0", "c0=x01000000:r0:d2 c0=x02000000:r1:d2"},
			run:    func() (a, b, c []string) { return threePaths([]kPtrSlice{{}, {E: &[]int32{1, 2}}}) },
			pinned: func(d, t, r []string) bool {
				return d[0] == "c0=N:r0:d0" && has(d[1], "cannot create parquet value of type INT32 from go value of type []int32")
			},
		},
		{
			id:     "repeated-pointer-elements",
			input:  "struct{F []*int32} (no list tag): rows {nil}, {[&1, nil]}; SchemaOf: repeated int32 F",
			expect: []string{"c0=N:r0:d0", "c0=x01000000:r0:d1 c0=x00000000:r1:d1"},
			run:    func() (a, b, c []string) { return threePaths([]kRepPtr{{}, {F: []*int32{p1, nil}}}) },
			pinned: func(d, t, r []string) bool {
				return d[0] == "c0=N:r0:d0" && has(d[1], "cannot create parquet value of type INT32 from go value of type *int32")
			},
		},
		{
			id:     "json-pointer-nil",
			input:  "struct{Ps *string `parquet:\"ps,json\"`}: row {nil}; SchemaOf: required binary ps (JSON)",
			expect: []string{"c0=x6e756c6c:r0:d0"},
			run:    func() (a, b, c []string) { return threePaths([]kJSONPtr{{}}) },
			pinned: func(d, t, r []string) bool {
				return d[0] == "c0=x6e756c6c:r0:d0" && t[0] == "c0=x6e756c6c:r0:d0" && r[0] == "c0=x:r0:d0"
			},
		},
		{
			id:     "rawmessage-untagged-string",
			input:  "struct{A json.RawMessage} (no json tag): row {`\"s\"`}; SchemaOf: required binary A",
			expect: []string{"c0=x227322:r0:d0"},
			run:    func() (a, b, c []string) { return threePaths([]kRawString{{A: json.RawMessage(`"s"`)}}) },
			pinned: func(d, t, r []string) bool {
				return d[0] == "c0=x227322:r0:d0" && t[0] == "c0=x73:r0:d0" && r[0] == "c0=x73:r0:d0"
			},
		},
		{
			id:     "rawmessage-json-null-typed",
			input:  "struct{B json.RawMessage `parquet:\"b,json,optional\"`}: row {`null`}; SchemaOf: optional binary b (JSON)",
			expect: []string{"c0=N:r0:d0"},
			run:    func() (a, b, c []string) { return threePaths([]kRawNull{{B: json.RawMessage(`null`)}}) },
			pinned: func(d, t, r []string) bool {
				return d[0] == "c0=N:r0:d0" && t[0] == "c0=x6e756c6c:r0:d1" && r[0] == "c0=N:r0:d0"
			},
		},
	}
}

func runKnown(c *core.Ctx) {
	for _, k := range knownCases() {
		d, t, r := k.run()
		fixed := true
		for i, e := range k.expect {
			if d[i] != e || t[i] != e || r[i] != e {
				fixed = false
			}
		}
		detail := fmt.Sprintf("%s: Schema.Deconstruct %q, typed GenericBuffer[T] %q, reflection GenericWriter[any] %q; expected on every path %q", k.input, d, t, r, k.expect)
		switch {
		case fixed:
			c.Note("known finding %s: every path now gives the expected streams (repaired? remove the entry)", k.id)
		case k.pinned(d, t, r):
			c.Violation(k.id, detail, map[string]string{"known": k.id})
		default:
			c.Violation("known-finding-changed:"+k.id, "the recorded behaviour changed without reaching agreement: "+detail, map[string]string{"known": k.id})
		}
		c.Case("known", k.id, true)
	}
}
