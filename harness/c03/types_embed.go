package main

// ---------------------------------------------------------------------------
// catalogue, part 5: depth x width of struct embedding
//
// schema.go appendStructFields flattens the embedded structs of a row type into
// one field list.  Every promoted field carries two addresses: the reflect
// index path (one entry per level of embedding; used by Deconstruct /
// Reconstruct and every reflection path) and the byte offset from the start
// of the outermost struct (used by the typed paths).  Both are accumulated
// level by level: the index path by appending to the parent's path, the offset
// by adding the offset of the embedded struct inside its parent.
//
// The dimension of this part is (depth of embedding) x (number of sibling
// fields at each level, before / between / after the embedded structs), with
//   - depth 3 and depth 7: a []int grown by append has capacities 1, 2, 4, 8,
//     so the paths of length 3, 5, 6 and 7 handed down to the next level have
//     spare capacity (depths 1 and 2, the depths of Embedded .. Embedded3,
//     never have);
//   - every embedded struct at offset 0 (the chain) and none at offset 0;
//   - several embedded structs side by side at the same level;
//   - innermost structs of several fields: siblings of one type (a mixed-up
//     address yields the value of another column, not an error) and siblings
//     of every kind (optional scalars, pointers, slices, LISTs, arrays);
//   - the same embedding again below a named struct field, a pointer, a
//     repeated group, a LIST, a map value and an optional group (each of them
//     is a struct node of its own: paths and offsets start afresh there);
//   - SchemaOf(T) and explicit schemas (equal to SchemaOf(T); fields sorted at
//     the top level / at every depth: fields are then located by name).
//
// Embedded POINTERS to structs are not part of the dimension: SchemaOf panics
// on them (reflect: NumField of non-struct type).
// ---------------------------------------------------------------------------

// innermost structs

// siblings of one type
type EwSame struct {
	P int64 `parquet:"p"`
	Q int64 `parquet:"q"`
	R int64 `parquet:"r"`
}

// siblings of different kinds and sizes
type EwMixed struct {
	S int32   `parquet:"s,optional"`
	T *int64  `parquet:"t"`
	U string  `parquet:"u,optional"`
	V []int32 `parquet:"v"`
	W bool    `parquet:"w"`
}

type EwMore struct {
	X float64  `parquet:"x,optional"`
	Y [4]byte  `parquet:"y"`
	Z []string `parquet:"z,list"`
}

type EwTail struct {
	D1 int64  `parquet:"d1"`
	D2 int64  `parquet:"d2,optional"`
	D3 []byte `parquet:"d3"`
}

// depth 3, the embedded struct first at every level (offset 0 throughout)
type EmbC3L2 struct {
	EwSame
	M int64 `parquet:"m"`
}

type EmbC3L1 struct {
	EmbC3L2
	N int64 `parquet:"n"`
}

type EmbChain3 struct {
	EmbC3L1
	ID int64 `parquet:"id"`
}

// depth 3, no embedded struct at offset 0, several side by side at every level
type EmbW3L2 struct {
	K2 int16 `parquet:"k2"`
	EwSame
	EwMixed
	M2 int32 `parquet:"m2,optional"`
	EwMore
}

type EmbW3L2b struct {
	F1 float32 `parquet:"f1"`
	EwTail
}

type EmbW3L1 struct {
	K1 int64 `parquet:"k1"`
	EmbW3L2
	M1 string `parquet:"m1,optional"`
	EmbW3L2b
}

type EmbWide3 struct {
	First int32 `parquet:"first"`
	EmbW3L1
	Last *int32 `parquet:"last"`
}

// depth 7: a field before and a field after the embedded struct at every level
type EmbC7L7 struct {
	A7 int32  `parquet:"a7"`
	B7 int64  `parquet:"b7,optional"`
	C7 string `parquet:"c7"`
}

type EmbC7L6 struct {
	A6 int64 `parquet:"a6"`
	EmbC7L7
	B6 int32 `parquet:"b6"`
}

type EmbC7L5 struct {
	A5 int8 `parquet:"a5"`
	EmbC7L6
	B5 *int32 `parquet:"b5"`
}

type EmbC7L4 struct {
	A4 int64 `parquet:"a4,optional"`
	EmbC7L5
	B4 int64 `parquet:"b4"`
}

type EmbC7L3 struct {
	A3 bool `parquet:"a3"`
	EmbC7L4
	B3 []int64 `parquet:"b3"`
}

type EmbC7L2 struct {
	A2 int32 `parquet:"a2"`
	EmbC7L3
	B2 float64 `parquet:"b2"`
}

type EmbC7L1 struct {
	A1 string `parquet:"a1,optional"`
	EmbC7L2
	B1 int16 `parquet:"b1"`
}

type EmbChain7 struct {
	A0 int32 `parquet:"a0"`
	EmbC7L1
	B0 int64 `parquet:"b0"`
}

// the embedding of depth 3 below every kind of group node
type EmbN3 struct {
	A int32  `parquet:"a"`
	B int32  `parquet:"b"`
	C *int32 `parquet:"c"`
}

type EmbN2 struct {
	EmbN3
	D int64 `parquet:"d,optional"`
}

type EmbN1 struct {
	EmbN2
	E string `parquet:"e"`
}

type EmbNode struct {
	H int32 `parquet:"h"`
	EmbN1
}

type EmbHolder struct {
	Hold EmbNode `parquet:"hold"`
}

type EmbBelow struct {
	G EmbNode            `parquet:"g"`
	P *EmbNode           `parquet:"p"`
	S []EmbNode          `parquet:"s"`
	L []EmbNode          `parquet:"l,list"`
	M map[string]EmbNode `parquet:"m"`
	O EmbNode            `parquet:"o,optional"`
	EmbHolder
}

func catalogueEmbed() []*cat {
	return []*cat{
		mk[EmbChain3]("EmbChain3"),
		mk[EmbWide3]("EmbWide3"),
		mk[EmbChain7]("EmbChain7"),
		mk[EmbBelow]("EmbBelow", few(6)),
		same[EmbWide3]("EmbWide3", few(5)),
		sorted[EmbChain7]("EmbChain7", few(5)),
		sorted[EmbWide3]("EmbWide3", few(5)),
		deepSorted[EmbBelow]("EmbBelow", few(5)),
	}
}
