package main

import (
	"github.com/parquet-go/parquet-go"
)

// ---------------------------------------------------------------------------
// catalogue, part 3: interface-typed (`any`) fields written with an explicit
// schema node.  SchemaOf(T) has an empty group for an `any` field, so the
// schema is handed to every constructor: GenericBuffer[T] / GenericBuffer[*T]
// take the typed path (writeRowsFuncOfInterface hands each value to the
// reflection value writer of the node), GenericWriter[T] / [*T] the reflection
// value writer for the whole row, the others Schema.Deconstruct.
// ---------------------------------------------------------------------------

type AnyLeaves struct {
	B   any   `parquet:"b"`
	I32 any   `parquet:"i32"`
	I64 any   `parquet:"i64"`
	F32 any   `parquet:"f32"`
	F64 any   `parquet:"f64"`
	S   any   `parquet:"s"`
	Bs  any   `parquet:"bs"`
	Fx  any   `parquet:"fx"`
	X   int32 `parquet:"x"`
}

func leavesSchema(name string, wrap func(parquet.Node) parquet.Node) *parquet.Schema {
	return parquet.NewSchema(name, parquet.Group{
		"b":   wrap(parquet.Leaf(parquet.BooleanType)),
		"i32": wrap(parquet.Int(32)),
		"i64": wrap(parquet.Int(64)),
		"f32": wrap(parquet.Leaf(parquet.FloatType)),
		"f64": wrap(parquet.Leaf(parquet.DoubleType)),
		"s":   wrap(parquet.String()),
		"bs":  wrap(parquet.Leaf(parquet.ByteArrayType)),
		"fx":  wrap(parquet.Leaf(parquet.FixedLenByteArrayType(4))),
		"x":   parquet.Int(32),
	})
}

// any + variant / group / list at top level
type AnyTop struct {
	V  any   `parquet:"v"`  // variant
	Vo any   `parquet:"vo"` // optional variant
	G  any   `parquet:"g"`  // map[string]any to a group
	Go any   `parquet:"go"` // to an optional group
	L  any   `parquet:"l"`  // []any to a LIST
	Lo any   `parquet:"lo"` // to an optional LIST of optional elements
	K  int64 `parquet:"k"`
}

func innerGroup() parquet.Group {
	return parquet.Group{
		"a": parquet.Optional(parquet.Int(32)),
		"b": parquet.Repeated(parquet.String()),
		"c": parquet.Group{"d": parquet.Optional(parquet.Leaf(parquet.DoubleType)), "e": parquet.Int(64)},
		"r": parquet.Int(32),
	}
}

func anyTopSchema() *parquet.Schema {
	return parquet.NewSchema("AnyTop", parquet.Group{
		"v":  parquet.Variant(),
		"vo": parquet.Optional(parquet.Variant()),
		"g":  innerGroup(),
		"go": parquet.Optional(innerGroup()),
		"l":  parquet.List(parquet.Int(64)),
		"lo": parquet.Optional(parquet.List(parquet.Optional(parquet.String()))),
		"k":  parquet.Int(64),
	})
}

// the same `any` field below an optional group, a repeated group, a LIST and
// an `optional` struct, with different nodes for it
type AnyIn struct {
	A any   `parquet:"a"`
	N int32 `parquet:"n"`
}

type AnyNested struct {
	P *AnyIn  `parquet:"p"`
	R []AnyIn `parquet:"r"`
	L []AnyIn `parquet:"l,list"`
	Q *AnyIn  `parquet:"q"`
	T int32   `parquet:"t"`
}

func anyNestedSchema(name string, a parquet.Node) *parquet.Schema {
	in := func() parquet.Node { return parquet.Group{"a": a, "n": parquet.Int(32)} }
	return parquet.NewSchema(name, parquet.Group{
		"p": parquet.Optional(in()),
		"r": parquet.Repeated(in()),
		"l": parquet.List(in()),
		"q": parquet.Optional(in()),
		"t": parquet.Int(32),
	})
}

// []any and map[string]any typed fields
type AnySlices struct {
	A  []any             `parquet:"a"`
	L  []any             `parquet:"l,list"`
	Lo []any             `parquet:"lo,list"`
	M  map[string]any    `parquet:"m"`
	Mo map[string]any    `parquet:"mo"`
	S  map[string]string `parquet:"s"`
	Z  int32             `parquet:"z"`
}

func anySlicesSchema(name string, elem func() parquet.Node) *parquet.Schema {
	return parquet.NewSchema(name, parquet.Group{
		"a":  parquet.Repeated(elem()),
		"l":  parquet.List(elem()),
		"lo": parquet.Optional(parquet.List(parquet.Optional(elem()))),
		"m":  parquet.Group{"x": parquet.Optional(parquet.Int(64)), "y": parquet.Optional(parquet.String()), "z": parquet.Repeated(parquet.Int(32)), "w": parquet.Leaf(parquet.BooleanType)},
		"mo": parquet.Optional(parquet.Group{"x": parquet.Optional(parquet.Int(64)), "g": parquet.Optional(parquet.Group{"h": parquet.Optional(parquet.String())})}),
		"s":  parquet.Group{"p": parquet.Optional(parquet.String()), "q": parquet.String()},
		"z":  parquet.Int(32),
	})
}

// slices of groups held as []any of map[string]any
type AnyRepGroups struct {
	R  []any            `parquet:"r"`
	L  []any            `parquet:"l,list"`
	Rm []map[string]any `parquet:"rm"`
	N  int32            `parquet:"n"`
}

func anyRepGroupsSchema() *parquet.Schema {
	g := func() parquet.Node {
		return parquet.Group{"u": parquet.Optional(parquet.Int(32)), "v": parquet.Repeated(parquet.Int(64)), "w": parquet.String()}
	}
	return parquet.NewSchema("AnyRepGroups", parquet.Group{
		"r":  parquet.Repeated(g()),
		"l":  parquet.List(g()),
		"rm": parquet.Repeated(g()),
		"n":  parquet.Int(32),
	})
}

// the `variant` and `json` tags on `any` (SchemaOf(T) has the columns: typed regime)
type AnyTagged struct {
	V  any   `parquet:"v,variant"`
	Vo any   `parquet:"vo,optional,variant"`
	Vl []any `parquet:"vl,list" parquet-element:",variant"`
	N  int32
}

func catalogueAny() []*cat {
	req := func(n parquet.Node) parquet.Node { return n }
	lst := func(n parquet.Node) parquet.Node { return parquet.List(n) }
	olst := func(n parquet.Node) parquet.Node { return parquet.Optional(parquet.List(parquet.Optional(n))) }
	return []*cat{
		mkx[AnyLeaves]("AnyLeaves/req", leavesSchema("AnyLeaves", req), dyn),
		mkx[AnyLeaves]("AnyLeaves/opt", leavesSchema("AnyLeaves", parquet.Optional), dyn),
		mkx[AnyLeaves]("AnyLeaves/rep", leavesSchema("AnyLeaves", parquet.Repeated), dyn, longLists),
		mkx[AnyLeaves]("AnyLeaves/list", leavesSchema("AnyLeaves", lst), dyn),
		mkx[AnyLeaves]("AnyLeaves/optlist", leavesSchema("AnyLeaves", olst), dyn),
		mkx[AnyTop]("AnyTop", anyTopSchema(), dyn),
		mkx[AnyNested]("AnyNested/optleaf", anyNestedSchema("AnyNested", parquet.Optional(parquet.Int(32))), dyn),
		mkx[AnyNested]("AnyNested/reqleaf", anyNestedSchema("AnyNested", parquet.String()), dyn),
		mkx[AnyNested]("AnyNested/repleaf", anyNestedSchema("AnyNested", parquet.Repeated(parquet.Int(64))), dyn),
		mkx[AnyNested]("AnyNested/list", anyNestedSchema("AnyNested", parquet.List(parquet.Optional(parquet.Int(32)))), dyn),
		mkx[AnyNested]("AnyNested/optlist", anyNestedSchema("AnyNested", parquet.Optional(parquet.List(parquet.String()))), dyn),
		mkx[AnyNested]("AnyNested/variant", anyNestedSchema("AnyNested", parquet.Variant()), dyn),
		mkx[AnyNested]("AnyNested/optvariant", anyNestedSchema("AnyNested", parquet.Optional(parquet.Variant())), dyn),
		mkx[AnyNested]("AnyNested/group", anyNestedSchema("AnyNested", innerGroup()), dyn),
		mkx[AnyNested]("AnyNested/optgroup", anyNestedSchema("AnyNested", parquet.Optional(innerGroup())), dyn),
		mkx[AnySlices]("AnySlices/int", anySlicesSchema("AnySlices", func() parquet.Node { return parquet.Int(32) }), dyn, longLists),
		mkx[AnySlices]("AnySlices/str", anySlicesSchema("AnySlices", func() parquet.Node { return parquet.String() }), dyn),
		mkx[AnySlices]("AnySlices/variant", anySlicesSchema("AnySlices", func() parquet.Node { return parquet.Variant() }), dyn),
		mkx[AnyRepGroups]("AnyRepGroups", anyRepGroupsSchema(), dyn),
		mk[AnyTagged]("AnyTagged", dyn),
	}
}
