// C03 — all ingestion paths shred a Go value into the same Dremel column
// streams.  A catalogue of compiled struct types (types.go) x generated
// batches of values is handed to the library through nine entry points (two of them also with the rows reversed through Swap); the
// (column, value bytes, repetition level, definition level) sequences of every
// row must be identical on all of them, equal to the model's `shred`
// (Dremel/Model.v) and re-assemble to the value (Go: Schema.Reconstruct,
// model: `asm`).  Every case is written a second time from reused, poisoned
// caller memory (reuse.go) and no path may write into the values it is given.
// A second part sweeps null / non-null run patterns through
// the 64-rows-at-a-time bitmap scanner of the typed path (Dremel/NullRuns.v).
package main

import (
	"bytes"
	"encoding/binary"
	"encoding/hex"
	"encoding/json"
	"fmt"
	"io"
	"math"
	"math/rand"
	"os"
	"reflect"
	"runtime/debug"
	"runtime/pprof"
	"sort"
	"strconv"
	"strings"
	"sync"
	"time"
	"unsafe"

	"github.com/google/uuid"
	"github.com/parquet-go/parquet-go"
	"github.com/parquet-go/parquet-go/deprecated"
	"github.com/parquet-go/parquet-go/format"
	"github.com/parquet-go/parquet-go/variant"

	"verif/harness/core"
)

func main() { core.Main("C03", runC03, replayC03) }

// ---------------------------------------------------------------------------
// catalogue entries
// ---------------------------------------------------------------------------

const numPaths = 15

// paths whose rows come back in reverse order (the buffer is reversed through Swap before it is read)
var reversedPath = [numPaths]bool{9: true, 10: true}

var pathNames = [numPaths]string{
	"1:Schema.Deconstruct",
	"2:GenericWriter[T].Write",
	"3:Writer.Write(any)",
	"4:GenericBuffer[T].Write",
	"5:Buffer.Write(any)",
	"6:RowBuffer[T].Write",
	"7:GenericWriter[T].WriteRows(Deconstruct)",
	"8:ColumnWriters.WriteRowValues",
	"9:GenericWriter[any].Write",
	"10:GenericBuffer[T].Write, rows reversed through Swap",
	"11:Buffer.Write(any), rows reversed through Swap",
	"12:GenericWriter[*T].Write",
	"13:GenericBuffer[*T].Write",
	"14:GenericBuffer[any].Write",
	"15:RowBuffer[T].Write read column by column (pages sliced / cloned, 1..3 values at a time)",
}

type pathResult struct {
	rows    []parquet.Row
	err     string // error or panic text
	skipped bool   // the path was switched off after it hung
	mutated string // the path changed the batch it was given (the caller's memory): what changed
}

type cat struct {
	name      string
	typ       reflect.Type
	multimap  bool   // maps with several entries: Deconstruct's order is random
	longLists bool   // lists long enough to cross 64-element words
	hugeLists bool   // now and then a list of more than 1024 elements
	noDeep    bool   // skip reflect.DeepEqual (time.Time; nil pointers where the schema has no null)
	noRecon   bool   // Reconstruct is not compared (interface-typed fields, lossy logical types)
	dyn       bool   // the type has interface-typed fields: replays use the typed codec
	nodeGen   bool   // values are generated along the schema (interface fields, constrained leaves)
	explicit  bool   // the schema is handed to every constructor (it is not SchemaOf(T), or T has interface fields)
	typedW    bool   // GenericWriter[T] / GenericWriter[*T] take the typed path (schema equal to SchemaOf(T))
	perType   int    // batches per type in the quick tier (0 = default)
	broken    string // SchemaOf(T) panicked
	schema    *parquet.Schema
	mschema   string   // schema in the model's syntax
	coqSchema string   // the same as a Coq term
	maxLevels []string // "r:d" per leaf, from the library
	exec      func(rows, pristine reflect.Value, split []int) [numPaths]pathResult
	execR     func(rows reflect.Value, split []int) [numReuse]pathResult // the same batches from reused caller memory (reuse.go)
	recon     func(row parquet.Row) (reflect.Value, error)
}

type catOpt func(*cat)

func multimap(c *cat)  { c.multimap = true }
func longLists(c *cat) { c.longLists = true }
func hugeLists(c *cat) { c.hugeLists = true }
func noDeep(c *cat)    { c.noDeep = true }
func noRecon(c *cat)   { c.noRecon = true }
func dyn(c *cat)       { c.dyn, c.noRecon, c.nodeGen = true, true, true }
func nodeGen(c *cat)   { c.nodeGen = true }
func few(n int) catOpt { return func(c *cat) { c.perType = n } }

// mk: the schema is SchemaOf(T); no constructor is given a schema (typed regime)
func mk[T any](name string, opts ...catOpt) *cat {
	return mkx[T](name, nil, opts...)
}

// mkx: T written with an explicit schema, handed to every constructor.
// GenericBuffer[T] / GenericBuffer[*T] always take the typed path
// (writeRowsFuncOf on the explicit schema); GenericWriter[T] / [*T] take it
// only when the schema equals SchemaOf(T) (EqualNodes) and otherwise write each
// row through the reflection value writer (writeValueFuncOf).
func mkx[T any](name string, schema *parquet.Schema, opts ...catOpt) (c *cat) {
	var zero T
	c = &cat{name: name, typ: reflect.TypeOf(zero)}
	for _, o := range opts {
		o(c)
	}
	defer func() {
		// SchemaOf panicking on a catalogue type: reported by the run, the type is skipped
		if r := recover(); r != nil {
			c.broken = fmt.Sprintf("%v", r)
		}
	}()
	if schema == nil {
		c.schema = parquet.SchemaOf(zero)
		c.typedW = true
	} else {
		c.schema = schema
		c.explicit = true
		c.typedW = parquet.EqualNodes(schema, parquet.SchemaOf(zero))
	}
	c.mschema = modelSchema(c.schema)
	c.coqSchema = coqSchema(c.schema)
	for _, p := range c.schema.Columns() {
		l, _ := c.schema.Lookup(p...)
		c.maxLevels = append(c.maxLevels, fmt.Sprintf("%d:%d", l.MaxRepetitionLevel, l.MaxDefinitionLevel))
	}
	c.exec = func(rows, pristine reflect.Value, split []int) [numPaths]pathResult {
		return execPaths[T](c, rows.Interface().([]T), pristine.Interface().([]T), split)
	}
	c.execR = func(rows reflect.Value, split []int) [numReuse]pathResult {
		return execReuse[T](c, rows.Interface().([]T), split)
	}
	c.recon = func(row parquet.Row) (reflect.Value, error) {
		var back T
		err := c.schema.Reconstruct(&back, row)
		return reflect.ValueOf(&back).Elem(), err
	}
	return c
}

// pathTimeout bounds one path on one batch (a path normally takes
// milliseconds): a path that does not return is reported instead of hanging
// the run.  The abandoned goroutine keeps spinning, so a path that hung is
// switched off for the rest of the run once the case has been reported.
const pathTimeout = 6 * time.Second

var (
	hangs        int              // number of timeouts seen so far
	pathDisabled [numPaths]bool   // paths switched off after a reported hang
	hungPaths    = map[int]bool{} // paths that timed out in the case being checked
)

func guard(f func() ([]parquet.Row, error)) pathResult { return guardP(-1, f) }

var hangMu sync.Mutex

func guardP(p int, f func() ([]parquet.Row, error)) pathResult {
	ch := make(chan pathResult, 1)
	go func() {
		var res pathResult
		defer func() {
			if r := recover(); r != nil {
				res = pathResult{err: fmt.Sprintf("panic: %v", r)}
			}
			ch <- res
		}()
		rows, err := f()
		if err != nil {
			res = pathResult{rows: rows, err: err.Error()}
			return
		}
		res = pathResult{rows: rows}
	}()
	select {
	case res := <-ch:
		return res
	case <-time.After(pathTimeout):
		hangMu.Lock()
		hangs++
		if p >= 0 {
			hungPaths[p] = true
		}
		hangMu.Unlock()
		return pathResult{err: fmt.Sprintf("did not return within %v (endless loop)", pathTimeout)}
	}
}

// tooManyHangs: every timeout leaves a spinning goroutine behind; after a few
// of them the remaining cases are skipped (the violations are already recorded)
func tooManyHangs(c *core.Ctx) bool {
	if hangs < 20 {
		return false
	}
	if !hangNoted {
		hangNoted = true
		c.Note("run cut short after %d paths did not return (endless loops in the implementation); the violations found so far are reported", hangs)
	}
	return true
}

var hangNoted bool

// guardPath runs path p unless it was switched off
func guardPath(p int, f func() ([]parquet.Row, error)) pathResult {
	if pathDisabled[p] {
		return pathResult{skipped: true}
	}
	return guardP(p, f)
}

func readAll(rows parquet.Rows) ([]parquet.Row, error) {
	defer rows.Close()
	var out []parquet.Row
	buf := make([]parquet.Row, 64)
	idle := 0
	for {
		n, err := rows.ReadRows(buf)
		for _, r := range buf[:n] {
			out = append(out, r.Clone())
		}
		if err == io.EOF {
			return out, nil
		}
		if err != nil {
			return out, err
		}
		if n == 0 {
			if idle++; idle > 3 {
				return out, fmt.Errorf("ReadRows returned 0 rows and no error repeatedly")
			}
		} else {
			idle = 0
		}
	}
}

func readFile(b []byte) ([]parquet.Row, error) {
	f, err := parquet.OpenFile(bytes.NewReader(b), int64(len(b)))
	if err != nil {
		return nil, err
	}
	var out []parquet.Row
	for _, rg := range f.RowGroups() {
		rows, err := readAll(rg.Rows())
		out = append(out, rows...)
		if err != nil {
			return out, err
		}
	}
	return out, nil
}

// batches cuts [0,n) according to split (sizes; the last batch takes the rest)
func batches(n int, split []int) [][2]int {
	var out [][2]int
	i := 0
	for _, s := range split {
		if s <= 0 || i >= n {
			continue
		}
		j := i + s
		if j > n {
			j = n
		}
		out = append(out, [2]int{i, j})
		i = j
	}
	if i < n {
		out = append(out, [2]int{i, n})
	}
	return out
}

// execPaths hands rows to every path; pristine is a deep copy of rows that the
// library never sees: after each path the batch is compared with it - a path
// must not write into the caller's values - and restored from it.
func execPaths[T any](ct *cat, rows, pristine []T, split []int) (res [numPaths]pathResult) {
	schema := ct.schema
	n := len(rows)
	bs := batches(n, split)
	var wopts []parquet.WriterOption
	var ropts []parquet.RowGroupOption
	if ct.explicit {
		wopts = []parquet.WriterOption{schema}
		ropts = []parquet.RowGroupOption{schema}
	}
	run := func(p int, f func() ([]parquet.Row, error)) {
		res[p] = guardPath(p, f)
		if !reflect.DeepEqual(rows, pristine) {
			for i := range rows {
				if !reflect.DeepEqual(rows[i], pristine[i]) {
					if res[p].mutated == "" {
						res[p].mutated = fmt.Sprintf("row %d was %s and is %s after the call", i, rowJSON(ct, &pristine[i]), rowJSON(ct, &rows[i]))
					}
					rows[i] = deepCopy(reflect.ValueOf(&pristine[i]).Elem()).Interface().(T)
				}
			}
		}
	}
	// 1: Schema.Deconstruct
	run(0, func() ([]parquet.Row, error) {
		out := make([]parquet.Row, n)
		for i := range rows {
			if i%2 == 0 {
				out[i] = schema.Deconstruct(nil, &rows[i])
			} else {
				out[i] = schema.Deconstruct(nil, rows[i])
			}
		}
		return out, nil
	})
	// 2: typed GenericWriter
	run(1, func() ([]parquet.Row, error) {
		var buf bytes.Buffer
		w := parquet.NewGenericWriter[T](&buf, wopts...)
		for _, b := range bs {
			if k, err := w.Write(rows[b[0]:b[1]]); err != nil || k != b[1]-b[0] {
				return nil, fmt.Errorf("Write returned %d, %v", k, err)
			}
		}
		if err := w.Close(); err != nil {
			return nil, err
		}
		return readFile(buf.Bytes())
	})
	// 3: deprecated Writer.Write(any)
	run(2, func() ([]parquet.Row, error) {
		var buf bytes.Buffer
		w := parquet.NewWriter(&buf, schema)
		for i := range rows {
			var err error
			if i%2 == 0 {
				err = w.Write(rows[i])
			} else {
				err = w.Write(&rows[i])
			}
			if err != nil {
				return nil, err
			}
		}
		if err := w.Close(); err != nil {
			return nil, err
		}
		return readFile(buf.Bytes())
	})
	// 4: typed GenericBuffer
	run(3, func() ([]parquet.Row, error) {
		buf := parquet.NewGenericBuffer[T](ropts...)
		for _, b := range bs {
			if k, err := buf.Write(rows[b[0]:b[1]]); err != nil || k != b[1]-b[0] {
				return nil, fmt.Errorf("Write returned %d, %v", k, err)
			}
		}
		return readAll(buf.Rows())
	})
	// 5: Buffer.Write(any)
	run(4, func() ([]parquet.Row, error) {
		buf := parquet.NewBuffer(schema)
		for i := range rows {
			var err error
			if i%2 == 0 {
				err = buf.Write(&rows[i])
			} else {
				err = buf.Write(rows[i])
			}
			if err != nil {
				return nil, err
			}
		}
		return readAll(buf.Rows())
	})
	// 6: RowBuffer
	run(5, func() ([]parquet.Row, error) {
		buf := parquet.NewRowBuffer[T](ropts...)
		for _, b := range bs {
			if k, err := buf.Write(rows[b[0]:b[1]]); err != nil || k != b[1]-b[0] {
				return nil, fmt.Errorf("Write returned %d, %v", k, err)
			}
		}
		return readAll(buf.Rows())
	})
	// 7: WriteRows of pre-shredded rows
	run(6, func() ([]parquet.Row, error) {
		if res[0].err != "" {
			return nil, fmt.Errorf("no deconstructed rows")
		}
		var buf bytes.Buffer
		w := parquet.NewGenericWriter[T](&buf, wopts...)
		for _, b := range bs {
			in := make([]parquet.Row, 0, b[1]-b[0])
			for _, r := range res[0].rows[b[0]:b[1]] {
				in = append(in, r.Clone())
			}
			if k, err := w.WriteRows(in); err != nil || k != len(in) {
				return nil, fmt.Errorf("WriteRows returned %d, %v", k, err)
			}
		}
		if err := w.Close(); err != nil {
			return nil, err
		}
		return readFile(buf.Bytes())
	})
	// 8: per-column writers
	run(7, func() ([]parquet.Row, error) {
		if res[0].err != "" {
			return nil, fmt.Errorf("no deconstructed rows")
		}
		var buf bytes.Buffer
		w := parquet.NewGenericWriter[T](&buf, wopts...)
		ncols := len(schema.Columns())
		cols := make([][]parquet.Value, ncols)
		for _, r := range res[0].rows {
			for _, v := range r {
				cols[v.Column()] = append(cols[v.Column()], v.Clone())
			}
		}
		for j, cw := range w.ColumnWriters() {
			k, err := cw.WriteRowValues(cols[j])
			if err != nil {
				return nil, err
			}
			if k != n {
				return nil, fmt.Errorf("column %d: WriteRowValues counted %d rows, want %d", j, k, n)
			}
		}
		for _, cw := range w.ColumnWriters() {
			if err := cw.Close(); err != nil {
				return nil, err
			}
		}
		if err := w.Close(); err != nil {
			return nil, err
		}
		return readFile(buf.Bytes())
	})
	// 9: GenericWriter[any] with the schema (writeValueFuncOf path)
	run(8, func() ([]parquet.Row, error) {
		var buf bytes.Buffer
		w := parquet.NewGenericWriter[any](&buf, schema)
		for _, b := range bs {
			in := make([]any, 0, b[1]-b[0])
			for i := b[0]; i < b[1]; i++ {
				if i%2 == 0 {
					in = append(in, rows[i])
				} else {
					in = append(in, &rows[i])
				}
			}
			if k, err := w.Write(in); err != nil || k != len(in) {
				return nil, fmt.Errorf("Write returned %d, %v", k, err)
			}
		}
		if err := w.Close(); err != nil {
			return nil, err
		}
		return readFile(buf.Bytes())
	})
	// 10: typed GenericBuffer, then the rows are reversed through the buffer's
	// Swap (sort.Interface) before they are read: the row -> value bookkeeping
	// of the column buffers must describe the rows that were written
	run(9, func() ([]parquet.Row, error) {
		buf := parquet.NewGenericBuffer[T](ropts...)
		for _, b := range bs {
			if k, err := buf.Write(rows[b[0]:b[1]]); err != nil || k != b[1]-b[0] {
				return nil, fmt.Errorf("Write returned %d, %v", k, err)
			}
		}
		if buf.Len() != n {
			return nil, fmt.Errorf("Len() = %d after writing %d rows", buf.Len(), n)
		}
		for i, j := 0, n-1; i < j; i, j = i+1, j-1 {
			buf.Swap(i, j)
		}
		return readAll(buf.Rows())
	})
	// 11: Buffer.Write(any), reversed the same way
	run(10, func() ([]parquet.Row, error) {
		buf := parquet.NewBuffer(schema)
		for i := range rows {
			if err := buf.Write(&rows[i]); err != nil {
				return nil, err
			}
		}
		for i, j := 0, n-1; i < j; i, j = i+1, j-1 {
			buf.Swap(i, j)
		}
		return readAll(buf.Rows())
	})
	ptrs := make([]*T, n)
	for i := range rows {
		ptrs[i] = &rows[i]
	}
	// 12: GenericWriter[*T]: the rows are pointers
	run(11, func() ([]parquet.Row, error) {
		var buf bytes.Buffer
		w := parquet.NewGenericWriter[*T](&buf, wopts...)
		for _, b := range bs {
			if k, err := w.Write(ptrs[b[0]:b[1]]); err != nil || k != b[1]-b[0] {
				return nil, fmt.Errorf("Write returned %d, %v", k, err)
			}
		}
		if err := w.Close(); err != nil {
			return nil, err
		}
		return readFile(buf.Bytes())
	})
	// 13: GenericBuffer[*T]
	run(12, func() ([]parquet.Row, error) {
		buf := parquet.NewGenericBuffer[*T](ropts...)
		for _, b := range bs {
			if k, err := buf.Write(ptrs[b[0]:b[1]]); err != nil || k != b[1]-b[0] {
				return nil, fmt.Errorf("Write returned %d, %v", k, err)
			}
		}
		return readAll(buf.Rows())
	})
	// 14: GenericBuffer[any] with the schema (rows alternately by value and by pointer)
	run(13, func() ([]parquet.Row, error) {
		buf := parquet.NewGenericBuffer[any](schema)
		for _, b := range bs {
			in := make([]any, 0, b[1]-b[0])
			for i := b[0]; i < b[1]; i++ {
				if i%2 == 1 {
					in = append(in, rows[i])
				} else {
					in = append(in, &rows[i])
				}
			}
			if k, err := buf.Write(in); err != nil || k != len(in) {
				return nil, fmt.Errorf("Write returned %d, %v", k, err)
			}
		}
		return readAll(buf.Rows())
	})
	// 15: RowBuffer, observed column-wise: the page of every column chunk is
	// cut in two with Slice, every other part cloned, and read with value
	// buffers of 1, 2 or 3 values; the level arrays of the parts must be those of
	// the values; the rows are put together again from the column streams
	run(14, func() ([]parquet.Row, error) {
		buf := parquet.NewRowBuffer[T](ropts...)
		for _, b := range bs {
			if k, err := buf.Write(rows[b[0]:b[1]]); err != nil || k != b[1]-b[0] {
				return nil, fmt.Errorf("Write returned %d, %v", k, err)
			}
		}
		return readColumnwise(schema, buf, n)
	})
	return res
}

func readValues(r parquet.ValueReader, size int) ([]parquet.Value, error) {
	var out []parquet.Value
	buf := make([]parquet.Value, size)
	idle := 0
	for {
		k, err := r.ReadValues(buf)
		out = append(out, buf[:k]...)
		if err == io.EOF {
			return out, nil
		}
		if err != nil {
			return out, err
		}
		if k == 0 {
			if idle++; idle > 3 {
				return out, fmt.Errorf("ReadValues returned 0 values and no error repeatedly")
			}
		} else {
			idle = 0
		}
	}
}

// readColumnwise reads the n rows of a row group through its column chunks
func readColumnwise(schema *parquet.Schema, rg parquet.RowGroup, n int) ([]parquet.Row, error) {
	chunks := rg.ColumnChunks()
	paths := schema.Columns()
	if len(chunks) != len(paths) {
		return nil, fmt.Errorf("%d column chunks for %d columns", len(chunks), len(paths))
	}
	out := make([]parquet.Row, n)
	for j, cc := range chunks {
		leaf, _ := schema.Lookup(paths[j]...)
		pages := cc.Pages()
		page, err := pages.ReadPage()
		if err != nil {
			pages.Close()
			return nil, fmt.Errorf("column %d: ReadPage: %v", j, err)
		}
		if page.NumRows() != int64(n) {
			pages.Close()
			return nil, fmt.Errorf("column %d: the page has %d rows, %d were written", j, page.NumRows(), n)
		}
		var vals []parquet.Value
		h := int64(n / 2)
		for part, pg := range []parquet.Page{page.Slice(0, h), page.Slice(h, int64(n))} {
			what := fmt.Sprintf("column %d, Slice(%d,%d) of the page", j, int64(part)*h, h+int64(part)*(int64(n)-h))
			if (j+part)%2 == 1 {
				if cl, ok := pg.(interface{ Clone() parquet.Page }); ok {
					pg, what = cl.Clone(), what+", cloned"
				}
			}
			vs, err := readValues(pg.Values(), 1+(j+part)%3)
			if err != nil {
				pages.Close()
				return nil, fmt.Errorf("%s: ReadValues: %v", what, err)
			}
			// the level arrays of the part are the levels of its values
			var rl, dl []byte
			for _, v := range vs {
				rl = append(rl, byte(v.RepetitionLevel()))
				dl = append(dl, byte(v.DefinitionLevel()))
			}
			if leaf.MaxRepetitionLevel > 0 && !bytes.Equal(pg.RepetitionLevels(), rl) {
				pages.Close()
				return nil, fmt.Errorf("%s: RepetitionLevels() = %v, the values have %v", what, pg.RepetitionLevels(), rl)
			}
			if leaf.MaxDefinitionLevel > 0 && !bytes.Equal(pg.DefinitionLevels(), dl) {
				pages.Close()
				return nil, fmt.Errorf("%s: DefinitionLevels() = %v, the values have %v", what, pg.DefinitionLevels(), dl)
			}
			vals = append(vals, vs...)
		}
		pages.Close()
		i := -1
		for _, v := range vals {
			if v.RepetitionLevel() == 0 {
				i++
			}
			if i < 0 || i >= n {
				return nil, fmt.Errorf("column %d: the values do not form %d rows (%d values)", j, n, len(vals))
			}
			out[i] = append(out[i], v)
		}
		if i != n-1 {
			return nil, fmt.Errorf("column %d: the values form %d rows, %d were written", j, i+1, n)
		}
	}
	return out, nil
}

// ---------------------------------------------------------------------------
// canonical streams
// ---------------------------------------------------------------------------

type entry struct {
	col  int
	val  string // "N" or "x"+hex
	r, d int
}

func entryOf(v parquet.Value) entry {
	e := entry{col: v.Column(), r: v.RepetitionLevel(), d: v.DefinitionLevel(), val: "N"}
	if !v.IsNull() {
		e.val = "x" + hex.EncodeToString(v.Bytes())
	}
	return e
}

func canonRow(row parquet.Row) []entry {
	out := make([]entry, len(row))
	for i, v := range row {
		out[i] = entryOf(v)
	}
	return out
}

func rowText(es []entry) string {
	var sb strings.Builder
	for i, e := range es {
		if i > 0 {
			sb.WriteByte(' ')
		}
		fmt.Fprintf(&sb, "c%d=%s:r%d:d%d", e.col, e.val, e.r, e.d)
	}
	return sb.String()
}

// unordered form of a row (types whose maps hold several entries): per column
// the multiset of (value, d) and the sequence of repetition levels
func rowTextUnordered(es []entry) string {
	byCol := map[int][]entry{}
	var cols []int
	for _, e := range es {
		if _, ok := byCol[e.col]; !ok {
			cols = append(cols, e.col)
		}
		byCol[e.col] = append(byCol[e.col], e)
	}
	sort.Ints(cols)
	var sb strings.Builder
	for _, cidx := range cols {
		l := byCol[cidx]
		var vs, rs []string
		for _, e := range l {
			vs = append(vs, fmt.Sprintf("%s:d%d", e.val, e.d))
			rs = append(rs, strconv.Itoa(e.r))
		}
		sort.Strings(vs)
		fmt.Fprintf(&sb, "c%d{%s|r%s} ", cidx, strings.Join(vs, ","), strings.Join(rs, ","))
	}
	return sb.String()
}

// columnsText renders rows column-wise in the oracle's syntax
func columnsText(rows [][]entry, ncols int) string {
	cols := make([][]string, ncols)
	for _, r := range rows {
		for _, e := range r {
			if e.col >= 0 && e.col < ncols {
				cols[e.col] = append(cols[e.col], fmt.Sprintf("%s:%d:%d", e.val, e.r, e.d))
			}
		}
	}
	parts := make([]string, ncols)
	for j, cl := range cols {
		if len(cl) == 0 {
			parts[j] = "_"
		} else {
			parts[j] = strings.Join(cl, ";")
		}
	}
	return strings.Join(parts, "|")
}

func sameEntries(a, b []entry) bool {
	if len(a) != len(b) {
		return false
	}
	for i := range a {
		if a[i] != b[i] {
			return false
		}
	}
	return true
}

// diffKind classifies the first difference of two rows
func diffKind(a, b []entry) string {
	if len(a) != len(b) {
		return "value-count-differs"
	}
	for i := range a {
		if a[i] == b[i] {
			continue
		}
		switch {
		case (a[i].val == "N") != (b[i].val == "N"):
			return "null-positions-differ"
		case a[i].r != b[i].r || a[i].d != b[i].d || a[i].col != b[i].col:
			return "levels-differ"
		default:
			return "values-differ"
		}
	}
	return ""
}

// ---------------------------------------------------------------------------
// the model's view: schema and values in the oracle's syntax (and as Coq terms)
// ---------------------------------------------------------------------------

func repOf(f parquet.Node) byte {
	switch {
	case f.Repeated():
		return 'P'
	case f.Optional():
		return 'O'
	default:
		return 'R'
	}
}

func modelSchema(n parquet.Node) string {
	if n.Leaf() {
		return "L"
	}
	var parts []string
	for _, f := range n.Fields() {
		parts = append(parts, string(repOf(f))+":"+modelSchema(f))
	}
	return "G(" + strings.Join(parts, ",") + ")"
}

func coqSchema(n parquet.Node) string {
	if n.Leaf() {
		return "Leaf"
	}
	s := "FNil"
	fs := n.Fields()
	for i := len(fs) - 1; i >= 0; i-- {
		rp := map[byte]string{'R': "Req", 'O': "Opt", 'P': "Rpt"}[repOf(fs[i])]
		s = fmt.Sprintf("(FCons %s %s %s)", rp, coqSchema(fs[i]), s)
	}
	return "(Group " + s + ")"
}

// mv is a model value
type mv struct {
	kind byte // 'x' leaf, 'g' group, 'l' list, 'n' null, 's' some
	hex  string
	kids []*mv
}

func (m *mv) text(sb *strings.Builder) {
	switch m.kind {
	case 'x':
		sb.WriteString("x" + m.hex)
	case 'n':
		sb.WriteByte('n')
	case 's':
		sb.WriteByte('s')
		m.kids[0].text(sb)
	default:
		sb.WriteByte(m.kind)
		sb.WriteByte('(')
		for i, k := range m.kids {
			if i > 0 {
				sb.WriteByte(',')
			}
			k.text(sb)
		}
		sb.WriteByte(')')
	}
}

func (m *mv) String() string {
	var sb strings.Builder
	m.text(&sb)
	return sb.String()
}

// coq renders the value with leaves (byte length, little-endian number)
func (m *mv) coq(sb *strings.Builder) {
	switch m.kind {
	case 'x':
		b, _ := hex.DecodeString(m.hex)
		num := "0"
		if len(b) <= 8 {
			var u uint64
			for i := len(b) - 1; i >= 0; i-- {
				u = u<<8 | uint64(b[i])
			}
			num = strconv.FormatUint(u, 10)
		} else {
			// long values: a hash-free but injective-enough rendering is not needed; use the sum of bytes and rely on the length
			var u uint64
			for _, x := range b {
				u = u*257 + uint64(x)
			}
			num = strconv.FormatUint(u, 10)
		}
		fmt.Fprintf(sb, "(VLeaf (%d, %s%%N))", len(b), num)
	case 'n':
		sb.WriteString("(VOpt None)")
	case 's':
		sb.WriteString("(VOpt (Some ")
		m.kids[0].coq(sb)
		sb.WriteString("))")
	default:
		if m.kind == 'g' {
			sb.WriteString("(VGroup [")
		} else {
			sb.WriteString("(VList [")
		}
		for i, k := range m.kids {
			if i > 0 {
				sb.WriteString("; ")
			}
			k.coq(sb)
		}
		sb.WriteString("])")
	}
}

func coqLeafOfHex(val string) string {
	if val == "N" {
		return "None"
	}
	m := &mv{kind: 'x', hex: val[1:]}
	var sb strings.Builder
	m.coq(&sb)
	s := sb.String()
	return "(Some " + strings.TrimSuffix(strings.TrimPrefix(s, "(VLeaf "), ")") + ")"
}

func isListNode(n parquet.Node) bool {
	lt := n.Type().LogicalType()
	if lt == nil {
		return false
	}
	_, ok := lt.Value.(*format.ListType)
	return ok
}

func isMapNode(n parquet.Node) bool {
	lt := n.Type().LogicalType()
	if lt == nil {
		return false
	}
	_, ok := lt.Value.(*format.MapType)
	return ok
}

type fieldRef struct {
	name  string
	index []int
}

// structFieldRefs lists the exported fields of a struct type in column order:
// embedded structs are flattened, `parquet:"-"` fields dropped, names from tags.
func structFieldRefs(t reflect.Type, prefix []int) []fieldRef {
	var out []fieldRef
	for i := 0; i < t.NumField(); i++ {
		f := t.Field(i)
		name := f.Name
		if tag, ok := f.Tag.Lookup("parquet"); ok {
			head := tag
			if k := strings.IndexByte(tag, ','); k >= 0 {
				head = tag[:k]
			}
			if head == "-" && tag != "-," {
				continue
			}
			if head != "" {
				name = head
			}
		}
		idx := append(append([]int(nil), prefix...), i)
		if f.Anonymous {
			ft := f.Type
			if ft.Kind() == reflect.Pointer {
				ft = ft.Elem()
			}
			out = append(out, structFieldRefs(ft, idx)...)
		} else if f.IsExported() {
			out = append(out, fieldRef{name: name, index: idx})
		}
	}
	return out
}

// goNull: the documented mapping of Go values to null for an optional node:
// nil pointer / nil slice / nil map, otherwise the zero value of the type.
func goNull(v reflect.Value) bool {
	switch v.Kind() {
	case reflect.Pointer, reflect.Slice, reflect.Map, reflect.Interface:
		return v.IsNil()
	case reflect.Float32, reflect.Float64:
		return v.Float() == 0
	case reflect.Struct:
		if t, ok := v.Interface().(time.Time); ok {
			return t.IsZero()
		}
		for i := 0; i < v.NumField(); i++ {
			if !goNull(v.Field(i)) {
				return false
			}
		}
		return true
	case reflect.Array:
		for i := 0; i < v.Len(); i++ {
			if !goNull(v.Index(i)) {
				return false
			}
		}
		return true
	default:
		return v.IsZero()
	}
}

// daysSinceEpoch: the DATE value of a time.Time (convert.go
// daysSinceUnixEpoch): whole hours since the epoch divided by 24, truncated
// towards zero, computed from the Unix seconds (no 292-year saturation).
func daysSinceEpoch(t time.Time) int32 {
	return int32(int(t.Unix()/3600) / 24)
}

// jsonBytes is the documented encoding of a Go value in a JSON column:
// encoding/json without HTML escaping, without the trailing newline.
func jsonBytes(x any) []byte {
	var sb bytes.Buffer
	enc := json.NewEncoder(&sb)
	enc.SetEscapeHTML(false)
	if err := enc.Encode(x); err != nil {
		panic(err)
	}
	b := sb.Bytes()
	return append([]byte{}, b[:len(b)-1]...)
}

func le32(x uint32) []byte { return binary.LittleEndian.AppendUint32(nil, x) }
func le64(x uint64) []byte { return binary.LittleEndian.AppendUint64(nil, x) }

// leafBytes is the value of leaf n for the Go value v: the plain encoding of
// the parquet value the documentation assigns to v for the physical and
// logical type of n.
func leafBytes(n parquet.Node, v reflect.Value) []byte {
	for v.Kind() == reflect.Pointer || v.Kind() == reflect.Interface {
		v = v.Elem()
	}
	typ := n.Type()
	kind := typ.Kind()
	var lt any
	if l := typ.LogicalType(); l != nil {
		lt = l.Value
	}
	switch x := v.Interface().(type) {
	case time.Time:
		switch l := lt.(type) {
		case *format.TimestampType:
			switch l.Unit.Value.(type) {
			case *format.MilliSeconds:
				return le64(uint64(x.UnixMilli()))
			case *format.MicroSeconds:
				return le64(uint64(x.UnixMicro()))
			}
			return le64(uint64(x.UnixNano()))
		case *format.DateType:
			return le32(uint32(daysSinceEpoch(x)))
		}
		if kind == parquet.Int32 {
			return le32(uint32(daysSinceEpoch(x)))
		}
		return le64(uint64(x.UnixNano()))
	case time.Duration:
		if l, ok := lt.(*format.TimeType); ok {
			switch l.Unit.Value.(type) {
			case *format.MilliSeconds:
				return le32(uint32(int32(x.Milliseconds())))
			case *format.MicroSeconds:
				return le64(uint64(x.Microseconds()))
			}
		}
		return le64(uint64(x.Nanoseconds()))
	case deprecated.Int96:
		b := make([]byte, 12)
		binary.LittleEndian.PutUint32(b[0:], x[0])
		binary.LittleEndian.PutUint32(b[4:], x[1])
		binary.LittleEndian.PutUint32(b[8:], x[2])
		return b
	case parquet.Interval:
		b := make([]byte, 12)
		binary.LittleEndian.PutUint32(b[0:], x.Months)
		binary.LittleEndian.PutUint32(b[4:], x.Days)
		binary.LittleEndian.PutUint32(b[8:], x.Milliseconds)
		return b
	case json.RawMessage:
		if !json.Valid(x) {
			panic("leafBytes: json.RawMessage does not hold a JSON text")
		}
		return append([]byte{}, x...)
	}
	isBytes := v.Kind() == reflect.String || (v.Kind() == reflect.Slice && v.Type().Elem().Kind() == reflect.Uint8)
	if _, ok := lt.(*format.JsonType); ok && !isBytes {
		return jsonBytes(v.Interface())
	}
	switch v.Kind() {
	case reflect.Bool:
		if v.Bool() {
			return []byte{1}
		}
		return []byte{0}
	case reflect.Int, reflect.Int8, reflect.Int16, reflect.Int32, reflect.Int64:
		if kind == parquet.Int32 {
			return le32(uint32(int32(v.Int())))
		}
		return le64(uint64(v.Int()))
	case reflect.Uint, reflect.Uint8, reflect.Uint16, reflect.Uint32, reflect.Uint64, reflect.Uintptr:
		if kind == parquet.Int32 {
			return le32(uint32(v.Uint()))
		}
		return le64(v.Uint())
	case reflect.Float32:
		if kind == parquet.Double {
			return le64(math.Float64bits(v.Float()))
		}
		return le32(math.Float32bits(float32(v.Float())))
	case reflect.Float64:
		return le64(math.Float64bits(v.Float()))
	case reflect.String:
		if _, ok := lt.(*format.UUIDType); ok && kind == parquet.FixedLenByteArray {
			u, err := uuid.Parse(v.String())
			if err != nil {
				panic("leafBytes: the generator produced an invalid UUID string " + v.String())
			}
			return append([]byte{}, u[:]...)
		}
		return []byte(v.String())
	case reflect.Slice:
		if kind == parquet.FixedLenByteArray && v.Len() != typ.Length() {
			panic("leafBytes: byte slice of the wrong size for a fixed size column")
		}
		return append([]byte{}, v.Bytes()...)
	case reflect.Array:
		b := make([]byte, v.Len())
		for i := range b {
			b[i] = byte(v.Index(i).Uint())
		}
		return b
	}
	panic("leafBytes: unsupported Go kind " + v.Kind().String())
}

func keyLess(a, b reflect.Value) bool {
	switch a.Kind() {
	case reflect.String:
		return a.String() < b.String()
	case reflect.Int, reflect.Int8, reflect.Int16, reflect.Int32, reflect.Int64:
		return a.Int() < b.Int()
	case reflect.Uint, reflect.Uint8, reflect.Uint16, reflect.Uint32, reflect.Uint64:
		return a.Uint() < b.Uint()
	case reflect.Float32, reflect.Float64:
		return a.Float() < b.Float()
	}
	return fmt.Sprint(a.Interface()) < fmt.Sprint(b.Interface())
}

func isVariantNode(n parquet.Node) bool {
	lt := n.Type().LogicalType()
	if lt == nil {
		return false
	}
	_, ok := lt.Value.(*format.VariantType)
	return ok
}

// unwrap replaces an interface value by what it holds (invalid for nil); dyn
// tells that the value came out of an interface
func unwrap(v reflect.Value, dyn bool) (reflect.Value, bool) {
	for v.IsValid() && v.Kind() == reflect.Interface {
		if v.IsNil() {
			return reflect.Value{}, true
		}
		v, dyn = v.Elem(), true
	}
	return v, dyn
}

// isNullAt: is the Go value null at an optional node.  Statically typed
// fields: the documented rule (goNull).  Values held by an interface: null is
// the nil interface only - an interface distinguishes "no value" from a zero
// value like a pointer does; whatever it holds (a zero number, an empty
// string, a nil slice or map) is a present value.  (A nil POINTER held by an
// interface is not generated.)
func isNullAt(v reflect.Value, dyn bool) bool {
	if !v.IsValid() {
		return true
	}
	if !dyn {
		return goNull(v)
	}
	if v.Kind() == reflect.Pointer && v.IsNil() {
		panic("mValue: nil pointer held by an interface (not generated)")
	}
	return false
}

// mField maps the Go value of a field to the model value of the field
func mField(f parquet.Node, v reflect.Value) *mv { return mFieldD(f, v, false) }

func mFieldD(f parquet.Node, v reflect.Value, dyn bool) *mv {
	v, dyn = unwrap(v, dyn)
	switch {
	case f.Optional():
		if isNullAt(v, dyn) {
			return &mv{kind: 'n'}
		}
		return &mv{kind: 's', kids: []*mv{mValueD(f, v, dyn)}}
	case f.Repeated():
		out := &mv{kind: 'l'}
		for v.IsValid() && v.Kind() == reflect.Pointer && !v.IsNil() {
			v = v.Elem()
		}
		if v.IsValid() && (v.Kind() == reflect.Slice || v.Kind() == reflect.Array) {
			for i := 0; i < v.Len(); i++ {
				out.kids = append(out.kids, mValueD(f, v.Index(i), dyn))
			}
		}
		return out
	default:
		return mValueD(f, v, dyn)
	}
}

// mValue maps a present Go value to the model value of node n (its repetition
// type already accounted for by the caller)
func mValue(n parquet.Node, v reflect.Value) *mv { return mValueD(n, v, false) }

func mValueD(n parquet.Node, v reflect.Value, dyn bool) *mv {
	v, dyn = unwrap(v, dyn)
	for v.IsValid() && v.Kind() == reflect.Pointer {
		if v.IsNil() {
			// a nil pointer where the schema has no optional node: the zero value
			v = reflect.Zero(v.Type().Elem())
			break
		}
		v = v.Elem()
		v, dyn = unwrap(v, dyn)
	}
	if isVariantNode(n) && len(n.Fields()) == 2 {
		var goVal any
		if v.IsValid() && !isNullAt(v, true) {
			goVal = v.Interface()
		}
		meta, val, err := variant.Marshal(goVal)
		if err != nil {
			panic(fmt.Sprintf("mValue: variant.Marshal(%v): %v", goVal, err))
		}
		return &mv{kind: 'g', kids: []*mv{{kind: 'x', hex: hex.EncodeToString(meta)}, {kind: 'x', hex: hex.EncodeToString(val)}}}
	}
	if n.Leaf() {
		if !v.IsValid() {
			panic("mValue: nil value at a required leaf (the generator must not produce it)")
		}
		return &mv{kind: 'x', hex: hex.EncodeToString(leafBytes(n, v))}
	}
	switch {
	case isListNode(n):
		rep := n.Fields()[0]
		elem := rep.Fields()[0]
		l := &mv{kind: 'l'}
		if v.IsValid() {
			for i := 0; i < v.Len(); i++ {
				l.kids = append(l.kids, &mv{kind: 'g', kids: []*mv{mFieldD(elem, v.Index(i), dyn)}})
			}
		}
		return &mv{kind: 'g', kids: []*mv{l}}
	case isMapNode(n):
		kv := n.Fields()[0]
		var kn, vn parquet.Node
		for _, f := range kv.Fields() {
			if f.Name() == "key" {
				kn = f
			} else {
				vn = f
			}
		}
		l := &mv{kind: 'l'}
		if v.IsValid() {
			keys := v.MapKeys()
			sort.Slice(keys, func(i, j int) bool { return keyLess(keys[i], keys[j]) })
			for _, k := range keys {
				l.kids = append(l.kids, &mv{kind: 'g', kids: []*mv{mFieldD(kn, k, dyn), mFieldD(vn, v.MapIndex(k), dyn)}})
			}
		}
		return &mv{kind: 'g', kids: []*mv{l}}
	}
	fields := n.Fields()
	g := &mv{kind: 'g'}
	switch {
	case !v.IsValid():
		for _, f := range fields {
			g.kids = append(g.kids, mFieldD(f, reflect.Value{}, dyn))
		}
	case v.Kind() == reflect.Map:
		// a Go map with string keys written to a group: one entry per field.
		// The entries count as the values they hold, whatever the element
		// type of the map: a missing key, nil and a zero value are null at
		// an optional node (TestGenericWriterMapStringAnyOptionalZeroValues).
		for _, f := range fields {
			e := v.MapIndex(reflect.ValueOf(f.Name()).Convert(v.Type().Key()))
			if e.IsValid() && e.Kind() == reflect.Interface {
				e = e.Elem()
			}
			g.kids = append(g.kids, mFieldD(f, e, false))
		}
	default:
		refs := structFieldRefs(v.Type(), nil)
		if len(refs) != len(fields) {
			panic(fmt.Sprintf("mValue: %v has %d fields, node has %d", v.Type(), len(refs), len(fields)))
		}
		byName := map[string][]int{}
		for _, r := range refs {
			byName[r.name] = r.index
		}
		for _, f := range fields {
			idx, ok := byName[f.Name()]
			if !ok {
				panic(fmt.Sprintf("mValue: %v has no field for node field %q", v.Type(), f.Name()))
			}
			g.kids = append(g.kids, mFieldD(f, fieldByIndexNoAlloc(v, idx), false))
		}
	}
	return g
}

// fieldByIndexNoAlloc is FieldByIndex through embedded pointers: the fields
// below a nil embedded pointer read as invalid (null / zero)
func fieldByIndexNoAlloc(v reflect.Value, idx []int) reflect.Value {
	for k, i := range idx {
		if k > 0 && v.Kind() == reflect.Pointer {
			if v.IsNil() {
				return reflect.Zero(v.Type().Elem().FieldByIndex(idx[k:]).Type)
			}
			v = v.Elem()
		}
		v = v.Field(i)
	}
	return v
}

// maxListLen is the fuel bound of the model's assembly loop
func (m *mv) maxListLen() int {
	n := 0
	if m.kind == 'l' {
		n = len(m.kids)
	}
	for _, k := range m.kids {
		if x := k.maxListLen(); x > n {
			n = x
		}
	}
	return n
}

// normalise for DeepEqual: every empty slice / map becomes nil
func normEmpty(v reflect.Value) {
	switch v.Kind() {
	case reflect.Pointer:
		if !v.IsNil() {
			normEmpty(v.Elem())
		}
	case reflect.Struct:
		if _, ok := v.Interface().(time.Time); ok {
			return
		}
		for i := 0; i < v.NumField(); i++ {
			if v.Field(i).CanSet() {
				normEmpty(v.Field(i))
			}
		}
	case reflect.Slice:
		if v.Len() == 0 {
			if !v.IsNil() {
				v.Set(reflect.Zero(v.Type()))
			}
			return
		}
		if v.Type().Elem().Kind() != reflect.Uint8 {
			for i := 0; i < v.Len(); i++ {
				normEmpty(v.Index(i))
			}
		}
	case reflect.Map:
		if v.Len() == 0 {
			if !v.IsNil() {
				v.Set(reflect.Zero(v.Type()))
			}
			return
		}
		for _, k := range v.MapKeys() {
			e := reflect.New(v.Type().Elem()).Elem()
			e.Set(v.MapIndex(k))
			normEmpty(e)
			v.SetMapIndex(k, e)
		}
	}
}

// deepCopy copies a value structurally (interface values keep their dynamic
// types, nil and empty slices / maps stay distinct); the result is addressable.
func deepCopy(v reflect.Value) reflect.Value {
	out := reflect.New(v.Type()).Elem()
	copyInto(out, v)
	return out
}

func copyInto(dst, src reflect.Value) {
	switch src.Kind() {
	case reflect.Pointer:
		if src.IsNil() {
			return
		}
		p := reflect.New(src.Type().Elem())
		copyInto(p.Elem(), src.Elem())
		dst.Set(p)
	case reflect.Interface:
		if src.IsNil() {
			return
		}
		c := reflect.New(src.Elem().Type()).Elem()
		copyInto(c, src.Elem())
		dst.Set(c)
	case reflect.Struct:
		dst.Set(src) // unexported fields, time.Time
		if _, ok := src.Interface().(time.Time); ok {
			return
		}
		for i := 0; i < src.NumField(); i++ {
			if dst.Field(i).CanSet() {
				copyInto(dst.Field(i), src.Field(i))
			}
		}
	case reflect.Slice:
		if src.IsNil() {
			return
		}
		c := reflect.MakeSlice(src.Type(), src.Len(), src.Len())
		if src.Len() == 0 && src.Cap() > 0 {
			c = reflect.MakeSlice(src.Type(), 1, 1).Slice(0, 0) // an empty slice with capacity stays one
		}
		for i := 0; i < src.Len(); i++ {
			copyInto(c.Index(i), src.Index(i))
		}
		dst.Set(c)
	case reflect.Map:
		if src.IsNil() {
			return
		}
		c := reflect.MakeMapWithSize(src.Type(), src.Len())
		for it := src.MapRange(); it.Next(); {
			e := reflect.New(src.Type().Elem()).Elem()
			copyInto(e, it.Value())
			c.SetMapIndex(it.Key(), e)
		}
		dst.Set(c)
	case reflect.Array:
		for i := 0; i < src.Len(); i++ {
			copyInto(dst.Index(i), src.Index(i))
		}
	default:
		dst.Set(src)
	}
}

// ---------------------------------------------------------------------------
// one case
// ---------------------------------------------------------------------------

type caseReplay struct {
	Type  string          `json:"type"`
	Split []int           `json:"split,omitempty"`
	Rows  json.RawMessage `json:"rows"`
	Note  string          `json:"note,omitempty"`
	// Empties: the representation of the empty strings / slices of the batch
	// handed to the paths (empties.go): 0 literal, 1 all re-homed (zero-length
	// substrings / slices with capacity), 2 every other one
	Empties int `json:"empties,omitempty"`
}

// rowJSON renders one row (a pointer to it) like the replays do
func rowJSON(ct *cat, row any) string {
	var b []byte
	if ct.dyn {
		b, _ = json.Marshal(encDyn(reflect.ValueOf(row).Elem()))
	} else {
		b, _ = json.Marshal(row)
	}
	return core.Trunc(string(b), 500)
}

func mkReplay(ct *cat, rows reflect.Value, split []int) caseReplay {
	var b []byte
	if ct.dyn {
		b, _ = json.Marshal(encDyn(rows))
	} else {
		b, _ = json.Marshal(rows.Interface())
	}
	return caseReplay{Type: ct.name, Split: split, Rows: b, Empties: emptyStyle}
}

// ---- typed codec of the replays of types with interface fields: an interface
// value is {"$": <Go type>, "v": <value>}; everything else as encoding/json
// does (pointers: null or the value; []byte and byte arrays: hex strings).

var dynTypes = map[string]reflect.Type{}

func regDyn(ts ...any) {
	for _, x := range ts {
		t := reflect.TypeOf(x)
		dynTypes[t.String()] = t
	}
}

func init() {
	regDyn(false, int(0), int8(0), int16(0), int32(0), int64(0), uint(0), uint8(0), uint16(0), uint32(0), uint64(0),
		float32(0), float64(0), "", []byte(nil), []any(nil), map[string]any(nil), map[string]string(nil),
		[]int32(nil), []int64(nil), []string(nil), []float64(nil), []bool(nil), [][]byte(nil), []map[string]any(nil),
		[4]byte{}, [16]byte{}, [12]byte{}, deprecated.Int96{}, time.Time{}, time.Duration(0),
		(*int32)(nil), (*int64)(nil), (*string)(nil), (*bool)(nil), (*float64)(nil), (*[]any)(nil), (*map[string]any)(nil), json.RawMessage(nil))
}

func isByteSeq(t reflect.Type) bool {
	return (t.Kind() == reflect.Slice || t.Kind() == reflect.Array) && t.Elem().Kind() == reflect.Uint8
}

func encDyn(v reflect.Value) any {
	switch v.Kind() {
	case reflect.Interface:
		if v.IsNil() {
			return nil
		}
		e := v.Elem()
		if _, ok := dynTypes[e.Type().String()]; !ok {
			dynTypes[e.Type().String()] = e.Type()
		}
		return map[string]any{"$": e.Type().String(), "v": encDyn(e)}
	case reflect.Pointer:
		if v.IsNil() {
			return nil
		}
		return encDyn(v.Elem())
	case reflect.Struct:
		if t, ok := v.Interface().(time.Time); ok {
			return t.Format(time.RFC3339Nano)
		}
		m := map[string]any{}
		for i := 0; i < v.NumField(); i++ {
			if v.Type().Field(i).IsExported() {
				m[v.Type().Field(i).Name] = encDyn(v.Field(i))
			}
		}
		return m
	case reflect.Slice, reflect.Array:
		if v.Kind() == reflect.Slice && v.IsNil() {
			return nil
		}
		if isByteSeq(v.Type()) {
			b := make([]byte, v.Len())
			for i := range b {
				b[i] = byte(v.Index(i).Uint())
			}
			return "x" + hex.EncodeToString(b)
		}
		out := make([]any, v.Len())
		for i := range out {
			out[i] = encDyn(v.Index(i))
		}
		return out
	case reflect.Map:
		if v.IsNil() {
			return nil
		}
		m := map[string]any{}
		for it := v.MapRange(); it.Next(); {
			m[fmt.Sprint(it.Key().Interface())] = encDyn(it.Value())
		}
		return m
	case reflect.Float32, reflect.Float64:
		return strconv.FormatFloat(v.Float(), 'g', -1, 64)
	case reflect.Int, reflect.Int8, reflect.Int16, reflect.Int32, reflect.Int64:
		return strconv.FormatInt(v.Int(), 10)
	case reflect.Uint, reflect.Uint8, reflect.Uint16, reflect.Uint32, reflect.Uint64:
		return strconv.FormatUint(v.Uint(), 10)
	}
	return v.Interface()
}

func decDyn(dst reflect.Value, x any) error {
	if x == nil {
		return nil
	}
	switch dst.Kind() {
	case reflect.Interface:
		m, ok := x.(map[string]any)
		if !ok {
			return fmt.Errorf("interface value is not an object: %v", x)
		}
		name, _ := m["$"].(string)
		t, ok := dynTypes[name]
		if !ok {
			return fmt.Errorf("unknown dynamic type %q", name)
		}
		e := reflect.New(t).Elem()
		if err := decDyn(e, m["v"]); err != nil {
			return err
		}
		dst.Set(e)
	case reflect.Pointer:
		p := reflect.New(dst.Type().Elem())
		if err := decDyn(p.Elem(), x); err != nil {
			return err
		}
		dst.Set(p)
	case reflect.Struct:
		if _, ok := dst.Interface().(time.Time); ok {
			t, err := time.Parse(time.RFC3339Nano, x.(string))
			if err != nil {
				return err
			}
			dst.Set(reflect.ValueOf(t.UTC()))
			return nil
		}
		m, ok := x.(map[string]any)
		if !ok {
			return fmt.Errorf("struct value is not an object")
		}
		for i := 0; i < dst.NumField(); i++ {
			if dst.Type().Field(i).IsExported() {
				if err := decDyn(dst.Field(i), m[dst.Type().Field(i).Name]); err != nil {
					return err
				}
			}
		}
	case reflect.Slice, reflect.Array:
		if isByteSeq(dst.Type()) {
			s, _ := x.(string)
			b, err := hex.DecodeString(strings.TrimPrefix(s, "x"))
			if err != nil {
				return err
			}
			if dst.Kind() == reflect.Slice {
				dst.Set(reflect.MakeSlice(dst.Type(), len(b), len(b)))
			}
			for i := 0; i < len(b) && i < dst.Len(); i++ {
				dst.Index(i).SetUint(uint64(b[i]))
			}
			return nil
		}
		l, ok := x.([]any)
		if !ok {
			return fmt.Errorf("slice value is not an array")
		}
		if dst.Kind() == reflect.Slice {
			dst.Set(reflect.MakeSlice(dst.Type(), len(l), len(l)))
		}
		for i := 0; i < len(l) && i < dst.Len(); i++ {
			if err := decDyn(dst.Index(i), l[i]); err != nil {
				return err
			}
		}
	case reflect.Map:
		m, ok := x.(map[string]any)
		if !ok {
			return fmt.Errorf("map value is not an object")
		}
		out := reflect.MakeMap(dst.Type())
		for k, e := range m {
			kv := reflect.New(dst.Type().Key()).Elem()
			switch kv.Kind() {
			case reflect.String:
				kv.SetString(k)
			case reflect.Int, reflect.Int8, reflect.Int16, reflect.Int32, reflect.Int64:
				n, _ := strconv.ParseInt(k, 10, 64)
				kv.SetInt(n)
			default:
				return fmt.Errorf("map key kind %v", kv.Kind())
			}
			ev := reflect.New(dst.Type().Elem()).Elem()
			if err := decDyn(ev, e); err != nil {
				return err
			}
			out.SetMapIndex(kv, ev)
		}
		dst.Set(out)
	case reflect.Float32, reflect.Float64:
		f, err := strconv.ParseFloat(x.(string), 64)
		if err != nil {
			return err
		}
		dst.SetFloat(f)
	case reflect.Int, reflect.Int8, reflect.Int16, reflect.Int32, reflect.Int64:
		n, err := strconv.ParseInt(x.(string), 10, 64)
		if err != nil {
			return err
		}
		dst.SetInt(n)
	case reflect.Uint, reflect.Uint8, reflect.Uint16, reflect.Uint32, reflect.Uint64:
		n, err := strconv.ParseUint(x.(string), 10, 64)
		if err != nil {
			return err
		}
		dst.SetUint(n)
	case reflect.Bool:
		dst.SetBool(x.(bool))
	case reflect.String:
		dst.SetString(x.(string))
	default:
		return fmt.Errorf("unsupported kind %v", dst.Kind())
	}
	return nil
}

type vmCase struct {
	schema string
	rows   []string
	cols   [][]entry
	ncols  int
}

var vmCases []vmCase

// checkCase runs every path on the batch and evaluates the predicates and the
// correspondence with the model.  Returns false if something was reported.
func checkCase(c *core.Ctx, ct *cat, rows reflect.Value, split []int, wantVm bool) bool {
	n := rows.Len()
	// the representation of the empty strings / slices of the case (empties.go):
	// rewritten in a private copy, the caller's batch (the replay, the key of
	// the case, the shrinker's candidate) stays as it is
	if emptyStyle != 0 {
		rows = deepCopy(rows)
		restyleEmpties(rows, emptyStyle)
	}
	// the reuse regime (reuse.go) runs beside the fresh-memory matrix: it has
	// its own copies of the rows in its own backing stores
	// pristine: a deep copy of the batch that is never handed to the library.
	// The model values, the replay and the reuse regime are taken from it, and
	// every path's effect on the batch it was given is compared with it.
	pristine := deepCopy(rows)
	var reuseCh chan [numReuse]pathResult
	if withReuse {
		reuseCh = make(chan [numReuse]pathResult, 1)
		go func() { reuseCh <- ct.execR(pristine, split) }()
	}
	res := ct.exec(rows, pristine, split)
	rows = pristine
	replay := func() any { return mkReplay(ct, rows, split) }
	ok := true
	for p, r := range res {
		if r.err != "" && !r.skipped {
			report(c, "path-error:"+ct.name, fmt.Sprintf("type %s, %d rows: path %s failed: %s", ct.name, n, pathNames[p], r.err), replay())
			ok = false
		}
	}
	// predicate 0: a path reads the values it is given, it does not write into them
	for p, r := range res {
		if ok && r.mutated != "" {
			report(c, "input-mutated:"+ct.name, fmt.Sprintf("type %s, %d rows: path %s wrote into the caller's values: %s", ct.name, n, pathNames[p], r.mutated), replay())
			ok = false
		}
	}
	if !ok {
		return false
	}
	canon := make([][][]entry, numPaths)
	for p, r := range res {
		if r.skipped {
			canon[p] = nil
			continue
		}
		if len(r.rows) != n {
			report(c, "row-count-differs:"+ct.name, fmt.Sprintf("type %s: path %s returned %d rows for %d written", ct.name, pathNames[p], len(r.rows), n), replay())
			return false
		}
		canon[p] = make([][]entry, n)
		for i, row := range r.rows {
			if reversedPath[p] {
				canon[p][n-1-i] = canonRow(row)
			} else {
				canon[p][i] = canonRow(row)
			}
		}
	}
	// predicate 1: all paths agree value for value and level for level
	text := rowText
	if ct.multimap {
		text = rowTextUnordered
	}
	for p := 1; p < numPaths; p++ {
		if canon[p] == nil {
			continue
		}
		for i := 0; i < n; i++ {
			if !ct.multimap && sameEntries(canon[0][i], canon[p][i]) {
				continue
			}
			a, b := text(canon[0][i]), text(canon[p][i])
			if a != b {
				kind := diffKind(canon[0][i], canon[p][i])
				if ct.multimap || kind == "" {
					kind = "streams-differ"
				}
				report(c, kind+":"+ct.name, fmt.Sprintf("type %s, row %d of %d: path %s gives [%s] but path %s gives [%s]",
					ct.name, i, n, pathNames[0], core.Trunc(a, 600), pathNames[p], core.Trunc(b, 600)), replay())
				ok = false
				break
			}
		}
		if !ok {
			break
		}
	}
	// predicate 1b: the same batches fed from reused caller memory, overwritten
	// as soon as each call returned, give the same streams
	if ok && reuseCh != nil {
		ok = checkReuse(c, ct, n, split, <-reuseCh, canon, text, replay)
	}
	// predicate 2: Reconstruct(Deconstruct(v)) is v up to the nil/empty normalisation
	mvals := make([]*mv, n)
	for i := 0; i < n; i++ {
		mvals[i] = mValue(ct.schema, rows.Index(i))
	}
	if ok && !ct.noRecon {
		for i := 0; i < n; i++ {
			back, err := func() (v reflect.Value, err error) {
				defer func() {
					if r := recover(); r != nil {
						err = fmt.Errorf("panic: %v", r)
					}
				}()
				return ct.recon(res[0].rows[i])
			}()
			if err != nil {
				report(c, "reconstruct-error:"+ct.name, fmt.Sprintf("type %s row %d: Reconstruct failed: %v", ct.name, i, err), replay())
				ok = false
				break
			}
			got := mValue(ct.schema, back).String()
			if want := mvals[i].String(); got != want {
				report(c, "reconstruct-differs:"+ct.name, fmt.Sprintf("type %s row %d: Reconstruct(Deconstruct(v)) = %s, v = %s (model value syntax)", ct.name, i, core.Trunc(got, 600), core.Trunc(want, 600)), replay())
				ok = false
				break
			}
			if !ct.noDeep {
				a, b := deepCopy(rows.Index(i)), deepCopy(back)
				normEmpty(a)
				normEmpty(b)
				if !reflect.DeepEqual(a.Interface(), b.Interface()) {
					report(c, "reconstruct-differs:"+ct.name, fmt.Sprintf("type %s row %d: Reconstruct(Deconstruct(v)) = %+v, v = %+v", ct.name, i, b.Interface(), a.Interface()), replay())
					ok = false
					break
				}
			}
		}
	}
	// correspondence with the model: path 1 (path 2 for unordered maps) == shred; asm(streams) == value
	ncols := len(ct.schema.Columns())
	ref := 0
	if ct.multimap {
		ref = 1
	}
	if c.HasOracle() && n > 0 {
		var sb strings.Builder
		sb.WriteString("c03.shred_rows ")
		sb.WriteString(ct.mschema)
		fuel := 1
		for _, m := range mvals {
			sb.WriteByte(' ')
			m.text(&sb)
			if l := m.maxListLen(); l+1 > fuel {
				fuel = l + 1
			}
		}
		req := sb.String()
		want := c.Ask(req)
		got := columnsText(canon[ref], ncols)
		if want != got {
			if ok {
				c.Mismatch("corr:C03.shred", core.Trunc(req, 1500), got, want, replay())
			}
			ok = false
		} else {
			// assembly of the implementation's streams by the model
			var vs []string
			for _, m := range mvals {
				vs = append(vs, m.String())
			}
			areq := fmt.Sprintf("c03.asm %s %d %d %s", ct.mschema, n, fuel+1, got)
			if aw, ag := strings.Join(vs, " "), c.Ask(areq); aw != ag {
				if ok {
					c.Mismatch("corr:C03.asm", core.Trunc(areq, 1500), aw, ag, replay())
				}
				ok = false
			}
			// the model's typed path (column at a time) on the same batch, both cuttings
			if n <= 40 || n%16 == 1 {
				pols := []string{"0", "1", "2"}
				if n > 200 {
					pols = []string{"2"} // big batches: the bitmap scanner cutting only
				}
				for _, pol := range pols {
					breq := "c03.batch " + pol + " " + strings.TrimPrefix(req, "c03.shred_rows ")
					if bg := c.Ask(breq); bg != got {
						if ok {
							c.Mismatch("corr:C03.batch", core.Trunc(breq, 1500), got, bg, replay())
						}
						ok = false
					}
				}
			}
		}
		if wantVm && ok && n <= 6 && len(got) < 1500 && len(vmCases) < 120 {
			vc := vmCase{schema: ct.coqSchema, cols: canon[ref], ncols: ncols}
			for _, m := range mvals {
				var b strings.Builder
				m.coq(&b)
				vc.rows = append(vc.rows, b.String())
			}
			vmCases = append(vmCases, vc)
		}
	}
	return ok
}

// report records what was found (also while probing silently) and reports it
func report(c *core.Ctx, class, what string, replay any) {
	lastWhat = class + ": " + what
	c.Violation(class, what, replay)
}

var lastWhat string

// runCase checks a batch; a failing batch is shrunk (fewer rows, then simpler
// values) before it is reported.
func runCase(c *core.Ctx, ct *cat, rows reflect.Value, split []int, bucket string, wantVm bool) bool {
	for k := range hungPaths {
		delete(hungPaths, k)
	}
	h0 := hangs
	emptyStyle = nextEmptyStyle(c)
	defer func() { emptyStyle = 0 }()
	{
		var plain, homed int
		styled := rows
		if emptyStyle != 0 {
			styled = deepCopy(rows)
			restyleEmpties(styled, emptyStyle)
		}
		emptyCensus(styled, &plain, &homed)
		emptyPlain, emptyHomed = emptyPlain+plain, emptyHomed+homed
		if plain > 0 && homed > 0 {
			emptyMixed++
		}
		emptyCases[emptyStyle]++
	}
	failed := c.Probe(func() { checkCase(c, ct, rows, split, false) })
	if failed {
		shrinkBudget = 400
		if hangs > h0 {
			shrinkBudget = 12 // every probe of a hanging case costs the timeout
		}
		first := lastWhat
		min, msplit := shrinkCase(c, ct, rows, split)
		if !c.Probe(func() { checkCase(c, ct, min, msplit, false) }) {
			// the failure did not recur on the same input: it is reported as it was seen
			c.Violation("unstable-result:"+ct.name, fmt.Sprintf("type %s, %d rows: a failure was observed once and not again on the same batch (the outcome depends on something else than the input); first observed: %s", ct.name, rows.Len(), core.Trunc(first, 1500)), mkReplay(ct, rows, split))
		}
		checkCase(c, ct, min, msplit, false)
		for p := range hungPaths {
			if !pathDisabled[p] {
				pathDisabled[p] = true
				c.Note("path %s did not return on a %s batch (reported); it is switched off for the rest of the run", pathNames[p], ct.name)
			}
		}
	} else if wantVm {
		checkCase(c, ct, rows, split, true)
	}
	var key []byte
	if ct.dyn {
		key, _ = json.Marshal(encDyn(rows))
	} else {
		key, _ = json.Marshal(rows.Interface())
	}
	c.Case(bucket, ct.name+fmt.Sprint(split)+string(key), rows.Len() >= 2)
	return !failed
}

var shrinkBudget = 400

var bigTime time.Duration

// validRows: the shrinker must not turn a batch into one the library is not
// required to accept (a required UUID string that does not parse, a byte slice
// of the wrong size for a fixed size column, nil at a required interface leaf)
func validRows(ct *cat, rows reflect.Value) (ok bool) {
	if !ct.nodeGen {
		return true
	}
	defer func() {
		if r := recover(); r != nil {
			ok = false
		}
	}()
	for i := 0; i < rows.Len(); i++ {
		mValue(ct.schema, rows.Index(i))
	}
	return true
}

func sliceWithout(v reflect.Value, start, count int) reflect.Value {
	out := reflect.MakeSlice(v.Type(), 0, v.Len()-count)
	out = reflect.AppendSlice(out, v.Slice(0, start))
	out = reflect.AppendSlice(out, v.Slice(start+count, v.Len()))
	return out
}

func shrinkCase(c *core.Ctx, ct *cat, rows reflect.Value, split []int) (reflect.Value, []int) {
	budget := shrinkBudget
	fails := func(r reflect.Value, sp []int) bool {
		if budget <= 0 || !validRows(ct, r) {
			return false
		}
		budget--
		return c.Probe(func() { checkCase(c, ct, r, sp, false) })
	}
	cur := deepCopy(rows)
	if len(split) > 0 && fails(cur, nil) {
		split = nil
	}
	// fewer rows
	for chunk := cur.Len() / 2; chunk >= 1 && budget > 0; chunk /= 2 {
		for start := 0; start+chunk <= cur.Len() && cur.Len() > chunk; {
			cand := sliceWithout(cur, start, chunk)
			if fails(cand, split) {
				cur = cand
			} else {
				start += chunk
			}
		}
	}
	// simpler values
	try := func() bool { return fails(cur, split) }
	for i := 0; i < cur.Len() && budget > 0; i++ {
		simplify(cur.Index(i), try)
	}
	return cur, split
}

// simplify tries to replace parts of v by simpler values while try() holds
func simplify(v reflect.Value, try func() bool) {
	if !v.CanSet() {
		return
	}
	attempt := func(nv reflect.Value) bool {
		old := reflect.New(v.Type()).Elem()
		old.Set(v)
		v.Set(nv)
		if try() {
			return true
		}
		v.Set(old)
		return false
	}
	switch v.Kind() {
	case reflect.Interface:
		if v.IsNil() {
			return
		}
		if attempt(reflect.Zero(v.Type())) {
			return
		}
		cp := reflect.New(v.Elem().Type()).Elem()
		cp.Set(v.Elem())
		simplify(cp, func() bool { v.Set(cp); return try() })
		v.Set(cp)
	case reflect.Pointer:
		if v.IsNil() {
			return
		}
		if attempt(reflect.Zero(v.Type())) {
			return
		}
		simplify(v.Elem(), try)
	case reflect.Struct:
		if _, ok := v.Interface().(time.Time); ok {
			if !v.IsZero() {
				attempt(reflect.Zero(v.Type()))
			}
			return
		}
		for i := 0; i < v.NumField(); i++ {
			simplify(v.Field(i), try)
		}
	case reflect.Slice:
		if v.IsNil() {
			return
		}
		if attempt(reflect.Zero(v.Type())) {
			return
		}
		if v.Type().Elem().Kind() == reflect.Uint8 {
			if v.Len() > 1 {
				attempt(v.Slice(0, 1))
			}
			return
		}
		for v.Len() > 0 {
			if !attempt(v.Slice(0, v.Len()-1)) {
				break
			}
		}
		for v.Len() > 1 {
			if !attempt(v.Slice(1, v.Len())) {
				break
			}
		}
		for i := 0; i < v.Len(); i++ {
			simplify(v.Index(i), try)
		}
	case reflect.Map:
		if v.IsNil() {
			return
		}
		if attempt(reflect.Zero(v.Type())) {
			return
		}
		for _, k := range v.MapKeys() {
			old := v.MapIndex(k)
			v.SetMapIndex(k, reflect.Value{})
			if try() {
				continue
			}
			cp := reflect.New(v.Type().Elem()).Elem()
			cp.Set(old)
			v.SetMapIndex(k, cp)
			simplify(cp, func() bool { v.SetMapIndex(k, cp); return try() })
			v.SetMapIndex(k, cp)
		}
	case reflect.String:
		if v.Len() > 0 && !attempt(reflect.Zero(v.Type())) && v.Len() > 1 {
			attempt(reflect.ValueOf("a").Convert(v.Type()))
		}
	case reflect.Array:
		if !v.IsZero() && !attempt(reflect.Zero(v.Type())) {
			one := reflect.New(v.Type()).Elem()
			one.Index(0).SetUint(1)
			attempt(one)
		}
	case reflect.Bool:
		if v.Bool() {
			attempt(reflect.Zero(v.Type()))
		}
	case reflect.Int, reflect.Int8, reflect.Int16, reflect.Int32, reflect.Int64:
		if v.Int() != 0 && !attempt(reflect.Zero(v.Type())) && v.Int() != 1 {
			one := reflect.New(v.Type()).Elem()
			one.SetInt(1)
			attempt(one)
		}
	case reflect.Uint, reflect.Uint8, reflect.Uint16, reflect.Uint32, reflect.Uint64, reflect.Uintptr:
		if v.Uint() != 0 && !attempt(reflect.Zero(v.Type())) && v.Uint() != 1 {
			one := reflect.New(v.Type()).Elem()
			one.SetUint(1)
			attempt(one)
		}
	case reflect.Float32, reflect.Float64:
		if math.Float64bits(v.Float()) != 0 && !attempt(reflect.Zero(v.Type())) && v.Float() != 1 {
			one := reflect.New(v.Type()).Elem()
			one.SetFloat(1)
			attempt(one)
		}
	}
}

// ---------------------------------------------------------------------------
// value generation
// ---------------------------------------------------------------------------

type gen struct {
	rng    *rand.Rand
	ct     *cat
	modes  map[string]int // per field path: how the field follows the run pattern
	cur    bool           // the pattern flag of the current row / element
	budget int            // remaining values of the batch (bounds long lists)
}

// pattern returns n flags made of runs
func pattern(rng *rand.Rand, n int) []bool {
	out := make([]bool, n)
	switch rng.Intn(6) {
	case 0: // constant
		b := rng.Intn(2) == 0
		for i := range out {
			out[i] = b
		}
	case 1, 2: // one run of length 1..130 at some offset, the rest opposite
		b := rng.Intn(2) == 0
		off := rng.Intn(n + 1)
		l := 1 + rng.Intn(130)
		for i := range out {
			out[i] = b != (i >= off && i < off+l)
		}
	case 3: // runs with lengths around word sizes
		lens := []int{1, 1, 2, 3, 7, 8, 9, 31, 32, 33, 62, 63, 64, 65, 66, 127, 128, 129, 130}
		b := rng.Intn(2) == 0
		for i := 0; i < n; {
			l := lens[rng.Intn(len(lens))]
			for k := 0; k < l && i < n; k, i = k+1, i+1 {
				out[i] = b
			}
			b = !b
		}
	case 4: // short runs
		b := rng.Intn(2) == 0
		for i := 0; i < n; {
			l := 1 + rng.Intn(4)
			for k := 0; k < l && i < n; k, i = k+1, i+1 {
				out[i] = b
			}
			b = !b
		}
	default: // independent
		p := rng.Float64()
		for i := range out {
			out[i] = rng.Float64() < p
		}
	}
	return out
}

// nullish decides whether the nullable site at path is generated null-like
// (nil pointer, zero scalar, nil / empty slice or map)
func (g *gen) nullish(path string) bool {
	m, ok := g.modes[path]
	if !ok {
		switch x := g.rng.Intn(20); {
		case x < 9:
			m = 0
		case x < 12:
			m = 1
		case x < 16:
			m = 2
		case x < 18:
			m = 3
		default:
			m = 4
		}
		g.modes[path] = m
	}
	switch m {
	case 0:
		return g.cur
	case 1:
		return !g.cur
	case 2:
		return g.rng.Intn(2) == 0
	case 3:
		return g.rng.Intn(12) == 0
	default:
		return g.rng.Intn(12) != 0
	}
}

var genStrings = []string{"a", "bc", "\x00", "héllo", "0", "zz", strings.Repeat("q", 40), " "}
var genFloats = []float64{1.5, -2.25, math.Copysign(0, -1), 3e38, -1e-40, 1, 1e300, math.SmallestNonzeroFloat64}

// fieldNode: the node of the struct field name below n (nil when n is unknown)
func fieldNode(n parquet.Node, name string) parquet.Node {
	if n == nil || n.Leaf() {
		return nil
	}
	for _, f := range n.Fields() {
		if f.Name() == name {
			return f
		}
	}
	return nil
}

// needsValue: a present value of group n must hold something (a required
// leaf somewhere below required groups)
func needsValue(n parquet.Node) bool {
	if n.Leaf() {
		return true
	}
	if isVariantNode(n) {
		return false
	}
	for _, f := range n.Fields() {
		if f.Required() && needsValue(f) {
			return true
		}
	}
	return false
}

func columnName(f reflect.StructField) (string, bool) {
	name := f.Name
	if tag, ok := f.Tag.Lookup("parquet"); ok {
		head := tag
		if k := strings.IndexByte(tag, ','); k >= 0 {
			head = tag[:k]
		}
		if head == "-" && tag != "-," {
			return "", false
		}
		if head != "" {
			name = head
		}
	}
	return name, true
}

func logicalOf(n parquet.Node) any {
	if n == nil || !n.Leaf() {
		return nil
	}
	if l := n.Type().LogicalType(); l != nil {
		return l.Value
	}
	return nil
}

func (g *gen) fill(v reflect.Value, path string) { g.fillN(nil, v, path) }

// fillN fills v; n is the schema node of v when the values are generated
// along the schema (ct.nodeGen), nil otherwise
func (g *gen) fillN(n parquet.Node, v reflect.Value, path string) {
	g.budget--
	switch v.Kind() {
	case reflect.Interface:
		if n != nil {
			if x := g.anyFor(n, path, false); x.IsValid() {
				v.Set(x)
			}
		}
	case reflect.Pointer:
		if g.nullish(path) {
			return
		}
		p := reflect.New(v.Type().Elem())
		g.fillN(n, p.Elem(), path+"*")
		v.Set(p)
	case reflect.Struct:
		if _, ok := v.Interface().(time.Time); ok {
			if !g.nullish(path) {
				sec := int64(g.rng.Intn(2000000000))
				if g.ct.nodeGen && g.rng.Intn(4) == 0 {
					sec = -sec // before 1970
				}
				v.Set(reflect.ValueOf(time.Unix(sec, int64(g.rng.Intn(1000000000))).UTC()))
			}
			return
		}
		for i := 0; i < v.NumField(); i++ {
			sf := v.Type().Field(i)
			if v.Field(i).CanSet() {
				fn := n
				if !sf.Anonymous {
					name, _ := columnName(sf)
					fn = fieldNode(n, name)
				}
				g.fillN(fn, v.Field(i), path+"."+sf.Name)
			} else if g.ct.nodeGen && v.Field(i).CanAddr() {
				// unexported fields hold data as well: they must be ignored
				switch sf.Type.Kind() {
				case reflect.Bool, reflect.Int, reflect.Int8, reflect.Int16, reflect.Int32, reflect.Int64, reflect.Uint, reflect.Uint8, reflect.Uint16,
					reflect.Uint32, reflect.Uint64, reflect.Float32, reflect.Float64, reflect.String:
					g.fillScalar(reflect.NewAt(sf.Type, unsafe.Pointer(v.Field(i).UnsafeAddr())).Elem(), false)
				}
			}
		}
	case reflect.Slice:
		if v.Type().Elem().Kind() == reflect.Uint8 {
			fixed := n != nil && n.Leaf() && n.Type().Kind() == parquet.FixedLenByteArray
			if v.Type() == reflect.TypeOf(json.RawMessage(nil)) && n != nil {
				fixed = true // the empty text is not JSON: nil (null) for an optional column only
			}
			if g.nullish(path) && !(fixed && !n.Optional()) { // a required fixed size column has no value for a nil slice
				if g.rng.Intn(2) == 0 && !fixed {
					v.Set(reflect.MakeSlice(v.Type(), 0, 0))
				}
				return
			}
			var b []byte
			switch {
			case v.Type() == reflect.TypeOf(json.RawMessage(nil)):
				b = []byte(genJSON[g.rng.Intn(len(genJSON))])
				_, tagged := logicalOf(n).(*format.JsonType)
				if !tagged && (b[0] == '"' || string(b) == "null") {
					b = []byte(`{"s":"x"}`) // a JSON string / null in a column without the json tag: known finding rawmessage-untagged-string
				}
				if tagged && n.Optional() && string(b) == "null" {
					b = []byte(`[null]`) // the text null in an optional json column: known finding rawmessage-json-null-typed
				}
			case n != nil && n.Leaf() && n.Type().Kind() == parquet.FixedLenByteArray:
				b = make([]byte, n.Type().Length())
				g.rng.Read(b)
				b[0] |= 1
			default:
				b = make([]byte, 1+g.rng.Intn(5))
				g.rng.Read(b)
			}
			v.SetBytes(b)
			return
		}
		if g.nullish(path) {
			if g.rng.Intn(2) == 0 {
				v.Set(reflect.MakeSlice(v.Type(), 0, 0))
			}
			return
		}
		en := n
		if n != nil && isListNode(n) {
			en = n.Fields()[0].Fields()[0]
		}
		k := 1 + g.rng.Intn(4)
		if g.ct.longLists && g.budget > 400 && g.rng.Intn(6) == 0 {
			k = 60 + g.rng.Intn(90)
		}
		if g.ct.hugeLists && g.budget > 1500 && g.rng.Intn(12) == 0 {
			k = 1025 + g.rng.Intn(200)
		}
		if g.budget < 0 {
			k = 1
		}
		s := reflect.MakeSlice(v.Type(), k, k)
		flags := pattern(g.rng, k)
		old := g.cur
		for i := 0; i < k; i++ {
			g.cur = flags[i]
			if e := s.Index(i); e.Kind() == reflect.Interface && en != nil && en == n {
				// []any on a repeated node: each element is one value of the node
				if x := g.anyFor(n, path+"[]", true); x.IsValid() {
					e.Set(x)
				}
			} else {
				g.fillN(en, e, path+"[]")
			}
		}
		g.cur = old
		v.Set(s)
	case reflect.Map:
		toGroup := n != nil && !n.Leaf() && !isMapNode(n)
		if g.nullish(path) && !(toGroup && needsValue(n) && !n.Optional()) {
			// (a map written to a group with required leaves must hold them:
			// nil only where the group is optional, never empty)
			if g.rng.Intn(2) == 0 && !(toGroup && needsValue(n)) {
				v.Set(reflect.MakeMap(v.Type()))
			}
			return
		}
		m := reflect.MakeMap(v.Type())
		old := g.cur
		if n != nil && !n.Leaf() && !isMapNode(n) {
			// a Go map written to a group: keys are the field names
			for _, f := range n.Fields() {
				if g.rng.Intn(5) == 0 && !f.Required() {
					continue
				}
				e := reflect.New(v.Type().Elem()).Elem()
				g.cur = g.rng.Intn(2) == 0
				g.fillN(f, e, path+"."+f.Name())
				m.SetMapIndex(reflect.ValueOf(f.Name()).Convert(v.Type().Key()), e)
			}
			g.cur = old
			v.Set(m)
			return
		}
		var kn, vn parquet.Node
		if n != nil && isMapNode(n) {
			for _, f := range n.Fields()[0].Fields() {
				if f.Name() == "key" {
					kn = f
				} else {
					vn = f
				}
			}
		}
		cnt := 1
		if g.ct.multimap {
			cnt = 1 + g.rng.Intn(4)
		}
		for i := 0; i < cnt; i++ {
			k := reflect.New(v.Type().Key()).Elem()
			g.cur = false
			if kn != nil {
				g.modes[path+"{k}"] = 3
				g.fillN(kn, k, path+"{k}")
				if k.IsZero() {
					g.fillScalar(k, false)
				}
			} else {
				g.fillScalar(k, false)
			}
			e := reflect.New(v.Type().Elem()).Elem()
			g.cur = g.rng.Intn(2) == 0
			g.fillN(vn, e, path+"{}")
			m.SetMapIndex(k, e)
		}
		g.cur = old
		v.Set(m)
	case reflect.String:
		zero := g.nullish(path)
		if v.Type() == reflect.TypeOf(json.Number("")) {
			if !zero {
				v.SetString(genNumbers[g.rng.Intn(len(genNumbers))])
			}
			return
		}
		if _, ok := logicalOf(n).(*format.UUIDType); ok {
			if !zero || !n.Optional() { // a required UUID column has no value for ""
				var u uuid.UUID
				g.rng.Read(u[:])
				v.SetString(u.String())
			}
			return
		}
		g.fillScalar(v, zero)
	default:
		g.fillScalar(v, g.nullish(path))
	}
}

var genNumbers = []string{"0", "1", "-1", "1.5", "1e3", "123456789012", "-0.25"}
var genJSON = []string{`{"a":1}`, `[1,2,3]`, `"s"`, `1.5`, `true`, `{"k":{"n":null}}`, `{}`, `[]`, `0`, `""`, `null`}

// anyFor generates the dynamic value of an interface-typed field for node n
// (invalid = nil interface); elem: the value is one element of the repeated n
func (g *gen) anyFor(n parquet.Node, path string, elem bool) reflect.Value {
	g.budget--
	switch {
	case !elem && n.Optional():
		if g.nullish(path) {
			return reflect.Value{}
		}
	case !elem && n.Repeated():
		if g.nullish(path) {
			if g.rng.Intn(2) == 0 {
				return reflect.ValueOf([]any{})
			}
			return reflect.Value{}
		}
		k := 1 + g.rng.Intn(4)
		if g.ct.longLists && g.budget > 400 && g.rng.Intn(6) == 0 {
			k = 60 + g.rng.Intn(90)
		}
		if g.budget < 0 {
			k = 1
		}
		flags := pattern(g.rng, k)
		old := g.cur
		out := make([]any, k)
		for i := range out {
			g.cur = flags[i]
			if x := g.anyFor(n, path+"[]", true); x.IsValid() {
				out[i] = x.Interface()
			}
		}
		g.cur = old
		return g.styled(reflect.ValueOf(out), n)
	}
	// a present value of node n
	switch {
	case isVariantNode(n):
		return reflect.ValueOf(genVariant[g.rng.Intn(len(genVariant))])
	case n.Leaf():
		return g.anyLeaf(n, path)
	case isListNode(n):
		en := n.Fields()[0].Fields()[0]
		if g.nullish(path + "()") {
			if g.rng.Intn(2) == 0 || elem || n.Optional() {
				return reflect.ValueOf([]any{})
			}
			return reflect.Value{}
		}
		k := 1 + g.rng.Intn(4)
		if g.budget < 0 {
			k = 1
		}
		flags := pattern(g.rng, k)
		old := g.cur
		out := make([]any, k)
		for i := range out {
			g.cur = flags[i]
			if x := g.anyFor(en, path+"()", false); x.IsValid() {
				out[i] = x.Interface()
			}
		}
		g.cur = old
		return reflect.ValueOf(out)
	case isMapNode(n):
		var vn parquet.Node
		for _, f := range n.Fields()[0].Fields() {
			if f.Name() != "key" {
				vn = f
			}
		}
		m := map[string]any{}
		if !g.nullish(path + "{}") {
			old := g.cur
			g.cur = g.rng.Intn(2) == 0
			if x := g.anyFor(vn, path+"{}", false); x.IsValid() {
				m[genStrings[g.rng.Intn(len(genStrings))]] = x.Interface()
			} else {
				m[genStrings[g.rng.Intn(len(genStrings))]] = nil
			}
			g.cur = old
		}
		return reflect.ValueOf(m)
	default:
		m := map[string]any{}
		for _, f := range n.Fields() {
			x := g.anyFor(f, path+"."+f.Name(), false)
			if x.IsValid() {
				m[f.Name()] = x.Interface()
			} else if g.rng.Intn(2) == 0 {
				m[f.Name()] = nil
			}
		}
		return reflect.ValueOf(m)
	}
}

var genVariant = []any{nil, true, int64(7), "v", 1.5, map[string]any{"k": int64(1)}, []any{int64(1), "x"}, int32(-3), false, ""}

// styled: now and then a typed slice instead of []any
func (g *gen) styled(v reflect.Value, n parquet.Node) reflect.Value {
	if !n.Leaf() || g.rng.Intn(4) != 0 {
		return v
	}
	l := v.Interface().([]any)
	if len(l) == 0 || l[0] == nil {
		return v
	}
	t := reflect.TypeOf(l[0])
	out := reflect.MakeSlice(reflect.SliceOf(t), len(l), len(l))
	for i, x := range l {
		if x == nil || reflect.TypeOf(x) != t {
			return v
		}
		out.Index(i).Set(reflect.ValueOf(x))
	}
	return out
}

// anyLeaf: a Go value of the natural type of the leaf, zero values included
func (g *gen) anyLeaf(n parquet.Node, path string) reflect.Value {
	zero := g.rng.Intn(4) == 0
	mk := func(x any) reflect.Value {
		v := reflect.New(reflect.TypeOf(x)).Elem()
		g.fillScalar(v, zero)
		return v
	}
	switch n.Type().Kind() {
	case parquet.Boolean:
		return mk(false)
	case parquet.Int32:
		return mk(int32(0))
	case parquet.Int64:
		if g.rng.Intn(3) == 0 {
			return mk(int(0))
		}
		return mk(int64(0))
	case parquet.Float:
		return mk(float32(0))
	case parquet.Double:
		return mk(float64(0))
	case parquet.ByteArray:
		if g.rng.Intn(3) == 0 {
			b := make([]byte, g.rng.Intn(4))
			g.rng.Read(b)
			return reflect.ValueOf(b)
		}
		return mk("")
	case parquet.FixedLenByteArray:
		a := reflect.New(reflect.ArrayOf(n.Type().Length(), reflect.TypeOf(byte(0)))).Elem()
		g.fillScalar(a, zero)
		if g.rng.Intn(3) == 0 {
			b := make([]byte, a.Len())
			reflect.Copy(reflect.ValueOf(b), a)
			return reflect.ValueOf(b)
		}
		return a
	case parquet.Int96:
		var x deprecated.Int96
		if !zero {
			x = deprecated.Int96{uint32(g.rng.Int63()), uint32(g.rng.Int63()), uint32(g.rng.Int63())}
		}
		return reflect.ValueOf(x)
	}
	panic("anyLeaf: " + n.Type().String())
}

func (g *gen) fillScalar(v reflect.Value, zero bool) {
	if zero {
		return
	}
	switch v.Kind() {
	case reflect.Bool:
		v.SetBool(true)
	case reflect.Int, reflect.Int8, reflect.Int16, reflect.Int32, reflect.Int64:
		bits := v.Type().Bits()
		var x int64
		switch g.rng.Intn(5) {
		case 0:
			x = 1
		case 1:
			x = -1
		case 2:
			x = int64(1)<<(bits-1) - 1
		case 3:
			x = -(int64(1) << (bits - 1))
		default:
			x = int64(g.rng.Intn(2000)) - 1000
			if x == 0 {
				x = 7
			}
			if bits == 8 {
				x = x%100 + 1
				if x == 0 {
					x = 5
				}
			}
		}
		v.SetInt(x)
	case reflect.Uint, reflect.Uint8, reflect.Uint16, reflect.Uint32, reflect.Uint64, reflect.Uintptr:
		bits := v.Type().Bits()
		var x uint64
		switch g.rng.Intn(4) {
		case 0:
			x = 1
		case 1:
			x = (uint64(1)<<(bits-1))*2 - 1
		case 2:
			x = uint64(1) << (bits - 1)
		default:
			x = uint64(1 + g.rng.Intn(200))
		}
		v.SetUint(x)
	case reflect.Float32:
		f := genFloats[g.rng.Intn(len(genFloats))]
		if math.Abs(f) > 3e38 {
			f = 2
		}
		v.SetFloat(float64(float32(f)))
		if float32(f) == 0 && math.Float32bits(float32(f)) == 0 {
			v.SetFloat(1)
		}
	case reflect.Float64:
		v.SetFloat(genFloats[g.rng.Intn(len(genFloats))])
	case reflect.String:
		v.SetString(genStrings[g.rng.Intn(len(genStrings))])
	case reflect.Array:
		for i := 0; i < v.Len(); i++ {
			v.Index(i).SetUint(uint64(g.rng.Intn(256)))
		}
		v.Index(g.rng.Intn(v.Len())).SetUint(uint64(1 + g.rng.Intn(255)))
	default:
		panic("fillScalar: " + v.Kind().String())
	}
}

func genBatch(rng *rand.Rand, ct *cat, n int) reflect.Value {
	g := &gen{rng: rng, ct: ct, modes: map[string]int{}, budget: 6000}
	rows := reflect.MakeSlice(reflect.SliceOf(ct.typ), n, n)
	flags := pattern(rng, n)
	var root parquet.Node
	if ct.nodeGen {
		root = ct.schema
	}
	for i := 0; i < n; i++ {
		g.cur = flags[i]
		if i > 0 && i%256 == 0 && g.budget < 3000 {
			g.budget = 3000 // big batches: every stretch of rows may hold lists
		}
		g.fillN(root, rows.Index(i), "")
	}
	return rows
}

func randSplit(rng *rand.Rand, n int) []int {
	switch rng.Intn(4) {
	case 0, 1:
		return nil // one call with the whole batch
	case 2:
		k := 1 + rng.Intn(n)
		return []int{k}
	default:
		var out []int
		for left := n; left > 0; {
			k := 1 + rng.Intn(70)
			out = append(out, k)
			left -= k
		}
		return out
	}
}

// ---------------------------------------------------------------------------
// the run
// ---------------------------------------------------------------------------

func runC03(c *core.Ctx) {
	c.Res.Rule = "catalogue of 137 entries = 92 compiled struct types under SchemaOf(T) or one or more explicit schemas: (1) required / `optional` scalars of every kind, pointers, repeated and LIST slices, nested lists, slices and maps of structs, embedded and nested structs, optional groups with repeated fields and vice versa, 3 levels of nesting; (1b) depth x width of struct embedding (types_embed.go): fields promoted through 3 and through 7 levels of embedded structs (index paths of length 3, 5, 6, 7 = the lengths at which an appended []int has spare capacity), every embedded struct at offset 0 / none at offset 0, several embedded structs side by side at each level, innermost structs of 3..5 sibling fields (one type; every kind), the same embedding below a named struct, a pointer, a repeated group, a LIST, a map value and an optional group, under SchemaOf(T) and explicit schemas (equal / sorted / sorted at every depth); (2) every struct tag option of schema.go makeNodeOf: int(n)/uint(n) narrower, equal, wider and of the other signedness than the Go type, uintptr, decimal on int32/int64/[n]byte/[]byte, date/timestamp(unit[:utc|local])/time(unit) on integers, time.Time, time.Duration and their pointers, uuid on [16]byte/string, enum, string, bytes, interval on [12]byte/parquet.Interval, geometry, geography, json on strings / byte slices / structs / maps / slices / numbers / map[string]any, json.RawMessage, json.Number, variant, delta/split/dict/plain and per-field codecs, `-`, `-,`, renamed and unexported fields (holding data), id(n), `optional` on every Go kind, parquet-key/parquet-value/parquet-element tags, byte arrays of 12 sizes, *map, []*struct, maps of lists / maps / structs, lists of >1024 elements; (3) `any` fields written with an explicit schema node (leaf of each physical type required/optional/repeated/LIST/optional LIST of optional; variant; map[string]any to required/optional groups; []any and []map[string]any to repeated groups and LISTs) at top level and below optional groups, repeated groups and LISTs, []any / map[string]any / map[string]string typed fields; (4) T with an explicit schema equal to SchemaOf(T), with the fields sorted (top level / every depth), optional<->required flipped, LIST<->repeated flipped, other physical / logical types. Values are generated along the schema: every nullable site (pointer, zero-able scalar, slice, map, interface) follows, inverts or ignores a per-row (and per-element) run pattern with runs of 1..130 crossing 64-row words; every case is written in one of three REPRESENTATIONS OF ITS EMPTY VALUES (empties.go; the style is part of the replay): as generated (the literal \"\" with a nil data pointer, make(T, 0)), every empty string and empty non-nil slice re-homed (zero-length substrings s[:0] / s[k:k] / s[len(s):] of a longer string, i.e. a string header with a data pointer and length 0; a[:0] / a[k:k] of a longer array, i.e. capacity > 0) in struct fields, pointer targets, list elements, map values and values held by interfaces, or every other one re-homed (both side by side in one column); the reuse regime lays such strings over its reused bytes with unsafe.String(p, 0) and keeps the capacity of such slices; the expected streams are computed from the Go VALUES and do not depend on the representation; batch sizes 1..200 plus one single Write call of 513..1300 rows per type (quick tier: every other type, alternating with the seed; every other of those also from reused memory); each batch goes through the fourteen ingestion paths (whole batch or split into several Write calls; the typed and the reflection buffer additionally with the rows reversed through Swap before reading; the RowBuffer additionally read column by column: the page of each column chunk cut in two with Slice, every other part cloned, read 1, 2 or 3 values at a time, its level arrays compared with the levels of its values), and every case (quick tier: the corpus, the batches of the size table and every other of the single big Write calls) a second time from REUSED CALLER MEMORY: thirteen entry points (the eleven Write / WriteRows / WriteRowValues paths of the matrix plus RowBuffer[T].WriteRows and Buffer.WriteRows of rows deconstructed from the store) are each fed, with the same calls, from one reused backing store (the same []T / []*T / []any / []Row / []Value, the same byte regions behind byte slices and strings, arrays inline, pooled nested slices, maps and pointer targets refilled in place) that is overwritten with a poison pattern as soon as each call has returned and before the next batch is laid out over it, the rows handed to WriteRows / WriteRowValues included; predicate: identical (column, value, r, d) sequences per row on every path, the streams stored from reused (and since overwritten) caller memory exactly those of the same path on fresh memory, Reconstruct(Deconstruct(v)) = v up to nil/empty where Reconstruct is lossless; correspondence: Deconstruct streams = model shred_rows (= model shred_batch) on the harness' Go-value -> model-value mapping, model asm of the streams = the value. Plus a regression batch per repaired defect, six known findings pinned on fixed inputs, and the null-run sweep: single-word patterns with <= 3 runs at every in-word offset through the typed path on optional fields of every null-index kernel, compared with the pattern and with the model's scan. A case = (type, batch, split); non-trivial = at least 2 rows; distinct by type + JSON of the batch."
	t0 := time.Now()
	debug.SetGCPercent(400)                    // the writers allocate their page buffers anew for every case
	if pf := os.Getenv("C03_PROF"); pf != "" { // debugging aid
		if f, err := os.Create(pf); err == nil {
			pprof.StartCPUProfile(f)
			defer pprof.StopCPUProfile()
		}
	}
	var cats []*cat
	for _, ct := range catalogue() {
		if only := os.Getenv("C03_ONLY"); only != "" && !strings.Contains(","+only+",", ","+ct.name+",") {
			continue // debugging aid
		}
		if ct.broken != "" {
			report(c, "schema-panic:"+ct.name, fmt.Sprintf("type %s: building the schema / the catalogue entry panicked: %s", ct.name, ct.broken), ct.name)
			continue
		}
		cats = append(cats, ct)
	}
	byName := map[string]*cat{}
	for _, ct := range cats {
		byName[ct.name] = ct
	}
	// the model's maximum levels against the library's, once per type
	if c.HasOracle() {
		for _, ct := range cats {
			want := c.Ask("c03.maxlevels " + ct.mschema)
			if got := strings.Join(ct.maxLevels, ","); got != want {
				c.Mismatch("corr:C03.maxlevels", ct.name+" "+ct.mschema, got, want, nil)
			}
		}
	}

	corpus(c, byName)
	corpus2(c, byName)
	if os.Getenv("C03_ONLY") == "" {
		runKnown(c)
	}

	// which path GenericWriter[T] takes, per type
	{
		var typed, refl []string
		for _, ct := range cats {
			if !ct.explicit {
				continue
			}
			if ct.typedW {
				typed = append(typed, ct.name)
			} else {
				refl = append(refl, ct.name)
			}
		}
		c.Note("%d catalogue types; %d written with SchemaOf(T) (GenericWriter[T], GenericWriter[*T], GenericBuffer[T], GenericBuffer[*T]: typed path writeRowsFuncOf); %d with an explicit schema handed to every constructor: GenericBuffer[T]/[*T] always take the typed path on the explicit schema; GenericWriter[T]/[*T] take the typed path for the %d whose schema equals SchemaOf(T) [%s] and the reflection value writer (writeValueFuncOf) for the other %d [%s]",
			len(cats), len(cats)-len(typed)-len(refl), len(typed)+len(refl), len(typed), strings.Join(typed, " "), len(refl), strings.Join(refl, " "))
	}

	// generated batches
	sizes := []int{1, 2, 3, 5, 8, 9, 15, 16, 17, 33, 63, 64, 65, 66, 100, 127, 128, 129, 130, 131, 192, 200}
	bigSizes := []int{513, 600, 1025, 1100, 1300}
	for ti, ct := range cats {
		rng := rand.New(rand.NewSource(c.Rng.Int63()))
		if tooManyHangs(c) {
			break
		}
		tType := time.Now()
		if c.Quick() {
			perType := c.N(10, 0)
			if ct.perType > 0 {
				perType = ct.perType
			}
			for k := 0; k < perType && !tooManyHangs(c); k++ {
				n := sizes[(k*7+ti*3)%len(sizes)]
				if k%3 == 2 {
					n = 1 + rng.Intn(200)
				}
				rows := genBatch(rng, ct, n)
				// (quick tier: the batches of the size table also from reused caller memory, the random sizes not)
				withReuse = reuseEnabled && k%3 != 2
				runCase(c, ct, rows, randSplit(rng, n), "gen/"+ct.name, k < 1)
				withReuse = reuseEnabled
				if ti < 3 && k == 0 {
					c.Sample(mkReplay(ct, rows.Slice(0, min(2, n)), nil))
				}
			}
			// one Write call of more than 512 / more than 1024 rows
			// (quick tier: every other type, alternating with the seed)
			if (ti+int(c.Seed))%2 == 0 {
				n := bigSizes[(ti/2+int(c.Seed))%len(bigSizes)]
				tBig := time.Now()
				// (quick tier: every other of these also from reused caller memory)
				withReuse = reuseEnabled && (ti/2)%2 == 0
				runCase(c, ct, genBatch(rng, ct, n), nil, "big/"+ct.name, false)
				withReuse = reuseEnabled
				bigTime += time.Since(tBig)
			}
		} else {
			for n := 1; n <= 200 && !tooManyHangs(c); n++ {
				rows := genBatch(rng, ct, n)
				runCase(c, ct, rows, randSplit(rng, n), "gen/"+ct.name, n <= 3)
			}
			for k := 0; k < 60 && !tooManyHangs(c); k++ {
				n := sizes[rng.Intn(len(sizes))]
				rows := genBatch(rng, ct, n)
				runCase(c, ct, rows, randSplit(rng, n), "gen/"+ct.name, false)
			}
			for _, n := range bigSizes {
				runCase(c, ct, genBatch(rng, ct, n), nil, "big/"+ct.name, false)
				runCase(c, ct, genBatch(rng, ct, n+rng.Intn(100)), []int{n - 1}, "big/"+ct.name, false)
			}
		}
		if os.Getenv("C03_TIMES") != "" { // debugging aid
			fmt.Fprintf(os.Stderr, "TIME %-28s %6.2fs\n", ct.name, time.Since(tType).Seconds())
		}
	}
	c.Note("representation of empty values: %d cases as generated (literal \"\", make(T, 0)), %d with every empty string / empty non-nil slice re-homed (zero-length substring s[:0] / s[k:k] / s[len(s):] of a longer string, a[:0] / a[k:k] of a longer array), %d with every other one re-homed; %d empty strings written with a nil data pointer, %d with a data pointer, %d cases held both", emptyCases[0], emptyCases[1], emptyCases[2], emptyPlain, emptyHomed, emptyMixed)
	c.Note("%d cases were also written from reused caller memory (13 entry points each, poisoned after every call) and compared with the fresh-memory streams", reuseCases)
	if !c.Quick() {
		c.Note("every batch size 1..200 for every catalogue type (%d types), and single Write calls of 513, 600, 1025, 1100 and 1300 rows", len(cats))
	} else {
		c.Note("every other catalogue type (alternating with the seed; all of them in the thorough tier) also with one Write call of 513..1300 rows")
	}

	t1 := time.Now()
	if os.Getenv("C03_NOSWEEP") == "" { // debugging aid only
		runSweep(c)
	}
	c.Note("wall time: catalogue batches %.1fs (of which the single Write calls of 513..1300 rows %.1fs), null-run sweep %.1fs", t1.Sub(t0).Seconds(), bigTime.Seconds(), time.Since(t1).Seconds())
	writeVm(c)
}

func min(a, b int) int {
	if a < b {
		return a
	}
	return b
}

func replayC03(c *core.Ctx, raw json.RawMessage) {
	var kn struct {
		Known string `json:"known"`
	}
	if err := json.Unmarshal(raw, &kn); err == nil && kn.Known != "" {
		runKnown(c)
		return
	}
	var r caseReplay
	if err := json.Unmarshal(raw, &r); err != nil || r.Type == "" {
		var s sweepReplay
		if err := json.Unmarshal(raw, &s); err == nil && s.Sweep != "" {
			sweepCheck(c, &s, true)
			c.Case("replay", s.Sweep, true)
			return
		}
		c.Note("replay is not a C03 case; rerun the check with the recorded seed")
		return
	}
	for _, ct := range catalogue() {
		if ct.name == r.Type {
			rows := reflect.New(reflect.SliceOf(ct.typ))
			var err error
			if ct.dyn {
				var x any
				if err = json.Unmarshal(r.Rows, &x); err == nil {
					err = func() (err error) {
						defer func() {
							if r := recover(); r != nil {
								err = fmt.Errorf("%v", r)
							}
						}()
						return decDyn(rows.Elem(), x)
					}()
				}
			} else {
				err = json.Unmarshal(r.Rows, rows.Interface())
			}
			if err != nil {
				c.Note("replay rows do not decode: %v", err)
				return
			}
			emptyStyle = r.Empties
			checkCase(c, ct, rows.Elem(), r.Split, false)
			c.Case("replay", ct.name+string(r.Rows), true)
			return
		}
	}
	c.Note("unknown catalogue type %q", r.Type)
}

// writeVm emits cases.v: a sample of (schema, rows, streams of the library)
// re-evaluated with vm_compute against shred_rows, and scanner cases.
func writeVm(c *core.Ctx) {
	c.Vm("From Coq Require Import List Arith NArith Bool.\nFrom PQ Require Import Dremel.Model Dremel.NullRuns.\nImport ListNotations.")
	c.Vm("Definition L := (nat * N)%type.")
	c.Vm("Definition leaf_eqb (a b : L) : bool := Nat.eqb (fst a) (fst b) && N.eqb (snd a) (snd b).")
	c.Vm("Definition ent_eqb (a b : option L * nat * nat) : bool :=\n  match a, b with\n  | (Some x, r, d), (Some y, r', d') => leaf_eqb x y && Nat.eqb r r' && Nat.eqb d d'\n  | (None, r, d), (None, r', d') => Nat.eqb r r' && Nat.eqb d d'\n  | _, _ => false\n  end.")
	c.Vm("Fixpoint list_eqb {A} (f : A -> A -> bool) (a b : list A) : bool :=\n  match a, b with\n  | [], [] => true\n  | x :: a', y :: b' => f x y && list_eqb f a' b'\n  | _, _ => false\n  end.")
	var cs []string
	for _, vc := range vmCases {
		cols := make([][]string, vc.ncols)
		for _, r := range vc.cols {
			for _, e := range r {
				cols[e.col] = append(cols[e.col], fmt.Sprintf("(%s, %d, %d)", coqLeafOfHex(e.val), e.r, e.d))
			}
		}
		var cl []string
		for _, x := range cols {
			cl = append(cl, core.CoqList(x))
		}
		cs = append(cs, fmt.Sprintf("(%s,\n   %s,\n   %s)", vc.schema, core.CoqList(vc.rows), core.CoqList(cl)))
	}
	c.Vm("Definition cases : list (schema * list (value L) * list (list (option L * nat * nat))) := [\n  " + strings.Join(cs, ";\n  ") + "].")
	c.Vm("Definition bad1 := map fst (filter (fun '(i, (s, rows, exp)) => negb (list_eqb (list_eqb ent_eqb) (shred_rows s rows) exp)) (combine (seq 0 (length cases)) cases)).")
	var ss []string
	for _, sc := range vmScans {
		var ws, rs []string
		for _, w := range sc.words {
			ws = append(ws, core.CoqN(w))
		}
		for _, r := range sc.runs {
			rs = append(rs, fmt.Sprintf("(%s, %d%%N, %d%%N)", core.CoqBool(r[0] == 1), r[1], r[2]))
		}
		ss = append(ss, fmt.Sprintf("(%s, %d%%N, %s)", core.CoqList(ws), sc.n, core.CoqList(rs)))
	}
	c.Vm("Definition scases : list (list N * N * list (bool * N * N)) := [\n  " + strings.Join(ss, ";\n  ") + "].")
	c.Vm("Definition run_eqb (a b : bool * N * N) : bool := Bool.eqb (fst (fst a)) (fst (fst b)) && N.eqb (snd (fst a)) (snd (fst b)) && N.eqb (snd a) (snd b).")
	c.Vm("Definition bad2 := map fst (filter (fun '(i, (ws, n, exp)) => negb (list_eqb run_eqb (scan ws n) exp && runs_partitionb ws n exp)) (combine (seq 0 (length scases)) scases)).")
	c.Vm("Definition M := Eval vm_compute in (length cases + length scases, bad1 ++ bad2).\nPrint M.")
	c.Res.VmCases = len(vmCases) + len(vmScans)
}
