package main

// The representation of empty values.  The Go value "" (and an empty, non-nil
// slice) has many representations: the string header of the literal "" holds a
// nil data pointer, the header of a zero-length SUBSTRING of a longer string
// (s[i:i], what strings.TrimSpace / TrimPrefix / Cut / Fields hand out for an
// input line, or a string laid over reused bytes with unsafe.String) holds a
// pointer into the longer string and the length 0; an empty slice may have a
// capacity (buf[:0], a[k:k]) or none.  They are equal Go values (s == "",
// len(b) == 0, reflect.Value.IsZero), so which positions are null, and every
// stored value and level, must not depend on the representation: the model
// value (mValue / goNull / leafBytes) is computed from the Go VALUE and is the
// same for all of them.
//
// restyleEmpties rewrites, in a private copy of the batch that is handed to
// the ingestion paths, the representation of every empty string and every
// empty non-nil slice (struct fields, pointer targets, list elements, map
// values, values held by interfaces) according to the style of the case:
//
//	0  as generated / decoded (literal "", make(T, 0))
//	1  every empty value re-homed: strings alternately the head s[:0], an
//	   inner s[k:k] and the tail s[len(s):] of a longer string; slices
//	   alternately a[:0] and a[k:k] of a longer array (capacity > 0)
//	2  every other empty value re-homed (both representations side by side in
//	   the same column and the same list)
//
// The style is part of the replay (caseReplay.Empties), so that a case read
// back from JSON (whose empty strings are whatever encoding/json produces) is
// checked in the representation it failed in.

import (
	"math/rand"
	"reflect"
	"sort"
	"unsafe"

	"verif/harness/core"
)

// emptyStyle: the style of the case being checked (set by runCase / replay)
var emptyStyle int

// numEmptyStyles: styles 0..2
const numEmptyStyles = 3

// emptyHome: the longer string the re-homed empty strings are cut from
var emptyHome = string([]byte("   the line of input the empty strings are cut from   "))

type restyler struct {
	style int
	count int // empty values met so far
}

func init() {
	// the harness relies on zero-length substrings keeping a data pointer
	for _, s := range []string{emptyHome[:0], emptyHome[7:7], emptyHome[len(emptyHome):]} {
		if s != "" || unsafe.StringData(s) == nil {
			panic("empties.go: a zero-length substring without data pointer")
		}
	}
}

// rehome: does the next empty value get another representation
func (r *restyler) rehome() (bool, int) {
	k := r.count
	r.count++
	switch r.style {
	case 1:
		return true, k
	case 2:
		return k%2 == 0, k / 2
	}
	return false, 0
}

func (r *restyler) emptyString(k int) string {
	switch k % 3 {
	case 0:
		return emptyHome[:0]
	case 1:
		i := 1 + (k/3)%(len(emptyHome)-1)
		return emptyHome[i:i]
	}
	return emptyHome[len(emptyHome):]
}

func (r *restyler) emptySlice(t reflect.Type, k int) reflect.Value {
	a := reflect.MakeSlice(t, 4, 4)
	if k%2 == 0 {
		return a.Slice(0, 0) // capacity 4
	}
	return a.Slice3(2, 2, 3) // an inner position, capacity 1
}

// restyleEmpties rewrites the representation of the empty values of v (which
// must be addressable: a private deep copy)
func restyleEmpties(v reflect.Value, style int) {
	if style == 0 {
		return
	}
	r := &restyler{style: style}
	r.walk(v)
}

func (r *restyler) walk(v reflect.Value) {
	switch v.Kind() {
	case reflect.Pointer:
		if !v.IsNil() {
			r.walk(v.Elem())
		}
	case reflect.Interface:
		if v.IsNil() {
			return
		}
		e := reflect.New(v.Elem().Type()).Elem()
		e.Set(v.Elem())
		r.walk(e)
		if v.CanSet() {
			v.Set(e)
		}
	case reflect.Struct:
		if v.Type() == timeType {
			return
		}
		for i := 0; i < v.NumField(); i++ {
			if v.Field(i).CanSet() {
				r.walk(v.Field(i))
			}
		}
	case reflect.Slice:
		if v.IsNil() {
			return
		}
		if v.Len() == 0 {
			if ok, k := r.rehome(); ok && v.CanSet() {
				v.Set(r.emptySlice(v.Type(), k))
			}
			return
		}
		if v.Type().Elem().Kind() == reflect.Uint8 {
			return
		}
		for i := 0; i < v.Len(); i++ {
			r.walk(v.Index(i))
		}
	case reflect.Map:
		if v.IsNil() {
			return
		}
		// (keys are never empty: see fillN; values in key order so that the
		// outcome does not depend on the iteration order)
		keys := v.MapKeys()
		sort.Slice(keys, func(i, j int) bool { return keyLess(keys[i], keys[j]) })
		for _, k := range keys {
			e := reflect.New(v.Type().Elem()).Elem()
			e.Set(v.MapIndex(k))
			r.walk(e)
			v.SetMapIndex(k, e)
		}
	case reflect.String:
		if v.Len() == 0 && v.CanSet() {
			if ok, k := r.rehome(); ok {
				v.SetString(r.emptyString(k))
			}
		}
	case reflect.Array:
		if v.Type().Elem().Kind() == reflect.Uint8 {
			return
		}
		for i := 0; i < v.Len(); i++ {
			r.walk(v.Index(i))
		}
	}
}

// emptyCensus counts the empty strings of v by representation (coverage note)
func emptyCensus(v reflect.Value, plain, homed *int) {
	switch v.Kind() {
	case reflect.Pointer, reflect.Interface:
		if !v.IsNil() {
			emptyCensus(v.Elem(), plain, homed)
		}
	case reflect.Struct:
		if v.Type() == timeType {
			return
		}
		for i := 0; i < v.NumField(); i++ {
			emptyCensus(v.Field(i), plain, homed)
		}
	case reflect.Slice, reflect.Array:
		if v.Type().Elem().Kind() == reflect.Uint8 {
			return
		}
		for i := 0; i < v.Len(); i++ {
			emptyCensus(v.Index(i), plain, homed)
		}
	case reflect.Map:
		for it := v.MapRange(); it.Next(); {
			emptyCensus(it.Value(), plain, homed)
		}
	case reflect.String:
		if v.Len() == 0 {
			if unsafe.StringData(v.String()) == nil {
				*plain++
			} else {
				*homed++
			}
		}
	}
}

// coverage counters
var (
	emptyCases                         [numEmptyStyles]int
	emptyPlain, emptyHomed, emptyMixed int
	emptyRng                           *rand.Rand
)

// nextEmptyStyle: the style of the next case: a quarter of the cases as
// generated, a quarter with every empty value re-homed, half of them mixed.
// (Its own generator, seeded from the run's seed, so that the batches of the
// run are those of the same seed before this dimension existed.)
func nextEmptyStyle(c *core.Ctx) int {
	if emptyRng == nil {
		emptyRng = rand.New(rand.NewSource(int64(c.Seed)*7919 + 3))
	}
	switch emptyRng.Intn(4) {
	case 0:
		return 0
	case 1:
		return 1
	}
	return 2
}
