package main

import (
	"encoding/json"
	"reflect"
	"time"

	"github.com/parquet-go/parquet-go"

	"verif/harness/core"
)

// corpus2: one small batch per defect repaired during the widening of the
// catalogue (the commit is named; the reverse patches are the mutants
// mutants/C03/rev_<commit>_*.diff)
func corpus2(c *core.Ctx, byName map[string]*cat) {
	one := func(name string, rows any) {
		ct := byName[name]
		if ct == nil {
			return
		}
		runCase(c, ct, reflect.ValueOf(rows), nil, "corpus", reflect.ValueOf(rows).Len() <= 6)
	}
	t := time.Date(2020, 1, 2, 3, 4, 5, 6000, time.UTC)
	i1 := int32(1)
	// 0de1bda: 64-bit Go integers on 32-bit columns; uintptr
	one("IntNarrow", []IntNarrow{{A: -2, B: 1<<32 + 7, C: 1<<40 - 1, D: 1 << 33, E: -1 << 35, F: 1<<63 + 5}, {}})
	one("UintptrT", []UintptrT{{A: 5, B: 6}, {}})
	// 97622b8: json.RawMessage / json.Number below an empty or nil group
	one("RawMessages", []RawMessages{{A: json.RawMessage(`1`), B: json.RawMessage(`{}`)}, {A: json.RawMessage(`[1]`), B: json.RawMessage(`"s"`), C: json.RawMessage(`2`)}})
	one("JSONNumbers", []JSONNumbers{{A: "0"}, {A: "1", B: "2"}})
	// 2a24e9d: optional uuid string holding ""
	one("UUIDs", []UUIDs{{B: "c0d0708a-1649-b987-2c30-bc404e8723a0"}, {B: "00000000-0000-0000-0000-000000000001", E: "c0d0708a-1649-b987-2c30-bc404e8723a0"}})
	// 43511b6: a column named "-"
	one("DashName", []DashName{{A: 5, D: "d", J: 9}, {}})
	// ae9cf72: parquet.Interval on the typed path
	one("Intervals", []Intervals{{B: parquet.Interval{Months: 1, Days: 2, Milliseconds: 3}}, {D: parquet.Interval{Days: 1}}, {}})
	// 9c1e470: json tag on structured Go values
	one("JSONValues", []JSONValues{{St: JIn{X: 1, Y: "<&>"}, M: map[string]int64{"k": 2, "a": 1}, L: []int32{1}, I: 3, F: 1.5, Bo: true}, {}})
	// 61fb6eb: uuid tag on strings, 783fee7: optional json.Number: covered by UUIDs / JSONNumbers above
	// a5f18a1: time.Time on DATE columns; optional time.Time below a repeated / optional group
	one("TimeDate", []TimeDate{{D: t}, {}, {D: time.Unix(-86400*3-1, 0).UTC()}})
	one("TimeDatePtr", []TimeDatePtr{{D: &t}, {}})
	{
		var v TimeNested
		v.G = append(v.G, struct {
			T time.Time `parquet:"t,optional"`
			U time.Time `parquet:"u,timestamp(microsecond)"`
			V *time.Time
		}{T: t, U: t}, struct {
			T time.Time `parquet:"t,optional"`
			U time.Time `parquet:"u,timestamp(microsecond)"`
			V *time.Time
		}{V: &t})
		v.P = &struct {
			T time.Time `parquet:"t,optional"`
			W time.Time
		}{T: t}
		v.M = map[string]time.Time{"k": t}
		one("TimeNested", []TimeNested{v, {}})
	}
	// cef4299: time.Duration in the unit of the column
	one("Durations", []Durations{{Ms: 1500 * time.Millisecond, Us: 1500 * time.Millisecond, Ns: 7, Om: time.Second}, {}})
	// 1b54846 / 00c24f2 / 9deefb8: map entries written with the nodes of the schema
	one("MapTags", []MapTags{{D: map[string][]int32{"k": {1, 2}}}, {D: map[string][]int32{"k": nil}, E: map[string]time.Time{"t": t}}, {B: map[string]string{" ": "a"}}, {B: map[string]string{"z": ""}},
		{I: map[string]string{"c0d0708a-1649-b987-2c30-bc404e8723a0": "v"}}, {}})
	// 988718e: lists of optional lists
	one("ElemTags", []ElemTags{{D: [][]int32{{}}}, {D: [][]int32{{1}}}, {D: [][]int32{nil, {2, 3}}}, {}})
	// 2a912db: null optional variant; a985d57: zero values of a map[string]any
	one("AnyTop", []AnyTop{
		{G: map[string]any{"r": int32(1), "c": map[string]any{"e": int64(2)}}},
		{V: "x", Vo: int64(3), G: map[string]any{"a": int32(0), "r": int32(0), "c": map[string]any{"e": int64(0), "d": 0.0}}, Go: map[string]any{"a": int32(0), "r": int32(5), "c": map[string]any{"e": int64(1)}}},
		{G: map[string]any{"a": int32(4), "b": []any{"", "y"}, "r": int32(1), "c": map[string]any{"e": int64(2), "d": 1.5}}, L: []any{int64(0), int64(1)}, Lo: []any{nil, "", "z"}},
	})
	// 70fc9a4: explicit Group schema naming fields promoted from embedded structs
	one("Embedded2/sorted", []Embedded2{{Base: Base{ID: 7, Name: "n"}, Base2: Base2{Tags: []string{"t"}, P: &i1}, Z: 1}, {}})
	// cb100b2: Optional(List) schema for a slice without list tag
	one("ConvList", []ConvList{{D: []string{}}, {D: []string{"a", ""}}, {}, {A: []int32{1}, E: [][]byte{nil, {1}}}})
	// da83d2d: optional json strings
	one("JSONBytes", []JSONBytes{{So: "1", Bo: []byte("2")}, {}})
}
