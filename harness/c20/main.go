// C20 — compression codecs are lossless whatever was compressed before.
//
// Histories of Encode / Decode calls (valid inputs, failing inputs, every way of
// passing dst, every way the caller goes on using the source buffers, from one
// goroutine or from more goroutines than Ps) on the codec values exported by
// package parquet, which are shared process-wide; after each call the property predicate is evaluated:
// Decode(Encode(x)) == x, every answer equals the answer of a FRESH codec
// instance, no panic, no hang, no unbounded allocation on failing inputs.
// The histories on the real codecs run in a memory-capped child process.
// Ties to the Coq development: the extracted snappy / LZ4 format decoders are
// applied to what Go's Encode emits; the model of the pooled wrappers
// (compress.Compressor / Decompressor) is run against the REAL wrappers on the
// "magic byte" codec of Codec/Instance.v.
package main

import (
	"bytes"
	"encoding/json"
	"fmt"
	"math/rand"
	"os"
	"strings"
	"sync"
	"time"

	"github.com/parquet-go/parquet-go"

	"verif/harness/core"
)

func main() {
	if os.Getenv(childEnv) != "" {
		childMain()
		return
	}
	core.Main("C20", runC20, replayC20)
}

func pickStr(c *core.Ctx, xs ...string) string { return xs[c.Rng.Intn(len(xs))] }

func genInput(c *core.Ctx, maxSize int) inputSpec {
	var size int
	switch c.Rng.Intn(10) {
	case 0:
		size = 0
	case 1:
		size = 1
	case 2:
		size = 2 + c.Rng.Intn(14)
	case 3, 4:
		size = 16 + c.Rng.Intn(240)
	case 5, 6:
		size = 256 + c.Rng.Intn(4096)
	default:
		size = c.Rng.Intn(maxSize + 1)
	}
	if size > maxSize {
		size = maxSize
	}
	return inputSpec{Gen: pickStr(c, "rand", "rep", "text", "zero", "ramp", "mixed"), Size: size, Seed: int64(c.Rng.Intn(1 << 20))}
}

// genDst: a destination for a result of about size bytes: none, no capacity, a
// few bytes, any capacity below the size, the size itself and one byte less or
// more, much more, or the result of an earlier call.
func genDst(c *core.Ctx, size int) dstSpec {
	switch c.Rng.Intn(7) {
	case 0:
		return dstSpec{Mode: "nil"}
	case 1:
		return dstSpec{Mode: "zero"}
	case 2:
		return dstSpec{Mode: "small", Cap: 1 + c.Rng.Intn(16)}
	case 3:
		return dstSpec{Mode: "large", Cap: 2*size + 64 + c.Rng.Intn(512)}
	case 4:
		if size > 0 {
			return dstSpec{Mode: "large", Cap: size - 1 + c.Rng.Intn(3)} // exactly around the needed size
		}
		return dstSpec{Mode: "large", Cap: c.Rng.Intn(2)}
	case 5:
		return dstSpec{Mode: "small", Cap: 1 + c.Rng.Intn(size+1)} // short by any amount
	}
	return dstSpec{Mode: "alias"}
}

// genSrc: what the caller does with the source buffers after the call.
func genSrc(c *core.Ctx) string {
	return []string{"", "", "overwrite", "overwrite", "reuse"}[c.Rng.Intn(5)]
}

func genBad(c *core.Ctx, codec string, hostileMax int) op {
	o := op{Kind: "bad", DecDst: genDst(c, 64), Src: genSrc(c)}
	o.In = genInput(c, hostileMax)
	modes := []string{"trunc", "trunc", "flip", "flip", "tail", "tail", "garbage", "garbage", "gzhdr", "zstdhdr", "empty", "lz4len"}
	if codec == "magic" {
		modes = []string{"garbage", "empty", "gzhdr"}
	}
	m := modes[c.Rng.Intn(len(modes))]
	o.Bad = corruptSpec{Mode: m, Pos: c.Rng.Intn(1001), Bit: c.Rng.Intn(8), Seed: int64(c.Rng.Intn(1 << 20))}
	switch m {
	case "garbage", "gzhdr", "zstdhdr":
		o.Bad.Len = []int{0, 1, 2, 3, 5, 9, 17, 64, 300, 5000, hostileMax}[c.Rng.Intn(11)]
	case "lz4len":
		o.Bad.Len = []int{0, 1, 4, 40, 300, 4000}[c.Rng.Intn(6)]
	}
	return o
}

func genHistory(c *core.Ctx, codec string, nOps, maxSize, hostileMax int, badRatio int) *history {
	h := &history{Codec: codec}
	for i := 0; i < nOps; i++ {
		switch {
		case c.Rng.Intn(100) < badRatio:
			h.Ops = append(h.Ops, genBad(c, codec, hostileMax))
		case c.Rng.Intn(40) == 0:
			h.Ops = append(h.Ops, op{Kind: "gc"})
		default:
			in := genInput(c, maxSize)
			h.Ops = append(h.Ops, op{Kind: "rt", In: in, EncDst: genDst(c, in.Size), DecDst: genDst(c, in.Size), Src: genSrc(c)})
		}
	}
	return h
}

// ---- sizes at the thresholds of the formats ------------------------------------------
//
// Windows, blocks and offset limits of the formats are powers of two (gzip 32 KiB
// window, snappy / LZ4 64 KiB blocks and offsets, zstd 128 KiB blocks and 1-32 MiB
// windows that depend on the encoder level, brotli windows up to 16 MiB): inputs
// just below and just above each of them, for every codec value and every level.

var (
	smallBounds = []int{32 << 10, 64 << 10, 128 << 10}
	midBounds   = []int{1 << 20}
	bigBounds   = []int{4 << 20, 8 << 20, 16 << 20, 32 << 20}
)

// gensFor: the input generators used above 4 MiB.  A few encoder settings take
// seconds per MiB on text-like data (brotli quality >= 10, the LZ4 HC levels,
// gzip 9 on runs of zeros); they get the generators they handle quickly.
func gensFor(name string, size int) []string {
	all := []string{"rand", "rep", "text", "zero", "ramp", "mixed"}
	if size <= 4<<20+(1<<19) && !quickTier {
		return all
	}
	base, level := levelOf(name)
	switch {
	case base == "brotli" && (strings.HasPrefix(level, "10") || strings.HasPrefix(level, "11")):
		return []string{"rep", "ramp", "zero"}
	case base == "lz4" && level != "99":
		return []string{"rand", "rep", "ramp", "zero"}
	case base == "gzip" && level == "9":
		return []string{"rand", "rep", "ramp"}
	}
	return all
}

var quickTier bool

// boundaryHistory: round trips of inputs of B-1 or B, B+1 (and, when more is
// set, somewhere in the eighth above B) bytes for every B of bounds.
func boundaryHistory(c *core.Ctx, name string, bounds []int, more bool) *history {
	h := &history{Codec: name}
	for _, b := range bounds {
		sizes := []int{b - c.Rng.Intn(2), b + 1}
		if more {
			sizes = append(sizes, b+2+c.Rng.Intn(b/8))
		}
		for _, size := range sizes {
			g := gensFor(name, size)
			in := inputSpec{Gen: g[c.Rng.Intn(len(g))], Size: size, Seed: int64(c.Rng.Intn(1 << 20))}
			enc, dec := genDst(c, size), genDst(c, size)
			if size > 1<<20 && c.Rng.Intn(2) == 0 {
				enc, dec = dstSpec{Mode: "nil"}, dstSpec{Mode: "nil"}
			}
			h.Ops = append(h.Ops, op{Kind: "rt", In: in, EncDst: enc, DecDst: dec})
		}
		if b >= 1<<20 {
			h.DeadlineS = 600 // the slowest settings need tens of seconds for one call at these sizes
		}
	}
	return h
}

// boundaryHistories: quick - the small thresholds for every codec value and
// level, 4 and 8 MiB for the exported values and every zstd level; thorough -
// every threshold up to 32 MiB for every codec value and level.
func boundaryHistories(c *core.Ctx) []*history {
	var hs []*history
	for _, name := range codecNames(true) {
		small := smallBounds
		if !c.Quick() {
			small = append(append([]int(nil), smallBounds...), midBounds...)
		}
		hs = append(hs, boundaryHistory(c, name, small, !c.Quick()))
		if !c.Quick() {
			for _, b := range bigBounds {
				hs = append(hs, boundaryHistory(c, name, []int{b}, true))
			}
		} else if !strings.Contains(name, "@") || baseCodec(name) == "zstd" {
			hs = append(hs, boundaryHistory(c, name, bigBounds[:2], false))
		}
	}
	return hs
}

// ---- many goroutines, few Ps, pages of a few hundred KiB ---------------------------
//
// A call on such a page runs for longer than the scheduler's time slice: with
// fewer Ps than goroutines it is descheduled half way and other goroutines make
// their calls on the same P (so with the same per-P pool slots) before it is
// resumed.  Every goroutine round-trips a page of every input kind on the one
// codec value and compares what it gets with its own input.

// stormMax: the largest page of a storm; the settings that take seconds per
// MiB get smaller pages, their calls outlast a time slice all the same.
func stormMax(c *core.Ctx, name, gen string) int {
	base, level := levelOf(name)
	switch {
	case base == "brotli" && (strings.HasPrefix(level, "10") || strings.HasPrefix(level, "11")):
		return c.N(16<<10, 64<<10)
	case base == "brotli" && strings.HasPrefix(level, "9"):
		return c.N(48<<10, 128<<10)
	case base == "zstd" && level == "4":
		return c.N(128<<10, 512<<10)
	case base == "gzip" && level == "9" && (gen == "zero" || gen == "rep" || gen == "mixed"):
		return c.N(24<<10, 64<<10) // runs of one byte: a second per MiB
	}
	return c.N(320<<10, 1<<20)
}

func stormHistory(c *core.Ctx, name string) *history {
	h := &history{Codec: name, Goroutines: c.N(6, 8) + c.Rng.Intn(5), Procs: []int{1, 2, 2, 4}[c.Rng.Intn(4)], DeadlineS: 100}
	gens := []string{"rand", "rep", "text", "zero", "ramp", "mixed"}
	c.Rng.Shuffle(len(gens), func(i, j int) { gens[i], gens[j] = gens[j], gens[i] })
	for _, g := range gens {
		max := stormMax(c, name, g)
		in := inputSpec{Gen: g, Size: max/4 + c.Rng.Intn(max-max/4+1), Seed: int64(c.Rng.Intn(1 << 20))}
		// dst: none, or the buffers of the goroutine's previous call (the usual reuse)
		enc, dec := dstSpec{Mode: "nil"}, dstSpec{Mode: "nil"}
		if c.Rng.Intn(2) == 0 {
			enc, dec = dstSpec{Mode: "alias"}, dstSpec{Mode: "alias"}
		}
		h.Ops = append(h.Ops, op{Kind: "rt", In: in, EncDst: enc, DecDst: dec, Src: genSrc(c)})
	}
	return h
}

// ---- running and reporting ----------------------------------------------------

// outcomeOf runs a history in a child process (also the test codec: a broken
// wrapper may loop forever) and flattens what happened into failures.
func outcomeOf(h *history) ([]failure, *execResult) {
	cr := runChild(h, 5*time.Minute)
	if cr.Res != nil {
		return cr.Res.Fails, cr.Res
	}
	at := cr.LastOp
	class := cr.Death
	what := ""
	if at >= 0 && at < len(h.Ops) && h.Ops[at].Kind == "bad" {
		ci := codecByName(h.Codec)
		src := hostileSrc(ci, &h.Ops[at])
		what = fmt.Sprintf("%s.Decode of a malformed input (%s, %d bytes: %s): ", h.Codec, h.Ops[at].Bad.Mode, len(src), hx(src))
		if class == "memory" {
			class = allocClass(h.Codec, src)
		}
	} else if class == "memory" {
		class = "unbounded-allocation"
	}
	if class == "died" {
		class = "child-died"
	}
	return []failure{{Class: class, What: what + cr.Detail + " (the child process running the history was lost)", Op: at}}, nil
}

type done struct {
	fs  []failure
	res *execResult
}

// runAll runs the histories in child processes, six at a time.
func runAll(hs []*history) []done {
	results := make([]done, len(hs))
	var wg sync.WaitGroup
	sem := make(chan struct{}, 6)
	for i := range hs {
		wg.Add(1)
		sem <- struct{}{}
		go func(i int) {
			defer wg.Done()
			defer func() { <-sem }()
			t0 := time.Now()
			fs, res := outcomeOf(hs[i])
			results[i] = done{fs, res}
			if os.Getenv("C20_TIMING") != "" {
				fmt.Fprintf(os.Stderr, "timing %6.2fs %s goroutines=%d procs=%d ops=%d\n", time.Since(t0).Seconds(), hs[i].Codec, hs[i].Goroutines, hs[i].Procs, len(hs[i].Ops))
			}
		}(i)
	}
	wg.Wait()
	return results
}

func hasClass(fs []failure, class string) *failure {
	for i := range fs {
		if fs[i].Class == class {
			return &fs[i]
		}
	}
	return nil
}

// shrink reduces a failing history: the prefix up to the failing op, then that
// op alone, then earlier ops removed one by one, then smaller inputs.
func shrink(h *history, f failure, budget int) (*history, failure) {
	try := func(t *history) *failure {
		if budget <= 0 {
			return nil
		}
		budget--
		if t.DeadlineS == 0 {
			t.DeadlineS = h.DeadlineS
		}
		if f.Class == "hang" && h.Codec != "magic" && h.DeadlineS == 0 {
			t.DeadlineS = 5 // the inputs of such a history are small enough for any call to end within 5 s
		}
		fs, _ := outcomeOf(t)
		return hasClass(fs, f.Class)
	}
	cur, curF := h, f
	if h.Goroutines == 0 && f.Op >= 0 && f.Op < len(h.Ops)-1 {
		t := &history{Codec: h.Codec, Ops: append([]op(nil), h.Ops[:f.Op+1]...)}
		if g := try(t); g != nil {
			cur, curF = t, *g
		}
	}
	if h.Goroutines > 0 {
		t := &history{Codec: h.Codec, Ops: h.Ops}
		if g := try(t); g != nil { // also fails sequentially
			return shrink(t, *g, budget)
		}
		for _, n := range []int{2, 4} {
			if n < cur.Goroutines {
				t := &history{Codec: h.Codec, Ops: h.Ops, Goroutines: n, Procs: h.Procs}
				if g := try(t); g != nil {
					cur, curF = t, *g
					break
				}
			}
		}
		// fewer calls per goroutine (a failure that depends on the schedule may need more than one attempt)
		for i := 0; i < len(cur.Ops) && len(cur.Ops) > 1 && budget > 0; {
			t := &history{Codec: cur.Codec, Goroutines: cur.Goroutines, Procs: cur.Procs, Ops: append(append([]op(nil), cur.Ops[:i]...), cur.Ops[i+1:]...)}
			g := try(t)
			if g == nil {
				g = try(t)
			}
			if g != nil {
				cur, curF = t, *g
			} else {
				i++
			}
		}
		return cur, curF
	}
	if len(cur.Ops) > 1 {
		t := &history{Codec: cur.Codec, Ops: []op{cur.Ops[len(cur.Ops)-1]}}
		if g := try(t); g != nil {
			cur, curF = t, *g
		}
	}
	for i := 0; i < len(cur.Ops)-1 && budget > 0; {
		t := &history{Codec: cur.Codec, Ops: append(append([]op(nil), cur.Ops[:i]...), cur.Ops[i+1:]...)}
		if g := try(t); g != nil {
			cur, curF = t, *g
		} else {
			i++
		}
	}
	// smaller inputs / shorter garbage in the last op
	for budget > 0 {
		last := cur.Ops[len(cur.Ops)-1]
		changed := false
		for _, cand := range []func(o *op) bool{
			func(o *op) bool { o.In.Size /= 2; return last.In.Size > 0 },
			func(o *op) bool {
				o.Bad.Len /= 2
				return last.Bad.Len > 0 && last.Bad.Mode != "zstdfcs" && last.Bad.Mode != "snappylen"
			},
			func(o *op) bool {
				o.EncDst = dstSpec{Mode: "nil"}
				return last.EncDst.Mode != "nil" && last.EncDst.Mode != ""
			},
			func(o *op) bool {
				o.DecDst = dstSpec{Mode: "nil"}
				return last.DecDst.Mode != "nil" && last.DecDst.Mode != ""
			},
		} {
			o := last
			if !cand(&o) {
				continue
			}
			t := &history{Codec: cur.Codec, Ops: append(append([]op(nil), cur.Ops[:len(cur.Ops)-1]...), o)}
			if g := try(t); g != nil {
				cur, curF, changed = t, *g, true
				break
			}
		}
		if !changed {
			break
		}
	}
	// a size threshold: halving passes, the size itself fails; bisect between them
	if last := cur.Ops[len(cur.Ops)-1]; last.Kind == "rt" && last.In.Size > 1 {
		lo, hi := last.In.Size/2, last.In.Size // lo passes (or was not reachable), hi fails
		for steps := 0; hi-lo > 1 && steps < 26 && budget > 0; steps++ {
			o := last
			o.In.Size = lo + (hi-lo)/2
			t := &history{Codec: cur.Codec, DeadlineS: cur.DeadlineS, Ops: append(append([]op(nil), cur.Ops[:len(cur.Ops)-1]...), o)}
			if g := try(t); g != nil {
				cur, curF, hi = t, *g, o.In.Size
			} else {
				lo = o.In.Size
			}
		}
	}
	return cur, curF
}

// classes already reported in this run: c.Violation keeps one replay per class, later ones are not shrunk again
var reported = map[string]bool{}

func report(c *core.Ctx, h *history, fs []failure) {
	for _, f := range fs {
		if reported[f.Class] {
			continue
		}
		reported[f.Class] = true
		budget := 64
		if f.Class == "hang" || f.Class == "unbounded-allocation" || strings.HasPrefix(f.Class, "alloc-declared-size") || f.Class == "child-died" {
			budget = 10 // every attempt costs a child that has to die
		}
		min, mf := shrink(h, f, budget)
		c.Violation(mf.Class, fmt.Sprintf("%s [history of %d calls on the shared %s codec value, failing call #%d]", mf.What, len(min.Ops), min.Codec, mf.Op), min)
	}
}

func record(c *core.Ctx, h *history, res *execResult) {
	for i := range h.Ops {
		o := &h.Ops[i]
		bucket := h.Codec + "/" + o.Kind
		if o.Kind == "bad" {
			bucket += ":" + o.Bad.Mode
		}
		if h.Goroutines > 0 {
			bucket = h.Codec + "/concurrent"
		}
		key, _ := json.Marshal(o)
		n := 1
		if h.Goroutines > 0 {
			n = h.Goroutines
		}
		for k := 0; k < n; k++ {
			c.Case(bucket, h.Codec+string(key)+fmt.Sprint(k), o.Kind != "gc" && (o.In.Size > 0 || o.Kind == "bad"))
		}
	}
}

func runC20(c *core.Ctx) {
	c.Res.Rule = "histories of calls on each codec value exported by package parquet (Uncompressed, Snappy, Gzip, Brotli, Zstd, Lz4Raw: shared, pooled), on one shared value per compression level of each codec type (zstd 0-4, gzip -2/0/1/6/9, brotli quality 1-11 and lgwin 10-24, LZ4 Fastest and HC 1/4/9) and on a test codec run through the real compress.Compressor/Decompressor: round trips of generated inputs (empty, 1 B, random, repetitive, text-like, zero, ramp, mixed; sizes up to 64 KiB quick / 4 MiB thorough at random, and for every value and level the sizes just below and above 32/64/128 KiB, thorough also 1/4/8/16/32 MiB, quick 4/8 MiB for the exported values and every zstd level; for every value and level one run of zeros, one of a single non-zero byte and one of a period of 1-8 bytes, each at 8, 16 or 32 MiB (thorough: three more of 4-32 MiB) - the largest ratio of each format; and every EXPORTED FIELD of every Codec struct, found by reflection (gzip Level -2..9, brotli Quality 0..11 and LGWin 0/10..24, zstd Level 0..4 and Concurrency 0/1/2/3/4/5/8/16, LZ4 Level Fast/Fastest/1..9; a field not listed gets generic values of its kind), each value once with the other fields zero and once with them drawn from their ranges: inputs of up to 64 KiB, 256 KiB-1 MiB and a prime of 2-4 MiB (thorough one more of 4-16 MiB), every length a prime or 2^k+-1, and a sample of the configurations from 6-12 goroutines) with dst nil / zero-cap / a few bytes / short by any amount / one byte less than, exactly and one byte more than needed / large pre-filled with garbage / aliasing an earlier output, and with the SOURCE buffers of the call left alone, overwritten by the caller as soon as the call has returned (input of Encode, encoded form after Decode) or handed to the next Encode as its destination (buf, _ = Encode(buf[:0], next)) after which the earlier result must be unchanged, interleaved with failing decodes (truncated and bit-flipped valid streams, valid streams followed by trailing bytes, random garbage, gzip and zstd headers followed by garbage, length bombs, empty) and GC cycles, sequentially and from 8-32 goroutines at once (GOMAXPROCS of the child 1, 2, 4 or all), and for every codec value and level from 6-12 goroutines on 1, 2 or 4 Ps round-tripping pages of up to 320 KiB quick / 1 MiB thorough of every input kind (smaller for brotli quality >= 9, zstd level 4 and gzip 9 on runs: a call outlasts the scheduler's time slice and is resumed after calls of other goroutines on the same P). A case is one call (or call pair) of a history; non-trivial = non-empty input or a failing decode; distinct by codec + JSON of the call."
	quickTier = c.Quick()
	maxSize := c.N(64<<10, 4<<20)
	hostileMax := c.N(16<<10, 128<<10)

	magicHistories(c)
	specDecoders(c)

	// ---- the real codecs, in child processes ----
	var hs []*history
	names := []string{"uncompressed", "snappy", "gzip", "brotli", "zstd", "lz4"}
	for _, name := range names {
		for k := 0; k < c.N(10, 40); k++ {
			ms := maxSize
			if k%4 != 0 {
				ms = 8 << 10 // most histories: many small calls; every fourth: up to the maximum size
			}
			hs = append(hs, genHistory(c, name, 20+c.Rng.Intn(25), ms, hostileMax, 35))
		}
		// failing decodes only, then one round trip: the state a failed call leaves behind
		for k := 0; k < c.N(3, 10); k++ {
			h := genHistory(c, name, 6+c.Rng.Intn(10), 4096, hostileMax, 100)
			in := genInput(c, 4096)
			h.Ops = append(h.Ops, op{Kind: "rt", In: in, EncDst: genDst(c, in.Size), DecDst: genDst(c, in.Size)})
			hs = append(hs, h)
		}
		for k := 0; k < c.N(3, 10); k++ {
			h := genHistory(c, name, 8+c.Rng.Intn(8), c.N(16<<10, 256<<10), 4096, 30)
			h.Goroutines = []int{8, 16, 32}[c.Rng.Intn(3)]
			h.Procs = []int{0, 1, 2, 4}[c.Rng.Intn(4)]
			hs = append(hs, h)
		}
	}
	// every level of the codec types: the same kinds of histories on one value per level
	for _, name := range codecNames(true) {
		if !strings.Contains(name, "@") {
			continue
		}
		for k := 0; k < c.N(2, 8); k++ {
			ms := 8 << 10
			if k%2 == 1 {
				ms = maxSize
			}
			if strings.HasPrefix(name, "brotli@11") && ms > 256<<10 {
				ms = 256 << 10 // seconds per MiB
			}
			h := genHistory(c, name, 10+c.Rng.Intn(15), ms, hostileMax, 30)
			if ms > 1<<20 {
				h.DeadlineS = 120 // gzip 9 / LZ4 HC / brotli 10 take seconds per MiB on runs, several times that on a loaded machine
			}
			hs = append(hs, h)
		}
		h := genHistory(c, name, 6+c.Rng.Intn(6), 16<<10, 4096, 30)
		h.Goroutines = []int{8, 16}[c.Rng.Intn(2)]
		h.Procs = []int{0, 1, 2, 4}[c.Rng.Intn(4)]
		hs = append(hs, h)
	}
	// every codec value and level: pages of a few hundred KiB from more goroutines than Ps
	for _, name := range codecNames(true) {
		for k := 0; k < c.N(1, 3); k++ {
			hs = append(hs, stormHistory(c, name))
		}
	}
	// sizes at the thresholds of the formats, every codec value and level
	hs = append(hs, boundaryHistories(c)...)
	// runs of one byte / of a short period / of zeros of 8-32 MiB: the largest ratio of each format,
	// every codec value and level
	for _, name := range codecNames(true) {
		hs = append(hs, ratioHistory(c, name))
	}
	// every exported field of every Codec struct (found by reflection) over its range: inputs of a few KiB,
	// a few hundred KiB and 2-4 MiB whose lengths are a multiple of nothing; a sample of the
	// configurations also from many goroutines and (thorough) on the long runs
	configs, unswept := fieldConfigs(c)
	for _, u := range unswept {
		c.Violation("codec-field-not-swept", "the exported field "+u+" is of a kind the harness cannot assign: the configurations it selects are not covered by this check", nil)
	}
	for _, name := range configs {
		hs = append(hs, fieldHistory(c, name))
	}
	for _, k := range c.Rng.Perm(len(configs))[:min(len(configs), c.N(8, 32))] {
		hs = append(hs, stormHistory(c, configs[k]))
		if !c.Quick() {
			hs = append(hs, ratioHistory(c, configs[k]))
		}
	}
	// streams whose header announces a large decoded size.  Within the format's own limit (snappy < 4 GiB,
	// zstd <= MaxInt32) the codec may allocate it and must return an error (recorded as a note); beyond it
	// the stream must be refused without allocating (zstd: 60 GiB declared by 17 bytes)
	for _, name := range []string{"zstd", "snappy", "lz4", "gzip", "brotli"} {
		h := &history{Codec: name}
		for _, mib := range []int{256, 61440} {
			h.Ops = append(h.Ops, op{Kind: "bad", Bad: corruptSpec{Mode: "zstdfcs", Len: mib}, DecDst: dstSpec{Mode: "nil"}})
		}
		for _, mib := range []int{128, 1024} {
			h.Ops = append(h.Ops, op{Kind: "bad", Bad: corruptSpec{Mode: "snappylen", Len: mib}, DecDst: dstSpec{Mode: "nil"}})
		}
		h.Ops = append(h.Ops, op{Kind: "rt", In: inputSpec{Gen: "text", Size: 1000, Seed: 1}, EncDst: dstSpec{Mode: "nil"}, DecDst: dstSpec{Mode: "nil"}})
		hs = append(hs, h)
	}

	results := runAll(hs)
	var maxAlloc uint64
	errs, accepted, declared := 0, 0, 0
	for i, h := range hs {
		if r := results[i].res; r != nil {
			if r.MaxAlloc > maxAlloc {
				maxAlloc = r.MaxAlloc
			}
			errs += r.Errors
			accepted += r.Accepted
			declared += r.Declared
		}
		record(c, h, results[i].res)
		if len(results[i].fs) > 0 {
			report(c, h, results[i].fs)
		}
		if i < 2 {
			c.Sample(map[string]any{"codec": h.Codec, "first_calls": h.Ops[:3]})
		}
	}
	c.Note("real codecs: %d histories in child processes (RLIMIT_AS 6 GiB, watchdog 5 GiB / %d s per call); failing decodes: %d returned an error, %d were accepted identically by the shared and the fresh instance", len(hs), childOpSeconds, errs, accepted)
	c.Note("allocation on failing inputs: %d failing Decode calls allocated the decoded size announced by their header (snappy preamble < 4 GiB, zstd frame content size <= MaxInt32: bounded by the format, an error is returned, not a violation); largest allocation volume of one failing Decode: %d MiB; everything else stayed below 64 MiB + 1100 x input", declared, maxAlloc>>20)

	fileRoundTrips(c)
}

func replayC20(c *core.Ctx, raw json.RawMessage) {
	var fsp fileSpec
	if json.Unmarshal(raw, &fsp) == nil && fsp.File {
		fileCheck(c, &fsp)
		return
	}
	var h history
	if err := json.Unmarshal(raw, &h); err != nil || h.Codec == "" || len(h.Ops) == 0 {
		c.Note("the replay is not a history (%v); rerun the check with the recorded seed", err)
		return
	}
	fs, res := outcomeOf(&h)
	record(c, &h, res)
	if h.Codec == "magic" && res != nil {
		magicCompare(c, &h, res)
	}
	for _, f := range fs {
		c.Violation(f.Class, fmt.Sprintf("%s [history of %d calls on the shared %s codec value, failing call #%d]", f.What, len(h.Ops), h.Codec, f.Op), &h)
	}
}

// ---- a column written with each codec reads back ----------------------------------

type fileRow struct {
	A int64  `parquet:"a"`
	B string `parquet:"b"`
	C []byte `parquet:"c"`
}

// fileSpec is a replayable description of one file round trip.
type fileSpec struct {
	File    bool   `json:"file"`
	Codec   string `json:"codec"`
	Rows    int    `json:"rows"`
	Seed    int64  `json:"seed"`
	PageBuf int    `json:"page_buffer_size"`
	Version int    `json:"data_page_version"`
}

func (fs *fileSpec) run() (msg string) {
	ci := codecByName(fs.Codec)
	if ci == nil {
		return "unknown codec"
	}
	r := rand.New(rand.NewSource(fs.Seed))
	rows := make([]fileRow, fs.Rows)
	for i := range rows {
		rows[i] = fileRow{A: int64(r.Intn(50)) * int64(i%7), B: words[r.Intn(len(words))] + strings.Repeat("x", r.Intn(5)),
			C: inputSpec{Gen: []string{"rand", "rep", "text"}[r.Intn(3)], Size: r.Intn(40), Seed: int64(i)}.bytes()}
	}
	defer func() {
		if p := recover(); p != nil {
			msg = fmt.Sprint("panic: ", p)
		}
	}()
	var buf bytes.Buffer
	w := parquet.NewGenericWriter[fileRow](&buf, parquet.Compression(ci.shared), parquet.PageBufferSize(fs.PageBuf), parquet.DataPageVersion(fs.Version))
	for i := 0; i < len(rows); {
		m := 1 + r.Intn(500)
		if i+m > len(rows) {
			m = len(rows) - i
		}
		if _, err := w.Write(rows[i : i+m]); err != nil {
			return "write: " + err.Error()
		}
		i += m
	}
	if err := w.Close(); err != nil {
		return "close: " + err.Error()
	}
	back, err := parquet.Read[fileRow](bytes.NewReader(buf.Bytes()), int64(buf.Len()))
	if err != nil {
		return "read: " + err.Error()
	}
	if len(back) != len(rows) {
		return fmt.Sprintf("read %d rows instead of %d", len(back), len(rows))
	}
	for i := range rows {
		if back[i].A != rows[i].A || back[i].B != rows[i].B || !bytes.Equal(back[i].C, rows[i].C) {
			return fmt.Sprintf("row %d differs after the round trip", i)
		}
	}
	return ""
}

func fileCheck(c *core.Ctx, fs *fileSpec) {
	key, _ := json.Marshal(fs)
	c.Case("file/"+fs.Codec, string(key), true)
	msg := fs.run()
	if msg == "" {
		return
	}
	min := *fs
	for min.Rows > 1 {
		t := min
		t.Rows /= 2
		if t.run() == "" {
			break
		}
		min = t
	}
	c.Violation("file-roundtrip", fmt.Sprintf("a file written with %s (%d rows of {int64, string, []byte}, data page v%d) does not read back: %s", min.Codec, min.Rows, min.Version, min.run()), &min)
}

func fileRoundTrips(c *core.Ctx) {
	for _, name := range codecNames(true) {
		n := c.N(4, 16)
		if strings.Contains(name, "@") {
			n = c.N(1, 4)
		}
		for k := 0; k < n; k++ {
			fileCheck(c, &fileSpec{File: true, Codec: name, Rows: 1 + c.Rng.Intn(c.N(2000, 20000)), Seed: int64(c.Rng.Intn(1 << 30)),
				PageBuf: 256 + c.Rng.Intn(8192), Version: 1 + k%2})
		}
	}
}
