package main

import (
	"bufio"
	"bytes"
	"context"
	"encoding/json"
	"fmt"
	"io"
	"os"
	"os/exec"
	"runtime/debug"
	"runtime/metrics"
	"strings"
	"sync"
	"sync/atomic"
	"syscall"
	"time"
)

// Histories on the real codecs run in a CHILD process (this binary re-executed
// with C20_CHILD=1): address space capped with RLIMIT_AS, a soft memory limit,
// a watchdog on the total memory of the runtime and on the time of one call.
// A malformed input that makes a codec allocate without bound or loop forever
// kills the child only; the parent reports the violation.

const (
	childEnv       = "C20_CHILD"
	childASLimit   = 6 << 30 // RLIMIT_AS
	childMemAbort  = 5 << 30 // watchdog: total runtime memory
	childOpSeconds = 20      // one call (or one concurrent run: x3)
)

var outMu sync.Mutex

func emit(w *bufio.Writer, format string, a ...any) {
	outMu.Lock()
	fmt.Fprintf(w, format, a...)
	w.Flush()
	outMu.Unlock()
}

func childMain() {
	_ = syscall.Setrlimit(syscall.RLIMIT_AS, &syscall.Rlimit{Cur: childASLimit, Max: childASLimit})
	debug.SetMemoryLimit(1 << 30)
	in, err := io.ReadAll(os.Stdin)
	if err != nil {
		os.Exit(9)
	}
	var h history
	if err := json.Unmarshal(in, &h); err != nil {
		fmt.Fprintln(os.Stderr, "child: bad history:", err)
		os.Exit(9)
	}
	w := bufio.NewWriter(os.Stdout)
	var cur atomic.Int64
	var curOp atomic.Int64
	deadline := time.Duration(childOpSeconds) * time.Second
	if h.Codec == "magic" {
		deadline = 3 * time.Second // tiny inputs, our own streams
	}
	if h.DeadlineS > 0 {
		deadline = time.Duration(h.DeadlineS) * time.Second
	}
	if h.Goroutines > 0 {
		deadline *= 3
	}
	go func() {
		sample := []metrics.Sample{{Name: "/memory/classes/total:bytes"}}
		for {
			time.Sleep(10 * time.Millisecond)
			metrics.Read(sample)
			if sample[0].Value.Kind() == metrics.KindUint64 && sample[0].Value.Uint64() > childMemAbort {
				emit(w, "F memory %d %d\n", curOp.Load(), sample[0].Value.Uint64()>>20)
				os.Exit(3)
			}
			if t := cur.Load(); t != 0 && time.Since(time.Unix(0, t)) > deadline {
				emit(w, "F hang %d %d\n", curOp.Load(), int(deadline.Seconds()))
				os.Exit(4)
			}
		}
	}()
	res := execHistory(&h, true, func(i int) {
		curOp.Store(int64(i))
		emit(w, "@ %d\n", i)
	}, &cur)
	b, _ := json.Marshal(res)
	emit(w, "R %s\n", b)
}

// childRun is what the parent learns from one child.
type childRun struct {
	Res    *execResult
	Death  string // "" | hang | memory | panic | died
	LastOp int
	Detail string
}

func runChild(h *history, timeout time.Duration) *childRun {
	in, _ := json.Marshal(h)
	ctx, cancel := context.WithTimeout(context.Background(), timeout)
	defer cancel()
	cmd := exec.CommandContext(ctx, os.Args[0])
	cmd.Env = append(os.Environ(), childEnv+"=1")
	cmd.Stdin = bytes.NewReader(in)
	var stdout, stderr bytes.Buffer
	cmd.Stdout = &stdout
	cmd.Stderr = &limitedWriter{w: &stderr, n: 1 << 16}
	err := cmd.Run()
	cr := &childRun{LastOp: -1}
	fatal := ""
	for _, line := range strings.Split(stdout.String(), "\n") {
		switch {
		case strings.HasPrefix(line, "@ "):
			fmt.Sscanf(line[2:], "%d", &cr.LastOp)
		case strings.HasPrefix(line, "F "):
			fatal = line[2:]
		case strings.HasPrefix(line, "R "):
			var r execResult
			if json.Unmarshal([]byte(line[2:]), &r) == nil {
				cr.Res = &r
			}
		}
	}
	if cr.Res != nil && err == nil {
		return cr
	}
	cr.Res = nil
	se := stderr.String()
	switch {
	case strings.HasPrefix(fatal, "hang") || ctx.Err() != nil:
		cr.Death, cr.Detail = "hang", "a call did not return within the deadline ("+fatal+")"
	case strings.HasPrefix(fatal, "memory"):
		cr.Death, cr.Detail = "memory", "the runtime's memory passed 5 GiB ("+fatal+")"
	case strings.Contains(se, "out of memory") || strings.Contains(se, "cannot allocate"):
		cr.Death, cr.Detail = "memory", "fatal error: out of memory under a 6 GiB address-space limit"
	case strings.Contains(se, "panic:") || strings.Contains(se, "fatal error"):
		cr.Death, cr.Detail = "panic", "unrecovered: "+firstLines(se, 3)
	default:
		cr.Death, cr.Detail = "died", fmt.Sprintf("child ended abnormally: %v %s", err, firstLines(se, 3))
	}
	return cr
}

func firstLines(s string, n int) string {
	l := strings.Split(strings.TrimSpace(s), "\n")
	if len(l) > n {
		l = l[:n]
	}
	return strings.Join(l, " | ")
}

type limitedWriter struct {
	w *bytes.Buffer
	n int
}

func (l *limitedWriter) Write(p []byte) (int, error) {
	if l.w.Len() < l.n {
		k := l.n - l.w.Len()
		if k > len(p) {
			k = len(p)
		}
		l.w.Write(p[:k])
	}
	return len(p), nil
}
