package main

import (
	"bytes"
	"encoding/hex"
	"fmt"
	"math"
	"runtime"
	"sync"
	"sync/atomic"
	"time"

	"github.com/parquet-go/parquet-go/compress"
)

type failure struct {
	Class string `json:"class"`
	What  string `json:"what"`
	Op    int    `json:"op"`
}

type execResult struct {
	Fails    []failure `json:"fails"`
	Ops      int       `json:"ops"`
	Outcomes []string  `json:"outcomes,omitempty"` // per op "<err>:x<hex>" (recorded for the magic codec only)
	MaxAlloc uint64    `json:"max_alloc"`          // largest allocation volume of one failing Decode
	Declared int       `json:"declared"`           // failing decodes that allocated the size their header announced (within the format limit)
	Errors   int       `json:"errors"`             // failing decodes that returned an error
	Accepted int       `json:"accepted"`           // hostile streams that decoded without error (same as a fresh instance)
}

// allocation volume tolerated for one Decode of a failing input of n bytes
func allocBound(n int) uint64 { return 64<<20 + 1100*uint64(n) }

func hx(b []byte) string {
	if len(b) > 24 {
		return hex.EncodeToString(b[:24]) + fmt.Sprintf("...(%d bytes)", len(b))
	}
	return hex.EncodeToString(b)
}

func firstDiff(a, b []byte) int {
	n := len(a)
	if len(b) < n {
		n = len(b)
	}
	for i := 0; i < n; i++ {
		if a[i] != b[i] {
			return i
		}
	}
	return n
}

func safeCall(f func() ([]byte, error)) (out []byte, err error, pan string) {
	defer func() {
		if r := recover(); r != nil {
			pan = fmt.Sprint(r)
		}
	}()
	out, err = f()
	return
}

type held struct {
	slice, copy []byte
	what        string
}

type opState struct {
	prevEnc, prevDec []byte
	held             []held
}

func (st *opState) hold(b []byte, what string) {
	if len(b) == 0 {
		return
	}
	st.held = append(st.held, held{b, append([]byte(nil), b...), what})
	if len(st.held) > 4 {
		st.held = st.held[1:]
	}
}

const (
	encOutput = "the Encode output"
	decOutput = "the Decode output"
)

// release forgets a buffer that is about to be handed back as dst (or that the
// caller is about to overwrite): the results of the same kind that live in it.
// A result of the OTHER kind in the same memory (a Decode output that is the
// buffer of the encoded form) stays held: it must not be there.
func (st *opState) release(b []byte, what string) {
	if cap(b) == 0 {
		return
	}
	k := st.held[:0]
	for _, h := range st.held {
		if h.what == what && cap(h.slice) > 0 && &h.slice[:1][0] == &b[:1][0] {
			continue
		}
		k = append(k, h)
	}
	st.held = k
}

func (st *opState) checkHeld() string {
	for _, h := range st.held {
		if !bytes.Equal(h.slice, h.copy) {
			return fmt.Sprintf("%s returned earlier was overwritten by a later call at byte %d", h.what, firstDiff(h.slice, h.copy))
		}
	}
	return ""
}

type runner struct {
	ci       *codecInfo
	measure  bool
	mu       sync.Mutex
	res      *execResult
	progress func(i int)
	curStart *atomic.Int64 // unix nanos of the running op (watchdog), 0 = idle
	record   bool
}

func (r *runner) fail(i int, class, format string, a ...any) {
	r.mu.Lock()
	defer r.mu.Unlock()
	for _, f := range r.res.Fails {
		if f.Class == class {
			return
		}
	}
	r.res.Fails = append(r.res.Fails, failure{class, fmt.Sprintf(format, a...), i})
}

func outcomeTok(out []byte, err error) string {
	e := "0"
	if err != nil {
		e = "1"
	}
	return e + ":x" + hex.EncodeToString(out)
}

// runOps executes ops in order on the shared codec value and evaluates the
// property predicate after each call.
func (r *runner) runOps(ops []op, base int) {
	ci := r.ci
	st := new(opState)
	for k := range ops {
		o := &ops[k]
		i := base + k
		if r.progress != nil {
			r.progress(i)
		}
		if r.curStart != nil {
			r.curStart.Store(time.Now().UnixNano())
		}
		switch o.Kind {
		case "gc":
			runtime.GC()
			runtime.GC() // sync.Pool drops its victim cache on the second cycle
			if r.record {
				r.res.Outcomes = append(r.res.Outcomes, "0:x")
			}
		case "rt":
			r.roundTrip(ci, st, o, i)
		case "bad":
			r.hostile(ci, st, o, i)
		}
		if msg := st.checkHeld(); msg != "" {
			r.fail(i, "earlier-result-clobbered", "%s: %s", ci.name, msg)
		}
		r.mu.Lock()
		r.res.Ops++
		r.mu.Unlock()
	}
	if r.curStart != nil {
		r.curStart.Store(0)
	}
}

func (r *runner) roundTrip(ci *codecInfo, st *opState, o *op, i int) {
	want := o.In.bytes()
	x := append([]byte(nil), want...) // the caller's source buffer
	if o.EncDst.Mode == "alias" {
		st.release(st.prevEnc, encOutput)
	}
	encDst := o.EncDst.make(st.prevEnc)
	enc, err, pan := safeCall(func() ([]byte, error) { return ci.shared.Encode(encDst, x) })
	if r.record {
		r.res.Outcomes = append(r.res.Outcomes, outcomeTok(enc, err))
	}
	if pan != "" {
		r.fail(i, "panic", "%s.Encode(%s input of %d bytes) panicked: %s", ci.name, o.In.Gen, len(x), pan)
		return
	}
	if err != nil {
		r.fail(i, "encode-error", "%s.Encode(%s input of %d bytes) returned %v", ci.name, o.In.Gen, len(x), err)
		return
	}
	encCopy := append([]byte(nil), enc...)
	st.hold(enc, encOutput)
	if o.Src != "" {
		// the caller fills its input buffer with the next data as soon as Encode has returned
		scribble(x)
		if !bytes.Equal(enc, encCopy) {
			st.held = nil // what the caller itself overwrote is not reported a second time as the doing of a later call
			r.fail(i, "result-aliases-source", "%s.Encode (dst %s, capacity %d; %s input of %d bytes): the encoded form changed at byte %d when the caller overwrote the INPUT buffer after the call: the result refers to src instead of being a copy",
				ci.name, o.EncDst.Mode, cap(encDst), o.In.Gen, len(want), firstDiff(enc, encCopy))
			return
		}
	}
	x = want
	if o.DecDst.Mode == "alias" {
		st.release(st.prevDec, decOutput)
	}
	decDst := o.DecDst.make(st.prevDec)
	dec, err, pan := safeCall(func() ([]byte, error) { return ci.shared.Decode(decDst, enc) })
	if r.record {
		r.res.Outcomes = append(r.res.Outcomes, outcomeTok(dec, err))
	}
	if pan != "" {
		r.fail(i, "panic", "%s.Decode(Encode(x)) panicked: %s", ci.name, pan)
		return
	}
	if err != nil {
		r.fail(i, "roundtrip-error", "%s.Decode(Encode(x)) returned %v (x: %s, %d bytes; dst %s)", ci.name, err, o.In.Gen, len(x), o.DecDst.Mode)
		return
	}
	if !bytes.Equal(dec, x) {
		r.fail(i, "roundtrip-mismatch", "%s.Decode(Encode(x)) != x: %d bytes instead of %d, first difference at %d (x: %s; enc dst %s, dec dst %s)",
			ci.name, len(dec), len(x), firstDiff(dec, x), o.In.Gen, o.EncDst.Mode, o.DecDst.Mode)
		return
	}
	if !bytes.Equal(enc, encCopy) {
		r.fail(i, "src-clobbered", "%s.Decode modified its input", ci.name)
	}
	st.hold(dec, decOutput)
	// the same through a FRESH instance (empty pools): both directions
	fr := ci.fresh()
	fdec, ferr, fpan := safeCall(func() ([]byte, error) { return fr.Decode(nil, encCopy) })
	if fpan != "" || ferr != nil || !bytes.Equal(fdec, x) {
		r.fail(i, "differs-from-fresh", "%s: a fresh instance does not decode what the shared value encoded: err=%v panic=%q, %d bytes, first difference at %d", ci.name, ferr, fpan, len(fdec), firstDiff(fdec, x))
		return
	}
	fenc, ferr, fpan := safeCall(func() ([]byte, error) { return fr.Encode(nil, x) })
	if fpan != "" || ferr != nil {
		r.fail(i, "differs-from-fresh", "%s: a fresh instance fails to encode: err=%v panic=%q", ci.name, ferr, fpan)
		return
	}
	sdec, serr, span := safeCall(func() ([]byte, error) { return ci.shared.Decode(nil, fenc) })
	if span != "" || serr != nil || !bytes.Equal(sdec, x) {
		r.fail(i, "differs-from-fresh", "%s: the shared value does not decode what a fresh instance encoded: err=%v panic=%q, %d bytes, first difference at %d", ci.name, serr, span, len(sdec), firstDiff(sdec, x))
		return
	}
	// what the caller does with the buffer of the encoded form once it is decoded
	switch o.Src {
	case "overwrite":
		st.release(enc, encOutput)
		scribble(enc)
		if !bytes.Equal(dec, want) {
			st.held = nil // what the caller itself overwrote is not reported a second time as the doing of a later call
			r.fail(i, "result-aliases-source", "%s.Decode (dst %s, capacity %d; %d bytes decoding to %d): the decoded data changed at byte %d when the caller overwrote the buffer of the ENCODED form after the call: the result refers to src instead of being a copy",
				ci.name, o.DecDst.Mode, cap(decDst), len(encCopy), len(want), firstDiff(dec, want))
			return
		}
	case "reuse":
		// buf, _ = codec.Encode(buf[:0], next): the buffer of the encoded form receives the next page
		st.release(enc, encOutput)
		nx := o.In.nextInput().bytes()
		enc2, err, pan := safeCall(func() ([]byte, error) { return ci.shared.Encode(enc[:0], nx) })
		if r.record {
			r.res.Outcomes = append(r.res.Outcomes, outcomeTok(enc2, err))
		}
		if pan != "" || err != nil {
			r.fail(i, "encode-error", "%s.Encode(%s input of %d bytes) into the buffer of the previous encoded form: err=%v panic=%q", ci.name, o.In.Gen, len(nx), err, pan)
			return
		}
		if !bytes.Equal(dec, want) {
			st.held = nil // what the caller itself overwrote is not reported a second time as the doing of a later call
			r.fail(i, "result-aliases-source", "%s.Decode (dst %s, capacity %d; %d bytes decoding to %d): the decoded data changed at byte %d when the buffer of the ENCODED form was reused for the next Encode (buf, _ = Encode(buf[:0], next)): the result refers to src instead of being a copy",
				ci.name, o.DecDst.Mode, cap(decDst), len(encCopy), len(want), firstDiff(dec, want))
			return
		}
		st.hold(enc2, encOutput)
		dec2, err, pan := safeCall(func() ([]byte, error) { return ci.shared.Decode(nil, enc2) })
		if r.record {
			r.res.Outcomes = append(r.res.Outcomes, outcomeTok(dec2, err))
		}
		if pan != "" || err != nil || !bytes.Equal(dec2, nx) {
			r.fail(i, "roundtrip-mismatch", "%s.Decode(Encode(x)) != x for the input encoded into the buffer of the previous encoded form: err=%v panic=%q, %d bytes instead of %d, first difference at %d", ci.name, err, pan, len(dec2), len(nx), firstDiff(dec2, nx))
			return
		}
		enc = enc2
	}
	st.prevEnc, st.prevDec = enc, dec
}

// hostileSrc rebuilds the failing input of an op (deterministic).
func hostileSrc(ci *codecInfo, o *op) []byte {
	var valid []byte
	if o.Bad.Mode == "trunc" || o.Bad.Mode == "flip" || o.Bad.Mode == "tail" {
		valid, _, _ = safeCall(func() ([]byte, error) { return ci.fresh().Encode(nil, o.In.bytes()) })
	}
	return o.Bad.apply(valid)
}

func (r *runner) hostile(ci *codecInfo, st *opState, o *op, i int) {
	src := hostileSrc(ci, o)
	srcCopy := append([]byte(nil), src...)
	if o.DecDst.Mode == "alias" {
		st.release(st.prevDec, decOutput)
	}
	dst := o.DecDst.make(st.prevDec)
	var m0, m1 runtime.MemStats
	if r.measure {
		runtime.ReadMemStats(&m0)
	}
	out, err, pan := safeCall(func() ([]byte, error) { return ci.shared.Decode(dst, src) })
	if r.measure {
		runtime.ReadMemStats(&m1)
	}
	if r.record {
		r.res.Outcomes = append(r.res.Outcomes, outcomeTok(out, err))
	}
	if pan != "" {
		r.fail(i, "panic", "%s.Decode of a malformed input (%s, %d bytes: %s) panicked instead of returning an error: %s", ci.name, o.Bad.Mode, len(src), hx(src), pan)
		return
	}
	if r.measure {
		a := m1.TotalAlloc - m0.TotalAlloc
		r.mu.Lock()
		if a > r.res.MaxAlloc {
			r.res.MaxAlloc = a
		}
		r.mu.Unlock()
		if a > allocBound(len(src)) && a <= allocTolerated(ci.name, src) {
			r.mu.Lock()
			r.res.Declared++
			r.mu.Unlock()
		}
		if a > allocTolerated(ci.name, src) {
			r.fail(i, allocClass(ci.name, src), "%s.Decode of a malformed input (%s, %d bytes: %s) allocated %d MiB (tolerated: %d MiB); returned err=%v",
				ci.name, o.Bad.Mode, len(src), hx(src), a>>20, allocTolerated(ci.name, src)>>20, err)
			return
		}
	}
	if !bytes.Equal(src, srcCopy) {
		r.fail(i, "src-clobbered", "%s.Decode modified its (malformed) input", ci.name)
	}
	fout, ferr, fpan := safeCall(func() ([]byte, error) { return ci.fresh().Decode(nil, srcCopy) })
	if fpan != "" {
		r.fail(i, "panic", "%s: a fresh instance panicked on a malformed input (%s, %d bytes: %s): %s", ci.name, o.Bad.Mode, len(src), hx(src), fpan)
		return
	}
	if (err == nil) != (ferr == nil) || (err == nil && !bytes.Equal(out, fout)) {
		r.fail(i, "differs-from-fresh", "%s.Decode of a malformed input (%s, %d bytes: %s): the shared value returned (%d bytes, err=%v), a fresh instance (%d bytes, err=%v)",
			ci.name, o.Bad.Mode, len(src), hx(src), len(out), err, len(fout), ferr)
		return
	}
	r.mu.Lock()
	if err != nil {
		r.res.Errors++
	} else {
		r.res.Accepted++
	}
	r.mu.Unlock()
	if err == nil {
		if o.Src != "" {
			outCopy := append([]byte(nil), out...)
			scribble(src)
			if !bytes.Equal(out, outCopy) {
				st.held = nil // what the caller itself overwrote is not reported a second time as the doing of a later call
				r.fail(i, "result-aliases-source", "%s.Decode (dst %s, capacity %d; %d bytes decoding to %d): the decoded data changed at byte %d when the caller overwrote the buffer of the ENCODED form after the call: the result refers to src instead of being a copy",
					ci.name, o.DecDst.Mode, cap(dst), len(srcCopy), len(outCopy), firstDiff(out, outCopy))
				return
			}
		}
		st.hold(out, decOutput)
		st.prevDec = out
	} else {
		st.prevDec = nil // a failed call may return dst[:0] or partial data: do not alias it
	}
}

// formatLimit: the largest decoded size a stream header of the format can
// announce and the codec accepts (snappy: 32-bit preamble; zstd: the decoder is
// built with WithDecoderMaxMemory(MaxInt32), the largest parquet page).
func formatLimit(codec string) uint64 {
	switch baseCodec(codec) {
	case "snappy":
		return 1<<32 - 1
	case "zstd":
		return math.MaxInt32
	}
	return 0
}

// allocTolerated: the allocation volume accepted for one Decode of a failing
// input: 64 MiB + 1100 x input, or the decoded size announced by the stream
// header when it is within the format's own hard limit (such a call allocates
// a bounded amount and returns an error: recorded as a note, not a violation).
func allocTolerated(codec string, src []byte) uint64 {
	tol := allocBound(len(src))
	if d := declaredSize(codec, src); d <= formatLimit(codec) && d+64<<20 > tol {
		tol = d + 64<<20
	}
	return tol
}

// allocClass: an allocation that follows a size announced by the stream header
// beyond the format's limit is told apart from a runaway growth loop.
func allocClass(codec string, src []byte) string {
	if d := declaredSize(codec, src); d > formatLimit(codec) && d > allocBound(len(src)) {
		return "alloc-declared-size-" + baseCodec(codec)
	}
	return "unbounded-allocation"
}

// execHistory runs one history in this process.
func execHistory(h *history, measure bool, progress func(int), cur *atomic.Int64) *execResult {
	res := &execResult{Fails: []failure{}}
	ci := codecByName(h.Codec)
	if ci == nil {
		res.Fails = append(res.Fails, failure{"bad-replay", "unknown codec " + h.Codec, 0})
		return res
	}
	r := &runner{ci: ci, measure: measure && h.Goroutines == 0, res: res, progress: progress, curStart: cur, record: h.Codec == "magic" && h.Goroutines == 0}
	if h.Goroutines <= 0 {
		r.runOps(h.Ops, 0)
		return res
	}
	if h.Procs > 0 {
		runtime.GOMAXPROCS(h.Procs)
	}
	// many goroutines on the same codec value at once; each runs the ops rotated by its index
	if progress != nil {
		progress(-1)
	}
	r.progress = nil
	r.curStart = nil // one deadline for the whole concurrent run
	var wg sync.WaitGroup
	start := make(chan struct{})
	for g := 0; g < h.Goroutines; g++ {
		ops := make([]op, len(h.Ops))
		for k := range h.Ops {
			ops[k] = h.Ops[(k+g)%len(h.Ops)]
		}
		wg.Add(1)
		go func() {
			defer wg.Done()
			<-start
			r.runOps(ops, 0)
		}()
	}
	if cur != nil {
		cur.Store(time.Now().UnixNano())
	}
	close(start)
	wg.Wait()
	if cur != nil {
		cur.Store(0)
	}
	return res
}

var _ compress.Codec = (*magicCodec)(nil)
