package main

import (
	"bytes"
	"encoding/hex"
	"fmt"
	"strings"

	"github.com/parquet-go/parquet-go"

	"verif/harness/core"
)

// ---- the model of the pooled wrappers against the real wrappers -----------------

func magicCap(d dstSpec, prev []byte) int {
	switch d.Mode {
	case "small", "large":
		return d.Cap
	case "alias":
		return cap(prev)
	}
	return 0
}

// magicRequest renders a history of the magic codec as the event list of
// c20.pool_run.  dst capacities of "alias" calls depend on what the
// implementation returned earlier, so they are taken from a dry run that
// mirrors the executor's bookkeeping.
func magicRequest(h *history, caps [][2]int) string {
	var evs []string
	for i := range h.Ops {
		o := &h.Ops[i]
		switch o.Kind {
		case "gc":
			evs = append(evs, "G:r:0")
		case "rt":
			x := o.In.bytes()
			evs = append(evs, fmt.Sprintf("E:0:%d:x%s", caps[i][0], hex.EncodeToString(x)))
			evs = append(evs, fmt.Sprintf("D:0:%d:x1f%s", caps[i][1], hex.EncodeToString(x)))
			if o.Src == "reuse" {
				// the next input encoded into the buffer of the previous encoded form, then decoded: for the
				// model one more Encode / Decode pair (the capacity of dst does not change its answer)
				nx := o.In.nextInput().bytes()
				evs = append(evs, fmt.Sprintf("E:0:0:x%s", hex.EncodeToString(nx)))
				evs = append(evs, fmt.Sprintf("D:0:0:x1f%s", hex.EncodeToString(nx)))
			}
		case "bad":
			src := hostileSrc(codecByName("magic"), o)
			evs = append(evs, fmt.Sprintf("D:0:%d:x%s", caps[i][1], hex.EncodeToString(src)))
		}
	}
	return "c20.pool_run 64 " + strings.Join(evs, ",")
}

// magicCompare: outcomes of the implementation against the model.
func magicCompare(c *core.Ctx, h *history, res *execResult) bool {
	if !c.HasOracle() || h.Goroutines > 0 {
		return true
	}
	// alias capacities do not matter for the model's answer (C20_dst_contents_irrelevant
	// covers contents; the capacity only changes the number of doublings), so "alias" is
	// sent as capacity 0 unless the call is a small/large one
	caps := make([][2]int, len(h.Ops))
	for i := range h.Ops {
		caps[i] = [2]int{magicCap(h.Ops[i].EncDst, nil), magicCap(h.Ops[i].DecDst, nil)}
	}
	req := magicRequest(h, caps)
	want := c.Ask(req)
	got := strings.Join(res.Outcomes, ",")
	if len(res.Outcomes) == 0 {
		got = "_"
	}
	if want != got {
		c.Mismatch("corr:C20.pool_machine", req, got, want, h)
		return false
	}
	return true
}

func magicHistories(c *core.Ctx) {
	// corpus: a stream that ends in a Read error / a stream after which Reset(nil) fails, then a valid one
	// (the broken reader must not be reused)
	corpus := []*history{
		{Codec: "magic", Ops: []op{
			{Kind: "rt", In: inputSpec{Gen: "ramp", Size: 9}, EncDst: dstSpec{Mode: "nil"}, DecDst: dstSpec{Mode: "small", Cap: 2}},
			{Kind: "bad", Bad: corruptSpec{Mode: "garbage", Len: 5, Seed: 3}, DecDst: dstSpec{Mode: "nil"}},
			{Kind: "bad", Bad: corruptSpec{Mode: "badend", Len: 6}, DecDst: dstSpec{Mode: "nil"}},
			{Kind: "rt", In: inputSpec{Gen: "text", Size: 40}, EncDst: dstSpec{Mode: "large", Cap: 100}, DecDst: dstSpec{Mode: "nil"}},
			{Kind: "bad", Bad: corruptSpec{Mode: "sticky", Len: 4}, DecDst: dstSpec{Mode: "small", Cap: 3}},
			{Kind: "rt", In: inputSpec{Gen: "rep", Size: 17}, EncDst: dstSpec{Mode: "nil"}, DecDst: dstSpec{Mode: "nil"}},
			{Kind: "bad", Bad: corruptSpec{Mode: "empty"}, DecDst: dstSpec{Mode: "zero"}},
			{Kind: "gc"},
			{Kind: "rt", In: inputSpec{Gen: "rand", Size: 1}, EncDst: dstSpec{Mode: "zero"}, DecDst: dstSpec{Mode: "small", Cap: 1}},
		}},
	}
	n := c.N(300, 3000)
	hs := append([]*history(nil), corpus...)
	for k := 0; k < n; k++ {
		h := genHistory(c, "magic", 4+c.Rng.Intn(30), 600, 300, 35)
		for i := range h.Ops {
			if h.Ops[i].Kind == "bad" && c.Rng.Intn(2) == 0 {
				h.Ops[i].Bad = corruptSpec{Mode: pickStr(c, "badend", "sticky"), Len: c.Rng.Intn(40), Seed: int64(c.Rng.Intn(1000))}
			}
			// alias capacities are not predictable for the model: keep them out of the compared histories
			if h.Ops[i].EncDst.Mode == "alias" {
				h.Ops[i].EncDst = dstSpec{Mode: "nil"}
			}
			if h.Ops[i].DecDst.Mode == "alias" {
				h.Ops[i].DecDst = dstSpec{Mode: "small", Cap: 1 + c.Rng.Intn(9)}
			}
		}
		hs = append(hs, h)
	}
	// concurrent use of the wrappers
	for k := 0; k < c.N(10, 60); k++ {
		h := genHistory(c, "magic", 10+c.Rng.Intn(20), 2000, 300, 35)
		h.Goroutines = 8 + c.Rng.Intn(24)
		for i := range h.Ops {
			if h.Ops[i].Kind == "bad" && c.Rng.Intn(2) == 0 {
				h.Ops[i].Bad = corruptSpec{Mode: pickStr(c, "badend", "sticky"), Len: c.Rng.Intn(40), Seed: int64(c.Rng.Intn(1000))}
			}
		}
		hs = append(hs, h)
	}
	results := runAll(hs)
	for k, h := range hs {
		record(c, h, results[k].res)
		if len(results[k].fs) > 0 {
			report(c, h, results[k].fs)
		} else if results[k].res != nil {
			magicCompare(c, h, results[k].res)
		}
		if k == 0 {
			c.Sample(h)
		}
	}
}

// ---- the extracted format decoders on what Go's Encode emits ----------------------

func specDecoders(c *core.Ctx) {
	if !c.HasOracle() {
		c.Note("no oracle: the independent snappy / LZ4 decoders were not run")
	}
	maxSize := c.N(64<<10, 128<<10)
	n := c.N(150, 900)
	var vm []string
	for k := 0; k < n; k++ {
		in := genInput(c, maxSize)
		if k%5 == 0 {
			in.Size = c.Rng.Intn(120) // many small ones (all element kinds at their boundaries)
		}
		if k%17 == 0 {
			in = inputSpec{Gen: "mixed", Size: maxSize, Seed: int64(k)}
		}
		x := in.bytes()
		for _, codec := range []string{"snappy", "lz4"} {
			var enc []byte
			var err error
			pan := ""
			func() {
				defer func() {
					if r := recover(); r != nil {
						pan = fmt.Sprint(r)
					}
				}()
				if codec == "snappy" {
					enc, err = parquet.Snappy.Encode(nil, x)
				} else {
					enc, err = parquet.Lz4Raw.Encode(nil, x)
				}
			}()
			hcase := &history{Codec: codec, Ops: []op{{Kind: "rt", In: in, EncDst: dstSpec{Mode: "nil"}, DecDst: dstSpec{Mode: "nil"}}}}
			c.Case("spec-decoder/"+codec, codec+fmt.Sprint(in), len(x) > 0)
			if pan != "" || err != nil {
				c.Violation("encode-error", fmt.Sprintf("%s.Encode(%s input of %d bytes): err=%v panic=%q", codec, in.Gen, len(x), err, pan), hcase)
				continue
			}
			var req string
			if codec == "snappy" {
				req = "c20.snappy_decode " + core.Hexs(enc)
			} else {
				req = fmt.Sprintf("c20.lz4_decode %x %s", len(x), core.Hexs(enc))
			}
			got := c.Ask(req)
			if c.HasOracle() && got != core.Hexs(x) {
				// is the implementation's own decoder of the same opinion?
				var dec []byte
				if codec == "snappy" {
					dec, err = parquet.Snappy.Decode(nil, enc)
				} else {
					dec, err = parquet.Lz4Raw.Decode(nil, enc)
				}
				if err != nil || !bytes.Equal(dec, x) {
					c.Violation("roundtrip-mismatch", fmt.Sprintf("%s.Decode(Encode(x)) != x (err=%v) and the format decoder of the model rejects the stream too", codec, err), hcase)
				} else {
					c.Mismatch("corr:C20."+codec+"_spec_decode", core.Trunc(req, 300), core.Trunc(core.Hexs(x), 300), core.Trunc(got, 300), hcase)
				}
				continue
			}
			if codec == "lz4" && k%3 == 0 {
				// the retry loop of lz4.Codec.Decode around the model decoder, from any dst capacity
				capv := []int{0, 1, len(x) / 2, len(x), 4 * len(x)}[c.Rng.Intn(5)]
				if got := c.Ask(fmt.Sprintf("c20.lz4_codec_decode %x %s", capv, core.Hexs(enc))); c.HasOracle() && got != core.Hexs(x) {
					c.Mismatch("corr:C20.lz4_spec_decode", "lz4_codec_decode cap="+fmt.Sprint(capv), core.Trunc(core.Hexs(x), 300), core.Trunc(got, 300), hcase)
				}
			}
			if len(x) <= 90 && len(vm) < 120 {
				if codec == "snappy" {
					vm = append(vm, fmt.Sprintf("(snappy_decode %s, %s)", core.CoqBytes(enc), core.CoqBytes(x)))
				} else {
					vm = append(vm, fmt.Sprintf("(lz4_decode %d %s, %s)", len(x), core.CoqBytes(enc), core.CoqBytes(x)))
				}
			}
		}
	}
	c.Vm("From Coq Require Import List NArith Bool.\nFrom PQ Require Import Codec.Model Codec.Snappy Codec.Lz4.\nImport ListNotations.\nLocal Open Scope N_scope.")
	c.Vm("Definition beq (a b : list N) : bool := if list_eq_dec N.eq_dec a b then true else false.")
	c.Vm("Definition cases : list (option (list N) * list N) := [\n  " + strings.Join(vm, ";\n  ") + "].")
	c.Vm("Definition mismatches := filter (fun '(got, want) => match got with Some g => negb (beq g want) | None => true end) cases.")
	c.Vm("Definition M := Eval vm_compute in (length cases, mismatches).\nPrint M.")
	c.Res.VmCases = len(vm)
}
