package main

import (
	"encoding/binary"
	"math/rand"
	"strconv"
	"strings"
	"sync"

	"github.com/parquet-go/parquet-go"
	"github.com/parquet-go/parquet-go/compress"
	"github.com/parquet-go/parquet-go/compress/brotli"
	"github.com/parquet-go/parquet-go/compress/gzip"
	"github.com/parquet-go/parquet-go/compress/lz4"
	"github.com/parquet-go/parquet-go/compress/snappy"
	"github.com/parquet-go/parquet-go/compress/uncompressed"
	"github.com/parquet-go/parquet-go/compress/zstd"
)

// ---- replayable descriptions of a history (inputs are generator specs, not bytes) ----

type inputSpec struct {
	Gen  string `json:"gen"` // rand | rep | text | zero | run | ramp | mixed
	Size int    `json:"size"`
	Seed int64  `json:"seed"`
}

type dstSpec struct {
	Mode string `json:"mode"` // nil | zero | small (Cap bytes, less than needed) | large (Cap bytes: more than, or within one byte of, what is needed) | alias
	Cap  int    `json:"cap,omitempty"`
}

type corruptSpec struct {
	Mode string `json:"mode"`          // trunc | flip | garbage | gzhdr | zstdhdr | zstdfcs | snappylen | lz4len | empty
	Pos  int    `json:"pos,omitempty"` // per-mille position (trunc, flip)
	Bit  int    `json:"bit,omitempty"`
	Len  int    `json:"len,omitempty"`
	Seed int64  `json:"seed,omitempty"`
}

type op struct {
	Kind   string      `json:"kind"` // rt (Encode then Decode) | bad (Decode of a hostile stream) | gc
	In     inputSpec   `json:"in"`
	EncDst dstSpec     `json:"enc_dst"`
	DecDst dstSpec     `json:"dec_dst"`
	Bad    corruptSpec `json:"bad,omitempty"`
	// Src: what the caller does with the SOURCE buffer of a call once the call
	// has returned (the buffers belong to the caller, the results must not
	// refer to them): "" keeps it untouched | "overwrite" fills it with other
	// bytes at once | "reuse" overwrites the input of Encode and hands the
	// buffer that held the encoded form to the next Encode as its destination
	// (buf, _ = codec.Encode(buf[:0], next)).
	Src string `json:"src,omitempty"`
}

type history struct {
	Codec      string `json:"codec"`
	Goroutines int    `json:"goroutines,omitempty"` // > 0: every goroutine runs Ops (rotated) on the shared codec value at once
	Procs      int    `json:"procs,omitempty"`      // > 0: GOMAXPROCS of the child (fewer Ps than goroutines: calls are descheduled half way and resumed after calls of other goroutines ran on the same P)
	Ops        []op   `json:"ops"`
	DeadlineS  int    `json:"deadline_s,omitempty"` // per-call deadline in the child (default 20 s; shrunk hang replays use 5 s)
}

var words = []string{"parquet", "column", "page", "the", "of", "and", "row", "group", "dictionary", "value", "null", "encoding", "a", "in", "to", "is", "compressed", "data", "0", "1", "42", "\n", ", ", "; "}

func (s inputSpec) bytes() []byte {
	r := rand.New(rand.NewSource(s.Seed*7919 + int64(s.Size)))
	b := make([]byte, s.Size)
	switch s.Gen {
	case "rand":
		r.Read(b)
	case "rep":
		pl := 1 + r.Intn(8)
		pat := make([]byte, pl)
		r.Read(pat)
		for i := range b {
			b[i] = pat[i%pl]
		}
	case "text":
		i := 0
		for i < len(b) {
			w := words[r.Intn(len(words))]
			i += copy(b[i:], w)
			if i < len(b) {
				b[i] = ' '
				i++
			}
		}
	case "zero":
	case "run": // one byte value, not zero, all along
		v := byte(1 + r.Intn(255))
		for i := range b {
			b[i] = v
		}
	case "ramp":
		for i := range b {
			b[i] = byte(i)
		}
	default: // mixed: segments of random, repetitive and text-like data
		i := 0
		for i < len(b) {
			n := 1 + r.Intn(1+len(b)/4)
			if i+n > len(b) {
				n = len(b) - i
			}
			switch r.Intn(3) {
			case 0:
				r.Read(b[i : i+n])
			case 1:
				v := byte(r.Intn(256))
				for k := i; k < i+n; k++ {
					b[k] = v
				}
			default:
				for k := i; k < i+n; k++ {
					b[k] = "abcdefgh "[(k*7)%9]
				}
			}
			i += n
		}
	}
	return b
}

// nextInput: the input that follows s in a "reuse" call; other bytes than s
// (whatever the generator), 3/4 to 5/4 of its size.
func (s inputSpec) nextInput() inputSpec {
	n := inputSpec{Gen: s.Gen, Size: s.Size + (int(s.Seed%3)-1)*s.Size/4, Seed: s.Seed + 1}
	if n.Gen == "zero" || n.Gen == "ramp" || n.Gen == "run" {
		n.Gen = "mixed"
	}
	return n
}

// scribble changes every byte of a buffer the caller owns, up to its capacity.
func scribble(b []byte) {
	b = b[:cap(b)]
	for i := range b {
		b[i] = ^b[i]
	}
}

// make builds the destination buffer; prev is the slice returned by an earlier call (alias mode).
func (d dstSpec) make(prev []byte) []byte {
	switch d.Mode {
	case "zero":
		return make([]byte, 0)
	case "small", "large":
		b := make([]byte, d.Cap)
		for i := range b {
			b[i] = 0xA5 ^ byte(i*31)
		}
		return b // full length, full of garbage: the codec must use dst[:0]
	case "alias":
		return prev
	}
	return nil
}

// corrupt builds a hostile stream from a valid one.
func (cs corruptSpec) apply(valid []byte) []byte {
	r := rand.New(rand.NewSource(cs.Seed))
	switch cs.Mode {
	case "trunc":
		n := len(valid) * cs.Pos / 1000
		if n >= len(valid) && len(valid) > 0 {
			n = len(valid) - 1
		}
		return append([]byte(nil), valid[:n]...)
	case "flip":
		b := append([]byte(nil), valid...)
		if len(b) > 0 {
			i := len(b) * cs.Pos / 1000
			if i >= len(b) {
				i = len(b) - 1
			}
			b[i] ^= 1 << uint(cs.Bit&7)
		}
		return b
	case "tail":
		// a complete valid stream followed by 1..8 more bytes
		t := make([]byte, 1+cs.Bit)
		r.Read(t)
		return append(append([]byte(nil), valid...), t...)
	case "garbage":
		b := make([]byte, cs.Len)
		r.Read(b)
		return b
	case "badend", "sticky":
		// magic codec: header 30 = the payload is delivered, then Read reports an error;
		// header 29 = a clean stream after which Reset(nil) fails
		b := make([]byte, 1+cs.Len)
		r.Read(b)
		b[0] = 30
		if cs.Mode == "sticky" {
			b[0] = 29
		}
		return b
	case "gzhdr":
		b := make([]byte, 10+cs.Len)
		r.Read(b)
		copy(b, []byte{0x1f, 0x8b, 8, 0, 0, 0, 0, 0, 0, 0xff})
		return b
	case "zstdhdr":
		b := make([]byte, 4+cs.Len)
		r.Read(b)
		copy(b, []byte{0x28, 0xb5, 0x2f, 0xfd})
		return b
	case "zstdfcs":
		// a syntactically valid frame header that declares cs.Len MiB of content, then an empty last block
		b := []byte{0x28, 0xb5, 0x2f, 0xfd, 0xc0, 0x00}
		b = binary.LittleEndian.AppendUint64(b, uint64(cs.Len)<<20)
		return append(b, 1, 0, 0)
	case "snappylen":
		// preamble declares cs.Len MiB, body is one short literal
		b := binary.AppendUvarint(nil, uint64(cs.Len)<<20)
		return append(b, 0x08, 'a', 'b', 'c')
	case "lz4len":
		// token 0xFF followed by 255s: literal / match lengths far beyond the input
		b := make([]byte, 2+cs.Len)
		for i := range b {
			b[i] = 0xff
		}
		if cs.Pos%2 == 1 {
			copy(b, []byte{0x1f, 'x', 1, 0}) // one literal, then a match of offset 1 with a huge length
		}
		return b
	}
	return []byte{}
}

// ---- codecs under test -----------------------------------------------------

type codecInfo struct {
	name   string
	shared compress.Codec        // the value exported by package parquet, shared process-wide
	fresh  func() compress.Codec // a new instance with the same parameters and empty pools
}

func codecs() []codecInfo {
	return []codecInfo{
		{"uncompressed", &parquet.Uncompressed, func() compress.Codec { return new(uncompressed.Codec) }},
		{"snappy", &parquet.Snappy, func() compress.Codec { return new(snappy.Codec) }},
		{"gzip", &parquet.Gzip, func() compress.Codec { return &gzip.Codec{Level: parquet.Gzip.Level} }},
		{"brotli", &parquet.Brotli, func() compress.Codec {
			return &brotli.Codec{Quality: parquet.Brotli.Quality, LGWin: parquet.Brotli.LGWin}
		}},
		{"zstd", &parquet.Zstd, func() compress.Codec {
			return &zstd.Codec{Level: parquet.Zstd.Level, Concurrency: parquet.Zstd.Concurrency}
		}},
		{"lz4", &parquet.Lz4Raw, func() compress.Codec { return &lz4.Codec{Level: parquet.Lz4Raw.Level} }},
		{"magic", sharedMagic, func() compress.Codec { return new(magicCodec) }},
	}
}

func codecByName(name string) *codecInfo {
	if strings.Contains(name, "#") {
		return configuredCodec(name)
	}
	if base, level, ok := strings.Cut(name, "@"); ok {
		return levelledCodec(base, level)
	}
	for _, ci := range codecs() {
		if ci.name == name {
			c := ci
			return &c
		}
	}
	return nil
}

// ---- the same codec types at every compression level ----------------------------
//
// "zstd@3", "gzip@9", "brotli@11/16" (quality/lgwin), "lz4@99": one value per
// name and process, shared by all calls of a history like the values exported
// by package parquet are (its pools fill with encoders/decoders of that
// level); fresh() builds a new value with the same parameters.

var (
	levelledMu sync.Mutex
	levelled   = map[string]compress.Codec{}
)

// codecLevels lists the levels of a codec type: every named level of the
// package, the zero value of the Codec struct, and for the numeric scales both
// ends and the middle.
func codecLevels(base string) []string {
	switch base {
	case "zstd":
		return []string{"0", "1", "2", "3", "4"} // zero value (= default), SpeedFastest, SpeedDefault, SpeedBetterCompression, SpeedBestCompression
	case "gzip":
		return []string{"-2", "0", "1", "6", "9"} // HuffmanOnly, NoCompression (the zero value), BestSpeed, 6, BestCompression
	case "brotli":
		return []string{"1", "5", "9", "11", "2/10", "6/16", "4/24"} // quality[/lgwin]; quality 0 lgwin 0 is parquet.Brotli
	case "lz4":
		return []string{"99", "512", "4096", "131072"} // Fastest, Level1, Level4, Level9 (CompressorHC); Fast is parquet.Lz4Raw
	}
	return nil
}

// codecNames: the exported values and every levelled variant.
func codecNames(levels bool) []string {
	names := []string{"uncompressed", "snappy", "gzip", "brotli", "zstd", "lz4"}
	if levels {
		for _, base := range []string{"gzip", "brotli", "zstd", "lz4"} {
			for _, l := range codecLevels(base) {
				names = append(names, base+"@"+l)
			}
		}
	}
	return names
}

func levelledCodec(base, level string) *codecInfo {
	q, lg, _ := strings.Cut(level, "/")
	a, err := strconv.Atoi(q)
	if err != nil {
		return nil
	}
	b := 0
	if lg != "" {
		if b, err = strconv.Atoi(lg); err != nil {
			return nil
		}
	}
	var fresh func() compress.Codec
	switch base {
	case "zstd":
		fresh = func() compress.Codec { return &zstd.Codec{Level: zstd.Level(a)} }
	case "gzip":
		fresh = func() compress.Codec { return &gzip.Codec{Level: a} }
	case "brotli":
		fresh = func() compress.Codec { return &brotli.Codec{Quality: a, LGWin: b} }
	case "lz4":
		fresh = func() compress.Codec { return &lz4.Codec{Level: lz4.Level(a)} }
	default:
		return nil
	}
	name := base + "@" + level
	levelledMu.Lock()
	defer levelledMu.Unlock()
	if levelled[name] == nil {
		levelled[name] = fresh()
	}
	return &codecInfo{name: name, shared: levelled[name], fresh: fresh}
}

// baseCodec strips the level or the configuration: "zstd@3", "zstd#Level=3" -> "zstd".
func baseCodec(name string) string {
	base, _, _ := strings.Cut(name, "@")
	base, _, _ = strings.Cut(base, "#")
	return base
}

// declaredSize: what the header of a snappy / zstd stream announces (0 when it cannot be parsed).
func declaredSize(codec string, src []byte) uint64 {
	switch baseCodec(codec) {
	case "snappy":
		v, n := binary.Uvarint(src)
		if n > 0 {
			return v
		}
	case "zstd":
		if len(src) < 6 || src[0] != 0x28 || src[1] != 0xb5 || src[2] != 0x2f || src[3] != 0xfd {
			return 0
		}
		fhd := src[4]
		single := fhd&0x20 != 0
		pos := 5
		if !single {
			pos++
		}
		pos += []int{0, 1, 2, 4}[fhd&3]
		var n int
		switch fhd >> 6 {
		case 0:
			if !single {
				return 0
			}
			n = 1
		case 1:
			n = 2
		case 2:
			n = 4
		default:
			n = 8
		}
		if len(src) < pos+n {
			return 0
		}
		var v uint64
		for i := n - 1; i >= 0; i-- {
			v = v<<8 | uint64(src[pos+i])
		}
		if n == 2 {
			v += 256
		}
		return v
	}
	return 0
}
