package main

import (
	"fmt"
	"reflect"
	"strconv"
	"strings"

	"github.com/parquet-go/parquet-go/compress"
	"github.com/parquet-go/parquet-go/compress/brotli"
	"github.com/parquet-go/parquet-go/compress/gzip"
	"github.com/parquet-go/parquet-go/compress/lz4"
	"github.com/parquet-go/parquet-go/compress/snappy"
	"github.com/parquet-go/parquet-go/compress/uncompressed"
	"github.com/parquet-go/parquet-go/compress/zstd"

	"verif/harness/core"
)

// ---- every exported field of every Codec struct ---------------------------------
//
// The property speaks of "every supported codec configuration": a configuration
// is an assignment of the EXPORTED fields of a Codec struct.  The fields are
// found by reflection (a field added to a Codec struct is swept without anybody
// having to remember it) and each is swept over its meaningful values: the
// documented range where one is known (fieldRanges), for any other integer or
// boolean field a generic set by kind.  Names: "zstd#Level=3,Concurrency=4"
// (fields in the order of the struct, zero-valued fields left out); one shared
// value per name and process, like the values exported by package parquet.

var codecTypes = map[string]reflect.Type{
	"uncompressed": reflect.TypeOf(uncompressed.Codec{}),
	"snappy":       reflect.TypeOf(snappy.Codec{}),
	"gzip":         reflect.TypeOf(gzip.Codec{}),
	"brotli":       reflect.TypeOf(brotli.Codec{}),
	"zstd":         reflect.TypeOf(zstd.Codec{}),
	"lz4":          reflect.TypeOf(lz4.Codec{}),
}

var codecBases = []string{"uncompressed", "snappy", "gzip", "brotli", "zstd", "lz4"}

func seq(lo, hi int64) []int64 {
	var v []int64
	for x := lo; x <= hi; x++ {
		v = append(v, x)
	}
	return v
}

// fieldRanges: the documented values of the fields known today.
var fieldRanges = map[string][]int64{
	"gzip.Level":       seq(-2, 9),                         // HuffmanOnly, DefaultCompression, NoCompression, BestSpeed .. BestCompression
	"brotli.Quality":   seq(0, 11),                         // "Range is 0 to 11"
	"brotli.LGWin":     append([]int64{0}, seq(10, 24)...), // "Range is 10 to 24. 0 indicates automatic configuration"
	"zstd.Level":       seq(0, 4),                          // zero value, SpeedFastest .. SpeedBestCompression
	"zstd.Concurrency": {0, 1, 2, 3, 4, 5, 8, 16},          // "number of CPU cores to use"; 0 = default
	"lz4.Level": {int64(lz4.Fast), int64(lz4.Fastest), int64(lz4.Level1), int64(lz4.Level2), int64(lz4.Level3), int64(lz4.Level4),
		int64(lz4.Level5), int64(lz4.Level6), int64(lz4.Level7), int64(lz4.Level8), int64(lz4.Level9)},
}

type codecField struct {
	Base, Name string
	Kind       reflect.Kind
	Values     []int64 // booleans: 0 / 1
}

// codecFields: the exported fields of the Codec struct of base and the values
// each is swept over; unswept lists the exported fields of a kind the harness
// cannot assign (none today).
func codecFields(base string) (fields []codecField, unswept []string) {
	t := codecTypes[base]
	for i := 0; i < t.NumField(); i++ {
		f := t.Field(i)
		if !f.IsExported() {
			continue
		}
		cf := codecField{Base: base, Name: f.Name, Kind: f.Type.Kind()}
		switch f.Type.Kind() {
		case reflect.Int, reflect.Int8, reflect.Int16, reflect.Int32, reflect.Int64:
			cf.Values = []int64{-1, 0, 1, 2, 3, 4, 7, 8, 16}
		case reflect.Uint, reflect.Uint8, reflect.Uint16, reflect.Uint32, reflect.Uint64:
			cf.Values = []int64{0, 1, 2, 3, 4, 7, 8, 16}
		case reflect.Bool:
			cf.Values = []int64{0, 1}
		default:
			unswept = append(unswept, base+".Codec."+f.Name+" ("+f.Type.String()+")")
			continue
		}
		if r, ok := fieldRanges[base+"."+f.Name]; ok {
			cf.Values = r
		}
		fields = append(fields, cf)
	}
	return fields, unswept
}

// configName renders an assignment of the fields of base, in struct order.
func configName(base string, set map[string]int64) string {
	fields, _ := codecFields(base)
	var parts []string
	for _, f := range fields {
		if v, ok := set[f.Name]; ok && v != 0 {
			parts = append(parts, f.Name+"="+strconv.FormatInt(v, 10))
		}
	}
	return base + "#" + strings.Join(parts, ",")
}

// parseConfig: "zstd#Level=3,Concurrency=4" -> base, fields.
func parseConfig(name string) (base string, set map[string]int64, ok bool) {
	base, rest, found := strings.Cut(name, "#")
	if !found || codecTypes[base] == nil {
		return "", nil, false
	}
	set = map[string]int64{}
	if rest == "" {
		return base, set, true
	}
	for _, p := range strings.Split(rest, ",") {
		k, v, found := strings.Cut(p, "=")
		n, err := strconv.ParseInt(v, 10, 64)
		if !found || err != nil {
			return "", nil, false
		}
		set[k] = n
	}
	return base, set, true
}

// newConfigured builds a new Codec value of base with the fields of set assigned.
func newConfigured(base string, set map[string]int64) (compress.Codec, error) {
	p := reflect.New(codecTypes[base])
	for k, v := range set {
		f := p.Elem().FieldByName(k)
		if !f.IsValid() || !f.CanSet() {
			return nil, fmt.Errorf("%s.Codec has no exported field %s", base, k)
		}
		switch f.Kind() {
		case reflect.Int, reflect.Int8, reflect.Int16, reflect.Int32, reflect.Int64:
			f.SetInt(v)
		case reflect.Uint, reflect.Uint8, reflect.Uint16, reflect.Uint32, reflect.Uint64:
			f.SetUint(uint64(v))
		case reflect.Bool:
			f.SetBool(v != 0)
		default:
			return nil, fmt.Errorf("%s.Codec.%s: kind %s", base, k, f.Kind())
		}
	}
	c, ok := p.Interface().(compress.Codec)
	if !ok {
		return nil, fmt.Errorf("*%s.Codec is not a compress.Codec", base)
	}
	return c, nil
}

func configuredCodec(name string) *codecInfo {
	base, set, ok := parseConfig(name)
	if !ok {
		return nil
	}
	if _, err := newConfigured(base, set); err != nil {
		return nil
	}
	fresh := func() compress.Codec { c, _ := newConfigured(base, set); return c }
	levelledMu.Lock()
	defer levelledMu.Unlock()
	if levelled[name] == nil {
		levelled[name] = fresh()
	}
	return &codecInfo{name: name, shared: levelled[name], fresh: fresh}
}

// fieldConfigs: for every exported field of every Codec struct and every value
// of its range, one configuration with the other fields at their zero values
// and (when the struct has other fields) one with the other fields at values
// drawn from their ranges.
func fieldConfigs(c *core.Ctx) (names []string, unswept []string) {
	seen := map[string]bool{}
	add := func(n string) {
		if !seen[n] {
			seen[n] = true
			names = append(names, n)
		}
	}
	for _, base := range codecBases {
		fields, u := codecFields(base)
		unswept = append(unswept, u...)
		for i, f := range fields {
			for _, v := range f.Values {
				add(configName(base, map[string]int64{f.Name: v}))
				if len(fields) > 1 {
					set := map[string]int64{f.Name: v}
					for j, g := range fields {
						if j != i {
							set[g.Name] = g.Values[c.Rng.Intn(len(g.Values))]
						}
					}
					add(configName(base, set))
				}
			}
		}
	}
	return names, unswept
}

// levelOf: the base and the speed / density setting of a codec name of any
// syntax ("zstd", "zstd@3", "brotli@11/16", "brotli#Quality=11,LGWin=16"): what
// the time of a call depends on.
func levelOf(name string) (base, level string) {
	if b, set, ok := parseConfig(name); ok {
		for _, k := range []string{"Level", "Quality"} {
			if v, ok := set[k]; ok {
				return b, strconv.FormatInt(v, 10)
			}
		}
		return b, "0"
	}
	base, level, _ = strings.Cut(name, "@")
	level, _, _ = strings.Cut(level, "/")
	return base, level
}

// ---- lengths that are a multiple of nothing ---------------------------------------

func isPrime(n int) bool {
	if n < 2 {
		return false
	}
	for d := 2; d*d <= n; d++ {
		if n%d == 0 {
			return false
		}
	}
	return true
}

// oddLength: a length in [lo, hi] that no worker count, block size or word
// size divides: a prime, or a power of two plus or minus one.
func oddLength(c *core.Ctx, lo, hi int) int {
	if c.Rng.Intn(3) == 0 {
		var cands []int
		for k := 1; k < 31; k++ {
			for _, d := range []int{-1, 1} {
				if n := 1<<k + d; n >= lo && n <= hi {
					cands = append(cands, n)
				}
			}
		}
		if len(cands) > 0 {
			return cands[c.Rng.Intn(len(cands))]
		}
	}
	n := lo + c.Rng.Intn(hi-lo+1)
	for !isPrime(n) {
		n++
	}
	if n > hi {
		for n = hi; n > lo && !isPrime(n); n-- {
		}
	}
	return n
}

// primeIn: a prime of [lo, hi].
func primeIn(c *core.Ctx, lo, hi int) int {
	n := lo + c.Rng.Intn(hi-lo+1)
	for !isPrime(n) {
		n++
	}
	return n
}

// fieldHistory: round trips on one configuration: a small, a medium and a
// large input (a configuration may switch strategy with the size of the input:
// per-worker chunks, windows, block splits), every length a multiple of nothing,
// the large one a prime of 2-4 MiB (thorough: one more of 4-16 MiB), so that
// every worker of a 16-way split still gets 128 KiB or more.
func fieldHistory(c *core.Ctx, name string) *history {
	h := &history{Codec: name, DeadlineS: 600}
	sizes := []int{oddLength(c, 17, 64<<10), oddLength(c, 256<<10, 1<<20), primeIn(c, 2<<20, 4<<20)}
	if !c.Quick() {
		sizes = append(sizes, primeIn(c, 4<<20, 16<<20))
	}
	for _, size := range sizes {
		g := gensFor(name, size)
		in := inputSpec{Gen: g[c.Rng.Intn(len(g))], Size: size, Seed: int64(c.Rng.Intn(1 << 20))}
		enc, dec := genDst(c, size), genDst(c, size)
		if c.Rng.Intn(2) == 0 {
			enc, dec = dstSpec{Mode: "nil"}, dstSpec{Mode: "nil"}
		}
		h.Ops = append(h.Ops, op{Kind: "rt", In: in, EncDst: enc, DecDst: dec})
	}
	return h
}

// ---- inputs near the largest ratio of each format ---------------------------------
//
// Runs of one byte, of a short period and of zeros (the PLAIN page of a constant
// column) at the top of the size range: every format has a largest ratio
// (deflate 1032:1, LZ4 255:1, snappy about 21:1; zstd and brotli reach 10^4 to
// 10^6) and a decoder that sizes, grows or bounds its buffer from the input
// length meets that ratio only on such inputs, and only when they are long (the
// fixed cost of a stream hides it below a few MiB).

var runGens = []string{"zero", "run", "rep"}

func ratioHistory(c *core.Ctx, name string) *history {
	h := &history{Codec: name, DeadlineS: 600}
	sizes := []int{8 << 20, 16 << 20, 32 << 20}
	c.Rng.Shuffle(len(sizes), func(i, j int) { sizes[i], sizes[j] = sizes[j], sizes[i] })
	add := func(gen string, size int) {
		in := inputSpec{Gen: gen, Size: size, Seed: int64(c.Rng.Intn(1 << 20))}
		enc, dec := dstSpec{Mode: "nil"}, dstSpec{Mode: "nil"}
		if c.Rng.Intn(2) == 0 {
			enc, dec = genDst(c, size), genDst(c, size)
		}
		h.Ops = append(h.Ops, op{Kind: "rt", In: in, EncDst: enc, DecDst: dec})
	}
	for i, gen := range runGens {
		// every kind of run once per codec value, each at a different one of 8 / 16 / 32 MiB (less a little, or exactly)
		add(gen, sizes[i]-c.Rng.Intn(2)*c.Rng.Intn(1<<16))
		if !c.Quick() {
			add(gen, 4<<20+c.Rng.Intn(28<<20))
		}
	}
	return h
}
