package main

import (
	"errors"
	"io"

	"github.com/parquet-go/parquet-go/compress"
	"github.com/parquet-go/parquet-go/format"
)

// The "magic byte" codec of coq/theories/Codec/Instance.v, run through the REAL
// pooled wrappers compress.Compressor / compress.Decompressor of /repo.  A
// compressed stream is 31 followed by the data; header 30 delivers the data and
// ends in a Read error that leaves the reader broken although its Reset returns
// nil (like brotli after "excessive input"); header 29 delivers the data and
// ends cleanly but the Reset(nil) that follows FAILS and leaves the reader
// broken.  If the wrapper put a broken reader back in the pool, the next Decode
// served by it would return "BRK".
type magicCodec struct {
	r compress.Decompressor
	w compress.Compressor
}

var sharedMagic = new(magicCodec)

func (c *magicCodec) String() string                            { return "MAGIC" }
func (c *magicCodec) CompressionCodec() format.CompressionCodec { return -1 }

func (c *magicCodec) Encode(dst, src []byte) ([]byte, error) {
	return c.w.Encode(dst, src, func(w io.Writer) (compress.Writer, error) {
		return &magicWriter{w: w}, nil
	})
}

func (c *magicCodec) Decode(dst, src []byte) ([]byte, error) {
	return c.r.Decode(dst, src, func(r io.Reader) (compress.Reader, error) {
		m := new(magicReader)
		if err := m.load(r); err != nil {
			return nil, err
		}
		return m, nil
	})
}

type magicWriter struct{ w io.Writer }

func (m *magicWriter) Write(p []byte) (int, error) {
	if _, err := m.w.Write([]byte{31}); err != nil {
		return 0, err
	}
	return m.w.Write(p)
}
func (m *magicWriter) Close() error      { return nil }
func (m *magicWriter) Reset(w io.Writer) { m.w = w }

type magicReader struct {
	rem                    []byte
	badEnd, sticky, broken bool
}

var (
	errMagicHeader = errors.New("magic: bad header")
	errMagicEnd    = errors.New("magic: bad trailer")
	errMagicSticky = errors.New("magic: reset failed")
)

func (m *magicReader) load(r io.Reader) error {
	data, _ := io.ReadAll(r)
	m.rem, m.badEnd, m.sticky = nil, false, false
	if len(data) == 0 || data[0] < 29 || data[0] > 31 {
		return errMagicHeader
	}
	m.rem = append([]byte(nil), data[1:]...)
	m.badEnd = data[0] == 30
	m.sticky = data[0] == 29
	return nil
}

func (m *magicReader) Reset(r io.Reader) error {
	if m.broken {
		if r != nil {
			m.rem, m.badEnd, m.sticky = []byte("BRK"), false, false
		}
		return nil
	}
	if r == nil {
		if m.sticky {
			m.broken, m.rem, m.badEnd, m.sticky = true, nil, false, false
			return errMagicSticky
		}
		m.rem, m.badEnd, m.sticky = nil, false, false
		return nil
	}
	return m.load(r)
}

func (m *magicReader) Read(p []byte) (int, error) {
	n := copy(p, m.rem)
	m.rem = m.rem[n:]
	if len(m.rem) == 0 {
		if m.badEnd {
			m.broken = true
			return n, errMagicEnd
		}
		return n, io.EOF
	}
	return n, nil
}

func (m *magicReader) Close() error { return nil }
