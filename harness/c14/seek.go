// C14 — sources that fail or end early AFTER OpenFile, combined with SeekToRow
// histories.
//
// Files whose column chunks hold many small pages are opened over an intact
// source; then the source loses its tail (short reads with io.EOF) or one of
// its ReadAt calls fails, and the file is read after one or two SeekToRow calls
// that go several pages ahead: through the Pages of every column chunk, through
// GenericReader with 1-row and larger batches, and through the deprecated
// Reader (one row per call).  The file is opened with its page index (the
// seek goes to the page) and without (SkipPageIndex: the pages before the row
// are read and dropped), with the default and with a 64-byte read buffer.
//
// Predicate: a read that does not deliver what the same history delivers over
// the intact source returns a non-EOF error; what was delivered before the
// error is a prefix of it; nothing panics.  Model: Sink/Reader.v
// seek_read_pages (number of pages returned, end | unexpected) for the Pages of
// one chunk after one seek over a truncated source.
package main

import (
	"bytes"
	"encoding/json"
	"errors"
	"fmt"
	"io"
	"sort"
	"strings"

	"github.com/parquet-go/parquet-go"

	"verif/harness/core"
)

type c14SeekOpen struct {
	Name    string
	NoIndex bool
	RBS     int
}

var c14SeekOpens = []c14SeekOpen{
	{Name: "default"},
	{Name: "skip-page-index", NoIndex: true},
	{Name: "skip-page-index,read-buffer=64", NoIndex: true, RBS: 64},
	{Name: "read-buffer=64", RBS: 64},
}

func (o c14SeekOpen) options() []parquet.FileOption {
	var out []parquet.FileOption
	if o.NoIndex {
		out = append(out, parquet.SkipPageIndex(true))
	}
	if o.RBS > 0 {
		out = append(out, parquet.ReadBufferSize(o.RBS))
	}
	return out
}

func c14SeekOpenByName(n string) c14SeekOpen {
	for _, o := range c14SeekOpens {
		if o.Name == n {
			return o
		}
	}
	return c14SeekOpens[0]
}

// c14SeekCase is one history on one file (also the replay).
type c14SeekCase struct {
	What  string  `json:"what"` // seek
	Spec  c14Spec `json:"spec"`
	Open  string  `json:"open_options"`
	API   string  `json:"api"`             // pages | generic | reader
	Batch int     `json:"batch,omitempty"` // rows per Read call (generic)
	RG    int     `json:"row_group"`       // pages: the column chunk
	Col   int     `json:"column"`
	// rows given to SeekToRow, in order; after every seek but the last one
	// batch (one page) is read; after the last one everything to the end.
	// Rows of the file for the row readers, of the row group for pages.
	Seeks []int64 `json:"seek_rows"`
	Mode  string  `json:"source"` // truncated-after-open | error | short-eof | short-unexpected-eof | short-error
	L     int     `json:"available_bytes,omitempty"`
	Call  int     `json:"readat_call_after_open,omitempty"`
}

type c14SeekOut struct {
	items  []string // one text per value (pages) or per row (row readers)
	pages  int      // pages returned by ReadPage
	err    error    // nil: the read ended with io.EOF
	stage  string
	panick string
}

func c14RowText(r *c14Row) string {
	tag := "<nil>"
	if r.Tag != nil {
		tag = fmt.Sprintf("%q", *r.Tag)
	}
	return fmt.Sprintf("%d|%q|%s|%v", r.ID, r.Name, tag, r.Vals)
}

// seekRun opens the file over src, calls arm (the source starts to fail), and
// performs the history.
func (env *c14Env) seekRun(cs *c14SeekCase, src io.ReaderAt, size int, arm func()) (out c14SeekOut) {
	defer func() {
		if x := recover(); x != nil {
			out.panick = fmt.Sprint(x)
		}
	}()
	opts := append(env.openOpts(&cs.Spec), c14SeekOpenByName(cs.Open).options()...)
	f, err := parquet.OpenFile(src, int64(size), opts...)
	if err != nil {
		out.err, out.stage = err, "open"
		return
	}
	arm()
	const maxItems = 200000
	switch cs.API {
	case "pages":
		pages := f.RowGroups()[cs.RG].ColumnChunks()[cs.Col].Pages()
		defer pages.Close()
		readPage := func() (bool, error) {
			p, err := pages.ReadPage()
			if err != nil {
				return false, err
			}
			out.pages++
			vr := p.Values()
			var buf [64]parquet.Value
			for {
				n, err := vr.ReadValues(buf[:])
				for i := 0; i < n; i++ {
					out.items = append(out.items, fmt.Sprintf("%+v", buf[i]))
				}
				if err == io.EOF {
					break
				}
				if err != nil {
					parquet.Release(p)
					return false, err
				}
				if n == 0 || len(out.items) > maxItems {
					parquet.Release(p)
					return false, errors.New("c14: value reader does not end")
				}
			}
			parquet.Release(p)
			return true, nil
		}
		for i, r := range cs.Seeks {
			if err := pages.SeekToRow(r); err != nil {
				out.err, out.stage = err, "seek"
				return
			}
			if i < len(cs.Seeks)-1 {
				// (the end of the data is not the end of the history)
				if _, err := readPage(); err != nil && err != io.EOF {
					out.err, out.stage = err, "read"
					return
				}
			}
		}
		for {
			if _, err := readPage(); err != nil {
				if err != io.EOF {
					out.err, out.stage = err, "read"
				}
				return
			}
		}
	case "generic":
		rd := parquet.NewGenericReader[c14Row](f)
		defer rd.Close()
		buf := make([]c14Row, cs.Batch)
		read := func() (bool, error) {
			for i := range buf {
				buf[i] = c14Row{}
			}
			n, err := rd.Read(buf)
			for i := 0; i < n; i++ {
				out.items = append(out.items, c14RowText(&buf[i]))
			}
			if err != nil {
				return false, err
			}
			if n == 0 || len(out.items) > maxItems {
				return false, errors.New("c14: Read returned 0 rows and no error")
			}
			return true, nil
		}
		for i, r := range cs.Seeks {
			if err := rd.SeekToRow(r); err != nil {
				out.err, out.stage = err, "seek"
				return
			}
			if i < len(cs.Seeks)-1 {
				if _, err := read(); err != nil && err != io.EOF {
					out.err, out.stage = err, "read"
					return
				}
			}
		}
		for {
			if _, err := read(); err != nil {
				if err != io.EOF {
					out.err, out.stage = err, "read"
				}
				return
			}
		}
	case "reader":
		rd := parquet.NewReader(f)
		defer rd.Close()
		read := func() error {
			var row c14Row
			if err := rd.Read(&row); err != nil {
				return err
			}
			out.items = append(out.items, c14RowText(&row))
			if len(out.items) > maxItems {
				return errors.New("c14: Reader.Read does not end")
			}
			return nil
		}
		for i, r := range cs.Seeks {
			if err := rd.SeekToRow(r); err != nil {
				out.err, out.stage = err, "seek"
				return
			}
			if i < len(cs.Seeks)-1 {
				if err := read(); err != nil && err != io.EOF {
					out.err, out.stage = err, "read"
					return
				}
			}
		}
		for {
			if err := read(); err != nil {
				if err != io.EOF {
					out.err, out.stage = err, "read"
				}
				return
			}
		}
	}
	out.err = fmt.Errorf("c14: unknown api %q", cs.API)
	return
}

func c14IsPrefix(a, b []string) bool {
	if len(a) > len(b) {
		return false
	}
	for i := range a {
		if a[i] != b[i] {
			return false
		}
	}
	return true
}

// c14SeekFile is a file of the seek scenario with what the histories deliver
// over the intact source.
type c14SeekFile struct {
	sp     *c14Spec
	ref    []byte
	chunks []c14Chunk // nil for encrypted files
	nrg    int
	ncol   int
	rgRows []int64
	base   []int64
	first  map[[2]int][]int64 // (rg, col) -> first row of every data page
	dict   map[[2]int]bool
	want   []string
	clean  map[string]*c14SeekOut
	calls  map[string]int
}

func (cs *c14SeekCase) historyKey() string {
	return fmt.Sprintf("%s|%s|%d|%d|%d|%v", cs.Open, cs.API, cs.Batch, cs.RG, cs.Col, cs.Seeks)
}

func (env *c14Env) seekFile(sp *c14Spec) *c14SeekFile {
	c := env.c
	sink := c14NewSink(c14Fault{Kind: "none"})
	o := env.run(sp, c14Cfg{Buf: -1, Pool: "default"}, sink, sink)
	if o.Hang || o.Panic != "" || o.First >= 0 {
		c.Violation("fault-free-run-differs", fmt.Sprintf("file %s: hang=%v panic=%q error=%v", sp.Name, o.Hang, o.Panic, o.First >= 0), nil)
		return nil
	}
	sf := &c14SeekFile{sp: sp, ref: o.Bytes, first: map[[2]int][]int64{}, dict: map[[2]int]bool{}, clean: map[string]*c14SeekOut{}, calls: map[string]int{}}
	f, err := parquet.OpenFile(bytes.NewReader(sf.ref), int64(len(sf.ref)), env.openOpts(sp)...)
	if err != nil {
		c.Violation("reference-unreadable", "file "+sp.Name+": "+err.Error(), nil)
		return nil
	}
	sf.chunks = env.chunksOf(sp, sf.ref)
	sf.base = []int64{0}
	for g, rg := range f.RowGroups() {
		sf.nrg++
		sf.rgRows = append(sf.rgRows, rg.NumRows())
		sf.base = append(sf.base, sf.base[g]+rg.NumRows())
		sf.ncol = len(rg.ColumnChunks())
		for j, cc := range rg.ColumnChunks() {
			oi, err := cc.OffsetIndex()
			if err != nil || oi == nil {
				c.Violation("reference-unreadable", fmt.Sprintf("file %s: no offset index for row group %d column %d: %v", sp.Name, g, j, err), nil)
				return nil
			}
			var fr []int64
			for i := 0; i < oi.NumPages(); i++ {
				fr = append(fr, oi.FirstRowIndex(i))
			}
			sf.first[[2]int{g, j}] = fr
			sf.dict[[2]int{g, j}] = f.Metadata().RowGroups[g].Columns[j].MetaData.DictionaryPageOffset > 0
		}
	}
	for _, g := range sp.rows() {
		for i := range g {
			sf.want = append(sf.want, c14RowText(&g[i]))
		}
	}
	return sf
}

// cleanOf: the history over the intact source (cached), with the number of
// ReadAt calls it makes after OpenFile.
func (env *c14Env) cleanOf(sf *c14SeekFile, cs *c14SeekCase) (*c14SeekOut, int) {
	k := cs.historyKey()
	if o, ok := sf.clean[k]; ok {
		return o, sf.calls[k]
	}
	src := &c14FaultyReaderAt{data: sf.ref, at: -1, limit: -1}
	opened := 0
	o := env.seekRun(cs, src, len(sf.ref), func() { opened = src.calls })
	sf.clean[k] = &o
	sf.calls[k] = src.calls - opened
	c := env.c
	rp := *cs
	rp.Mode = "intact"
	switch {
	case o.panick != "" || o.err != nil:
		c.Violation("seek-intact-source-rejected", fmt.Sprintf("file %s opened with %s, %s after SeekToRow %v over the intact source: err=%v panic=%q", sf.sp.Name, cs.Open, cs.API, cs.Seeks, o.err, o.panick), rp)
	case cs.API != "pages":
		// the rows of the history, from the rows that were written
		var want []string
		for i, r := range cs.Seeks {
			if i < len(cs.Seeks)-1 {
				want = append(want, sf.want[r:min(int(r)+max(cs.Batch, 1), len(sf.want))]...)
			} else {
				want = append(want, sf.want[r:]...)
			}
		}
		if strings.Join(want, "\n") != strings.Join(o.items, "\n") {
			c.Violation("seek-intact-source-differs", fmt.Sprintf("file %s opened with %s, %s after SeekToRow %v over the intact source: %d rows read, the rows written from there on are %d (or differ)", sf.sp.Name, cs.Open, cs.API, cs.Seeks, len(o.items), len(want)), rp)
		}
	}
	return &o, sf.calls[k]
}

// seekJudge runs one history over a failing source and evaluates the predicate.
// Returns the outcome of the run.
func (env *c14Env) seekJudge(sf *c14SeekFile, cs *c14SeekCase) *c14SeekOut {
	c := env.c
	clean, _ := env.cleanOf(sf, cs)
	if clean.err != nil || clean.panick != "" {
		return nil
	}
	src := &c14FaultyReaderAt{data: sf.ref, at: -1, limit: -1}
	arm := func() { src.limit = cs.L }
	if cs.Mode != "truncated-after-open" {
		arm = func() { src.at, src.mode = src.calls+cs.Call, cs.Mode }
	}
	o := env.seekRun(cs, src, len(sf.ref), arm)
	n := len(sf.ref)
	where := fmt.Sprintf("file %s (%d bytes, data pages v%d) opened with %s; then ", sf.sp.Name, n, sf.sp.V, cs.Open)
	if cs.Mode == "truncated-after-open" {
		where += fmt.Sprintf("only the first %d bytes of the source can be read (short reads with io.EOF beyond)", cs.L)
	} else {
		where += fmt.Sprintf("ReadAt call %d after OpenFile answers with %s", cs.Call, cs.Mode)
	}
	switch cs.API {
	case "pages":
		where += fmt.Sprintf("; Pages of row group %d column %d, SeekToRow %v then ReadPage", cs.RG, cs.Col, cs.Seeks)
	case "generic":
		where += fmt.Sprintf("; GenericReader, SeekToRow %v then Read of %d row(s) per call", cs.Seeks, cs.Batch)
	default:
		where += fmt.Sprintf("; Reader, SeekToRow %v then Read", cs.Seeks)
	}
	outcome := "error"
	switch {
	case o.panick != "":
		c.Violation("seek-panic", where+": panic "+core.Trunc(o.panick, 200), cs)
		outcome = "panic"
	case o.err == nil:
		outcome = "same-data"
		if src.hits > 0 && strings.Join(o.items, "\n") != strings.Join(clean.items, "\n") {
			c.Violation("seek-fault-masked", fmt.Sprintf("%s: the read ended with a clean io.EOF after %d of the %d items the intact source delivers: the missing bytes went unreported", where, len(o.items), len(clean.items)), cs)
			outcome = "masked"
		}
	case !c14IsPrefix(o.items, clean.items):
		c.Violation("seek-wrong-data-before-error", fmt.Sprintf("%s: %d items delivered before the error (%v) are not the first items the intact source delivers", where, len(o.items), o.err), cs)
		outcome = "wrong-data"
	}
	if src.hits == 0 {
		outcome = "not-reached"
	}
	hist := "seek"
	if len(cs.Seeks) > 1 {
		hist = "seek-read-seek"
	}
	api := cs.API
	if cs.API == "generic" {
		api = fmt.Sprintf("generic-%d", cs.Batch)
	}
	c.Case(fmt.Sprintf("seek/%s/%s/%s/%s/%s", cs.Open, api, hist, cs.Mode, outcome),
		fmt.Sprintf("%s|%s|%s|%d|%d", sf.sp.Name, cs.historyKey(), cs.Mode, cs.L, cs.Call), src.hits > 0)
	return &o
}

// seekModel compares the Pages of one chunk after ONE seek over a truncated
// source with Sink/Reader.v seek_read_pages.
func (env *c14Env) seekModel(sf *c14SeekFile, cs *c14SeekCase, o *c14SeekOut) {
	c := env.c
	if !c.HasOracle() || sf.chunks == nil || o == nil || o.panick != "" || len(cs.Seeks) != 1 || cs.API != "pages" || cs.Mode != "truncated-after-open" {
		return
	}
	ch := sf.chunks[cs.RG*sf.ncol+cs.Col]
	ps := strings.Split(ch.pages, ",")
	dict := "_"
	if sf.dict[[2]int{cs.RG, cs.Col}] {
		dict, ps = ps[0], ps[1:]
	}
	first := sf.first[[2]int{cs.RG, cs.Col}]
	if len(first) != len(ps) {
		c.Note("file %s row group %d column %d: %d data pages walked, offset index lists %d; seek model not compared", sf.sp.Name, cs.RG, cs.Col, len(ps), len(first))
		return
	}
	k := sort.Search(len(first), func(i int) bool { return first[i] > cs.Seeks[0] }) - 1
	if k < 0 {
		return
	}
	skipped := "_"
	if k > 0 {
		skipped = strings.Join(ps[:k], ",")
	}
	avail := min(max(cs.L-ch.start, 0), ch.size)
	noindex := "0"
	if c14SeekOpenByName(cs.Open).NoIndex {
		noindex = "1"
	}
	m := c.Ask(fmt.Sprintf("c14.seekpages 1 %s %d %d %s %s %s", noindex, ch.size, avail, dict, skipped, strings.Join(ps[k:], ",")))
	end := "end"
	if o.err != nil {
		end = "unexpected"
	}
	if got := fmt.Sprintf("%d/%s", o.pages, end); got != m {
		c.Mismatch("corr:C14.seekpages", fmt.Sprintf("file %s opened with %s, row group %d column %d (%d bytes, %d available), SeekToRow %d: page %d of %d", sf.sp.Name, cs.Open, cs.RG, cs.Col, ch.size, avail, cs.Seeks[0], k, len(ps)),
			got+fmt.Sprintf(" (%v)", o.err), m, cs)
	}
}

// c14SeekSpecs: column chunks of many small pages.
func c14SeekSpecs(c *core.Ctx) []c14Spec {
	specs := []c14Spec{
		{Name: "seek-v2", Groups: []int{56}, Batch: 20, V: 2, PageBuf: 64},
		{Name: "seek-v1-two-groups", Groups: []int{30, 26}, Batch: 13, V: 1, PageBuf: 64},
		{Name: "seek-v2-snappy-two-groups", Groups: []int{24, 32}, Batch: 9, V: 2, Codec: "snappy", PageBuf: 80, Salt: 3},
		{Name: "seek-v1-encrypted", Groups: []int{32}, Batch: 32, V: 1, Enc: 1, PageBuf: 64},
	}
	if !c.Quick() {
		specs = append(specs,
			c14Spec{Name: "seek-v1-zstd", Groups: []int{70}, Batch: 25, V: 1, Codec: "zstd", PageBuf: 48, Salt: 1},
			c14Spec{Name: "seek-v2-gzip-three-groups", Groups: []int{20, 33, 18}, Batch: 11, V: 2, Codec: "gzip", PageBuf: 72, Salt: 2},
			c14Spec{Name: "seek-v2-encrypted-footer", Groups: []int{20, 20}, Batch: 8, V: 2, Enc: 2, PageBuf: 64})
	}
	return specs
}

// seekFaults: the scenario on one file.
func (env *c14Env) seekFaults(sp *c14Spec) {
	c := env.c
	sf := env.seekFile(sp)
	if sf == nil {
		return
	}
	n := len(sf.ref)
	// truncation points: for every page its first byte, the middle of its
	// header, the first byte of its body, the middle and the last byte of its body
	type point struct{ t, rg, col int }
	var pts []point
	if sf.chunks != nil {
		for ci, ch := range sf.chunks {
			at := ch.start
			for _, pg := range strings.Split(ch.pages, ",") {
				var h, b int
				fmt.Sscanf(pg, "%d:%d", &h, &b)
				for _, t := range []int{at, at + h/2, at + h, at + h + b/2, at + h + b - 1} {
					if len(pts) == 0 || pts[len(pts)-1].t < t {
						pts = append(pts, point{t, ci / sf.ncol, ci % sf.ncol})
					}
				}
				at += h + b
			}
		}
	} else {
		// encrypted file: a stride over the data (the footer of the file starts
		// after the last column chunk and the page index)
		md, err := parquet.OpenFile(bytes.NewReader(sf.ref), int64(n), env.openOpts(sp)...)
		if err != nil {
			return
		}
		end := 4
		for _, rg := range md.Metadata().RowGroups {
			for _, col := range rg.Columns {
				s := int(col.MetaData.DataPageOffset)
				if col.MetaData.DictionaryPageOffset > 0 {
					s = int(col.MetaData.DictionaryPageOffset)
				}
				end = max(end, s+int(col.MetaData.TotalCompressedSize))
			}
		}
		for t := 4 + c.Rng.Intn(17); t < end; t += c.N(37, 7) {
			pts = append(pts, point{t, -1, -1})
		}
	}
	// histories: one seek a third / two thirds into the row group and to its
	// last row; a short seek, one batch, then a seek far ahead
	local := func(g int) [][]int64 {
		r := sf.rgRows[g]
		hs := [][]int64{{r / 3}, {2 * r / 3}, {r - 1}, {2, r - 3}}
		if !c.Quick() {
			hs = append(hs, []int64{1}, []int64{r / 2}, []int64{r / 4, r / 2})
		}
		return hs
	}
	opens := c14SeekOpens
	pagesCases, rowCases := 0, 0
	for _, op := range opens {
		// Pages of the chunk the source ends in (the chunks before are complete,
		// the chunks after have lost everything)
		for pi, pt := range pts {
			if pt.rg < 0 {
				continue
			}
			for _, h := range local(pt.rg) {
				cs := &c14SeekCase{What: "seek", Spec: *sp, Open: op.Name, API: "pages", RG: pt.rg, Col: pt.col, Seeks: h, Mode: "truncated-after-open", L: pt.t}
				o := env.seekJudge(sf, cs)
				env.seekModel(sf, cs, o)
				pagesCases++
			}
			_ = pi
		}
		// a ReadAt call after OpenFile fails: every call of the history, on the
		// first and on the last column of each row group
		for g := 0; g < sf.nrg; g++ {
			for _, col := range []int{0, sf.ncol - 1} {
				for _, h := range local(g)[1:] {
					cs := &c14SeekCase{What: "seek", Spec: *sp, Open: op.Name, API: "pages", RG: g, Col: col, Seeks: h}
					_, calls := env.cleanOf(sf, cs)
					for _, mode := range []string{"error", "short-eof", "short-unexpected-eof", "short-error"} {
						for i := 0; i < calls; i++ {
							cc := *cs
							cc.Mode, cc.Call = mode, i
							env.seekJudge(sf, &cc)
							pagesCases++
						}
					}
				}
			}
		}
		// the row readers: rows of the file
		type api struct {
			name  string
			batch int
		}
		for _, a := range []api{{"generic", 1}, {"generic", 17}, {"reader", 1}} {
			var hist [][]int64
			for g := 0; g < sf.nrg; g++ {
				for _, h := range local(g) {
					var hh []int64
					for _, r := range h {
						hh = append(hh, sf.base[g]+r)
					}
					hist = append(hist, hh)
				}
			}
			for hi, h := range hist {
				cs := &c14SeekCase{What: "seek", Spec: *sp, Open: op.Name, API: a.name, Batch: a.batch, Seeks: h}
				// truncation: quick runs every history on a third of the points
				for pi, pt := range pts {
					if c.Quick() && (pi+hi)%3 != 0 {
						continue
					}
					cc := *cs
					cc.Mode, cc.L = "truncated-after-open", pt.t
					env.seekJudge(sf, &cc)
					rowCases++
				}
				if op.RBS == 0 && a.batch == 17 {
					continue // failing calls: with the small read buffer, and one row per call
				}
				_, calls := env.cleanOf(sf, cs)
				step := 1
				if c.Quick() && calls > 24 {
					step = calls / 24
				}
				for _, mode := range []string{"error", "short-eof"} {
					for i := (hi * 7) % step; i < calls; i += step {
						cc := *cs
						cc.Mode, cc.Call = mode, i
						env.seekJudge(sf, &cc)
						rowCases++
					}
				}
			}
		}
	}
	c.Note("seek scenario, file %s (%d bytes, %d row groups): %d truncation points; %d cases through Pages, %d through the row readers", sp.Name, n, sf.nrg, len(pts), pagesCases, rowCases)
}

func (env *c14Env) replaySeek(raw json.RawMessage) {
	var cs c14SeekCase
	if err := json.Unmarshal(raw, &cs); err != nil {
		return
	}
	sf := env.seekFile(&cs.Spec)
	if sf == nil {
		return
	}
	if cs.Mode == "intact" {
		env.cleanOf(sf, &cs)
		return
	}
	o := env.seekJudge(sf, &cs)
	env.seekModel(sf, &cs, o)
}
