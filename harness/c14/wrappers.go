// C14, destinations behind the wrappers of the library.  The error of a
// destination must not get lost between the destination and the caller when
// the caller writes through one of the public row / page / value writer
// wrappers or copy routines: FilterRowWriter, TransformRowWriter,
// DedupeRowWriter, MultiRowWriter (the failing writer first and last),
// CopyRows, CopyPages, CopyValues, and a parquet writer whose io.Writer fails
// while one of them feeds it.
//
// The destination fails on ONE of its calls (every call index in turn) in
// one of three ways: (0, err); half the count and err; the full count and err
// (everything was taken, and the operation failed).  Predicate: some call of
// the caller (the writes, then Close when there is one) returns a non-nil
// error.  No model: the statement is about each wrapper handing the error on.
package main

import (
	"bytes"
	"errors"
	"fmt"
	"io"

	"github.com/parquet-go/parquet-go"
)

var errWrapped = errors.New("c14: injected failure of the wrapped destination")

// c14FailingDest is a RowWriter, PageWriter and ValueWriter that fails on its call number at.
type c14FailingDest struct {
	at, calls int
	mode      string // zero | half | full
	failed    bool
	rows      int
}

func (d *c14FailingDest) answer(n int) (int, error) {
	d.calls++
	if d.calls-1 == d.at {
		d.failed = true
		switch d.mode {
		case "zero":
			return 0, errWrapped
		case "half":
			return n / 2, errWrapped
		}
		return n, errWrapped
	}
	return n, nil
}

func (d *c14FailingDest) WriteRows(rows []parquet.Row) (int, error) {
	d.rows += len(rows)
	return d.answer(len(rows))
}

func (d *c14FailingDest) WriteValues(vs []parquet.Value) (int, error) { return d.answer(len(vs)) }

func (d *c14FailingDest) WritePage(p parquet.Page) (int64, error) {
	n, err := d.answer(int(p.NumValues()))
	return int64(n), err
}

type c14Healthy struct{}

func (c14Healthy) WriteRows(rows []parquet.Row) (int, error) { return len(rows), nil }

type c14WrapReplay struct {
	What    string  `json:"what"` // wrapper
	Spec    c14Spec `json:"spec"`
	Wrapper string  `json:"wrapper"`
	Call    int     `json:"failing_call"`
	Mode    string  `json:"mode"`
}

type c14Wrapper struct {
	Name string
	// Run writes the rows / pages / values through the wrapper into dst and
	// returns the errors of the caller's calls in order
	Run func(env *c14Env, dst *c14FailingDest, rows []parquet.Row, file *parquet.File) []error
}

func c14WriteBatches(w parquet.RowWriter, rows []parquet.Row) (errs []error) {
	for i := 0; i < len(rows); i += 7 {
		_, err := w.WriteRows(rows[i:min(i+7, len(rows))])
		errs = append(errs, err)
	}
	return errs
}

type c14RowSource struct {
	rows []parquet.Row
	at   int
}

func (s *c14RowSource) ReadRows(buf []parquet.Row) (int, error) {
	n := 0
	for n < len(buf) && n < 5 && s.at < len(s.rows) {
		buf[n] = append(buf[n][:0], s.rows[s.at]...)
		n++
		s.at++
	}
	if s.at >= len(s.rows) {
		return n, io.EOF
	}
	return n, nil
}

var c14Wrappers = []c14Wrapper{
	{"FilterRowWriter", func(env *c14Env, dst *c14FailingDest, rows []parquet.Row, _ *parquet.File) []error {
		k := 0
		return c14WriteBatches(parquet.FilterRowWriter(dst, func(parquet.Row) bool { k++; return k%3 != 0 }), rows)
	}},
	{"TransformRowWriter", func(env *c14Env, dst *c14FailingDest, rows []parquet.Row, _ *parquet.File) []error {
		return c14WriteBatches(parquet.TransformRowWriter(dst, func(d, s parquet.Row) (parquet.Row, error) { return append(d, s...), nil }), rows)
	}},
	{"DedupeRowWriter", func(env *c14Env, dst *c14FailingDest, rows []parquet.Row, _ *parquet.File) []error {
		return c14WriteBatches(parquet.DedupeRowWriter(dst, func(a, b parquet.Row) int { return 1 }), rows)
	}},
	{"MultiRowWriter(failing, healthy)", func(env *c14Env, dst *c14FailingDest, rows []parquet.Row, _ *parquet.File) []error {
		return c14WriteBatches(parquet.MultiRowWriter(dst, c14Healthy{}), rows)
	}},
	{"MultiRowWriter(healthy, failing)", func(env *c14Env, dst *c14FailingDest, rows []parquet.Row, _ *parquet.File) []error {
		return c14WriteBatches(parquet.MultiRowWriter(c14Healthy{}, dst), rows)
	}},
	{"Filter(Transform(Dedupe))", func(env *c14Env, dst *c14FailingDest, rows []parquet.Row, _ *parquet.File) []error {
		w := parquet.FilterRowWriter(parquet.TransformRowWriter(parquet.DedupeRowWriter(dst, func(a, b parquet.Row) int { return 1 }),
			func(d, s parquet.Row) (parquet.Row, error) { return append(d, s...), nil }), func(parquet.Row) bool { return true })
		return c14WriteBatches(w, rows)
	}},
	{"CopyRows", func(env *c14Env, dst *c14FailingDest, rows []parquet.Row, _ *parquet.File) []error {
		_, err := parquet.CopyRows(dst, &c14RowSource{rows: rows})
		return []error{err}
	}},
	{"CopyRows(file rows)", func(env *c14Env, dst *c14FailingDest, rows []parquet.Row, f *parquet.File) []error {
		r := f.RowGroups()[0].Rows()
		defer r.Close()
		_, err := parquet.CopyRows(dst, r)
		return []error{err}
	}},
	{"CopyRows(Reader)", func(env *c14Env, dst *c14FailingDest, rows []parquet.Row, f *parquet.File) []error {
		r := parquet.NewReader(f)
		defer r.Close()
		_, err := parquet.CopyRows(parquet.FilterRowWriter(dst, func(parquet.Row) bool { return true }), r)
		return []error{err}
	}},
	{"CopyPages", func(env *c14Env, dst *c14FailingDest, rows []parquet.Row, f *parquet.File) []error {
		p := f.RowGroups()[0].ColumnChunks()[0].Pages()
		defer p.Close()
		_, err := parquet.CopyPages(dst, p)
		return []error{err}
	}},
	{"CopyValues", func(env *c14Env, dst *c14FailingDest, rows []parquet.Row, f *parquet.File) []error {
		vr := parquet.NewColumnChunkValueReader(f.RowGroups()[0].ColumnChunks()[3])
		defer vr.Close()
		_, err := parquet.CopyValues(dst, vr)
		return []error{err}
	}},
}

// wrappers runs every wrapper over a destination failing at each of its calls.
func (env *c14Env) wrappers(sp *c14Spec, ref []byte) {
	c := env.c
	f, err := parquet.OpenFile(bytes.NewReader(ref), int64(len(ref)), env.openOpts(sp)...)
	if err != nil || sp.Enc != 0 {
		return
	}
	schema := parquet.SchemaOf(c14Row{})
	var rows []parquet.Row
	for _, g := range sp.rows() {
		for i := range g {
			rows = append(rows, schema.Deconstruct(nil, &g[i]))
		}
	}
	for wi := range c14Wrappers {
		w := &c14Wrappers[wi]
		// the number of calls the destination sees without fault
		dry := &c14FailingDest{at: -1}
		w.Run(env, dry, rows, f)
		for at := 0; at < dry.calls; at++ {
			for _, mode := range []string{"zero", "half", "full"} {
				dst := &c14FailingDest{at: at, mode: mode}
				var errs []error
				panicked := ""
				func() {
					defer func() {
						if x := recover(); x != nil {
							panicked = fmt.Sprint(x)
						}
					}()
					errs = w.Run(env, dst, rows, f)
				}()
				rp := c14WrapReplay{What: "wrapper", Spec: *sp, Wrapper: w.Name, Call: at, Mode: mode}
				c.Case("wrapper/"+w.Name+"/"+mode, fmt.Sprintf("%s|%s|%d|%s", sp.Name, w.Name, at, mode), dst.failed)
				reported := false
				for _, e := range errs {
					if e != nil {
						reported = true
					}
				}
				switch {
				case panicked != "":
					c.Violation("wrapper-panic", fmt.Sprintf("%s over a destination whose call %d of %d fails (%s count with an error), file %s: panic %s", w.Name, at, dry.calls, mode, sp.Name, panicked), rp)
				case dst.failed && !reported:
					c.Violation("wrapped-destination-error-dropped", fmt.Sprintf("%s over a destination whose call %d of %d returned an error (%s count): every call of the caller returned nil (file %s, %d rows)", w.Name, at, dry.calls, mode, sp.Name, len(rows)), rp)
				}
			}
		}
	}
}
