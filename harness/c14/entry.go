// C14, the write entry points.  The sites of the writer (Sink/Model.v) are
// reached through several public calls: GenericWriter.Write (its own loop
// over the rows), GenericWriter.WriteRows and the deprecated Writer.WriteRows
// (the loop of writer.WriteRows, which cuts row groups at MaxRowsPerRowGroup
// from within a call), Writer.Write(any) (one row per call),
// WriteRowGroup of a buffered row group, ReadRowsFrom (CopyRows into the
// writer) and SortingWriter (everything is written by Close, through
// WriteRowGroup of the merged temporary row groups).  Every entry point lives
// the same life (batches, Flush between the row groups, Close) against the
// fault script of the destination, with MaxRowsPerRowGroup cutting row groups
// inside the calls and with the transient fault "once": ONE write stops at
// offset k with an error and the destination works again afterwards, so that
// without a bufio layer (WriteBufferSize(0)) nothing but the writer's own
// error checks remembers the failure.
//
// Predicate (check): the destination returned an error => some call returns
// an error; every call returned nil => the bytes are those of the fault-free
// life.  Model: the sites of the life are recovered from the fault-free
// reference life of the SAME entry point; the row-based entry points write
// through the sites of Sink/Model.v and are compared with close_verdict (a
// transient error is, up to the first report, the persistent error at the
// same offset: the model stops at the first reported error); WriteRowGroup and
// SortingWriter may copy or re-encode column chunks, which is the copy path
// (Sink/Copy.v, copy.go): predicate only here.
package main

import (
	"fmt"
	"io"
	"sort"

	"github.com/parquet-go/parquet-go"
)

// c14Life is a writer behind one entry point.
type c14Life struct {
	name  string
	write func(rows []c14Row) error // one batch
	group func(rows []c14Row) error // one row group per call (when non-nil, write is not used)
	Flush func() error
	Close func() error
}

var c14Entries = []string{"", "generic-rows", "writer-rows", "writer-any", "read-rows-from", "row-group", "sorting"}

// c14EntryModelled: the entry point writes through the sites of Sink/Model.v only.
func c14EntryModelled(entry string) bool {
	switch entry {
	case "row-group", "sorting":
		return false
	}
	return true
}

func c14Deconstruct(schema *parquet.Schema, rows []c14Row) []parquet.Row {
	out := make([]parquet.Row, len(rows))
	for i := range rows {
		out[i] = schema.Deconstruct(nil, &rows[i])
	}
	return out
}

// c14BatchReader hands out the rows in batches of at most n.
type c14BatchReader struct {
	rows []parquet.Row
	n    int
}

func (r *c14BatchReader) ReadRows(buf []parquet.Row) (int, error) {
	k := 0
	for k < len(buf) && k < r.n && len(r.rows) > 0 {
		buf[k] = append(buf[k][:0], r.rows[0]...)
		r.rows = r.rows[1:]
		k++
	}
	if len(r.rows) == 0 {
		return k, io.EOF
	}
	return k, nil
}

func (env *c14Env) openEntry(sp *c14Spec, cfg c14Cfg, dst io.Writer) *c14Life {
	opts := env.options(sp, cfg)
	schema := parquet.SchemaOf(c14Row{})
	switch sp.Entry {
	case "":
		w := parquet.NewGenericWriter[c14Row](dst, opts...)
		return &c14Life{name: "Write", Flush: w.Flush, Close: w.Close,
			write: func(rows []c14Row) error { _, err := w.Write(rows); return err }}
	case "generic-rows":
		w := parquet.NewGenericWriter[c14Row](dst, opts...)
		return &c14Life{name: "GenericWriter.WriteRows", Flush: w.Flush, Close: w.Close,
			write: func(rows []c14Row) error { _, err := w.WriteRows(c14Deconstruct(schema, rows)); return err }}
	case "writer-rows":
		w := parquet.NewWriter(dst, append(opts, schema)...)
		return &c14Life{name: "Writer.WriteRows", Flush: w.Flush, Close: w.Close,
			write: func(rows []c14Row) error { _, err := w.WriteRows(c14Deconstruct(schema, rows)); return err }}
	case "writer-any":
		w := parquet.NewWriter(dst, append(opts, schema)...)
		return &c14Life{name: "Writer.Write(row by row)", Flush: w.Flush, Close: w.Close,
			write: func(rows []c14Row) error {
				// every row is written, the first error of the batch is the error of the call
				var first error
				for i := range rows {
					if err := w.Write(&rows[i]); err != nil && first == nil {
						first = err
					}
				}
				return first
			}}
	case "read-rows-from":
		w := parquet.NewGenericWriter[c14Row](dst, opts...)
		return &c14Life{name: "ReadRowsFrom", Flush: w.Flush, Close: w.Close,
			write: func(rows []c14Row) error {
				_, err := w.ReadRowsFrom(&c14BatchReader{rows: c14Deconstruct(schema, rows), n: 3})
				return err
			}}
	case "row-group":
		w := parquet.NewGenericWriter[c14Row](dst, opts...)
		return &c14Life{name: "WriteRowGroup", Flush: w.Flush, Close: w.Close,
			group: func(rows []c14Row) error {
				buf := parquet.NewGenericBuffer[c14Row]()
				if _, err := buf.Write(rows); err != nil {
					return err
				}
				_, err := w.WriteRowGroup(buf)
				return err
			}}
	case "sorting":
		w := parquet.NewSortingWriter[c14Row](dst, int64(max(sp.Batch, 2)+1), append(opts,
			parquet.SortingWriterConfig(parquet.SortingColumns(parquet.Descending("id"))))...)
		return &c14Life{name: "SortingWriter.Write", Flush: w.Flush, Close: w.Close,
			write: func(rows []c14Row) error { _, err := w.Write(rows); return err }}
	}
	panic("c14: unknown entry point " + sp.Entry)
}

// c14PieceMids: one offset strictly inside every Write call (of at least two
// bytes: its middle; of one byte: that byte) of the reference life, thinned
// to about limit offsets spread evenly, the first 4 and the last 8 kept.
func c14PieceMids(lay *c14Layout, limit int) []int {
	set := map[int]bool{}
	for _, st := range lay.sites {
		for _, p := range st.pieces {
			if p.n > 0 {
				set[p.off+p.n/2] = true
			}
		}
	}
	all := make([]int, 0, len(set))
	for k := range set {
		all = append(all, k)
	}
	sort.Ints(all)
	if len(all) <= limit || limit < 16 {
		return all
	}
	ks := append([]int(nil), all[:4]...)
	inner := all[4 : len(all)-8]
	step := float64(len(inner)) / float64(limit-12)
	for f := 0.0; int(f) < len(inner); f += step {
		ks = append(ks, inner[int(f)])
	}
	return append(ks, all[len(all)-8:]...)
}

func c14EntrySpecs(quick bool) []c14Spec {
	specs := []c14Spec{
		{Name: "entry-two-groups", Groups: []int{12, 9}, Batch: 5, V: 2, Bloom: true, PageBuf: 96},
		// MaxRowsPerRowGroup: row groups are cut inside the calls (one call for the whole input, and small batches)
		{Name: "entry-max-rows-one-call", Groups: []int{25}, Batch: 25, V: 2, MaxRows: 10, PageBuf: 200},
		{Name: "entry-max-rows-batches", Groups: []int{17, 9}, Batch: 4, V: 1, Codec: "snappy", MaxRows: 6, PageBuf: 128},
	}
	if !quick {
		specs = append(specs,
			c14Spec{Name: "entry-max-rows-one-row", Groups: []int{11}, Batch: 1, V: 2, MaxRows: 1, PageBuf: 4096},
			c14Spec{Name: "entry-max-rows-encrypted", Groups: []int{20}, Batch: 20, V: 2, Enc: 1, Bloom: true, MaxRows: 7, PageBuf: 256})
	}
	return specs
}

// entryPoints: every entry point x files x WriteBufferSize {0, 7} x fault kinds.
func (env *c14Env) entryPoints() {
	c := env.c
	for _, base := range c14EntrySpecs(c.Quick()) {
		for _, entry := range c14Entries {
			sp := base
			sp.Entry = entry
			sp.Name = base.Name + "/" + map[bool]string{true: "generic-write", false: entry}[entry == ""]
			bufs := []int{0, 7}
			if !c.Quick() {
				bufs = []int{0, 7, 100, -1}
			}
			var lay *c14Layout
			for _, buf := range bufs {
				cfg := c14Cfg{Buf: buf, Pool: "default"}
				if lay == nil {
					var err error
					lay, err = env.layout(&sp, cfg)
					if err != nil {
						c.Mismatch("corr:C14.layout", sp.Name, err.Error(), "-", c14Replay{What: "sink", Spec: sp, Cfg: cfg})
						break
					}
				}
				sink := c14NewSink(c14Fault{Kind: "none"})
				if o := env.run(&sp, cfg, sink, sink); o.Hang || o.Panic != "" || o.First >= 0 || string(o.Bytes) != string(lay.ref) {
					c.Violation("fault-free-run-differs", fmt.Sprintf("file %s under %+v without fault: hang=%v panic=%q error=%v", sp.Name, cfg, o.Hang, o.Panic, o.First >= 0),
						c14Replay{What: "sink", Spec: sp, Cfg: cfg, Fault: c14Fault{Kind: "none"}})
					continue
				}
				bucket := fmt.Sprintf("entry/%s/buf=%d", map[bool]string{true: "generic-write", false: entry}[entry == ""], buf)
				// the transient fault: inside the Write calls of the reference life and at
				// the first byte of every module; the other kinds on a thinner set (the
				// main sweep covers them densely through GenericWriter.Write)
				ks := c14PieceMids(lay, c.N(28, 400))
				for _, b := range lay.bounds {
					if !c.Quick() && b > 0 {
						ks = append(ks, b-1)
					}
					ks = append(ks, b)
				}
				sort.Ints(ks)
				ks = c14Uniq(ks)
				mids := c14PieceMids(lay, c.N(16, 200))
				env.sweep(&sp, cfg, lay, "once", ks, bucket)
				env.sweep(&sp, cfg, lay, "err", mids, bucket)
				env.sweep(&sp, cfg, lay, "short", mids, bucket)
				var pcs [][]c14Piece
				for _, st := range lay.sites {
					pcs = append(pcs, st.pieces)
				}
				env.sweep(&sp, cfg, lay, "full", c14PieceEnds(pcs, len(lay.ref), c.N(16, 400)), bucket)
			}
			if lay != nil && c.HasOracle() {
				c.Ask(fmt.Sprintf("c14.drop %d", lay.id))
			}
		}
	}
}

func c14Uniq(ks []int) []int {
	out := ks[:0]
	for i, k := range ks {
		if i == 0 || k != ks[i-1] {
			out = append(out, k)
		}
	}
	return out
}
