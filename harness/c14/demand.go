// C14 — the reader's demand: every ReadAt (offset, length) that OpenFile and a
// complete read issue on a generated file is recorded and compared with the
// demand computed by the model Sink/Demand.v from the footer's chunk table.
package main

import (
	"bytes"
	"fmt"
	"io"
	"strings"

	"github.com/parquet-go/parquet-go"
	"github.com/parquet-go/parquet-go/encoding/thrift"
	"github.com/parquet-go/parquet-go/format"
)

type c14RecReaderAt struct {
	r     io.ReaderAt
	reads [][2]int
}

func (r *c14RecReaderAt) ReadAt(p []byte, off int64) (int, error) {
	r.reads = append(r.reads, [2]int{int(off), len(p)})
	return r.r.ReadAt(p, off)
}

func c14Ranges(rs [][2]int) string {
	if len(rs) == 0 {
		return "_"
	}
	var sb strings.Builder
	for i, r := range rs {
		if i > 0 {
			sb.WriteByte(',')
		}
		fmt.Fprintf(&sb, "%d:%d", r[0], r[1])
	}
	return sb.String()
}

func c14ParseRanges(s string) [][2]int {
	var out [][2]int
	if s == "_" || s == "" {
		return out
	}
	for _, x := range strings.Split(s, ",") {
		var o, l int
		fmt.Sscanf(x, "%d:%d", &o, &l)
		out = append(out, [2]int{o, l})
	}
	return out
}

// demand: OpenFile + read of every row with buffered readers of bufSize bytes
// over a recording io.ReaderAt.
//
//	exact = true  : the sequence of reads of OpenFile equals the model's open
//	                demand, and the reads falling into each column chunk equal, in
//	                order, the model's reads of that chunk (EQUALITY, per chunk;
//	                the interleaving of the chunks is the row reader's business)
//	exact = false : (buffers shorter than a field of a page header, encrypted
//	                files) every read lies inside a declared range and the reads
//	                of each chunk tile it (CONTAINMENT + COVERAGE)
func (env *c14Env) demand(sp *c14Spec, ref []byte, bufSize int, exact bool) {
	c := env.c
	n := len(ref)
	where := fmt.Sprintf("file %s (%d bytes), ReadBufferSize %d", sp.Name, n, bufSize)
	rec := &c14RecReaderAt{r: bytes.NewReader(ref)}
	opts := append(env.openOpts(sp), parquet.ReadBufferSize(bufSize))
	f, err := parquet.OpenFile(rec, int64(n), opts...)
	if err != nil {
		c.Violation("reference-unreadable", where+": "+err.Error(), nil)
		return
	}
	nOpen := len(rec.reads)
	func() {
		defer func() { recover() }()
		rd := parquet.NewGenericReader[c14Row](f)
		defer rd.Close()
		buf := make([]c14Row, 17)
		for {
			k, err := rd.Read(buf)
			if err != nil || k == 0 {
				return
			}
		}
	}()
	openReads, pageReads := rec.reads[:nOpen], rec.reads[nOpen:]

	// the chunk table of the footer
	type row struct {
		start, size int
		txt         string
	}
	var rows []row
	enc := sp.Enc != 0
	flen := int(uint32(ref[n-8]) | uint32(ref[n-7])<<8 | uint32(ref[n-6])<<16 | uint32(ref[n-5])<<24)
	for _, rg := range f.Metadata().RowGroups {
		for _, col := range rg.Columns {
			md := &col.MetaData
			start := int(md.DataPageOffset)
			if md.DictionaryPageOffset > 0 {
				start = int(md.DictionaryPageOffset)
			}
			size := int(md.TotalCompressedSize)
			pages := "_"
			if !enc {
				var ps []string
				at, sum := start, 0
				for sum < size {
					var hdr format.PageHeader
					pr := new(thrift.CompactProtocol).NewReaderFromBytes(ref[at:])
					if err := thrift.NewDecoder(pr).Decode(&hdr); err != nil {
						c.Note("%s: page header at %d does not decode (%v); demand not compared", where, at, err)
						return
					}
					h, b := pr.BytesRead(), int(hdr.CompressedPageSize)
					ps = append(ps, fmt.Sprint(h), fmt.Sprint(b))
					sum += h + b
					at += h + b
				}
				if sum != size {
					c.Mismatch("corr:C14.demand", where, fmt.Sprintf("the pages of the chunk at %d add up to %d, TotalCompressedSize is %d", start, sum, size), "-", nil)
					return
				}
				pages = strings.Join(ps, ".")
			}
			bo, bh := 0, 0
			// OpenFile leaves the bloom filters of encrypted columns alone
			if md.BloomFilterOffset > 0 && !enc {
				bo = int(md.BloomFilterOffset)
				var hdr format.BloomFilterHeader
				pr := new(thrift.CompactProtocol).NewReaderFromBytes(ref[bo:])
				if err := thrift.NewDecoder(pr).Decode(&hdr); err != nil {
					c.Note("%s: bloom filter header at %d does not decode (%v); demand not compared", where, bo, err)
					return
				}
				bh = pr.BytesRead()
			}
			rows = append(rows, row{start, size, fmt.Sprintf("%d:%d:%d:%d:%d:%d:%d:%d:%s", start, size,
				col.ColumnIndexOffset, col.ColumnIndexLength, col.OffsetIndexOffset, col.OffsetIndexLength, bo, bh, pages)})
		}
	}
	var txt []string
	for _, r := range rows {
		txt = append(txt, r.txt)
	}
	tbl := fmt.Sprintf("%d %d %d %s", n, flen, max(bufSize, 16), strings.Join(txt, ";"))
	mode := "exact"
	if !exact {
		mode = "inside"
	}
	c.Case("demand/"+mode, fmt.Sprintf("%s|%d", sp.Name, bufSize), true)
	if sp.Name == "tiny" && exact && bufSize == 64 {
		c.Sample(map[string]any{"file": sp.Name, "read_buffer": bufSize, "readat_of_openfile": c14Ranges(openReads), "readat_of_full_read": c14Ranges(pageReads)})
	}

	// reads of the full read, chunk by chunk
	perChunk := make([][][2]int, len(rows))
	for _, rd := range pageReads {
		found := false
		for i, r := range rows {
			if rd[0] >= r.start && rd[0] < r.start+r.size {
				perChunk[i] = append(perChunk[i], rd)
				found = true
				break
			}
		}
		if !found {
			c.Mismatch("corr:C14.demand", where, fmt.Sprintf("ReadAt(len %d, off %d) during the full read starts in no column chunk of the footer", rd[1], rd[0]), "-", nil)
			return
		}
	}
	// predicate on the implementation alone: the reads of a chunk are
	// consecutive, start at its first byte, end at its last (every byte of the
	// chunk is requested once, nothing beyond it)
	for i, r := range rows {
		at := r.start
		for _, rd := range perChunk[i] {
			if rd[0] != at || rd[1] <= 0 {
				c.Mismatch("corr:C14.demand", where, fmt.Sprintf("chunk at %d: ReadAt(len %d, off %d) where offset %d was due", r.start, rd[1], rd[0], at), "-", nil)
				return
			}
			at += rd[1]
		}
		if at != r.start+r.size {
			c.Mismatch("corr:C14.demand", where, fmt.Sprintf("chunk at %d (%d bytes): the reads end at %d", r.start, r.size, at), fmt.Sprint(r.start+r.size), nil)
			return
		}
	}
	if !c.HasOracle() {
		return
	}
	// containment in the declared ranges (model) for every read
	decl := strings.Split(c.Ask("c14.declared "+tbl), "|")
	if len(decl) != 2 {
		c.Mismatch("corr:C14.demand", where, "-", strings.Join(decl, "|"), nil)
		return
	}
	declared := c14ParseRanges(decl[0])
	for _, rd := range rec.reads {
		in := false
		for _, d := range declared {
			if d[0] <= rd[0] && rd[0]+rd[1] <= d[0]+d[1] {
				in = true
				break
			}
		}
		if !in {
			c.Mismatch("corr:C14.demand", where, fmt.Sprintf("ReadAt(len %d, off %d) lies in no declared range", rd[1], rd[0]), decl[0], nil)
			return
		}
	}
	if !exact {
		return
	}
	ans := strings.Split(c.Ask("c14.demand "+tbl), "|")
	if len(ans) != 1+len(rows) {
		c.Mismatch("corr:C14.demand", where, "-", core14Trunc(strings.Join(ans, "|")), nil)
		return
	}
	if sp.Name == "tiny" {
		// vm_compute sample (cases.v): the table and what the library requested
		coqRanges := func(rs [][2]int) string {
			var out []string
			for _, r := range rs {
				out = append(out, fmt.Sprintf("(%d, %d)", r[0], r[1]))
			}
			return "[" + strings.Join(out, "; ") + "]"
		}
		var crows, creads []string
		for i, r := range rows {
			var f [8]int
			var pg string
			parts := strings.Split(r.txt, ":")
			for j := 0; j < 8; j++ {
				fmt.Sscan(parts[j], &f[j])
			}
			pg = parts[8]
			var pairs []string
			if pg != "_" {
				xs := strings.Split(pg, ".")
				for j := 0; j+1 < len(xs); j += 2 {
					pairs = append(pairs, fmt.Sprintf("(%s, %s)", xs[j], xs[j+1]))
				}
			}
			crows = append(crows, fmt.Sprintf("mkChunk %d %d [%s] (%d, %d) (%d, %d) (%d, %d)", f[0], f[1], strings.Join(pairs, "; "), f[2], f[3], f[4], f[5], f[6], f[7]))
			creads = append(creads, coqRanges(perChunk[i]))
		}
		env.vmDemand = append(env.vmDemand, fmt.Sprintf("(mkTable %d %d %d [%s], %s, [%s])", n, flen, max(bufSize, 16), strings.Join(crows, "; "), coqRanges(openReads), strings.Join(creads, "; ")))
	}
	if got := c14Ranges(openReads); got != ans[0] {
		c.Mismatch("corr:C14.demand", where+": ReadAt calls of OpenFile", got, ans[0], nil)
	}
	for i, r := range rows {
		if got := c14Ranges(perChunk[i]); got != ans[1+i] {
			c.Mismatch("corr:C14.demand", fmt.Sprintf("%s: ReadAt calls in the column chunk at %d", where, r.start), got, ans[1+i], nil)
			return
		}
	}
}

func core14Trunc(s string) string {
	if len(s) > 300 {
		return s[:300] + "..."
	}
	return s
}
