// C14 — I/O failures and truncated files are always reported.
//
// Writer side: real writers are driven through Write/Flush/Close against a
// destination that follows a fault script (error at byte offset k, or one
// short count with a nil error at offset k); the property predicate (some call
// reported an error, or the destination holds exactly the reference bytes) is
// evaluated on every run and the outcome is compared with the extracted model
// of Sink/Model.v run on the same layout (write sites recovered from the
// footer of the reference file and from the Write calls of a reference run).
// Reader side: every strict prefix of the produced files under every file
// option that changes how the file is opened and read (c14OpenVariants), and
// faults injected into the io.ReaderAt at every call index.
package main

import (
	"bytes"
	crand "crypto/rand"
	"encoding/json"
	"errors"
	"fmt"
	"io"
	"os"
	"path/filepath"
	"reflect"
	"sort"
	"strings"
	"time"

	"github.com/parquet-go/parquet-go"
	"github.com/parquet-go/parquet-go/compress"
	"github.com/parquet-go/parquet-go/encoding/thrift"
	"github.com/parquet-go/parquet-go/format"

	"verif/harness/core"
)

func main() { core.Main("C14", runC14, replayC14) }

// ---------------------------------------------------------------- files

type c14Row struct {
	ID   int64   `parquet:"id"`
	Name string  `parquet:"name,dict"`
	Tag  *string `parquet:"tag,optional"`
	Vals []int32 `parquet:"vals"`
}

// c14Spec describes a file; the rows are a function of the fields.
type c14Spec struct {
	Name    string `json:"name"`
	Groups  []int  `json:"groups"`   // rows per row group (Flush after each but the last)
	Batch   int    `json:"batch"`    // rows per Write call
	V       int    `json:"v"`        // data page version
	Codec   string `json:"codec"`    // "", snappy, zstd, gzip
	Bloom   bool   `json:"bloom"`    // split block filters on name and id
	Enc     int    `json:"enc"`      // 0 none, 1 plaintext footer + signature, 2 encrypted footer
	MaxRows int64  `json:"max_rows"` // MaxRowsPerRowGroup (row groups are then also cut inside Write)
	PageBuf int    `json:"page_buf"` // PageBufferSize
	Salt    int    `json:"salt"`
	// Entry: the write entry point of the life ("" = GenericWriter.Write in
	// batches; see c14Entries in entry.go)
	Entry string `json:"entry,omitempty"`
}

// c14Cfg is the writer configuration under which the faults are injected.
type c14Cfg struct {
	Buf      int    `json:"buf"`      // -1: default WriteBufferSize, 0: unbuffered, n: WriteBufferSize(n)
	Pool     string `json:"pool"`     // default | chunk | file
	Deferred string `json:"deferred"` // "" (inline bloom filters) | mem | file
}

type c14Fault struct {
	Kind string `json:"kind"` // none | err | short | full (every byte taken, full count AND an error) | once (ONE write stops at k with an error, the destination works again afterwards)
	K    int    `json:"k"`
}

type c14Replay struct {
	What  string   `json:"what"` // sink | truncate | readat | pagebuf
	Spec  c14Spec  `json:"spec"`
	Cfg   c14Cfg   `json:"cfg"`
	Fault c14Fault `json:"fault"`
	L     int      `json:"prefix_len,omitempty"`
	Open  string   `json:"open_options,omitempty"` // truncate: the file options of the failing open ("" = default)
	Call  int      `json:"readat_call,omitempty"`
	Mode  string   `json:"readat_mode,omitempty"`
}

var c14Names = []string{"alpha", "beta", "gamma-gamma-gamma", "delta", "a-rather-long-dictionary-value-0123456789"}

func (sp *c14Spec) rows() [][]c14Row {
	var out [][]c14Row
	id := int64(0)
	for _, n := range sp.Groups {
		var g []c14Row
		for i := 0; i < n; i++ {
			r := c14Row{ID: id*7 + int64(sp.Salt), Name: c14Names[(int(id)+sp.Salt)%len(c14Names)]}
			switch id % 4 {
			case 0:
				// every other one: a trailer with the magic of an encrypted footer
				// (footer length 24 + "PARE"); the others stay null
				if id%8 == 4 {
					s := "x\x18\x00\x00\x00PARE"
					r.Tag = &s
				}
			case 1:
				s := fmt.Sprintf("tag-%d", id)
				r.Tag = &s
			case 2:
				// a value that ends like a file trailer: footer length 32 + "PAR1"
				s := "zz\x20\x00\x00\x00PAR1"
				r.Tag = &s
			case 3:
				// trailer whose footer length exceeds any of the files
				s := "y\x00\x00\x10\x00PAR1"
				r.Tag = &s
			}
			for j := int64(0); j <= id%3; j++ {
				r.Vals = append(r.Vals, int32(id+j))
			}
			g = append(g, r)
			id++
		}
		out = append(out, g)
	}
	return out
}

var c14Key = []byte("0123456789abcdef")

type c14Keys struct{}

func (c14Keys) FooterKey([]byte) ([]byte, error)           { return c14Key, nil }
func (c14Keys) ColumnKey([]string, []byte) ([]byte, error) { return c14Key, nil }

func c14Codec(name string) compress.Codec {
	switch name {
	case "snappy":
		return &parquet.Snappy
	case "zstd":
		return &parquet.Zstd
	case "gzip":
		return &parquet.Gzip
	}
	return &parquet.Uncompressed
}

// detRand replaces crypto/rand.Reader so that encrypted files are
// reproducible (nonces become a counter; this is a test double, the
// encryption itself is not under test here).
type detRand struct{ n uint64 }

func (d *detRand) Read(p []byte) (int, error) {
	for i := range p {
		d.n = d.n*6364136223846793005 + 1442695040888963407
		p[i] = byte(d.n >> 56)
	}
	return len(p), nil
}

type c14Env struct {
	c       *core.Ctx
	workdir string
	timeout time.Duration
	layouts int
	// file options added to those of the file by readAll (the open variant
	// under which the prefix sweep runs); noKeys: the keys of an encrypted file
	// are withheld
	extraOpen []parquet.FileOption
	noKeys    bool
	// vm_compute sample of the copy path and of the reader's demand (cases.v)
	vmCopyDefs  []string
	vmCopyCases []string
	vmDemand    []string
}

func (env *c14Env) options(sp *c14Spec, cfg c14Cfg) []parquet.WriterOption {
	opts := []parquet.WriterOption{
		parquet.PageBufferSize(sp.PageBuf),
		parquet.DataPageVersion(sp.V),
		parquet.Compression(c14Codec(sp.Codec)),
		parquet.KeyValueMetadata("c14-key", "a value longer than the smallest write buffer"),
	}
	if sp.Bloom {
		opts = append(opts, parquet.BloomFilters(parquet.SplitBlockFilter(10, "name"), parquet.SplitBlockFilter(10, "id")))
	}
	if sp.MaxRows > 0 {
		opts = append(opts, parquet.MaxRowsPerRowGroup(sp.MaxRows))
	}
	switch sp.Enc {
	case 1:
		opts = append(opts, parquet.WithEncryption(&parquet.EncryptionConfig{FooterKey: c14Key, FileIdentifier: []byte("c14file!")}))
	case 2:
		opts = append(opts, parquet.WithEncryption(&parquet.EncryptionConfig{FooterKey: c14Key, FileIdentifier: []byte("c14file!"), EncryptedFooter: true}))
	}
	if cfg.Buf >= 0 {
		opts = append(opts, parquet.WriteBufferSize(cfg.Buf))
	}
	switch cfg.Pool {
	case "chunk":
		opts = append(opts, parquet.ColumnPageBuffers(parquet.NewChunkBufferPool(64)))
	case "file":
		opts = append(opts, parquet.ColumnPageBuffers(parquet.NewFileBufferPool(env.workdir, "pages-*")))
	}
	switch cfg.Deferred {
	case "mem":
		opts = append(opts, parquet.DeferBloomFiltersWithBuffers(parquet.NewChunkBufferPool(48)))
	case "file":
		opts = append(opts, parquet.DeferBloomFiltersWithBuffers(parquet.NewFileBufferPool(env.workdir, "bloom-*")))
	}
	return opts
}

// ---------------------------------------------------------------- destination

var errSinkFault = errors.New("c14: injected destination failure")

// c14Sink is the destination: fault script of Sink/Model.v (sink_write).
type c14Sink struct {
	buf    []byte
	kind   int  // 0 none, 1 error at k, 2 one short count at k, 3 full count with an error at k, 4 one error at k (transient)
	erred  bool // a Write returned a non-nil error
	k      int
	fired  bool
	call   int // index of the API call in progress (set by the driver)
	record bool
	pieces []c14Piece
	hitAt  int // call index at which the fault struck, -1
}

type c14Piece struct {
	off, n, call int
	str          bool
}

func (s *c14Sink) write(n int, app func(m int), str bool) (int, error) {
	if s.record {
		s.pieces = append(s.pieces, c14Piece{off: len(s.buf), n: n, call: s.call, str: str})
	}
	pos := len(s.buf)
	switch s.kind {
	case 1:
		if pos+n <= s.k {
			app(n)
			return n, nil
		}
		m := s.k - pos
		app(m)
		if s.hitAt < 0 {
			s.hitAt = s.call
		}
		s.erred = true
		return m, errSinkFault
	case 2:
		if s.fired || pos+n <= s.k {
			app(n)
			return n, nil
		}
		m := s.k - pos
		app(m)
		s.fired = true
		s.hitAt = s.call
		return m, nil
	case 3:
		// the write that takes the byte before offset k: every byte accepted,
		// full count, and an error (FullErrAt of Sink/Model.v)
		app(n)
		if pos < s.k && s.k <= pos+n {
			if s.hitAt < 0 {
				s.hitAt = s.call
			}
			s.erred = true
			return n, errSinkFault
		}
		return n, nil
	case 4:
		// a transient failure: the one write that reaches offset k stops there
		// with an error, every later write is complete
		if s.fired || pos+n <= s.k {
			app(n)
			return n, nil
		}
		m := s.k - pos
		app(m)
		s.fired = true
		s.hitAt = s.call
		s.erred = true
		return m, errSinkFault
	}
	app(n)
	return n, nil
}

func (s *c14Sink) Write(p []byte) (int, error) {
	return s.write(len(p), func(m int) { s.buf = append(s.buf, p[:m]...) }, false)
}

// c14RecSink additionally tells WriteString calls apart (reference runs only;
// the faulty destination is a plain io.Writer as in the model).
type c14RecSink struct{ c14Sink }

func (s *c14RecSink) WriteString(p string) (int, error) {
	return s.write(len(p), func(m int) { s.buf = append(s.buf, p[:m]...) }, true)
}

// ---------------------------------------------------------------- driving a writer

type c14Call struct {
	Name string
	Err  error
}

type c14Outcome struct {
	Calls []c14Call
	First int // first call that returned an error, -1
	Panic string
	Hang  bool
	Bytes []byte
	HitAt int
	// SinkErr: the destination returned a non-nil error from some Write
	SinkErr bool
}

func (o *c14Outcome) errKind() string {
	if o.First < 0 {
		return "nil"
	}
	e := o.Calls[o.First].Err
	switch {
	case errors.Is(e, errSinkFault):
		return "sink"
	case errors.Is(e, io.ErrShortWrite):
		return "short"
	}
	return "other"
}

// c14Drive runs the whole life of a writer: Write in batches, Flush between
// row groups, Close; every call is made even after an error was returned.
// setCall is told the index of the call about to be made.
func (env *c14Env) drive(sp *c14Spec, cfg c14Cfg, dst io.Writer, setCall func(int)) (calls []c14Call, panicked string) {
	defer func() {
		if r := recover(); r != nil {
			panicked = fmt.Sprint(r)
		}
	}()
	crand.Reader = &detRand{n: 14}
	w := env.openEntry(sp, cfg, dst)
	groups := sp.rows()
	do := func(name string, f func() error) {
		setCall(len(calls))
		calls = append(calls, c14Call{Name: name})
		calls[len(calls)-1].Err = f()
	}
	for g, rows := range groups {
		if w.group != nil {
			do(fmt.Sprintf("%s#%d", w.name, g), func() error { return w.group(rows) })
		} else {
			for i := 0; i < len(rows); i += sp.Batch {
				j := min(i+sp.Batch, len(rows))
				do(fmt.Sprintf("%s#%d.%d", w.name, g, i/sp.Batch), func() error { return w.write(rows[i:j]) })
			}
		}
		if g != len(groups)-1 {
			do(fmt.Sprintf("Flush#%d", g), w.Flush)
		}
	}
	do("Close", w.Close)
	return calls, ""
}

// run executes drive under a deadline.
func (env *c14Env) run(sp *c14Spec, cfg c14Cfg, sink *c14Sink, dst io.Writer) *c14Outcome {
	type res struct {
		calls []c14Call
		p     string
	}
	done := make(chan res, 1)
	go func() {
		calls, p := env.drive(sp, cfg, dst, func(i int) { sink.call = i })
		done <- res{calls, p}
	}()
	t := time.NewTimer(env.timeout)
	defer t.Stop()
	o := &c14Outcome{First: -1, HitAt: -1}
	select {
	case r := <-done:
		o.Calls, o.Panic = r.calls, r.p
		o.Bytes = sink.buf
		o.HitAt = sink.hitAt
		o.SinkErr = sink.erred
		for i, cl := range o.Calls {
			if cl.Err != nil {
				o.First = i
				break
			}
		}
	case <-t.C:
		o.Hang = true
	}
	return o
}

func c14NewSink(f c14Fault) *c14Sink {
	s := &c14Sink{k: f.K, hitAt: -1}
	switch f.Kind {
	case "err":
		s.kind = 1
	case "short":
		s.kind = 2
	case "full":
		s.kind = 3
	case "once":
		s.kind = 4
	}
	return s
}

// ---------------------------------------------------------------- layout (sites of the model)

// kinds in the order of Sink/Model.v all_kinds
const (
	kHeader = iota
	kCopiedDict
	kCopiedData
	kDictPage
	kDictPageEnc
	kDataPages
	kCopiedBloom
	kBloomInline
	kBloomInlineEnc
	kBloomDeferred
	kColumnIndex
	kColumnIndexEnc
	kOffsetIndex
	kOffsetIndexEnc
	kFooter
	kFooterCrypto
	kFooterSigned
	kFooterTail
)

var c14KindNames = []string{"header", "copied-dict", "copied-data", "dict-page", "dict-page-enc", "data-pages", "copied-bloom", "bloom-inline", "bloom-inline-enc",
	"bloom-deferred", "column-index", "column-index-enc", "offset-index", "offset-index-enc", "footer", "footer-crypto", "footer-signed", "footer-tail"}

const (
	mWrite = iota
	mWriteTo
	mLowerWriteTo
	mLowerCopy
)

type c14Region struct{ start, end, kind int }

type c14Site struct {
	kind, mech, call int
	start, end       int
	pieces           []c14Piece
}

type c14Layout struct {
	id        int
	ref       []byte
	sites     []c14Site
	regions   []c14Region
	calls     []string // names of the API calls of the life
	closeCall int
	bounds    []int // module boundaries (byte offsets)
	footerAt  int
}

func (env *c14Env) openOpts(sp *c14Spec) []parquet.FileOption {
	if sp.Enc != 0 {
		return []parquet.FileOption{parquet.WithDecryption(c14Keys{})}
	}
	return nil
}

// regionsOf derives the module boundaries of a file from its footer.
func (env *c14Env) regionsOf(sp *c14Spec, cfg c14Cfg, ref []byte) ([]c14Region, int, error) {
	f, err := parquet.OpenFile(bytes.NewReader(ref), int64(len(ref)), env.openOpts(sp)...)
	if err != nil {
		return nil, 0, fmt.Errorf("reference file does not open: %w", err)
	}
	enc := sp.Enc != 0
	pick := func(plain, e int) int {
		if enc {
			return e
		}
		return plain
	}
	var rs []c14Region
	rs = append(rs, c14Region{0, 4, kHeader})
	for _, rg := range f.Metadata().RowGroups {
		for _, col := range rg.Columns {
			md := &col.MetaData
			start := int(md.DataPageOffset)
			if md.DictionaryPageOffset > 0 {
				start = int(md.DictionaryPageOffset)
				rs = append(rs, c14Region{start, int(md.DataPageOffset), pick(kDictPage, kDictPageEnc)})
			}
			rs = append(rs, c14Region{int(md.DataPageOffset), start + int(md.TotalCompressedSize), kDataPages})
			if md.BloomFilterOffset > 0 {
				k := pick(kBloomInline, kBloomInlineEnc)
				// plaintext-footer encryption seals the column metadata with the
				// row group: the writer does not defer the filters in that mode
				// (repair 12e2695), they are written inline
				if cfg.Deferred != "" && sp.Enc != 1 {
					k = kBloomDeferred
				}
				rs = append(rs, c14Region{int(md.BloomFilterOffset), int(md.BloomFilterOffset) + int(md.BloomFilterLength), k})
			}
			if col.ColumnIndexLength > 0 {
				rs = append(rs, c14Region{int(col.ColumnIndexOffset), int(col.ColumnIndexOffset) + int(col.ColumnIndexLength), pick(kColumnIndex, kColumnIndexEnc)})
			}
			if col.OffsetIndexLength > 0 {
				rs = append(rs, c14Region{int(col.OffsetIndexOffset), int(col.OffsetIndexOffset) + int(col.OffsetIndexLength), pick(kOffsetIndex, kOffsetIndexEnc)})
			}
		}
	}
	n := len(ref)
	flen := int(uint32(ref[n-8]) | uint32(ref[n-7])<<8 | uint32(ref[n-6])<<16 | uint32(ref[n-5])<<24)
	fk := kFooter
	switch sp.Enc {
	case 1:
		fk = kFooterSigned
	case 2:
		fk = kFooterCrypto
	}
	rs = append(rs, c14Region{n - 8 - flen, n - 8, fk}, c14Region{n - 8, n, kFooterTail})
	sort.Slice(rs, func(i, j int) bool { return rs[i].start < rs[j].start })
	at := 0
	for _, r := range rs {
		if r.start != at || r.end <= r.start {
			return nil, 0, fmt.Errorf("modules of the footer do not tile the file: region %v starts at %d, expected %d", r, r.start, at)
		}
		at = r.end
	}
	if at != n {
		return nil, 0, fmt.Errorf("modules end at %d, file has %d bytes", at, n)
	}
	return rs, n - 8 - flen, nil
}

// layout runs the reference life (unbuffered, recording destination) and
// derives the sites of the model.
func (env *c14Env) layout(sp *c14Spec, cfg c14Cfg) (*c14Layout, error) {
	rc := cfg
	rc.Buf = 0
	rec := &c14RecSink{}
	rec.record = true
	rec.hitAt = -1
	o := env.run(sp, rc, &rec.c14Sink, rec)
	if o.Hang || o.Panic != "" || o.First >= 0 {
		return nil, fmt.Errorf("reference run failed: hang=%v panic=%q first error=%v", o.Hang, o.Panic, o.First)
	}
	ref := o.Bytes
	regions, footerAt, err := env.regionsOf(sp, cfg, ref)
	if err != nil {
		return nil, err
	}
	lay := &c14Layout{ref: ref, regions: regions, footerAt: footerAt}
	for _, cl := range o.Calls {
		lay.calls = append(lay.calls, cl.Name)
	}
	lay.closeCall = len(lay.calls) - 1
	if !c14EntryModelled(sp.Entry) {
		// an entry point that may copy or re-encode column chunks: the Write calls of
		// the reference life and the module boundaries, no sites of Sink/Model.v (id 0:
		// not registered with the oracle)
		lay.sites = []c14Site{{kind: -1, start: 0, end: len(ref), pieces: rec.pieces}}
		for _, r := range regions {
			lay.bounds = append(lay.bounds, r.start)
		}
		return lay, nil
	}
	ri := 0
	for _, p := range rec.pieces {
		if p.n == 0 && len(lay.sites) > 0 {
			s := &lay.sites[len(lay.sites)-1]
			s.pieces = append(s.pieces, p)
			continue
		}
		for ri < len(regions) && p.off >= regions[ri].end {
			ri++
		}
		if ri == len(regions) || p.off < regions[ri].start || p.off+p.n > regions[ri].end {
			return nil, fmt.Errorf("write of %d bytes at %d straddles the module boundaries", p.n, p.off)
		}
		r := regions[ri]
		if n := len(lay.sites); n > 0 && lay.sites[n-1].start == r.start {
			lay.sites[n-1].pieces = append(lay.sites[n-1].pieces, p)
			if p.call != lay.sites[n-1].call {
				return nil, fmt.Errorf("module at %d is written by two API calls", r.start)
			}
			continue
		}
		mech := mWrite
		switch r.kind {
		case kDataPages:
			mech = mWriteTo
			if cfg.Pool == "file" {
				mech = mLowerCopy
			}
		case kBloomDeferred:
			mech = mLowerWriteTo
			if cfg.Deferred == "file" {
				mech = mLowerCopy
			}
		}
		lay.sites = append(lay.sites, c14Site{kind: r.kind, mech: mech, call: p.call, start: r.start, end: r.end, pieces: []c14Piece{p}})
	}
	if len(lay.sites) != len(regions) {
		return nil, fmt.Errorf("%d modules in the footer, %d written", len(regions), len(lay.sites))
	}
	bs := map[int]bool{}
	for _, r := range regions {
		bs[r.start] = true
	}
	for b := range bs {
		lay.bounds = append(lay.bounds, b)
	}
	sort.Ints(lay.bounds)
	// register with the oracle
	env.layouts++
	lay.id = env.layouts
	var sb strings.Builder
	for i, s := range lay.sites {
		if i > 0 {
			sb.WriteByte(';')
		}
		fmt.Fprintf(&sb, "%d:%d:", s.kind, s.mech)
		for j, p := range s.pieces {
			if j > 0 {
				sb.WriteByte('.')
			}
			if p.str {
				fmt.Fprintf(&sb, "s%d", p.n)
			} else {
				fmt.Fprintf(&sb, "b%d", p.n)
			}
		}
	}
	if env.c.HasOracle() {
		ans := env.c.Ask(fmt.Sprintf("c14.layout %d %s", lay.id, sb.String()))
		want := fmt.Sprintf("ok %d %d", len(lay.sites), len(ref))
		if ans != want {
			return nil, fmt.Errorf("oracle layout: %q, expected %q", ans, want)
		}
	}
	return lay, nil
}

// ---------------------------------------------------------------- fault sweep

type c14Model struct {
	err      string
	site     int
	pos      int
	complete bool
}

func c14ParseModel(s string) (m c14Model, ok bool) {
	parts := strings.Split(s, "/")
	if len(parts) != 4 {
		return m, false
	}
	m.err = parts[0]
	fmt.Sscan(parts[1], &m.site)
	fmt.Sscan(parts[2], &m.pos)
	m.complete = parts[3] == "1"
	return m, true
}

func (cfg c14Cfg) bufSize() int {
	if cfg.Buf < 0 {
		return parquet.DefaultWriteBufferSize
	}
	return cfg.Buf
}

// check evaluates one fault run: the property predicate on the outcome, then
// the comparison with the model's verdict (mv == "" when there is no oracle).
// Returns true when nothing was reported.
func (env *c14Env) check(sp *c14Spec, cfg c14Cfg, lay *c14Layout, f c14Fault, o *c14Outcome, mv string) bool {
	c := env.c
	rp := c14Replay{What: "sink", Spec: *sp, Cfg: cfg, Fault: f}
	entry := ""
	if sp.Entry != "" {
		entry = " written through " + sp.Entry + " (" + strings.Join(lay.calls, ", ") + ")"
		if sp.MaxRows > 0 {
			entry += fmt.Sprintf(" with MaxRowsPerRowGroup(%d)", sp.MaxRows)
		}
	}
	where := fmt.Sprintf("file %s (%d bytes)"+entry+", %s at offset %d, WriteBufferSize %d, page buffers %s, deferred bloom filters %q", sp.Name, len(lay.ref), f.Kind, f.K, cfg.bufSize(), cfg.Pool, cfg.Deferred)
	switch {
	case o.Hang:
		c.Violation("hang", "the writer did not return within the deadline: "+where, rp)
		return false
	case o.Panic != "":
		c.Violation("panic", "the writer panicked ("+core.Trunc(o.Panic, 200)+"): "+where, rp)
		return false
	}
	complete := bytes.Equal(o.Bytes, lay.ref)
	if o.First < 0 && !complete {
		c.Violation("silent-loss", fmt.Sprintf("every call returned nil but the destination holds %d bytes which are not the %d bytes of the file: %s", len(o.Bytes), len(lay.ref), where), rp)
		return false
	}
	if o.First < 0 && o.SinkErr {
		c.Violation("sink-error-dropped", fmt.Sprintf("the destination returned an error from a Write (during %s) and every call of the writer returned nil: %s", lay.calls[min(max(o.HitAt, 0), len(lay.calls)-1)], where), rp)
		return false
	}
	if mv == "" {
		return true
	}
	m, ok := c14ParseModel(mv)
	if !ok {
		c.Mismatch("corr:C14.close", where, "-", mv, rp)
		return false
	}
	impl := o.errKind()
	implCall := "-"
	if o.First >= 0 {
		implCall = o.Calls[o.First].Name
	}
	modelCall := "-"
	if m.err != "nil" {
		if m.site < len(lay.sites) {
			modelCall = lay.calls[lay.sites[m.site].call]
		} else {
			modelCall = lay.calls[lay.closeCall]
		}
	}
	implS := fmt.Sprintf("%s by %s complete=%v", impl, implCall, complete)
	modelS := fmt.Sprintf("%s by %s complete=%v", m.err, modelCall, m.complete)
	if implS != modelS {
		c.Mismatch("corr:C14.close", where, implS, modelS+" (site "+fmt.Sprint(m.site)+")", rp)
		return false
	}
	return true
}

func (env *c14Env) offsets(lay *c14Layout, stride int, all bool) []int {
	n := len(lay.ref)
	set := map[int]bool{}
	if all {
		for k := 0; k < n; k++ {
			set[k] = true
		}
	} else {
		for k := 0; k < n && k < 16; k++ {
			set[k] = true
		}
		for k := max(0, n-64); k < n; k++ {
			set[k] = true
		}
		w := env.c.N(1, 2)
		for _, b := range lay.bounds {
			for d := -w; d <= w; d++ {
				if k := b + d; k >= 0 && k < n {
					set[k] = true
				}
			}
		}
		for k := env.c.Rng.Intn(stride); k < n; k += stride {
			set[k] = true
		}
	}
	ks := make([]int, 0, len(set))
	for k := range set {
		ks = append(ks, k)
	}
	sort.Ints(ks)
	return ks
}

// sweep runs every fault of ks under one configuration and compares with the model.
func (env *c14Env) sweep(sp *c14Spec, cfg c14Cfg, lay *c14Layout, kind string, ks []int, bucket string) {
	c := env.c
	if os.Getenv("C14_DEBUG") != "" {
		t0 := time.Now()
		defer func() {
			fmt.Fprintf(os.Stderr, "sweep %s %+v %s: %d faults, %d bytes, %.2fs\n", sp.Name, cfg, kind, len(ks), len(lay.ref), time.Since(t0).Seconds())
		}()
	}
	var answers []string
	mkind := kind
	if kind == "once" {
		// the model stops at the first reported error: up to there a transient
		// error at offset k is the persistent one
		mkind = "err"
	}
	if c.HasOracle() && len(ks) > 0 && lay.id > 0 {
		var sb strings.Builder
		for i, k := range ks {
			if i > 0 {
				sb.WriteByte(',')
			}
			fmt.Fprint(&sb, k)
		}
		ans := c.Ask(fmt.Sprintf("c14.close 1 %d %d %s %s", lay.id, cfg.bufSize(), mkind, sb.String()))
		answers = strings.Split(ans, ",")
		if len(answers) != len(ks) {
			c.Mismatch("corr:C14.close", "oracle answer", "-", core.Trunc(ans, 300), nil)
			answers = nil
		}
	}
	for i, k := range ks {
		f := c14Fault{Kind: kind, K: k}
		sink := c14NewSink(f)
		o := env.run(sp, cfg, sink, sink)
		mv := ""
		if answers != nil {
			mv = answers[i]
		}
		env.check(sp, cfg, lay, f, o, mv)
		c.Case(bucket, fmt.Sprintf("%s|%v|%s|%d", sp.Name, cfg, kind, k), true)
	}
}

// c14PieceEnds: for the fault "full count with an error": the offset behind the
// last byte of every Write call of the reference run (the write that takes the
// byte before k fails), thinned to about limit offsets: the first 4, the last
// 8 and an even spread of the others.
func c14PieceEnds(sites [][]c14Piece, n, limit int) []int {
	set := map[int]bool{}
	for _, ps := range sites {
		for _, p := range ps {
			if k := p.off + p.n; p.n > 0 && k >= 1 && k <= n {
				set[k] = true
			}
		}
	}
	all := make([]int, 0, len(set))
	for k := range set {
		all = append(all, k)
	}
	sort.Ints(all)
	if len(all) <= limit || limit < 16 {
		return all
	}
	ks := append([]int(nil), all[:4]...)
	inner := all[4 : len(all)-8]
	step := float64(len(inner)) / float64(limit-12)
	for f := 0.0; int(f) < len(inner); f += step {
		ks = append(ks, inner[int(f)])
	}
	return append(ks, all[len(all)-8:]...)
}

func c14Specs(c *core.Ctx) []c14Spec {
	specs := []c14Spec{
		{Name: "tiny", Groups: []int{3}, Batch: 2, V: 2, PageBuf: 4096},
		{Name: "two-groups-bloom", Groups: []int{12, 9}, Batch: 5, V: 2, Bloom: true, PageBuf: 96},
		{Name: "v1-snappy", Groups: []int{25, 25, 10}, Batch: 10, V: 1, Codec: "snappy", Bloom: true, PageBuf: 128},
		{Name: "encrypted", Groups: []int{10, 6}, Batch: 4, V: 2, Bloom: true, Enc: 1, PageBuf: 256},
		{Name: "encrypted-footer", Groups: []int{8}, Batch: 8, V: 1, Enc: 2, PageBuf: 256},
		{Name: "max-rows", Groups: []int{30}, Batch: 7, V: 2, Codec: "zstd", MaxRows: 8, PageBuf: 200},
	}
	if !c.Quick() {
		codecs := []string{"", "snappy", "zstd", "gzip"}
		for i := 0; i < 6; i++ {
			sp := c14Spec{Name: fmt.Sprintf("random-%d", i), Batch: 1 + c.Rng.Intn(9), V: 1 + c.Rng.Intn(2), Codec: codecs[c.Rng.Intn(4)], Bloom: c.Rng.Intn(2) == 0,
				PageBuf: 64 + c.Rng.Intn(400), Salt: c.Rng.Intn(50)}
			for g := 1 + c.Rng.Intn(3); g > 0; g-- {
				sp.Groups = append(sp.Groups, 1+c.Rng.Intn(30))
			}
			if c.Rng.Intn(4) == 0 {
				sp.Enc = 1 + c.Rng.Intn(2)
			}
			specs = append(specs, sp)
		}
	}
	return specs
}

func c14Cfgs(sp *c14Spec, quick bool) []c14Cfg {
	var out []c14Cfg
	bufs := []int{0, 7, -1, 100}
	pools := []string{"default", "chunk", "file"}
	for _, pool := range pools {
		defs := []string{""}
		if sp.Bloom {
			defs = []string{"", "mem"}
			if pool == "file" {
				defs = []string{"", "file"}
			}
		}
		for _, d := range defs {
			for _, b := range bufs {
				out = append(out, c14Cfg{Buf: b, Pool: pool, Deferred: d})
			}
		}
	}
	return out
}

func runC14(c *core.Ctx) {
	env := &c14Env{c: c, timeout: 20 * time.Second}
	env.workdir = filepath.Join(c.OutDir, "pools")
	_ = os.MkdirAll(env.workdir, 0o755)
	defer os.RemoveAll(env.workdir)
	c.Res.Rule = "files of 1-3 row groups (int64, dictionary string, optional plain string, repeated int32 columns; v1/v2 pages, snappy/zstd/gzip/none, bloom filters inline and deferred, page index, plaintext-footer and encrypted-footer encryption, MaxRowsPerRowGroup) written through Write batches / Flush / Close against a destination following a fault script: error at byte offset k, one short count with nil error at k, or the full count WITH an error from the one write that takes the byte before k (every byte accepted; one k inside every Write call of the fault-free reference run, thinned to about 32 (20 behind large buffers and file-backed page buffers) per configuration in the quick tier; main path and copy path; predicate: the destination returned an error => some call returns an error); for the first two kinds k = every offset (thorough, small files) or first 16, last 64, +-1 around every module boundary of the footer and a random stride (quick; +-2 and denser strides in thorough); x WriteBufferSize {0, 7, 100, default} x page buffers {default, 64-byte chunks, temp files} x bloom filters {inline, deferred in memory, deferred in files}. A case is one (file, configuration, fault); all are non-trivial (the fault lies inside the file). Plus every prefix length of every file through OpenFile + full read under the default file options and under 18 option sets (OptimisticRead x ReadBufferSize 1/7/8/9/64/65536/default, ReadBufferSize 16/64, SkipPageIndex, SkipBloomFilters, PrefetchBloomFilters, async read mode, SkipMagicBytes and combinations; encrypted files also under each of these WITHOUT the keys, complete file included: an error, never a panic; the data of every file plants trailers ending in PAR1 and in PARE; error class of the open compared with the model of the open stages under these options), ReadAt faults at every call index, File.ReadAt against the model, and failing page buffers. Copy over a source that lost its tail (every module boundary +-1 and a stride): WriteRowGroup per row group with the same options (verbatim), with another codec (column-wise re-encode) and of one MultiRowGroup over all row groups (segments packed column-wise); nil everywhere => the output reads back complete; after a failure three more rows are written and the writer closed: nil from both => the output reads back as the rows reported written plus the three. Copy path: every unencrypted file is copied with WriteRowGroup (same options, so that every column chunk is streamed from the source) x WriteBufferSize {0, 7, 100, default} x bloom filters {copied inline, deferred in memory, deferred in files}; each copied section (dictionary page, data pages, bloom filter) in turn delivers only {0, 1, n/2, n-1} of its n bytes exactly when it is copied; destination faults at the module boundaries of the copy and a stride. Reader's demand: the (offset, length) of every ReadAt of OpenFile + full read with ReadBufferSize {default, 64, 16} against the model's demand. Sources failing AFTER OpenFile x SeekToRow histories (seek.go): dedicated files whose column chunks hold many small pages (v1 and v2 pages, none/snappy, 1-2 row groups, one encrypted; thorough adds zstd, gzip, three row groups, encrypted footer) opened with and without page index (SkipPageIndex) x ReadBufferSize {default, 64}; then the source loses its tail (first byte, middle of the header, first, middle and last byte of the body of every page) or one ReadAt call fails (error, short count with io.EOF / io.ErrUnexpectedEOF / another error; every call of the history); read after one SeekToRow a third / two thirds into the row group or to its last row, or after a short seek, one batch and a seek far ahead, through the Pages of the column chunk, GenericReader with 1 and 17 rows per call and the deprecated Reader; predicate: what is delivered differs from what the same history delivers over the intact source only together with a non-EOF error, and is a prefix of it; model: seek_read_pages (pages returned, end | unexpected) for the Pages of a chunk after one seek over a truncated source. Bloom filter lookups over a source failing after OpenFile (bloom.go): files with filters on id and name (plain, gzip-compressed, encrypted) opened with default / SkipBloomFilters / PrefetchBloomFilters; then the reads starting in the filter section of one row group, or of every row group, fail ((0, err), or at most 3 bytes with io.EOF / io.ErrUnexpectedEOF / another error); first and last id of every row group, two absent ids, three stored names and an absent one are looked up through the filter of each chunk, BloomFilterFrom, MultiRowGroup, MergeRowGroups and ConvertRowGroup over all row groups; predicate: a stored value is never answered (false, nil), a failed read gives an error, also after the source recovered; model: c14.bloom (absent | maybe | failed from the per-filter clean answers, the faulted filter and whether answering takes a read). Bloom filter sections failing DURING OpenFile (default / SkipBloomFilters / PrefetchBloomFilters; (0, err) or short reads of at most 3 bytes, half, all but the last byte with io.EOF / io.ErrUnexpectedEOF / another error; the source recovers or keeps failing): OpenFile fails or no stored value is answered (false, nil) through any entry point. Write entry points (entry.go): files of one and two row groups, with MaxRowsPerRowGroup 10 / 6 cutting row groups inside the calls (one call for the whole input, batches of 4), through GenericWriter.Write, GenericWriter.WriteRows, Writer.WriteRows, Writer.Write(any), ReadRowsFrom, WriteRowGroup of a buffered row group and SortingWriter x WriteBufferSize {0, 7} x fault kinds error-at-k, short count, full count with an error, and the TRANSIENT error (one write stops at k with an error, then the destination works again: inside about 28 Write calls of the reference life and at the first byte of every module). VariantReader (variant.go): shredded variant files (objects with typed, mistyped, missing and unshredded fields, nulls, non-objects; v1/v2 pages, none/snappy, one and two row groups, ReadBufferSize default/96/256), windows of 7 and 32 rows, every ReadAt call of the history failing once ((0, err); short reads at every third call) or from then on x retry policy {SeekToRow(current row), Next again, SeekToRow(behind the window), SeekToRow(a window back)}: every window returned without error has the state of its rows over the intact source. Wrapped destinations (wrappers.go): Filter/Transform/Dedupe/Multi row writers, their nesting, CopyRows / CopyPages / CopyValues over a destination failing at each of its calls with (0, err) | (n/2, err) | (n, err): some call of the caller returns an error."

	if c.HasOracle() {
		if ans := c.Ask("c14.flags"); !strings.HasSuffix(ans, " 1") || strings.Contains(strings.Split(ans, " ")[0], "0") {
			c.Mismatch("corr:C14.flags", "site table", "all write sites checked (validated by the sweep)", ans, nil)
		}
	}

	specs := c14Specs(c)
	var vmLayout *c14Layout
	var vmCases []string

	// corpus first: the repaired defect (unbuffered, one short count in the
	// magic and inside the footer)
	{
		sp := &specs[0]
		cfg := c14Cfg{Buf: 0, Pool: "default"}
		lay, err := env.layout(sp, cfg)
		if err != nil {
			c.Mismatch("corr:C14.layout", sp.Name, err.Error(), "-", nil)
		} else {
			n := len(lay.ref)
			ks := []int{1, 2, 3, lay.footerAt, lay.footerAt + 1, (lay.footerAt + n) / 2, n - 9, n - 8, n - 4, n - 1}
			env.sweep(sp, cfg, lay, "short", ks, "corpus")
			env.sweep(sp, cfg, lay, "err", ks, "corpus")
			env.sweep(sp, cfg, lay, "full", ks, "corpus")
			c.Sample(map[string]any{"file": sp.Name, "bytes": n, "sites": len(lay.sites), "fault": "short", "offsets": ks, "cfg": cfg})
			vmLayout = lay
		}
	}

	tAll := time.Now()
	for si := range specs {
		sp := &specs[si]
		layouts := map[string]*c14Layout{}
		if os.Getenv("C14_TIMES") != "" {
			fmt.Fprintf(os.Stderr, "c14: -- %s starts at %v\n", sp.Name, time.Since(tAll))
		}
		for _, cfg := range c14Cfgs(sp, c.Quick()) {
			key := cfg.Pool + "/" + cfg.Deferred
			lay := layouts[key]
			if lay == nil {
				var err error
				lay, err = env.layout(sp, cfg)
				if err != nil {
					c.Mismatch("corr:C14.layout", sp.Name+" "+key, err.Error(), "-", c14Replay{What: "sink", Spec: *sp, Cfg: cfg})
					continue
				}
				layouts[key] = lay
				if len(c.Res.Samples) < 3 {
					var ks []string
					for _, s := range lay.sites {
						ks = append(ks, fmt.Sprintf("%s@%d(%d writes)", c14KindNames[s.kind], s.start, len(s.pieces)))
					}
					c.Sample(map[string]any{"file": sp.Name, "bytes": len(lay.ref), "page_buffers": cfg.Pool, "deferred": cfg.Deferred, "sites": ks})
				}
			}
			// the fault-free run under this configuration produces the reference bytes
			{
				sink := c14NewSink(c14Fault{Kind: "none"})
				o := env.run(sp, cfg, sink, sink)
				if o.Hang || o.Panic != "" || o.First >= 0 || !bytes.Equal(o.Bytes, lay.ref) {
					c.Violation("fault-free-run-differs", fmt.Sprintf("file %s under %+v without fault: hang=%v panic=%q error=%v, same bytes=%v", sp.Name, cfg, o.Hang, o.Panic, o.First >= 0, bytes.Equal(o.Bytes, lay.ref)),
						c14Replay{What: "sink", Spec: *sp, Cfg: cfg, Fault: c14Fault{Kind: "none"}})
					continue
				}
			}
			n := len(lay.ref)
			all := !c.Quick() && n <= 2500 && cfg.Pool != "file" && (cfg.Buf == 0 || cfg.Buf == 7)
			stride := c.N(97, 23)
			if cfg.Pool == "file" {
				stride = c.N(211, 61)
			}
			if cfg.Buf == -1 && !all {
				stride *= 3
			}
			ks := env.offsets(lay, stride, all)
			if c.Quick() && (cfg.Pool == "file" || cfg.Buf == -1) {
				// keep the boundaries, thin the rest
				var t []int
				for i, k := range ks {
					if i%3 == 0 || k < 8 || k >= n-12 {
						t = append(t, k)
					}
				}
				ks = t
			}
			bucket := fmt.Sprintf("sink/buf=%d/pool=%s/deferred=%s", cfg.Buf, cfg.Pool, cfg.Deferred)
			env.sweep(sp, cfg, lay, "err", ks, bucket)
			env.sweep(sp, cfg, lay, "short", ks, bucket)
			// full count with an error: one offset in every Write call of the reference run
			var pcs [][]c14Piece
			for _, st := range lay.sites {
				pcs = append(pcs, st.pieces)
			}
			limit := c.N(32, 400)
			if c.Quick() && (cfg.Pool == "file" || cfg.Buf == -1 || cfg.Buf == 100) {
				limit = 20 // behind a large buffer many Write calls share one flush
			}
			env.sweep(sp, cfg, lay, "full", c14PieceEnds(pcs, n, limit), bucket)
		}
		// reader side on the reference bytes of the default configuration
		if lay := layouts["default/"]; lay != nil {
			tm := func(what string, f func()) {
				t0 := time.Now()
				f()
				if os.Getenv("C14_TIMES") != "" {
					fmt.Fprintf(os.Stderr, "c14: %s %s: %v\n", what, sp.Name, time.Since(t0))
				}
			}
			tm("sink sweeps (since start)", func() {})
			tm("truncation", func() { env.truncation(sp, lay) })
			tm("readAtFaults", func() { env.readAtFaults(sp, lay) })
			tm("copyTruncated", func() { env.copyTruncated(sp, lay) })
			tm("copySweep", func() { env.copySweep(sp, lay.ref) })
			if si <= 1 {
				tm("wrappers", func() { env.wrappers(sp, lay.ref) })
			}
			tm("bloomLookups", func() {
				env.bloomLookups(sp, false)
				if sp.Name == "two-groups-bloom" || sp.Name == "encrypted" || !c.Quick() {
					env.bloomLookups(sp, true)
				}
			})
			// the reader's demand against the model: exact with buffers longer than
			// every field of a page header, inside the declared ranges otherwise
			if sp.Enc == 0 {
				env.demand(sp, lay.ref, parquet.DefaultFileConfig().ReadBufferSize, true)
				env.demand(sp, lay.ref, 64, true)
				env.demand(sp, lay.ref, 16, false)
			} else {
				env.demand(sp, lay.ref, parquet.DefaultFileConfig().ReadBufferSize, false)
				env.demand(sp, lay.ref, 64, false)
			}
		}
		if si <= 2 {
			env.pageBufferFaults(sp)
		}
		for _, lay := range layouts {
			if c.HasOracle() && lay != vmLayout {
				c.Ask(fmt.Sprintf("c14.drop %d", lay.id))
			}
		}
	}
	env.fileReadAt(&specs[1])
	// every write entry point x MaxRowsPerRowGroup x transient faults (entry.go)
	{
		t0 := time.Now()
		env.entryPoints()
		if os.Getenv("C14_TIMES") != "" {
			fmt.Fprintf(os.Stderr, "c14: entry points: %v\n", time.Since(t0))
		}
	}
	// sources failing after OpenFile x SeekToRow histories (seek.go)
	{
		t0 := time.Now()
		sspecs := c14SeekSpecs(c)
		for i := range sspecs {
			env.seekFaults(&sspecs[i])
		}
		if os.Getenv("C14_TIMES") != "" {
			fmt.Fprintf(os.Stderr, "c14: seek scenario: %v\n", time.Since(t0))
		}
	}
	// VariantReader over a source failing after OpenFile x retry histories (variant.go)
	{
		t0 := time.Now()
		vspecs := c14VarSpecs(c)
		for i := range vspecs {
			env.variantFaults(&vspecs[i], nil)
		}
		if os.Getenv("C14_TIMES") != "" {
			fmt.Fprintf(os.Stderr, "c14: variant scenario: %v\n", time.Since(t0))
		}
	}
	if ents, err := os.ReadDir(env.workdir); err == nil && len(ents) > 0 {
		c.Note("%d temp files of the file-backed page buffer pools were left behind by writers whose destination failed (resource observation, not part of C14)", len(ents))
	}

	// vm_compute sample: the tiny layout, a spread of faults and buffer sizes,
	// expected = what the Go writer did
	if vmLayout != nil {
		sp := &specs[0]
		n := len(vmLayout.ref)
		for _, buf := range []int{0, 7, 100} {
			for _, kind := range []string{"err", "short", "full"} {
				for _, k := range []int{0, 1, 3, 4, 5, 37, n / 3, n / 2, vmLayout.footerAt - 1, vmLayout.footerAt, vmLayout.footerAt + 9, n - 9, n - 8, n - 1} {
					if k < 0 || k >= n {
						continue
					}
					cfg := c14Cfg{Buf: buf, Pool: "default"}
					f := c14Fault{Kind: kind, K: k}
					sink := c14NewSink(f)
					o := env.run(sp, cfg, sink, sink)
					if o.Hang || o.Panic != "" {
						continue
					}
					code := map[string]int{"nil": 0, "sink": 1, "short": 2, "other": 3}[o.errKind()]
					call := len(vmLayout.calls)
					if o.First >= 0 {
						call = o.First
					}
					bs := "None"
					if buf > 0 {
						bs = fmt.Sprintf("(Some %d%%N)", buf)
					}
					fl := fmt.Sprintf("(ErrAt %d)", k)
					if kind == "short" {
						fl = fmt.Sprintf("(ShortAt %d)", k)
					}
					if kind == "full" {
						fl = fmt.Sprintf("(FullErrAt %d)", k)
					}
					vmCases = append(vmCases, fmt.Sprintf("(%s, %s, (%d, %d, %s))%%nat", bs, fl, code, call, core.CoqBool(bytes.Equal(o.Bytes, vmLayout.ref))))
				}
			}
		}
		var sites, callmap []string
		for _, s := range vmLayout.sites {
			var ps []string
			for _, p := range s.pieces {
				ps = append(ps, fmt.Sprintf("(%s, bytes %d %d)", core.CoqBool(p.str), p.off, p.n))
			}
			sites = append(sites, fmt.Sprintf("mkSite %s %s %s", []string{"KHeader", "KCopiedDict", "KCopiedData", "KDictPage", "KDictPageEnc", "KDataPages", "KCopiedBloom", "KBloomInline", "KBloomInlineEnc",
				"KBloomDeferred", "KColumnIndex", "KColumnIndexEnc", "KOffsetIndex", "KOffsetIndexEnc", "KFooter", "KFooterCrypto", "KFooterSigned", "KFooterTail"}[s.kind],
				[]string{"MWrite", "MWriteTo", "MLowerWriteTo", "MLowerCopy"}[s.mech], core.CoqList(ps)))
			callmap = append(callmap, fmt.Sprintf("%d%%nat", s.call))
		}
		c.Vm("From Coq Require Import List NArith Bool Arith.\nFrom PQ Require Import Sink.Model.\nImport ListNotations.\nOpen Scope N_scope.")
		c.Vm("Definition bytes (off n : N) : list N := map (fun i => (off + N.of_nat i) mod 251) (seq 0 (N.to_nat n)).")
		c.Vm("Definition lay : list (site N) := [\n  " + strings.Join(sites, ";\n  ") + "].")
		c.Vm("Definition callmap : list nat := " + core.CoqList(callmap) + ".")
		c.Vm(fmt.Sprintf("Definition close_call : nat := %d%%nat.", vmLayout.closeCall))
		c.Vm("Definition err_code (e : err) : nat := match e with ENone => 0 | ESink => 1 | EShort => 2 end.")
		c.Vm("Definition cases : list (option N * fault * (nat * nat * bool)) := [\n  " + strings.Join(vmCases, ";\n  ") + "].")
		c.Vm(fmt.Sprintf("Definition agrees (x : option N * fault * (nat * nat * bool)) : bool :=\n  let '(buf, f, (code, call, comp)) := x in\n  let '(e, i, _, c) := close_verdict true f buf lay in\n  Nat.eqb (err_code e) code && Bool.eqb c comp &&\n  Nat.eqb (if is_err e then nth i callmap close_call else %d%%nat) call.", len(vmLayout.calls)))
		c.Vm("Definition mismatches := filter (fun x => negb (agrees x)) cases.")
		// the copy path (Sink/Copy.v) and the reader's demand (Sink/Demand.v)
		c.Vm("From PQ Require Import Sink.Copy Sink.Demand.")
		c.Vm("Definition cbytes := bytes.")
		if len(env.vmCopyDefs) == 0 {
			env.vmCopyDefs = []string{"Definition citems : list (item N) := [].", "Definition ccallmap : list nat := [].", "Definition cclose : nat := 0%nat.", "Definition cncalls : nat := 0%nat."}
		}
		for _, d := range env.vmCopyDefs {
			c.Vm(d)
		}
		c.Vm("Definition set_avail (i : nat) (a : N) (xs : list (item N)) : list (item N) :=\n  (fix go (k : nat) (xs : list (item N)) := match xs with [] => [] | x :: r =>\n     (if Nat.eqb k i then match x with ICopied kd ps _ => ICopied kd ps a | IStage ps _ => IStage ps a | y => y end else x) :: go (S k) r end) O xs.")
		c.Vm("Definition cerr_code (e : cerr) : nat := match e with CNil => 0 | CDst ESink => 1 | CDst EShort => 2 | CDst ENone => 3 | CSrc => 4 end.")
		c.Vm("Definition ccases : list (option N * fault * option (nat * N) * (nat * nat * bool)) := " + core.CoqList(env.vmCopyCases) + ".")
		c.Vm("Definition cagrees (x : option N * fault * option (nat * N) * (nat * nat * bool)) : bool :=\n  let '(buf, f, sh, (code, call, comp)) := x in\n  let xs := match sh with Some (i, a) => set_avail i a citems | None => citems end in\n  let '(e, i, _, c) := copy_verdict true f buf xs in\n  Nat.eqb (cerr_code e) code && Bool.eqb c comp &&\n  Nat.eqb (if is_cerr e then nth i ccallmap cclose else cncalls) call.")
		c.Vm("Definition cmismatches := filter (fun x => negb (cagrees x)) ccases.")
		c.Vm("Fixpoint ranges_eqb (a b : list (N * N)) : bool := match a, b with [] , [] => true | (o, l) :: a', (o', l') :: b' => (o =? o') && (l =? l') && ranges_eqb a' b' | _, _ => false end.")
		c.Vm("Fixpoint all2 (f : chunk_row -> list (N * N) -> bool) (a : list chunk_row) (b : list (list (N * N))) : bool := match a, b with [], [] => true | x :: a', y :: b' => f x y && all2 f a' b' | _, _ => false end.")
		c.Vm("Definition dcases : list (ftable * list (N * N) * list (list (N * N))) := " + core.CoqList(env.vmDemand) + ".")
		c.Vm("Definition dagrees (x : ftable * list (N * N) * list (list (N * N))) : bool :=\n  let '(t, o, cs) := x in ranges_eqb (open_demand t) o && all2 (fun c r => ranges_eqb (chunk_reads (ft_bufsize t) c) r) (ft_rows t) cs.")
		c.Vm("Definition dmismatches := filter (fun x => negb (dagrees x)) dcases.")
		c.Vm("Definition R := Eval vm_compute in (mismatches, cmismatches, map (fun x => fst (fst x)) dmismatches).\nPrint R.")
		c.Vm("Definition M := Eval vm_compute in ((length cases + length ccases + length dcases)%nat,\n  (map (fun _ => 1%nat) (fst (fst R)) ++ map (fun _ => 2%nat) (snd (fst R)) ++ map (fun _ => 3%nat) (snd R))).\nPrint M.")
		c.Res.VmCases = len(vmCases) + len(env.vmCopyCases) + len(env.vmDemand)
	}
	c.Note("the model abstracts the batching of the API calls: a site is attributed to the API call that wrote it in the fault-free reference run, and the call that reports first must be that call (for a buffered writer: the call during which the failing flush of bufio.Writer happens)")
	c.Note("a destination answering (0, nil) forever is outside the fault model (memory.Buffer.WriteTo and bufio.Writer.Write would not terminate); the one-shot short count at the current offset (0, nil) is inside and swept")
}

// ---------------------------------------------------------------- reading back

func c14RowsEqual(a, b []c14Row) bool {
	if len(a) != len(b) {
		return false
	}
	for i := range a {
		x, y := a[i], b[i]
		if x.ID != y.ID || x.Name != y.Name || (x.Tag == nil) != (y.Tag == nil) || (x.Tag != nil && *x.Tag != *y.Tag) || len(x.Vals) != len(y.Vals) {
			return false
		}
		if len(x.Vals) > 0 && !reflect.DeepEqual(x.Vals, y.Vals) {
			return false
		}
	}
	return true
}

// readAll opens r and reads every row; stage tells where an error came from.
func (env *c14Env) readAll(sp *c14Spec, r io.ReaderAt, size int64, afterOpen ...func()) (rows []c14Row, stage string, err error, panicked string) {
	defer func() {
		if x := recover(); x != nil {
			panicked = fmt.Sprint(x)
		}
	}()
	opts := env.openOpts(sp)
	if env.noKeys {
		opts = nil
	}
	f, err := parquet.OpenFile(r, size, append(opts, env.extraOpen...)...)
	if err != nil {
		return nil, "open", err, ""
	}
	for _, h := range afterOpen {
		h()
	}
	rd := parquet.NewGenericReader[c14Row](f)
	defer rd.Close()
	buf := make([]c14Row, 17)
	for {
		n, err := rd.Read(buf)
		for i := 0; i < n; i++ {
			row := buf[i]
			if row.Tag != nil {
				s := strings.Clone(*row.Tag)
				row.Tag = &s
			}
			row.Name = strings.Clone(row.Name)
			row.Vals = append([]int32(nil), row.Vals...)
			rows = append(rows, row)
		}
		if err == io.EOF {
			return rows, "", nil, ""
		}
		if err != nil {
			return rows, "read", err, ""
		}
		if n == 0 {
			return rows, "read", errors.New("c14: Read returned 0 rows and no error"), ""
		}
		if len(rows) > 100000 {
			return rows, "read", errors.New("c14: more rows than any file holds"), ""
		}
	}
}

func c14OpenClass(err error) string {
	if err == nil {
		return "ok"
	}
	s := err.Error()
	switch {
	case strings.Contains(s, "reading magic header"):
		return "short-header"
	case strings.Contains(s, "invalid magic header"):
		return "bad-header-magic"
	case strings.Contains(s, "no DecryptionConfig"):
		return "need-decryption"
	case strings.Contains(s, "reading magic footer"):
		return "short-tail"
	case strings.Contains(s, "invalid magic footer"):
		return "bad-tail-magic"
	case strings.Contains(s, "reading footer of parquet file"):
		return "footer-range"
	}
	return "footer-decode"
}

// c14OpenVariant is a set of file options under which the prefix sweep is
// repeated: every option of FileConfig that changes how OpenFile (or the read
// after it) gets at the bytes of the file.  SkipMagic, Optimistic and RBS are
// the parameters of the model of the open stages (Sink/Reader.v
// open_core_cfg); the other options act after the footer was decoded.
type c14OpenVariant struct {
	Name       string
	SkipMagic  bool
	Optimistic bool
	RBS        int // 0: the default ReadBufferSize
	SkipIndex  bool
	SkipBloom  bool
	Prefetch   bool
	Async      bool
	// an encrypted file opened without WithDecryption: every prefix and the
	// complete file must be answered with an error, never a panic
	NoKeys bool
}

// late: the options act after the footer was decoded, the open stages are
// those of the default configuration
func (v c14OpenVariant) late() bool { return !v.SkipMagic && !v.Optimistic && !v.NoKeys }

func (v c14OpenVariant) options() []parquet.FileOption {
	var o []parquet.FileOption
	if v.SkipMagic {
		o = append(o, parquet.SkipMagicBytes(true))
	}
	if v.Optimistic {
		o = append(o, parquet.OptimisticRead(true))
	}
	if v.RBS > 0 {
		o = append(o, parquet.ReadBufferSize(v.RBS))
	}
	if v.SkipIndex {
		o = append(o, parquet.SkipPageIndex(true))
	}
	if v.SkipBloom {
		o = append(o, parquet.SkipBloomFilters(true))
	}
	if v.Prefetch {
		o = append(o, parquet.PrefetchBloomFilters(true))
	}
	if v.Async {
		o = append(o, parquet.FileReadMode(parquet.ReadModeAsync))
	}
	return o
}

// c14OpenVariants: each option alone, OptimisticRead with read buffers around
// the 8 bytes of the trailer, shorter and longer than the footer and longer
// than the file, and the combinations that read the least / the most at open.
func c14OpenVariants() []c14OpenVariant {
	vs := []c14OpenVariant{
		{Name: "optimistic", Optimistic: true},
		{Name: "skip-page-index", SkipIndex: true},
		{Name: "skip-bloom-filters", SkipBloom: true},
		{Name: "prefetch-bloom-filters", Prefetch: true},
		{Name: "async", Async: true},
		{Name: "skip-magic", SkipMagic: true},
		{Name: "read-buffer=16", RBS: 16},
		{Name: "read-buffer=64", RBS: 64},
	}
	for _, n := range []int{1, 7, 8, 9, 64, 1 << 16} {
		vs = append(vs, c14OpenVariant{Name: fmt.Sprintf("optimistic,read-buffer=%d", n), Optimistic: true, RBS: n})
	}
	vs = append(vs,
		c14OpenVariant{Name: "optimistic,skip-page-index,skip-bloom-filters", Optimistic: true, SkipIndex: true, SkipBloom: true},
		c14OpenVariant{Name: "optimistic,prefetch-bloom-filters,async", Optimistic: true, Prefetch: true, Async: true},
		c14OpenVariant{Name: "optimistic,skip-magic,read-buffer=300", Optimistic: true, SkipMagic: true, RBS: 300},
		c14OpenVariant{Name: "skip-magic,skip-page-index,skip-bloom-filters,async", SkipMagic: true, SkipIndex: true, SkipBloom: true, Async: true},
	)
	return vs
}

// truncation: every strict prefix must be rejected by OpenFile or by the read,
// under the default file options and under every c14OpenVariant.
func (env *c14Env) truncation(sp *c14Spec, lay *c14Layout) {
	c := env.c
	ref := lay.ref
	n := len(ref)
	var want []c14Row
	for _, g := range sp.rows() {
		want = append(want, g...)
	}
	if rows, _, err, p := env.readAll(sp, bytes.NewReader(ref), int64(n)); err != nil || p != "" || !c14RowsEqual(rows, want) {
		c.Violation("reference-unreadable", fmt.Sprintf("file %s: the complete file does not read back: err=%v panic=%q rows=%d/%d", sp.Name, err, p, len(rows), len(want)), c14Replay{What: "truncate", Spec: *sp, L: n})
		return
	}
	set := map[int]bool{}
	if n <= 6000 || !c.Quick() {
		for l := 0; l < n; l++ {
			set[l] = true
		}
	} else {
		for l := 0; l < 32; l++ {
			set[l] = true
		}
		for l := n - 200; l < n; l++ {
			set[l] = true
		}
		for _, b := range lay.bounds {
			for d := -2; d <= 2; d++ {
				if l := b + d; l >= 0 && l < n {
					set[l] = true
				}
			}
		}
		for l := c.Rng.Intn(13); l < n; l += 13 {
			set[l] = true
		}
	}
	// every prefix that ends in "PAR1" (the planted trailers)
	for l := 8; l < n; l++ {
		if string(ref[l-4:l]) == "PAR1" || string(ref[l-4:l]) == "PARE" {
			set[l] = true
		}
	}
	ls := make([]int, 0, len(set))
	for l := range set {
		ls = append(ls, l)
	}
	sort.Ints(ls)
	// Memory cap: OpenFile allocates the footer length found in the last 8
	// bytes once the trailing magic matched.  Should the magic check not reject
	// (probed on a prefix with a small length field), prefixes whose field
	// exceeds 16 MiB are skipped instead of allocating gigabytes per prefix.
	le32 := func(b []byte) int { return int(uint32(b[0]) | uint32(b[1])<<8 | uint32(b[2])<<16 | uint32(b[3])<<24) }
	isMagic := func(b []byte) bool { return string(b) == "PAR1" || string(b) == "PARE" }
	magicRejects := true
	for _, l := range ls {
		if l >= 12 && !isMagic(ref[l-4:l]) && le32(ref[l-8:l-4]) < 1<<20 {
			_, stage, err, _ := env.readAll(sp, bytes.NewReader(ref[:l:l]), int64(l))
			if stage != "open" || c14OpenClass(err) != "bad-tail-magic" {
				magicRejects = false
			}
			break
		}
	}
	pastMagic, skipped := 0, 0
	variants := append([]c14OpenVariant{{}}, c14OpenVariants()...)
	if sp.Enc != 0 {
		for _, v := range variants[:len(variants):len(variants)] {
			v.NoKeys = true
			v.Name = strings.TrimPrefix(v.Name+",no-keys", ",")
			variants = append(variants, v)
		}
	}
	if os.Getenv("C14_NOVARIANTS") != "" { // debugging aid: the default options only
		variants = variants[:1]
	}
	// The variants run on every swept prefix in the thorough tier; in the quick
	// tier on the lengths at which their open stages can differ: the first 80
	// (around the 8 bytes of the trailer and the small read buffers), the last
	// 300, +-2 around every module boundary and around the read buffer sizes,
	// every prefix ending in a magic, and a stride.  The option sets that act
	// after the footer was decoded (late) cannot change the answer to a prefix:
	// quick runs them on the first 16 and last 64 lengths, the prefixes ending
	// in a magic and a wider stride.
	lsVar, lsLate := map[int]bool{}, map[int]bool{}
	for _, l := range ls {
		near := l <= 80 || l >= n-300 || (l >= 8 && isMagic(ref[l-4:l])) || !c.Quick()
		for _, b := range lay.bounds {
			near = near || (l >= b-2 && l <= b+2)
		}
		for _, v := range variants {
			near = near || (v.RBS > 0 && l >= v.RBS-2 && l <= v.RBS+10)
		}
		near = near || (l >= parquet.DefaultFileConfig().ReadBufferSize-2 && l <= parquet.DefaultFileConfig().ReadBufferSize+10)
		lsVar[l] = near
		lsLate[l] = l <= 16 || l >= n-64 || (l >= 8 && isMagic(ref[l-4:l])) || !c.Quick()
	}
	for l := c.Rng.Intn(29); l < n; l += 29 {
		lsVar[l] = true
	}
	for l := c.Rng.Intn(97); l < n; l += 97 {
		lsLate[l] = true
	}
	defer func() { env.extraOpen, env.noKeys = nil, false }()
	tVar := time.Now()
	defer func() {
		if os.Getenv("C14_TIMES") != "" {
			fmt.Fprintf(os.Stderr, "c14: truncation %s: %v\n", sp.Name, time.Since(tVar))
		}
	}()
	asked := map[string]string{}
	for vi, v := range variants {
		env.extraOpen, env.noKeys = v.options(), v.NoKeys
		hasKey := sp.Enc != 0 && !v.NoKeys
		under, tag := "", ""
		if vi > 0 {
			under, tag = " opened with "+v.Name, "/"+v.Name
			// the complete file opens and reads back under these options; without
			// the keys it is answered with an error or read, not with a panic
			if rows, _, err, p := env.readAll(sp, bytes.NewReader(ref), int64(n)); v.NoKeys {
				if p != "" {
					c.Violation("open-panic", fmt.Sprintf("file %s%s: opening the complete file panics: %s", sp.Name, under, core.Trunc(p, 200)), c14Replay{What: "truncate", Spec: *sp, L: n, Open: v.Name})
					continue
				}
				c.Case("truncate-opened-with"+tag, fmt.Sprintf("%s|%d|%s", sp.Name, n, v.Name), true)
			} else if err != nil || p != "" || !c14RowsEqual(rows, want) {
				c.Violation("reference-unreadable", fmt.Sprintf("file %s%s: the complete file does not read back: err=%v panic=%q rows=%d/%d", sp.Name, under, err, p, len(rows), len(want)), c14Replay{What: "truncate", Spec: *sp, L: n, Open: v.Name})
				continue
			}
		}
		for _, l := range ls {
			if vi > 0 && (!lsVar[l] || (v.late() && !lsLate[l])) {
				continue
			}
			if !magicRejects && l >= 8 && !isMagic(ref[l-4:l]) && le32(ref[l-8:l-4]) > 1<<24 {
				if vi == 0 {
					skipped++
				}
				continue
			}
			p := ref[:l:l]
			rp := c14Replay{What: "truncate", Spec: *sp, L: l, Open: v.Name}
			rows, stage, err, panicked := env.readAll(sp, bytes.NewReader(p), int64(l))
			switch {
			case panicked != "":
				c.Violation("truncated-panic", fmt.Sprintf("file %s cut to %d of %d bytes%s: panic %s", sp.Name, l, n, under, core.Trunc(panicked, 200)), rp)
			case err == nil:
				c.Violation("truncated-file-accepted", fmt.Sprintf("file %s cut to %d of %d bytes%s opens and reads %d rows without any error", sp.Name, l, n, under, len(rows)), rp)
			}
			// model of the open stages
			class := "ok"
			if stage == "open" {
				class = c14OpenClass(err)
			}
			if vi == 0 && class != "short-header" && class != "bad-header-magic" && class != "short-tail" && class != "bad-tail-magic" {
				pastMagic++
			}
			if c.HasOracle() && panicked == "" {
				hdr, tail := p, p
				if l >= 4 {
					hdr = p[:4]
				}
				if l >= 8 {
					tail = p[l-8:]
				}
				b01 := map[bool]string{true: "1", false: "0"}
				var m string
				if vi == 0 {
					m = c.Ask(fmt.Sprintf("c14.open %s %d %s %s 0", b01[hasKey], l, core.Hexs(hdr), core.Hexs(tail)))
				} else {
					rbs := v.RBS
					if rbs == 0 {
						rbs = parquet.DefaultFileConfig().ReadBufferSize
					}
					if !v.Optimistic {
						rbs = 0 // the tail read is 8 bytes whatever the buffer size
					}
					// option sets with the same model parameters ask the same question
					req := fmt.Sprintf("c14.openx %s %s %d %s %d %s %s 0", b01[v.SkipMagic], b01[v.Optimistic], rbs, b01[hasKey], l, core.Hexs(hdr), core.Hexs(tail))
					if m = asked[req]; m == "" {
						m = c.Ask(req)
						asked[req] = m
					}
				}
				agree := m == class || (m == "footer-decode" && class == "ok")
				if !agree {
					c.Mismatch("corr:C14.open", fmt.Sprintf("file %s prefix %d%s", sp.Name, l, under), class+": "+fmt.Sprint(err), m, rp)
				}
			}
			if vi == 0 {
				c.Case("truncate/"+class, fmt.Sprintf("%s|%d", sp.Name, l), true)
			} else {
				c.Case("truncate-opened-with"+tag, fmt.Sprintf("%s|%d|%s", sp.Name, l, v.Name), true)
			}
		}
	}
	c.Note("file %s (%d bytes): %d prefixes, %d of them passed the magic checks (planted trailers) and were rejected later", sp.Name, n, len(ls), pastMagic)
	if skipped > 0 {
		c.Note("file %s: the trailing magic check does not reject; %d prefixes whose length field exceeds 16 MiB were skipped (memory cap)", sp.Name, skipped)
	}
}

// copyTruncated: the source of Writer.WriteRowGroup loses its tail after it
// was opened (short reads with io.EOF); the destination is written with the
// options of the source (verbatim copy of the column chunks) and with another
// codec (re-encode / row path).  Either a call reports an error, or the
// output holds exactly the rows of the source.
func (env *c14Env) copyTruncated(sp *c14Spec, lay *c14Layout) {
	c := env.c
	if sp.Enc != 0 {
		return
	}
	ref := lay.ref
	n := len(ref)
	var want []c14Row
	for _, g := range sp.rows() {
		want = append(want, g...)
	}
	var ts []int
	for _, b := range lay.bounds {
		ts = append(ts, b-1, b+1)
	}
	for t := 4 + c.Rng.Intn(97); t < n; t += c.N(197, 41) {
		ts = append(ts, t)
	}
	sort.Ints(ts)
	for mi, same := range []bool{true, false, false} {
		// the third pass: every row group in ONE call, WriteRowGroup(MultiRowGroup(...)),
		// whose segments are packed column by column into one output row group
		multi := mi == 2
		if multi && len(sp.Groups) < 2 {
			continue
		}
		dsp := *sp
		if !same {
			if dsp.Codec == "snappy" {
				dsp.Codec = ""
			} else {
				dsp.Codec = "snappy"
			}
		}
		for i, t := range ts {
			if i > 0 && ts[i-1] == t || t < 0 || t >= n {
				continue
			}
			r := &c14FaultyReaderAt{data: ref, at: -1, limit: -1}
			rp := c14Replay{What: "copy-truncated", Spec: *sp, Call: -1, Mode: map[bool]string{true: "same-options", false: "other-codec"}[same], L: t}
			if multi {
				rp.Mode = "other-codec-multi"
			}
			var out bytes.Buffer
			var werr, lateErr error
			var reported []c14Row // the rows the WriteRowGroup calls reported as written
			countsOK := true
			panicked := ""
			func() {
				defer func() {
					if x := recover(); x != nil {
						panicked = fmt.Sprint(x)
					}
				}()
				f, err := parquet.OpenFile(r, int64(n))
				if err != nil {
					werr = err
					lateErr = err
					return
				}
				r.limit = t
				w := parquet.NewGenericWriter[c14Row](&out, env.options(&dsp, c14Cfg{Buf: -1, Pool: "default"})...)
				groups := sp.rows()
				srcGroups := f.RowGroups()
				if multi {
					srcGroups = []parquet.RowGroup{parquet.MultiRowGroup(srcGroups...)}
					groups = [][]c14Row{want}
				}
				for g, rg := range srcGroups {
					k, err := w.WriteRowGroup(rg)
					if err != nil && werr == nil {
						werr = err
					}
					if g < len(groups) && k >= 0 && k <= int64(len(groups[g])) && len(groups) == len(srcGroups) {
						reported = append(reported, groups[g][:k]...)
					} else {
						countsOK = false
					}
				}
				if werr != nil {
					// the writer is used further after the failed calls: rows of the caller, then Close
					_, lateErr = w.Write(c14LateRows)
				}
				cerr := w.Close()
				if cerr != nil && werr == nil {
					werr = cerr
				}
				if lateErr == nil {
					lateErr = cerr
				}
			}()
			outcome := "error"
			switch {
			case panicked != "":
				c.Violation("copy-truncated-panic", fmt.Sprintf("file %s copied with WriteRowGroup (%s) while only the first %d of %d bytes of the source can be read: panic %s", sp.Name, rp.Mode, t, n, core.Trunc(panicked, 200)), rp)
			case werr == nil:
				outcome = "complete"
				rows, _, err, p := env.readAll(&dsp, bytes.NewReader(out.Bytes()), int64(out.Len()))
				if err != nil || p != "" || !c14RowsEqual(rows, want) {
					c.Violation("copy-truncated-silent", fmt.Sprintf("file %s copied with WriteRowGroup (%s) while only the first %d of %d bytes of the source can be read: WriteRowGroup and Close returned nil, the output (%d bytes) reads back %d of %d rows (err=%v %s)", sp.Name, rp.Mode, t, n, out.Len(), len(rows), len(want), err, p), rp)
				}
			}
			if panicked == "" && werr != nil && lateErr == nil && countsOK {
				// WriteRowGroup failed, the later Write and Close returned nil: a nil
				// error from Close means a complete file, holding the rows the calls
				// reported as written and the later ones
				outcome = "error-then-complete"
				exp := append(append([]c14Row(nil), reported...), c14LateRows...)
				rows, _, err, p := env.readAll(&dsp, bytes.NewReader(out.Bytes()), int64(out.Len()))
				if err != nil || p != "" || !c14RowsEqual(rows, exp) {
					c.Violation("copy-truncated-writer-state", fmt.Sprintf("file %s copied with WriteRowGroup (%s) while only the first %d of %d bytes of the source can be read: WriteRowGroup failed (%v) after reporting %d rows written in all; Write of %d more rows and Close then returned nil, but the output (%d bytes) reads back %d rows which are not those %d (err=%v %s)", sp.Name, rp.Mode, t, n, werr, len(reported), len(c14LateRows), out.Len(), len(rows), len(exp), err, p), rp)
				}
			}
			if r.hits == 0 {
				outcome = "not-reached"
			}
			c.Case("copy-truncated/"+rp.Mode+"/"+outcome, fmt.Sprintf("%s|%v|%d", sp.Name, same, t), r.hits > 0)
		}
	}
}

// c14LateRows are written by the caller after a WriteRowGroup failed.
var c14LateRows = func() []c14Row {
	t := "late"
	return []c14Row{{ID: -11, Name: "alpha"}, {ID: -12, Name: "late-name", Tag: &t, Vals: []int32{7, 8}}, {ID: -13, Name: "beta", Vals: []int32{9}}}
}()

// c14FaultyReaderAt injects one fault at a call index, or a truncation.
type c14FaultyReaderAt struct {
	data  []byte
	calls int
	at    int    // call index of the fault, -1 none
	mode  string // error | short-unexpected-eof | short-eof | zero-eof
	limit int    // bytes beyond limit are gone (truncated under the reader); -1 none
	hits  int
}

var errReadFault = errors.New("c14: injected ReadAt failure")

func (r *c14FaultyReaderAt) ReadAt(p []byte, off int64) (int, error) {
	i := r.calls
	r.calls++
	data := r.data
	if r.limit >= 0 && r.limit < len(data) {
		data = data[:r.limit]
	}
	if off < 0 {
		return 0, errors.New("negative offset")
	}
	if off >= int64(len(data)) {
		if r.limit >= 0 && len(p) > 0 {
			r.hits++
		}
		return 0, io.EOF
	}
	n := copy(p, data[off:])
	if i == r.at && len(p) > 0 {
		r.hits++
		switch r.mode {
		case "error":
			return 0, errReadFault
		case "short-unexpected-eof":
			return n / 2, io.ErrUnexpectedEOF
		case "short-eof":
			return n / 2, io.EOF
		case "short-error":
			return n - 1, errReadFault
		}
	}
	if n < len(p) {
		if r.limit >= 0 {
			r.hits++
		}
		return n, io.EOF
	}
	return n, nil
}

func (env *c14Env) readAtFaults(sp *c14Spec, lay *c14Layout) {
	c := env.c
	ref := lay.ref
	var want []c14Row
	for _, g := range sp.rows() {
		want = append(want, g...)
	}
	dry := &c14FaultyReaderAt{data: ref, at: -1, limit: -1}
	if rows, _, err, p := env.readAll(sp, dry, int64(len(ref))); err != nil || p != "" || !c14RowsEqual(rows, want) {
		c.Violation("reference-unreadable", fmt.Sprintf("file %s does not read back through a counting io.ReaderAt: %v %s", sp.Name, err, p), c14Replay{What: "readat", Spec: *sp, Call: -1})
		return
	}
	total := dry.calls
	judge := func(r *c14FaultyReaderAt, rp c14Replay, what string, afterOpen ...func()) {
		rows, _, err, panicked := env.readAll(sp, r, int64(len(ref)), afterOpen...)
		switch {
		case panicked != "":
			c.Violation("readat-panic", fmt.Sprintf("file %s, %s: panic %s", sp.Name, what, core.Trunc(panicked, 200)), rp)
		case err == nil && r.hits > 0 && !c14RowsEqual(rows, want):
			c.Violation("readat-fault-masked", fmt.Sprintf("file %s, %s: no error was returned and %d rows were read which are not the %d rows of the file", sp.Name, what, len(rows), len(want)), rp)
		}
		out := "error"
		if err == nil {
			out = "same-rows"
		}
		if r.hits == 0 {
			out = "not-reached"
		}
		c.Case("readat/"+rp.Mode+"/"+out, fmt.Sprintf("%s|%s|%d|%d", sp.Name, rp.Mode, rp.Call, rp.L), r.hits > 0)
	}
	for _, mode := range []string{"error", "short-unexpected-eof", "short-eof", "short-error"} {
		for i := 0; i < total; i++ {
			r := &c14FaultyReaderAt{data: ref, at: i, mode: mode, limit: -1}
			judge(r, c14Replay{What: "readat", Spec: *sp, Call: i, Mode: mode}, fmt.Sprintf("ReadAt call %d of %d answers with %s", i, total, mode))
		}
	}
	// the bytes beyond T vanish after OpenFile (file truncated while it is
	// read): short reads with io.EOF from then on
	n := len(ref)
	var ts []int
	for _, b := range lay.bounds {
		ts = append(ts, b-1, b, b+1)
	}
	for t := c.Rng.Intn(29); t < n; t += c.N(29, 5) {
		ts = append(ts, t)
	}
	chunks := env.chunksOf(sp, ref)
	// every page start and every header/body boundary of every chunk
	for _, ch := range chunks {
		at := ch.start
		for _, pg := range strings.Split(ch.pages, ",") {
			var h, b int
			fmt.Sscanf(pg, "%d:%d", &h, &b)
			ts = append(ts, at-1, at, at+1, at+h-1, at+h, at+h+1)
			at += h + b
		}
	}
	sort.Ints(ts)
	for i, t := range ts {
		if i > 0 && ts[i-1] == t {
			continue
		}
		if t < 0 || t >= n {
			continue
		}
		r := &c14FaultyReaderAt{data: ref, at: -1, limit: -1}
		rp := c14Replay{What: "readat", Spec: *sp, Call: -1, Mode: "truncated-after-open", L: t}
		what := fmt.Sprintf("after OpenFile only the first %d of %d bytes can be read (short reads with io.EOF beyond)", t, n)
		judge(r, rp, what, func() { r.limit = t })
		// the model of FilePages.ReadPage on every column chunk: an error is due
		// exactly when some chunk loses bytes
		if c.HasOracle() && chunks != nil {
			expect := false
			for _, ch := range chunks {
				avail := min(max(t-ch.start, 0), ch.size)
				ans := c.Ask(fmt.Sprintf("c14.pages 1 %d %d %s", ch.size, avail, ch.pages))
				if strings.HasSuffix(ans, "/unexpected") {
					expect = true
				} else if !strings.HasSuffix(ans, "/end") {
					c.Mismatch("corr:C14.pages", what, "-", ans, rp)
				}
			}
			r2 := &c14FaultyReaderAt{data: ref, at: -1, limit: -1}
			_, _, err, _ := env.readAll(sp, r2, int64(len(ref)), func() { r2.limit = t })
			if (err != nil) != expect {
				c.Mismatch("corr:C14.pages", what, fmt.Sprintf("error=%v (%v)", err != nil, err), fmt.Sprintf("error=%v", expect), rp)
			}
		}
	}
	c.Note("file %s: %d ReadAt calls for OpenFile + full read; each failed in 4 ways; %d truncation points applied after OpenFile", sp.Name, total, len(ts))
}

type c14Chunk struct {
	start, size int
	pages       string // header:body lengths of the pages, comma separated
}

// chunksOf lists the column chunks of a file with the header and body lengths
// of their pages (dictionary page first), from the footer and the page headers.
// Encrypted files are not walked (their pages are AES-GCM envelopes).
func (env *c14Env) chunksOf(sp *c14Spec, ref []byte) []c14Chunk {
	if sp.Enc != 0 {
		return nil
	}
	f, err := parquet.OpenFile(bytes.NewReader(ref), int64(len(ref)), env.openOpts(sp)...)
	if err != nil {
		return nil
	}
	var out []c14Chunk
	for g, rg := range f.Metadata().RowGroups {
		for j, col := range rg.Columns {
			md := &col.MetaData
			ch := c14Chunk{start: int(md.DataPageOffset), size: int(md.TotalCompressedSize)}
			var ps []string
			sum := 0
			if md.DictionaryPageOffset > 0 {
				ch.start = int(md.DictionaryPageOffset)
			}
			// walk the page headers of the chunk: (header length, body length)
			at := ch.start
			for sum < ch.size {
				var hdr format.PageHeader
				pr := new(thrift.CompactProtocol).NewReaderFromBytes(ref[at:])
				if err := thrift.NewDecoder(pr).Decode(&hdr); err != nil {
					env.c.Note("file %s: page header at %d does not decode (%v); chunk model not compared", sp.Name, at, err)
					return nil
				}
				h, b := pr.BytesRead(), int(hdr.CompressedPageSize)
				ps = append(ps, fmt.Sprintf("%d:%d", h, b))
				sum += h + b
				at += h + b
			}
			if sum != ch.size {
				env.c.Note("file %s: pages of row group %d column %d add up to %d, chunk has %d bytes; chunk model not compared", sp.Name, g, j, sum, ch.size)
				return nil
			}
			ch.pages = strings.Join(ps, ",")
			out = append(out, ch)
		}
	}
	return out
}

// fileReadAt compares File.ReadAt (file.go, through the readAt wrapper)
// with the model for scripted answers of the underlying reader.
type c14ScriptReaderAt struct {
	data   []byte
	script bool
	n      int
	err    error
}

func (r *c14ScriptReaderAt) ReadAt(p []byte, off int64) (int, error) {
	if !r.script {
		return bytes.NewReader(r.data).ReadAt(p, off)
	}
	n := min(r.n, len(p))
	if off >= 0 && off < int64(len(r.data)) {
		copy(p[:n], r.data[off:])
	}
	return n, r.err
}

func (env *c14Env) fileReadAt(sp *c14Spec) {
	c := env.c
	cfg := c14Cfg{Buf: -1, Pool: "default"}
	sink := c14NewSink(c14Fault{Kind: "none"})
	o := env.run(sp, cfg, sink, sink)
	if o.Hang || o.Panic != "" || o.First >= 0 {
		return
	}
	ref := o.Bytes
	sr := &c14ScriptReaderAt{data: ref}
	f, err := parquet.OpenFile(sr, int64(len(ref)))
	if err != nil {
		c.Violation("reference-unreadable", "file "+sp.Name+": "+err.Error(), nil)
		return
	}
	size := len(ref)
	sr.script = true
	errs := map[string]error{"nil": nil, "eof": io.EOF, "other": errReadFault}
	for _, off := range []int{0, 5, size - 20, size - 10, size - 1, size, size + 7} {
		for _, ln := range []int{1, 10, 20, 33} {
			fwd := ln // length of the forwarded call
			if off < size && size-off < ln {
				fwd = size - off
			}
			for _, n := range []int{0, 1, fwd / 2, fwd - 1, fwd} {
				if n < 0 || n > fwd {
					continue
				}
				for _, en := range []string{"nil", "eof", "other"} {
					if en == "nil" && n < fwd {
						continue // an io.ReaderAt must not do that
					}
					sr.n, sr.err = n, errs[en]
					buf := make([]byte, ln)
					gn, gerr := f.ReadAt(buf, int64(off))
					ge := "nil"
					switch {
					case gerr == io.EOF:
						ge = "eof"
					case gerr != nil:
						ge = "other"
					}
					got := fmt.Sprintf("%d/%s", gn, ge)
					// the property: fewer bytes than asked for never come with a nil error
					if gn < ln && gerr == nil {
						c.Violation("readat-short-nil", fmt.Sprintf("File.ReadAt(len %d, off %d) on a %d byte file returned (%d, nil) when the reader answered (%d, %s)", ln, off, size, gn, n, en), nil)
					}
					if c.HasOracle() {
						m := c.Ask(fmt.Sprintf("c14.readat %d %d %d %d %s", size, off, ln, n, en))
						if m != got {
							c.Mismatch("corr:C14.file_readat", fmt.Sprintf("size %d off %d len %d reader (%d,%s)", size, off, ln, n, en), got, m, nil)
						}
					}
					c.Case("file-readat", fmt.Sprintf("%d|%d|%d|%s", off, ln, n, en), true)
				}
			}
		}
	}
}

// ---------------------------------------------------------------- failing page buffers

// c14Pool hands out page buffers which fail: Write error or short count at a
// cumulative offset, Read error at a cumulative offset, Seek error.
type c14Pool struct {
	mode    string // write-err | write-short | read-err | seek-err
	k       int
	written int
	read    int
	hits    int
}

type c14PageBuf struct {
	pool *c14Pool
	buf  []byte
	pos  int
}

func (p *c14Pool) GetBuffer() io.ReadWriteSeeker  { return &c14PageBuf{pool: p} }
func (p *c14Pool) PutBuffer(b io.ReadWriteSeeker) {}

func (b *c14PageBuf) Write(p []byte) (int, error) {
	pl := b.pool
	n := len(p)
	if (pl.mode == "write-err" || (pl.mode == "write-short" && pl.hits == 0)) && pl.written+n > pl.k {
		n = max(pl.k-pl.written, 0)
		pl.hits++
		b.buf = append(b.buf[:b.pos], p[:n]...)
		b.pos += n
		pl.written += n
		if pl.mode == "write-err" {
			return n, errSinkFault
		}
		return n, nil
	}
	b.buf = append(b.buf[:b.pos], p...)
	b.pos += n
	pl.written += n
	return n, nil
}

func (b *c14PageBuf) Read(p []byte) (int, error) {
	pl := b.pool
	if b.pos >= len(b.buf) {
		return 0, io.EOF
	}
	n := copy(p, b.buf[b.pos:])
	if pl.mode == "read-err" && pl.read+n > pl.k {
		n = max(pl.k-pl.read, 0)
		pl.hits++
		b.pos += n
		pl.read += n
		return n, errSinkFault
	}
	b.pos += n
	pl.read += n
	return n, nil
}

func (b *c14PageBuf) Seek(off int64, whence int) (int64, error) {
	pl := b.pool
	if pl.mode == "seek-err" {
		pl.read++
		if pl.read > pl.k {
			pl.hits++
			return 0, errSinkFault
		}
	}
	switch whence {
	case io.SeekStart:
		b.pos = int(off)
	case io.SeekCurrent:
		b.pos += int(off)
	case io.SeekEnd:
		b.pos = len(b.buf) + int(off)
	}
	if b.pos < 0 {
		b.pos = 0
	}
	if b.pos > len(b.buf) {
		b.pos = len(b.buf)
	}
	return int64(b.pos), nil
}

// pageBufferFaults: the page buffers (ColumnPageBuffers) fail instead of the
// destination; same predicate: an error is reported or the file is complete.
func (env *c14Env) pageBufferFaults(sp *c14Spec) {
	c := env.c
	drive := func(pool *c14Pool) (*c14Outcome, *c14Sink) {
		sink := c14NewSink(c14Fault{Kind: "none"})
		type res struct {
			calls []c14Call
			p     string
		}
		done := make(chan res, 1)
		go func() {
			var calls []c14Call
			p := ""
			func() {
				defer func() {
					if r := recover(); r != nil {
						p = fmt.Sprint(r)
					}
				}()
				crand.Reader = &detRand{n: 14}
				opts := append(env.options(sp, c14Cfg{Buf: -1, Pool: "default"}), parquet.ColumnPageBuffers(pool))
				w := parquet.NewGenericWriter[c14Row](sink, opts...)
				groups := sp.rows()
				for g, rows := range groups {
					for i := 0; i < len(rows); i += sp.Batch {
						_, err := w.Write(rows[i:min(i+sp.Batch, len(rows))])
						calls = append(calls, c14Call{"Write", err})
					}
					if g != len(groups)-1 {
						calls = append(calls, c14Call{"Flush", w.Flush()})
					}
				}
				calls = append(calls, c14Call{"Close", w.Close()})
			}()
			done <- res{calls, p}
		}()
		o := &c14Outcome{First: -1}
		t := time.NewTimer(env.timeout)
		defer t.Stop()
		select {
		case r := <-done:
			o.Calls, o.Panic, o.Bytes = r.calls, r.p, sink.buf
			for i, cl := range o.Calls {
				if cl.Err != nil {
					o.First = i
					break
				}
			}
		case <-t.C:
			o.Hang = true
		}
		return o, sink
	}
	clean, _ := drive(&c14Pool{mode: "none"})
	if clean.Hang || clean.Panic != "" || clean.First >= 0 {
		c.Violation("fault-free-run-differs", fmt.Sprintf("file %s with a custom page buffer pool: hang=%v panic=%q err=%v", sp.Name, clean.Hang, clean.Panic, clean.First >= 0), nil)
		return
	}
	ref := clean.Bytes
	probe := &c14Pool{mode: "none"}
	drive(probe)
	for _, mode := range []string{"write-err", "write-short", "read-err", "seek-err"} {
		limit := probe.written
		step := c.N(7, 1)
		switch mode {
		case "read-err":
			limit = probe.read
		case "seek-err":
			limit, step = 40, 1
		}
		for k := 0; k < limit; k += step {
			pool := &c14Pool{mode: mode, k: k}
			o, _ := drive(pool)
			rp := c14Replay{What: "pagebuf", Spec: *sp, Fault: c14Fault{Kind: mode, K: k}}
			where := fmt.Sprintf("file %s, page buffers answering %s at offset/count %d", sp.Name, mode, k)
			switch {
			case o.Hang:
				c.Violation("pagebuf-hang", "no return within the deadline: "+where, rp)
			case o.Panic != "":
				c.Violation("pagebuf-panic", "panic "+core.Trunc(o.Panic, 200)+": "+where, rp)
			case o.First < 0 && pool.hits > 0 && !bytes.Equal(o.Bytes, ref):
				c.Violation("pagebuf-silent-loss", fmt.Sprintf("every call returned nil but the file differs from the fault-free one (%d vs %d bytes): %s", len(o.Bytes), len(ref), where), rp)
			}
			out := "error"
			if o.First < 0 {
				out = "complete"
			}
			if pool.hits == 0 {
				out = "not-reached"
			}
			c.Case("pagebuf/"+mode+"/"+out, fmt.Sprintf("%s|%s|%d", sp.Name, mode, k), pool.hits > 0)
		}
	}
}

// ---------------------------------------------------------------- replay

func replayC14(c *core.Ctx, raw json.RawMessage) {
	var rp c14Replay
	if err := json.Unmarshal(raw, &rp); err != nil || rp.What == "" {
		c.Note("replay carries no C14 case; rerun the check with the recorded seed")
		return
	}
	env := &c14Env{c: c, timeout: 20 * time.Second}
	env.workdir = filepath.Join(c.OutDir, "pools")
	_ = os.MkdirAll(env.workdir, 0o755)
	defer os.RemoveAll(env.workdir)
	sp := &rp.Spec
	switch rp.What {
	case "sink":
		lay, err := env.layout(sp, rp.Cfg)
		if err != nil {
			c.Mismatch("corr:C14.layout", sp.Name, err.Error(), "-", rp)
			return
		}
		if rp.Fault.Kind == "none" || rp.Fault.Kind == "" {
			sink := c14NewSink(c14Fault{Kind: "none"})
			o := env.run(sp, rp.Cfg, sink, sink)
			if o.Hang || o.Panic != "" || o.First >= 0 || !bytes.Equal(o.Bytes, lay.ref) {
				c.Violation("fault-free-run-differs", "fault-free run differs from the reference run", rp)
			}
			return
		}
		env.sweep(sp, rp.Cfg, lay, rp.Fault.Kind, []int{rp.Fault.K}, "replay")
	case "truncate":
		lay, err := env.layout(sp, c14Cfg{Buf: -1, Pool: "default"})
		if err != nil {
			c.Mismatch("corr:C14.layout", sp.Name, err.Error(), "-", rp)
			return
		}
		env.truncation(sp, lay)
	case "readat":
		lay, err := env.layout(sp, c14Cfg{Buf: -1, Pool: "default"})
		if err != nil {
			c.Mismatch("corr:C14.layout", sp.Name, err.Error(), "-", rp)
			return
		}
		env.readAtFaults(sp, lay)
	case "copy-truncated":
		lay, err := env.layout(sp, c14Cfg{Buf: -1, Pool: "default"})
		if err != nil {
			c.Mismatch("corr:C14.layout", sp.Name, err.Error(), "-", rp)
			return
		}
		env.copyTruncated(sp, lay)
	case "pagebuf":
		env.pageBufferFaults(sp)
	case "seek":
		env.replaySeek(raw)
	case "copy":
		var crp c14CopyReplay
		if err := json.Unmarshal(raw, &crp); err == nil {
			env.replayCopy(crp)
		}
	case "wrapper":
		if lay, err := env.layout(sp, c14Cfg{Buf: -1, Pool: "default"}); err == nil {
			env.wrappers(sp, lay.ref)
		}
	case "variant":
		var vrp c14VarReplay
		if err := json.Unmarshal(raw, &vrp); err == nil {
			env.variantFaults(&vrp.Spec, &vrp)
		}
	case "bloom":
		var brp c14BloomReplay
		if err := json.Unmarshal(raw, &brp); err == nil {
			env.bloomLookups(&brp.Spec, brp.Gzip)
		}
	}
}
