// C14 — the copy path: Writer.WriteRowGroup streaming the column chunks of a
// source file (copySection, writer.go).  The source can end early inside one
// section (dictionary page, data pages, bloom filter) exactly when that
// section is copied; the destination follows the fault scripts of the sweep.
// Go's (error kind, API call that reports first, completeness) is compared
// with the extracted model Sink/Copy.v run on the items recovered from a
// fault-free reference copy.
package main

import (
	"bytes"
	crand "crypto/rand"
	"errors"
	"fmt"
	"io"
	"os"
	"sort"
	"strings"
	"time"

	"github.com/parquet-go/parquet-go"

	"verif/harness/core"
)

// c14CutReader is the source of a copy: from the arm-th read that starts at
// offset start on, the section [start, end) delivers only its first avail
// bytes (short reads with io.EOF); every other range is intact.
type c14CutReader struct {
	data       []byte
	start, end int
	avail      int
	arm        int // 1-based index among the reads starting at start; 0 = never
	seen       int
	armed      bool
	hits       int
	atStart    int // number of reads that started at start (dry runs)
}

func (r *c14CutReader) ReadAt(p []byte, off int64) (int, error) {
	if off < 0 {
		return 0, errors.New("negative offset")
	}
	if int(off) == r.start && r.end > r.start {
		r.atStart++
		r.seen++
		if r.arm > 0 && r.seen >= r.arm {
			r.armed = true
		}
	}
	data := r.data
	if r.armed && int(off) >= r.start && int(off) < r.end {
		data = data[:r.start+r.avail]
		if len(p) > 0 && int(off)+len(p) > len(data) {
			r.hits++
		}
	}
	if off >= int64(len(data)) {
		return 0, io.EOF
	}
	n := copy(p, data[off:])
	if n < len(p) {
		return n, io.EOF
	}
	return n, nil
}

type c14CRegion struct {
	start, end, kind int
	rg, col          int // row group and column of a chunk module, -1 otherwise
	part             int // 0 dictionary page, 1 data pages, 2 bloom filter
}

// copyRegions lists the modules of a file from its footer; chunk modules get
// the kinds of the copy path when copied is set.
func (env *c14Env) copyRegions(file []byte, deferred, copied bool) ([]c14CRegion, error) {
	f, err := parquet.OpenFile(bytes.NewReader(file), int64(len(file)))
	if err != nil {
		return nil, err
	}
	kd, kp, kb := kDictPage, kDataPages, kBloomInline
	if copied {
		kd, kp, kb = kCopiedDict, kCopiedData, kCopiedBloom
	}
	if deferred {
		kb = kBloomDeferred
	}
	rs := []c14CRegion{{0, 4, kHeader, -1, -1, 0}}
	for g, rg := range f.Metadata().RowGroups {
		for j, col := range rg.Columns {
			md := &col.MetaData
			start := int(md.DataPageOffset)
			if md.DictionaryPageOffset > 0 {
				start = int(md.DictionaryPageOffset)
				rs = append(rs, c14CRegion{start, int(md.DataPageOffset), kd, g, j, 0})
			}
			rs = append(rs, c14CRegion{int(md.DataPageOffset), start + int(md.TotalCompressedSize), kp, g, j, 1})
			if md.BloomFilterOffset > 0 {
				rs = append(rs, c14CRegion{int(md.BloomFilterOffset), int(md.BloomFilterOffset) + int(md.BloomFilterLength), kb, g, j, 2})
			}
			if col.ColumnIndexLength > 0 {
				rs = append(rs, c14CRegion{int(col.ColumnIndexOffset), int(col.ColumnIndexOffset) + int(col.ColumnIndexLength), kColumnIndex, -1, -1, 0})
			}
			if col.OffsetIndexLength > 0 {
				rs = append(rs, c14CRegion{int(col.OffsetIndexOffset), int(col.OffsetIndexOffset) + int(col.OffsetIndexLength), kOffsetIndex, -1, -1, 0})
			}
		}
	}
	n := len(file)
	flen := int(uint32(file[n-8]) | uint32(file[n-7])<<8 | uint32(file[n-6])<<16 | uint32(file[n-5])<<24)
	rs = append(rs, c14CRegion{n - 8 - flen, n - 8, kFooter, -1, -1, 0}, c14CRegion{n - 8, n, kFooterTail, -1, -1, 0})
	sort.Slice(rs, func(i, j int) bool { return rs[i].start < rs[j].start })
	at := 0
	for _, r := range rs {
		if r.start != at || r.end <= r.start {
			return nil, fmt.Errorf("modules of the footer do not tile the file: region %v starts at %d, expected %d", r, r.start, at)
		}
		at = r.end
	}
	if at != n {
		return nil, fmt.Errorf("modules end at %d, file has %d bytes", at, n)
	}
	return rs, nil
}

// one item of the model's script (Sink/Copy.v)
type c14Item struct {
	typ        byte // 'p' write site, 'c' copied section, 's' staged in a deferred buffer, 'f' flush of the deferred buffers
	kind, mech int
	call       int
	pieces     []c14Piece
	n          int
	srcOff     int // offset of the section in the source ('c' and 's' of copied chunks)
	name       string
}

type c14CopyLayout struct {
	id        int
	src, ref  []byte
	items     []c14Item
	calls     []string
	closeCall int
	bounds    []int
}

// driveCopy: OpenFile(source), one WriteRowGroup per row group, Close; every
// call is made even after an error.
func (env *c14Env) driveCopy(sp *c14Spec, cfg c14Cfg, src io.ReaderAt, size int64, dst io.Writer, setCall func(int)) (calls []c14Call, copied int64, panicked string) {
	defer func() {
		if r := recover(); r != nil {
			panicked = fmt.Sprint(r)
		}
	}()
	crand.Reader = &detRand{n: 14}
	f, err := parquet.OpenFile(src, size)
	if err != nil {
		return []c14Call{{Name: "OpenFile(source)", Err: err}}, 0, ""
	}
	before := parquet.VerifCopyPathCount()
	w := parquet.NewGenericWriter[c14Row](dst, env.options(sp, cfg)...)
	do := func(name string, fn func() error) {
		setCall(len(calls))
		calls = append(calls, c14Call{Name: name})
		calls[len(calls)-1].Err = fn()
	}
	for g, rg := range f.RowGroups() {
		do(fmt.Sprintf("WriteRowGroup#%d", g), func() error { _, err := w.WriteRowGroup(rg); return err })
	}
	do("Close", w.Close)
	return calls, parquet.VerifCopyPathCount() - before, ""
}

func (env *c14Env) runCopy(sp *c14Spec, cfg c14Cfg, src io.ReaderAt, size int64, sink *c14Sink, dst io.Writer) (*c14Outcome, int64) {
	type res struct {
		calls  []c14Call
		copied int64
		p      string
	}
	done := make(chan res, 1)
	go func() {
		calls, copied, p := env.driveCopy(sp, cfg, src, size, dst, func(i int) { sink.call = i })
		done <- res{calls, copied, p}
	}()
	t := time.NewTimer(env.timeout)
	defer t.Stop()
	o := &c14Outcome{First: -1, HitAt: -1}
	select {
	case r := <-done:
		o.Calls, o.Panic = r.calls, r.p
		o.Bytes = sink.buf
		o.HitAt = sink.hitAt
		o.SinkErr = sink.erred
		for i, cl := range o.Calls {
			if cl.Err != nil {
				o.First = i
				break
			}
		}
		return o, r.copied
	case <-t.C:
		o.Hang = true
	}
	return o, 0
}

// copyLayout runs the reference copy (unbuffered recording destination, intact
// source) and derives the items of the model.
func (env *c14Env) copyLayout(sp *c14Spec, cfg c14Cfg, src []byte) (*c14CopyLayout, error) {
	rc := cfg
	rc.Buf = 0
	rec := &c14RecSink{}
	rec.record = true
	rec.hitAt = -1
	o, copied := env.runCopy(sp, rc, bytes.NewReader(src), int64(len(src)), &rec.c14Sink, rec)
	if o.Hang || o.Panic != "" || o.First >= 0 {
		return nil, fmt.Errorf("reference copy failed: hang=%v panic=%q first error=%v", o.Hang, o.Panic, o.First)
	}
	ref := o.Bytes
	regions, err := env.copyRegions(ref, cfg.Deferred != "", true)
	if err != nil {
		return nil, err
	}
	srcRegions, err := env.copyRegions(src, false, true)
	if err != nil {
		return nil, err
	}
	chunks := 0
	srcAt := map[[3]int]c14CRegion{}
	for _, r := range srcRegions {
		if r.rg >= 0 {
			srcAt[[3]int{r.rg, r.col, r.part}] = r
			if r.part == 1 {
				chunks++
			}
		}
	}
	if copied != int64(chunks) {
		return nil, fmt.Errorf("not-copied: %d of %d column chunks went through the copy path", copied, chunks)
	}
	lay := &c14CopyLayout{src: src, ref: ref}
	for _, cl := range o.Calls {
		lay.calls = append(lay.calls, cl.Name)
	}
	lay.closeCall = len(lay.calls) - 1
	// sites in file order
	type site struct {
		c14Item
		reg c14CRegion
	}
	var sites []site
	ri := 0
	for _, p := range rec.pieces {
		if p.n == 0 && len(sites) > 0 {
			s := &sites[len(sites)-1]
			s.pieces = append(s.pieces, p)
			continue
		}
		for ri < len(regions) && p.off >= regions[ri].end {
			ri++
		}
		if ri == len(regions) || p.off < regions[ri].start || p.off+p.n > regions[ri].end {
			return nil, fmt.Errorf("write of %d bytes at %d straddles the module boundaries", p.n, p.off)
		}
		r := regions[ri]
		if n := len(sites); n > 0 && sites[n-1].reg.start == r.start {
			sites[n-1].pieces = append(sites[n-1].pieces, p)
			if p.call != sites[n-1].call {
				return nil, fmt.Errorf("module at %d is written by two API calls", r.start)
			}
			continue
		}
		it := c14Item{typ: 'p', kind: r.kind, mech: mWrite, call: p.call, pieces: []c14Piece{p}, n: r.end - r.start, name: c14KindNames[r.kind]}
		switch r.kind {
		case kCopiedDict, kCopiedData, kCopiedBloom:
			it.typ, it.mech = 'c', mLowerCopy
		case kBloomDeferred:
			it.mech = mLowerWriteTo
			if cfg.Deferred == "file" {
				it.mech = mLowerCopy
			}
		}
		if r.rg >= 0 {
			sr, ok := srcAt[[3]int{r.rg, r.col, r.part}]
			if !ok || sr.end-sr.start != r.end-r.start {
				return nil, fmt.Errorf("module %v of the copy has no counterpart of the same length in the source", r)
			}
			it.srcOff = sr.start
			it.name = fmt.Sprintf("%s rg%d col%d", c14KindNames[r.kind], r.rg, r.col)
		}
		sites = append(sites, site{it, r})
	}
	if len(sites) != len(regions) {
		return nil, fmt.Errorf("%d modules in the footer, %d written", len(regions), len(sites))
	}
	// script order: the deferred bloom filters are staged by the WriteRowGroup
	// of their row group and written by Close
	flushed := false
	var deferredSites []site
	for _, s := range sites {
		if s.kind == kBloomDeferred {
			deferredSites = append(deferredSites, s)
		}
	}
	stage := func(g int) {
		for _, d := range deferredSites {
			if d.reg.rg == g {
				it := d.c14Item
				it.typ = 's'
				it.call = g // WriteRowGroup#g is call g
				lay.items = append(lay.items, it)
			}
		}
	}
	lastRg := -1
	for _, s := range sites {
		if s.kind == kBloomDeferred {
			if !flushed {
				if lastRg >= 0 {
					stage(lastRg)
					lastRg = -1
				}
				lay.items = append(lay.items, c14Item{typ: 'f', mech: s.mech, call: s.call, name: "flush of the deferred bloom filters"})
				flushed = true
			}
			continue
		}
		if lastRg >= 0 && s.reg.rg != lastRg {
			stage(lastRg)
			lastRg = -1
		}
		if s.reg.rg >= 0 {
			lastRg = s.reg.rg
		}
		lay.items = append(lay.items, s.c14Item)
	}
	bs := map[int]bool{}
	for _, r := range regions {
		bs[r.start] = true
	}
	for b := range bs {
		lay.bounds = append(lay.bounds, b)
	}
	sort.Ints(lay.bounds)
	// register with the oracle
	env.layouts++
	lay.id = env.layouts
	pieces := func(ps []c14Piece) string {
		var sb strings.Builder
		for j, p := range ps {
			if j > 0 {
				sb.WriteByte('.')
			}
			if p.str {
				fmt.Fprintf(&sb, "s%d", p.n)
			} else {
				fmt.Fprintf(&sb, "b%d", p.n)
			}
		}
		return sb.String()
	}
	var parts []string
	total := 0
	for _, it := range lay.items {
		switch it.typ {
		case 'p':
			parts = append(parts, fmt.Sprintf("p:%d:%d:%s", it.kind, it.mech, pieces(it.pieces)))
			total += it.n
		case 'c':
			parts = append(parts, fmt.Sprintf("c:%d:%s", it.kind, pieces(it.pieces)))
			total += it.n
		case 's':
			parts = append(parts, "s:"+pieces(it.pieces))
			total += it.n
		case 'f':
			parts = append(parts, fmt.Sprintf("f:%d", it.mech))
		}
	}
	if total != len(ref) {
		return nil, fmt.Errorf("the items hold %d bytes, the copy has %d", total, len(ref))
	}
	if env.c.HasOracle() {
		ans := env.c.Ask(fmt.Sprintf("c14.copylayout %d %s", lay.id, strings.Join(parts, ";")))
		want := fmt.Sprintf("ok %d %d", len(lay.items), len(ref))
		if ans != want {
			return nil, fmt.Errorf("oracle copy layout: %q, expected %q", ans, want)
		}
	}
	return lay, nil
}

type c14CopyReplay struct {
	What   string   `json:"what"` // copy
	Spec   c14Spec  `json:"spec"`
	Cfg    c14Cfg   `json:"cfg"`
	Fault  c14Fault `json:"fault"`
	Item   int      `json:"item"`  // index of the item whose source is short, -1 none
	Avail  int      `json:"avail"` // bytes its source delivers
	Module string   `json:"module,omitempty"`
}

func c14ErrKind(o *c14Outcome) string {
	if o.First < 0 {
		return "nil"
	}
	e := o.Calls[o.First].Err
	switch {
	case errors.Is(e, errSinkFault):
		return "sink"
	case errors.Is(e, io.ErrShortWrite):
		return "short"
	case errors.Is(e, io.ErrUnexpectedEOF):
		return "unexpected-eof"
	}
	return "other"
}

// copyCase runs one copy with a short source (item >= 0) and/or a destination
// fault, evaluates the predicate and compares with the model's verdict mv.
func (env *c14Env) copyCase(sp *c14Spec, cfg c14Cfg, lay *c14CopyLayout, f c14Fault, item, avail, arm int, mv string, bucket string) {
	c := env.c
	rp := c14CopyReplay{What: "copy", Spec: *sp, Cfg: cfg, Fault: f, Item: item, Avail: avail}
	src := &c14CutReader{data: lay.src}
	where := fmt.Sprintf("file %s copied with WriteRowGroup (%d bytes), WriteBufferSize %d, deferred bloom filters %q, destination fault %s at %d", sp.Name, len(lay.ref), cfg.bufSize(), cfg.Deferred, f.Kind, f.K)
	if item >= 0 {
		it := lay.items[item]
		src.start, src.end, src.avail, src.arm = it.srcOff, it.srcOff+it.n, avail, arm
		rp.Module = it.name
		where += fmt.Sprintf(", the source delivers %d of the %d bytes of %s when they are copied", avail, it.n, it.name)
	}
	sink := c14NewSink(f)
	o, _ := env.runCopy(sp, cfg, src, int64(len(lay.src)), sink, sink)
	key := fmt.Sprintf("%s|%v|%s|%d|%d|%d", sp.Name, cfg, f.Kind, f.K, item, avail)
	switch {
	case o.Hang:
		c.Violation("hang", "the writer did not return within the deadline: "+where, rp)
		c.Case(bucket, key, true)
		return
	case o.Panic != "":
		c.Violation("copy-panic", "the writer panicked ("+core.Trunc(o.Panic, 200)+"): "+where, rp)
		c.Case(bucket, key, true)
		return
	}
	complete := bytes.Equal(o.Bytes, lay.ref)
	if o.First < 0 && !complete {
		c.Violation("copy-silent-loss", fmt.Sprintf("every call returned nil but the destination holds %d bytes which are not the %d bytes of the copy: %s", len(o.Bytes), len(lay.ref), where), rp)
		c.Case(bucket, key, true)
		return
	}
	if o.First < 0 && o.SinkErr {
		c.Violation("copy-sink-error-dropped", "the destination returned an error from a Write and every call of the writer returned nil: "+where, rp)
		c.Case(bucket, key, true)
		return
	}
	if item >= 0 && src.hits > 0 && o.First < 0 {
		c.Violation("copy-short-source-unreported", "the source ended early and every call returned nil: "+where, rp)
	}
	nontrivial := f.Kind != "none" || (item >= 0 && src.hits > 0)
	c.Case(bucket, key, nontrivial)
	if item >= 0 && src.hits == 0 {
		c.Mismatch("corr:C14.copy", where, "the short read was never reached", mv, rp)
		return
	}
	if mv == "" {
		return
	}
	m, ok := c14ParseModel(mv)
	if !ok {
		c.Mismatch("corr:C14.copy", where, "-", mv, rp)
		return
	}
	implCall := "-"
	if o.First >= 0 {
		implCall = o.Calls[o.First].Name
	}
	modelCall := "-"
	if m.err != "nil" {
		if m.site < len(lay.items) {
			modelCall = lay.calls[lay.items[m.site].call]
		} else {
			modelCall = lay.calls[lay.closeCall]
		}
	}
	implS := fmt.Sprintf("%s by %s complete=%v", c14ErrKind(o), implCall, complete)
	modelS := fmt.Sprintf("%s by %s complete=%v", m.err, modelCall, m.complete)
	if implS != modelS {
		c.Mismatch("corr:C14.copy", where, implS, modelS+" (item "+fmt.Sprint(m.site)+")", rp)
	}
}

// armOf: how many reads start at the source offset of the item during an
// undisturbed copy under cfg; the copy itself is the last of them.
func (env *c14Env) armOf(sp *c14Spec, cfg c14Cfg, lay *c14CopyLayout, item int) int {
	it := lay.items[item]
	dry := &c14CutReader{data: lay.src, start: it.srcOff, end: it.srcOff + it.n}
	sink := c14NewSink(c14Fault{Kind: "none"})
	env.runCopy(sp, cfg, dry, int64(len(lay.src)), sink, sink)
	return dry.atStart
}

func (env *c14Env) copySweep(sp *c14Spec, src []byte) {
	c := env.c
	if sp.Enc != 0 {
		return
	}
	defs := []string{""}
	if sp.Bloom {
		defs = []string{"", "mem", "file"}
	}
	for _, d := range defs {
		lcfg := c14Cfg{Buf: 0, Pool: "default", Deferred: d}
		lay, err := env.copyLayout(sp, lcfg, src)
		if err != nil {
			if strings.HasPrefix(err.Error(), "not-copied") {
				c.Note("file %s (deferred %q): %v; copy path not swept", sp.Name, d, err)
			} else {
				c.Mismatch("corr:C14.copylayout", sp.Name+" deferred="+d, err.Error(), "-", c14CopyReplay{What: "copy", Spec: *sp, Cfg: lcfg, Item: -1})
			}
			continue
		}
		if d == "" {
			var ks []string
			for _, it := range lay.items {
				ks = append(ks, fmt.Sprintf("%c %s (%d bytes, %d writes)", it.typ, it.name, it.n, len(it.pieces)))
			}
			if len(ks) > 24 {
				ks = append(ks[:24], "...")
			}
			if sp.Name == "two-groups-bloom" {
				c.Sample(map[string]any{"copy_of": sp.Name, "bytes": len(lay.ref), "items": ks})
			}
		}
		bufs := []int{0, 7, -1, 100}
		if d == "file" {
			bufs = []int{0, 7}
		}
		for _, b := range bufs {
			cfg := c14Cfg{Buf: b, Pool: "default", Deferred: d}
			bucket := fmt.Sprintf("copy/buf=%d/deferred=%s", b, d)
			// the undisturbed copy under this configuration gives the reference bytes
			{
				sink := c14NewSink(c14Fault{Kind: "none"})
				o, _ := env.runCopy(sp, cfg, bytes.NewReader(src), int64(len(src)), sink, sink)
				if o.Hang || o.Panic != "" || o.First >= 0 || !bytes.Equal(o.Bytes, lay.ref) {
					c.Violation("fault-free-run-differs", fmt.Sprintf("copy of file %s under %+v without fault: hang=%v panic=%q error=%v, same bytes=%v", sp.Name, cfg, o.Hang, o.Panic, o.First >= 0, bytes.Equal(o.Bytes, lay.ref)),
						c14CopyReplay{What: "copy", Spec: *sp, Cfg: cfg, Fault: c14Fault{Kind: "none"}, Item: -1})
					continue
				}
				if c.HasOracle() {
					mv := c.Ask(fmt.Sprintf("c14.copy 1 %d %d none 0 _", lay.id, cfg.bufSize()))
					if !strings.HasPrefix(mv, "nil/") || !strings.HasSuffix(mv, "/1") {
						c.Mismatch("corr:C14.copy", fmt.Sprintf("copy of %s under %+v without fault", sp.Name, cfg), "nil complete", mv, nil)
					}
				}
			}
			// (1) the source of one section ends early
			type sc struct{ item, avail, arm int }
			var cases []sc
			for i, it := range lay.items {
				if it.typ != 'c' && it.typ != 's' {
					continue
				}
				if c.Quick() && b != 0 && b != 7 && it.kind != kCopiedBloom && it.kind != kBloomDeferred && i%3 != 0 {
					continue
				}
				arm := env.armOf(sp, cfg, lay, i)
				avs := []int{0, 1, it.n / 2, it.n - 1}
				if !c.Quick() {
					avs = append(avs, 2, it.n/3, it.n-2)
				}
				seen := map[int]bool{}
				for _, a := range avs {
					if a < 0 || a >= it.n || seen[a] {
						continue
					}
					seen[a] = true
					cases = append(cases, sc{i, a, arm})
				}
			}
			var answers []string
			if c.HasOracle() && len(cases) > 0 {
				var specs []string
				for _, x := range cases {
					specs = append(specs, fmt.Sprintf("%d:%d", x.item, x.avail))
				}
				answers = strings.Split(c.Ask(fmt.Sprintf("c14.copyshort "+c14CopyCnt()+" %d %d %s", lay.id, cfg.bufSize(), strings.Join(specs, ";"))), ",")
				if len(answers) != len(cases) {
					c.Mismatch("corr:C14.copy", "oracle answer", "-", core.Trunc(strings.Join(answers, ","), 300), nil)
					answers = nil
				}
			}
			for i, x := range cases {
				mv := ""
				if answers != nil {
					mv = answers[i]
				}
				env.copyCase(sp, cfg, lay, c14Fault{Kind: "none"}, x.item, x.avail, x.arm, mv, bucket+"/short-source")
			}
			// (2) the destination fails while the sections are copied
			stride := c.N(389, 53)
			if b == -1 || b == 100 || d == "file" {
				stride = c.N(997, 131)
			}
			ks := env.copyOffsets(lay, stride, b == 0 || b == 7)
			var pcs [][]c14Piece
			for _, it := range lay.items {
				pcs = append(pcs, it.pieces)
			}
			fullKs := c14PieceEnds(pcs, len(lay.ref), c.N(32, 400))
			allKs := ks
			for _, kind := range []string{"err", "short", "full"} {
				ks := allKs
				if kind == "full" {
					// one offset in every Write call that reaches the destination
					ks = fullKs
				}
				var answers []string
				if c.HasOracle() && len(ks) > 0 {
					var sb strings.Builder
					for i, k := range ks {
						if i > 0 {
							sb.WriteByte(',')
						}
						fmt.Fprint(&sb, k)
					}
					answers = strings.Split(c.Ask(fmt.Sprintf("c14.copy "+c14CopyCnt()+" %d %d %s %s _", lay.id, cfg.bufSize(), kind, sb.String())), ",")
					if len(answers) != len(ks) {
						c.Mismatch("corr:C14.copy", "oracle answer", "-", core.Trunc(strings.Join(answers, ","), 300), nil)
						answers = nil
					}
				}
				for i, k := range ks {
					mv := ""
					if answers != nil {
						mv = answers[i]
					}
					env.copyCase(sp, cfg, lay, c14Fault{Kind: kind, K: k}, -1, 0, 0, mv, bucket+"/sink-fault")
				}
			}
			// (3) both: a short source behind a destination fault (the first of the two is reported)
			if len(cases) > 0 && (b == 0 || b == 7) {
				x := cases[c.Rng.Intn(len(cases))]
				for _, k := range []int{3, len(lay.ref) / 2} {
					mv := ""
					if c.HasOracle() {
						mv = c.Ask(fmt.Sprintf("c14.copy "+c14CopyCnt()+" %d %d err %d %d:%d", lay.id, cfg.bufSize(), k, x.item, x.avail))
					}
					// the short read may never be reached when the destination fails first
					env.copyBoth(sp, cfg, lay, c14Fault{Kind: "err", K: k}, x.item, x.avail, x.arm, mv, bucket+"/both")
				}
			}
		}
		if sp.Name == "two-groups-bloom" && d == "mem" {
			env.vmCopy(sp, lay)
		}
		if c.HasOracle() {
			c.Ask(fmt.Sprintf("c14.copydrop %d", lay.id))
		}
	}
}

// vmCopy writes the items of one copy and a sample of outcomes of the Go
// writer for the vm_compute cross-check (cases.v).
func (env *c14Env) vmCopy(sp *c14Spec, lay *c14CopyLayout) {
	kindNames := []string{"KHeader", "KCopiedDict", "KCopiedData", "KDictPage", "KDictPageEnc", "KDataPages", "KCopiedBloom", "KBloomInline", "KBloomInlineEnc",
		"KBloomDeferred", "KColumnIndex", "KColumnIndexEnc", "KOffsetIndex", "KOffsetIndexEnc", "KFooter", "KFooterCrypto", "KFooterSigned", "KFooterTail"}
	mechNames := []string{"MWrite", "MWriteTo", "MLowerWriteTo", "MLowerCopy"}
	ctr := 0
	pieces := func(ps []c14Piece) string {
		var out []string
		for _, p := range ps {
			out = append(out, fmt.Sprintf("(%s, cbytes %d %d)", core.CoqBool(p.str), ctr, p.n))
			ctr += p.n
		}
		return core.CoqList(out)
	}
	var items, callmap []string
	for _, it := range lay.items {
		switch it.typ {
		case 'p':
			items = append(items, fmt.Sprintf("IPlain (mkSite %s %s %s)", kindNames[it.kind], mechNames[it.mech], pieces(it.pieces)))
		case 'c':
			items = append(items, fmt.Sprintf("ICopied %s %s %d", kindNames[it.kind], pieces(it.pieces), it.n))
		case 's':
			items = append(items, fmt.Sprintf("IStage %s %d", pieces(it.pieces), it.n))
		case 'f':
			items = append(items, "IFlushDeferred "+mechNames[it.mech])
		}
		callmap = append(callmap, fmt.Sprintf("%d%%nat", it.call))
	}
	env.vmCopyDefs = []string{
		"Definition citems : list (item N) := [\n  " + strings.Join(items, ";\n  ") + "].",
		"Definition ccallmap : list nat := " + core.CoqList(callmap) + ".",
		fmt.Sprintf("Definition cclose : nat := %d%%nat.", lay.closeCall),
		fmt.Sprintf("Definition cncalls : nat := %d%%nat.", len(lay.calls)),
	}
	n := len(lay.ref)
	var srcItems []int
	for i, it := range lay.items {
		if it.typ == 'c' || it.typ == 's' {
			srcItems = append(srcItems, i)
		}
	}
	add := func(buf int, f c14Fault, item, avail int) {
		cfg := c14Cfg{Buf: buf, Pool: "default", Deferred: "mem"}
		src := &c14CutReader{data: lay.src}
		sh := "None"
		if item >= 0 {
			it := lay.items[item]
			src.start, src.end, src.avail, src.arm = it.srcOff, it.srcOff+it.n, avail, env.armOf(sp, cfg, lay, item)
			sh = fmt.Sprintf("(Some (%d%%nat, %d))", item, avail)
		}
		sink := c14NewSink(f)
		o, _ := env.runCopy(sp, cfg, src, int64(len(lay.src)), sink, sink)
		if o.Hang || o.Panic != "" {
			return
		}
		code := map[string]int{"nil": 0, "sink": 1, "short": 2, "other": 3, "unexpected-eof": 4}[c14ErrKind(o)]
		call := len(lay.calls)
		if o.First >= 0 {
			call = o.First
		}
		bs := "None"
		if buf > 0 {
			bs = fmt.Sprintf("(Some %d)", buf)
		}
		fl := "NoFault"
		switch f.Kind {
		case "err":
			fl = fmt.Sprintf("(ErrAt %d)", f.K)
		case "short":
			fl = fmt.Sprintf("(ShortAt %d)", f.K)
		case "full":
			fl = fmt.Sprintf("(FullErrAt %d)", f.K)
		}
		env.vmCopyCases = append(env.vmCopyCases, fmt.Sprintf("(%s, %s, %s, (%d, %d, %s)%%nat)", bs, fl, sh, code, call, core.CoqBool(bytes.Equal(o.Bytes, lay.ref))))
	}
	for _, buf := range []int{0, 7} {
		add(buf, c14Fault{Kind: "none"}, -1, 0)
		for j, i := range srcItems {
			if j%3 == 0 || lay.items[i].typ == 's' {
				add(buf, c14Fault{Kind: "none"}, i, lay.items[i].n/2)
			}
		}
		for _, k := range []int{0, 3, 4, n / 3, n / 2, n - 9, n - 1} {
			add(buf, c14Fault{Kind: "err", K: k}, -1, 0)
			add(buf, c14Fault{Kind: "short", K: k}, -1, 0)
			add(buf, c14Fault{Kind: "full", K: k}, -1, 0)
		}
	}
}

// copyBoth: like copyCase but the short read need not be reached.
func (env *c14Env) copyBoth(sp *c14Spec, cfg c14Cfg, lay *c14CopyLayout, f c14Fault, item, avail, arm int, mv string, bucket string) {
	c := env.c
	it := lay.items[item]
	rp := c14CopyReplay{What: "copy", Spec: *sp, Cfg: cfg, Fault: f, Item: item, Avail: avail, Module: it.name}
	src := &c14CutReader{data: lay.src, start: it.srcOff, end: it.srcOff + it.n, avail: avail, arm: arm}
	sink := c14NewSink(f)
	o, _ := env.runCopy(sp, cfg, src, int64(len(lay.src)), sink, sink)
	where := fmt.Sprintf("file %s copied with WriteRowGroup, WriteBufferSize %d, deferred %q, destination error at %d and the source delivers %d of %d bytes of %s", sp.Name, cfg.bufSize(), cfg.Deferred, f.K, avail, it.n, it.name)
	c.Case(bucket, fmt.Sprintf("%s|%v|%d|%d|%d", sp.Name, cfg, f.K, item, avail), true)
	switch {
	case o.Hang:
		c.Violation("hang", "the writer did not return within the deadline: "+where, rp)
		return
	case o.Panic != "":
		c.Violation("copy-panic", "the writer panicked ("+core.Trunc(o.Panic, 200)+"): "+where, rp)
		return
	case o.First < 0:
		c.Violation("copy-silent-loss", "every call returned nil: "+where, rp)
		return
	}
	if m, ok := c14ParseModel(mv); ok {
		modelCall := lay.calls[lay.closeCall]
		if m.site < len(lay.items) {
			modelCall = lay.calls[lay.items[m.site].call]
		}
		implS := fmt.Sprintf("%s by %s", c14ErrKind(o), o.Calls[o.First].Name)
		modelS := fmt.Sprintf("%s by %s", m.err, modelCall)
		if implS != modelS {
			c.Mismatch("corr:C14.copy", where, implS, modelS+" (item "+fmt.Sprint(m.site)+")", rp)
		}
	}
}

// c14CopyCnt selects the model of the copy path: the current code ("1": count
// checks of copySection present) or, with C14_COPY_PINNED set, the code before
// commit 9565563 ("0") — used with bin/mutcheck mutants/C14/rev_copy_truncated_source.diff
// to validate the pinned model that Properties/C14.v refutes.
func c14CopyCnt() string {
	if os.Getenv("C14_COPY_PINNED") != "" {
		return "0"
	}
	return "1"
}

func (env *c14Env) copyOffsets(lay *c14CopyLayout, stride int, dense bool) []int {
	n := len(lay.ref)
	set := map[int]bool{}
	for k := 0; k < n && k < 6; k++ {
		set[k] = true
	}
	for k := max(0, n-12); k < n; k++ {
		set[k] = true
	}
	for i, b := range lay.bounds {
		if !dense && i%3 != 0 {
			continue
		}
		for d := -1; d <= 1; d++ {
			if k := b + d; k >= 0 && k < n {
				set[k] = true
			}
		}
	}
	for k := env.c.Rng.Intn(stride); k < n; k += stride {
		set[k] = true
	}
	ks := make([]int, 0, len(set))
	for k := range set {
		ks = append(ks, k)
	}
	sort.Ints(ks)
	return ks
}

func (env *c14Env) replayCopy(rp c14CopyReplay) {
	sp := &rp.Spec
	base, err := env.layout(sp, c14Cfg{Buf: -1, Pool: "default"})
	if err != nil {
		env.c.Mismatch("corr:C14.layout", sp.Name, err.Error(), "-", rp)
		return
	}
	lcfg := rp.Cfg
	lay, err := env.copyLayout(sp, lcfg, base.ref)
	if err != nil {
		env.c.Mismatch("corr:C14.copylayout", sp.Name, err.Error(), "-", rp)
		return
	}
	f := rp.Fault
	if f.Kind == "" {
		f.Kind = "none"
	}
	mv := ""
	arm := 0
	spec := "_"
	if rp.Item >= 0 && rp.Item < len(lay.items) {
		arm = env.armOf(sp, rp.Cfg, lay, rp.Item)
		spec = fmt.Sprintf("%d:%d", rp.Item, rp.Avail)
	}
	if env.c.HasOracle() {
		mv = env.c.Ask(fmt.Sprintf("c14.copy "+c14CopyCnt()+" %d %d %s %d %s", lay.id, rp.Cfg.bufSize(), f.Kind, f.K, spec))
	}
	if rp.Item >= 0 && f.Kind != "none" {
		env.copyBoth(sp, rp.Cfg, lay, f, rp.Item, rp.Avail, arm, mv, "replay")
		return
	}
	env.copyCase(sp, rp.Cfg, lay, f, rp.Item, rp.Avail, arm, mv, "replay")
}
