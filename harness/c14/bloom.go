// C14, bloom filter lookups over a source that fails after OpenFile.
//
// A bloom filter answers "the value is not here" with (false, nil): readers
// prune row groups with it, so an absorbed read error is missing rows.  The
// lookups are made through every way the library hands out a filter — the
// filter of one column chunk, of a MultiRowGroup / MergeRowGroups over all the
// row groups of the file (what the readers build), of a converted row group,
// BloomFilterFrom with a reader of the caller — on files opened with the
// default options (header read by OpenFile, the bits stay in the file), with
// SkipBloomFilters (the whole filter is loaded by the first BloomFilter call)
// and with PrefetchBloomFilters (bits in memory), plain, gzip-compressed
// (BloomFilterCompression: read and inflated by the first Check) and
// encrypted filters.  After the open the reads that start inside the filter section
// of ONE row group (or of every row group) fail: an error, or a short count
// with io.EOF / io.ErrUnexpectedEOF / another error.
//
// Predicate, evaluated on the answers of the implementation: a value stored
// in some row group is never answered (false, nil); whenever a read failed
// during the lookup the lookup returns an error; a lookup during which no
// read failed answers as on the intact source.  Model (Sink/Bloom.v lookup):
// absent | maybe | failed and the number of filters consulted, from the clean
// answer of every filter, which filter is faulted and whether answering takes
// a read (observed on the intact source).
package main

import (
	"bytes"
	"errors"
	"fmt"
	"io"
	"strings"

	"github.com/parquet-go/parquet-go"

	"verif/harness/core"
)

// c14BloomSource fails the reads that touch one of the faulted sections once armed.
type c14BloomSource struct {
	data     []byte
	armed    bool
	mode     string   // error | short-eof | short-unexpected-eof | short-other
	sections [][2]int // [start, end) of the faulted sections
	reads    int      // ReadAt calls since the last reset that touch a bloom filter section
	hits     int      // of them, failed
	all      [][2]int // every bloom filter section of the file
	keep     string   // short modes: "" at most 3 bytes | half | minus1 (all but the last byte)
}

var errBloomRead = errors.New("c14: injected ReadAt failure (bloom filter section)")

// c14Touches: the read starts inside one of the sections.  (A read that starts
// in the section of the row group before and runs on into this one — the
// buffered header read of a lazily loaded filter — is a read of that other
// filter: what it delivers of this section is not used.)
func c14Touches(secs [][2]int, off int64, n int) bool {
	for _, s := range secs {
		if n > 0 && int(off) >= s[0] && int(off) < s[1] {
			return true
		}
	}
	return false
}

func (r *c14BloomSource) ReadAt(p []byte, off int64) (int, error) {
	if c14Touches(r.all, off, len(p)) {
		r.reads++
	}
	if r.armed && c14Touches(r.sections, off, len(p)) {
		r.hits++
		if r.mode == "error" {
			return 0, errBloomRead
		}
		// a short count: fewer bytes than any header or block needs, so that the
		// lookup cannot be answered from what was delivered
		lim := min(len(p)/2, 3)
		switch r.keep {
		case "half":
			lim = len(p) / 2
		case "minus1":
			lim = len(p) - 1
		}
		n := copy(p[:lim], r.data[min(int(off), len(r.data)):])
		switch r.mode {
		case "short-eof":
			return n, io.EOF
		case "short-unexpected-eof":
			return n, io.ErrUnexpectedEOF
		}
		return n, errBloomRead
	}
	if off >= int64(len(r.data)) {
		return 0, io.EOF
	}
	n := copy(p, r.data[off:])
	if n < len(p) {
		return n, io.EOF
	}
	return n, nil
}

type c14BloomReplay struct {
	What    string  `json:"what"` // bloom
	Spec    c14Spec `json:"spec"`
	Gzip    bool    `json:"gzip_filters,omitempty"`
	Open    string  `json:"open"`                   // default | skip (SkipBloomFilters) | prefetch (PrefetchBloomFilters)
	Entry   string  `json:"entry"`                  // chunk:<g> | multi | merge | convert | from:<g>
	Column  string  `json:"column"`                 // id | name
	FaultRG int     `json:"fault_row_group"`        // -1: the filters of every row group
	During  string  `json:"fault_during,omitempty"` // "" after the open | open (then the source recovers) | open-and-after
	Keep    string  `json:"short_keeps,omitempty"`  // bytes a short read delivers: "" at most 3 | half | minus1
	Mode    string  `json:"mode"`
	Value   string  `json:"value"`
}

var c14BloomModes = []string{"error", "short-eof", "short-unexpected-eof", "short-other"}

func (env *c14Env) bloomFile(sp *c14Spec, gzip bool) ([]byte, error) {
	var buf bytes.Buffer
	opts := env.options(sp, c14Cfg{Buf: -1, Pool: "default"})
	if gzip {
		opts = append(opts, parquet.BloomFilterCompression(&parquet.Gzip))
	}
	w := parquet.NewGenericWriter[c14Row](&buf, opts...)
	groups := sp.rows()
	for g, rows := range groups {
		if _, err := w.Write(rows); err != nil {
			return nil, err
		}
		if g != len(groups)-1 {
			if err := w.Flush(); err != nil {
				return nil, err
			}
		}
	}
	if err := w.Close(); err != nil {
		return nil, err
	}
	return buf.Bytes(), nil
}

func c14BloomOpenOptions(open string) []parquet.FileOption {
	switch open {
	case "skip":
		return []parquet.FileOption{parquet.SkipBloomFilters(true)}
	case "prefetch":
		return []parquet.FileOption{parquet.PrefetchBloomFilters(true)}
	}
	return nil
}

type c14BloomValue struct {
	text string
	v    parquet.Value
}

// c14BloomEntry builds the filter of an entry point over an opened file.
// parts: the row groups whose filters the entry consults, in order.
func c14BloomEntry(f *parquet.File, src io.ReaderAt, entry string, col int) (get func() parquet.BloomFilter, parts []int, err error) {
	rgs := f.RowGroups()
	all := make([]int, len(rgs))
	for i := range all {
		all[i] = i
	}
	var g int
	switch {
	case strings.HasPrefix(entry, "chunk:"):
		fmt.Sscanf(entry, "chunk:%d", &g)
		cc := rgs[g].ColumnChunks()[col]
		return func() parquet.BloomFilter { return cc.BloomFilter() }, []int{g}, nil
	case strings.HasPrefix(entry, "from:"):
		fmt.Sscanf(entry, "from:%d", &g)
		cc := rgs[g].ColumnChunks()[col].(*parquet.FileColumnChunk)
		return func() parquet.BloomFilter {
			bf, err := cc.BloomFilterFrom(src)
			if err != nil {
				return c14ErrFilter{err}
			}
			return bf
		}, []int{g}, nil
	case entry == "multi":
		m := parquet.MultiRowGroup(rgs...)
		return func() parquet.BloomFilter { return m.ColumnChunks()[col].BloomFilter() }, all, nil
	case entry == "merge":
		m, err := parquet.MergeRowGroups(rgs)
		if err != nil {
			return nil, nil, err
		}
		return func() parquet.BloomFilter { return m.ColumnChunks()[col].BloomFilter() }, all, nil
	case entry == "convert":
		type wider struct {
			c14Row
			Extra *int64 `parquet:"extra,optional"`
		}
		conv, err := parquet.Convert(parquet.SchemaOf(wider{}), f.Schema())
		if err != nil {
			return nil, nil, err
		}
		m := parquet.ConvertRowGroup(parquet.MultiRowGroup(rgs...), conv)
		// the columns keep their positions: extra comes last
		return func() parquet.BloomFilter { return m.ColumnChunks()[col].BloomFilter() }, all, nil
	}
	return nil, nil, fmt.Errorf("c14: unknown bloom entry %q", entry)
}

// c14ErrFilter stands for a filter that could not be loaded (BloomFilterFrom returned an error).
type c14ErrFilter struct{ err error }

func (e c14ErrFilter) ReadAt([]byte, int64) (int, error) { return 0, e.err }
func (e c14ErrFilter) Size() int64                       { return 0 }
func (e c14ErrFilter) Check(parquet.Value) (bool, error) { return false, e.err }

func c14BloomAnswer(ok bool, err error) string {
	switch {
	case err != nil:
		return "failed"
	case ok:
		return "maybe"
	}
	return "absent"
}

// bloomLookups runs the scenario on one file.
func (env *c14Env) bloomLookups(sp *c14Spec, gzip bool) {
	c := env.c
	if !sp.Bloom {
		return
	}
	data, err := env.bloomFile(sp, gzip)
	if err != nil {
		c.Violation("fault-free-run-differs", fmt.Sprintf("file %s (gzip filters %v) could not be written: %v", sp.Name, gzip, err), c14BloomReplay{What: "bloom", Spec: *sp, Gzip: gzip})
		return
	}
	ref, err := parquet.OpenFile(bytes.NewReader(data), int64(len(data)), env.openOpts(sp)...)
	if err != nil {
		c.Violation("fault-free-run-differs", fmt.Sprintf("file %s (gzip filters %v) could not be opened: %v", sp.Name, gzip, err), c14BloomReplay{What: "bloom", Spec: *sp, Gzip: gzip})
		return
	}
	md := ref.Metadata()
	cols := map[string]int{}
	for i, p := range ref.Schema().Columns() {
		cols[strings.Join(p, ".")] = i
	}
	groups := sp.rows()
	nrg := len(md.RowGroups)
	// values: stored in one row group (first and last id of each), stored in every one (names), absent
	values := map[string][]c14BloomValue{}
	stored := map[string]map[string][]bool{"id": {}, "name": {}} // column -> value -> per row group
	for g, rows := range groups {
		for _, i := range []int{0, len(rows) - 1} {
			id := rows[i].ID
			values["id"] = append(values["id"], c14BloomValue{fmt.Sprint(id), parquet.Int64Value(id)})
		}
		for _, r := range rows {
			for col, key := range map[string]string{"id": fmt.Sprint(r.ID), "name": r.Name} {
				if stored[col][key] == nil {
					stored[col][key] = make([]bool, nrg)
				}
				if g < nrg {
					stored[col][key][g] = true
				}
			}
		}
	}
	values["id"] = append(values["id"], c14BloomValue{"-5", parquet.Int64Value(-5)}, c14BloomValue{"1000003", parquet.Int64Value(1000003)})
	for _, n := range c14Names[:3] {
		values["name"] = append(values["name"], c14BloomValue{n, parquet.ByteArrayValue([]byte(n))})
	}
	values["name"] = append(values["name"], c14BloomValue{"zeta-not-stored", parquet.ByteArrayValue([]byte("zeta-not-stored"))})
	if len(groups) != nrg {
		// MaxRowsPerRowGroup cut the groups: the stored table does not apply
		return
	}
	section := func(g, col int) [2]int {
		m := &md.RowGroups[g].Columns[col].MetaData
		return [2]int{int(m.BloomFilterOffset), int(m.BloomFilterOffset) + int(m.BloomFilterLength)}
	}
	opens := []string{"default", "skip", "prefetch"}
	for _, colName := range []string{"id", "name"} {
		col := cols[colName]
		if md.RowGroups[0].Columns[col].MetaData.BloomFilterOffset == 0 || md.RowGroups[0].Columns[col].MetaData.BloomFilterLength <= 0 {
			c.Note("bloom lookups: file %s has no bloom filter section recorded for column %s", sp.Name, colName)
			continue
		}
		var allSecs [][2]int
		for g := 0; g < nrg; g++ {
			allSecs = append(allSecs, section(g, col))
		}
		entries := []string{"multi", "merge", "convert"}
		for g := 0; g < nrg; g++ {
			entries = append(entries, fmt.Sprintf("chunk:%d", g), fmt.Sprintf("from:%d", g))
		}
		if nrg == 1 {
			entries = entries[3:]
		}
		for _, open := range opens {
			// clean answers and whether answering takes a read, per row group and value: observed on the intact source
			type obs struct{ clean, needsRead bool }
			cleanOf := map[string][]obs{}
			{
				src := &c14BloomSource{data: data, all: allSecs}
				f, err := parquet.OpenFile(src, int64(len(data)), append(env.openOpts(sp), c14BloomOpenOptions(open)...)...)
				if err != nil {
					c.Violation("fault-free-run-differs", fmt.Sprintf("file %s opened with %s: %v", sp.Name, open, err), c14BloomReplay{What: "bloom", Spec: *sp, Gzip: gzip, Open: open})
					continue
				}
				for _, v := range values[colName] {
					for g := 0; g < nrg; g++ {
						// a fresh file per row group would be cleaner for the read count of lazily loaded
						// filters; the first value pays the load, every value is asked twice below
						bf := f.RowGroups()[g].ColumnChunks()[col].BloomFilter()
						if bf == nil {
							cleanOf[v.text] = append(cleanOf[v.text], obs{})
							continue
						}
						ok, err := bf.Check(v.v)
						if err != nil {
							c.Violation("fault-free-run-differs", fmt.Sprintf("file %s opened with %s: Check(%s) on the intact source: %v", sp.Name, open, v.text, err), c14BloomReplay{What: "bloom", Spec: *sp, Gzip: gzip, Open: open, Column: colName, Value: v.text})
						}
						if stored[colName][v.text] != nil && stored[colName][v.text][g] && !ok {
							c.Violation("bloom-false-negative", fmt.Sprintf("file %s opened with %s, intact source: the filter of row group %d says that the stored value %s of column %s is absent", sp.Name, open, g, v.text, colName), c14BloomReplay{What: "bloom", Spec: *sp, Gzip: gzip, Open: open, Column: colName, Value: v.text, Entry: fmt.Sprintf("chunk:%d", g)})
						}
						cleanOf[v.text] = append(cleanOf[v.text], obs{clean: ok})
					}
				}
			}
			// does the FIRST lookup on a freshly opened file read the section of row group g?
			needs := make([]bool, nrg)
			lazy := make([]bool, nrg)
			for g := 0; g < nrg; g++ {
				src := &c14BloomSource{data: data, all: [][2]int{section(g, col)}}
				f, err := parquet.OpenFile(src, int64(len(data)), append(env.openOpts(sp), c14BloomOpenOptions(open)...)...)
				if err != nil {
					continue
				}
				src.reads = 0
				bf := f.RowGroups()[g].ColumnChunks()[col].BloomFilter()
				// is the filter loaded from the source by the call of BloomFilter() itself?
				lazy[g] = src.reads > 0
				if bf != nil {
					bf.Check(values[colName][0].v)
				}
				needs[g] = src.reads > 0
			}
			// the reads of the filter sections fail DURING OpenFile (what the open reads of a
			// filter depends on the options: the header, nothing, header and bits)
			for fg := -1; fg < nrg; fg++ {
				for mi, mode := range c14BloomModes {
					keeps := []string{""}
					if mode != "error" {
						keeps = []string{"", "half", "minus1"}
					}
					for ki, keep := range keeps {
						for di, during := range []string{"open", "open-and-after"} {
							if c.Quick() && mode != "short-eof" && (fg+1+mi+ki+di)%2 != 0 {
								continue
							}
							env.bloomOpenCase(sp, gzip, data, open, entries, colName, col, fg, mode, keep, during, values[colName], stored[colName], allSecs)
						}
					}
				}
			}
			for ei, entry := range entries {
				for fg := -1; fg < nrg; fg++ {
					for mi, mode := range c14BloomModes {
						if c.Quick() && (ei+fg+1+mi)%2 != 0 && mode != "error" {
							continue // quick tier: the error mode everywhere, the short modes on every other combination
						}
						env.bloomCase(sp, gzip, data, open, entry, colName, col, fg, mode, values[colName], stored[colName], allSecs, needs, lazy, func(v string, g int) bool { return cleanOf[v][g].clean })
					}
				}
			}
		}
	}
}

func (env *c14Env) bloomCase(sp *c14Spec, gzip bool, data []byte, open, entry, colName string, col, fg int, mode string,
	values []c14BloomValue, stored map[string][]bool, allSecs [][2]int, needs, lazy []bool, clean func(v string, g int) bool) {
	c := env.c
	rp := c14BloomReplay{What: "bloom", Spec: *sp, Gzip: gzip, Open: open, Entry: entry, Column: colName, FaultRG: fg, Mode: mode}
	src := &c14BloomSource{data: data, mode: mode, all: allSecs}
	if fg < 0 {
		src.sections = allSecs
	} else {
		src.sections = [][2]int{allSecs[fg]}
	}
	where := func(v string) string {
		which := "every row group"
		if fg >= 0 {
			which = fmt.Sprintf("row group %d", fg)
		}
		return fmt.Sprintf("file %s (%d row groups, gzip filters %v) opened with %s options; after the open the reads of the bloom filter section of %s fail (%s); lookup of %s in column %s through %s", sp.Name, len(allSecs), gzip, open, which, mode, v, colName, entry)
	}
	var f *parquet.File
	var get func() parquet.BloomFilter
	var parts []int
	panicked := ""
	func() {
		defer func() {
			if x := recover(); x != nil {
				panicked = fmt.Sprint(x)
			}
		}()
		var err error
		f, err = parquet.OpenFile(src, int64(len(data)), append(env.openOpts(sp), c14BloomOpenOptions(open)...)...)
		if err != nil {
			panicked = "OpenFile on the intact source: " + err.Error()
			return
		}
		get, parts, err = c14BloomEntry(f, src, entry, col)
		if err != nil {
			panicked = "entry: " + err.Error()
		}
	}()
	if panicked != "" {
		c.Violation("bloom-panic", where("-")+": "+core.Trunc(panicked, 200), rp)
		return
	}
	src.armed = true
	// gzip filters keep what the first Check read (or its error); lazily loaded filters are kept once loaded:
	// under a fault armed before the first lookup a faulted filter that needs a read fails every time
	for _, v := range values {
		rp.Value = v.text
		src.reads, src.hits = 0, 0
		var ok bool
		var err error
		func() {
			defer func() {
				if x := recover(); x != nil {
					panicked = fmt.Sprint(x)
				}
			}()
			bf := get()
			if bf == nil {
				err = errors.New("c14: no bloom filter")
				panicked = "BloomFilter() returned nil although the column has filters"
				return
			}
			ok, err = bf.Check(v.v)
		}()
		if panicked != "" {
			c.Violation("bloom-panic", where(v.text)+": "+core.Trunc(panicked, 200), rp)
			return
		}
		got := c14BloomAnswer(ok, err)
		isStored := false
		var flags []string
		for _, g := range parts {
			if stored[v.text] != nil && stored[v.text][g] {
				isStored = true
			}
			fl := func(b bool) byte {
				if b {
					return '1'
				}
				return '0'
			}
			flags = append(flags, string([]byte{fl(needs[g]), fl(fg < 0 || fg == g), fl(clean(v.text, g)), fl(lazy[g])}))
		}
		nontrivial := src.hits > 0
		c.Case(fmt.Sprintf("bloom/%s/%s/%s", open, strings.SplitN(entry, ":", 2)[0], mode), fmt.Sprintf("%s|%v|%s|%s|%s|%d|%s|%s", sp.Name, gzip, open, entry, colName, fg, mode, v.text), nontrivial)
		switch {
		case isStored && got == "absent":
			c.Violation("bloom-stored-value-absent", where(v.text)+fmt.Sprintf(": Check = (false, nil) although the value is stored (%d reads of filter sections failed during the lookup)", src.hits), rp)
			return
		case src.hits > 0 && err == nil:
			c.Violation("bloom-read-error-dropped", where(v.text)+fmt.Sprintf(": %d reads of filter sections failed during the lookup and Check returned (%v, nil)", src.hits, ok), rp)
			return
		}
		if c.HasOracle() {
			want := c.Ask("c14.bloom " + strings.Join(flags, ","))
			if a := strings.SplitN(want, "/", 2)[0]; a != got {
				c.Mismatch("corr:C14.bloom", where(v.text)+" parts(needs read, faulted, clean, lazily loaded)="+strings.Join(flags, ","), got, want, rp)
				return
			}
		}
	}
	// the source recovers: a stored value is still never reported absent
	src.armed = false
	for _, v := range values {
		var ok bool
		var err error
		func() {
			defer func() {
				if x := recover(); x != nil {
					panicked = fmt.Sprint(x)
				}
			}()
			if bf := get(); bf != nil {
				ok, err = bf.Check(v.v)
			}
		}()
		isStored := false
		for _, g := range parts {
			if stored[v.text] != nil && stored[v.text][g] {
				isStored = true
			}
		}
		if panicked != "" || (isStored && !ok && err == nil) {
			rp.Value = v.text
			c.Violation("bloom-stored-value-absent", where(v.text)+fmt.Sprintf(": after the source recovered Check = (%v, %v) %s", ok, err, panicked), rp)
			return
		}
	}
}

// bloomOpenCase: the reads that start in the faulted filter sections fail
// while OpenFile runs (and afterwards, or the source recovers).  Predicate:
// OpenFile returns an error, or no lookup through any entry point answers
// (false, nil) for a stored value; while the source still fails, a lookup
// during which a read failed returns an error.  (A filter that is not handed
// out - BloomFilter() == nil - prunes nothing.)
func (env *c14Env) bloomOpenCase(sp *c14Spec, gzip bool, data []byte, open string, entries []string, colName string, col, fg int, mode, keep, during string,
	values []c14BloomValue, stored map[string][]bool, allSecs [][2]int) {
	c := env.c
	rp := c14BloomReplay{What: "bloom", Spec: *sp, Gzip: gzip, Open: open, Column: colName, FaultRG: fg, Mode: mode, During: during, Keep: keep}
	which := "every row group"
	if fg >= 0 {
		which = fmt.Sprintf("row group %d", fg)
	}
	delivers := ""
	if mode != "error" {
		delivers = ", delivering " + map[string]string{"": "at most 3 bytes", "half": "half of the bytes asked for", "minus1": "all but the last byte"}[keep]
	}
	for _, entry := range entries {
		rp.Entry = entry
		src := &c14BloomSource{data: data, mode: mode, all: allSecs, keep: keep, armed: true}
		if fg < 0 {
			src.sections = allSecs
		} else {
			src.sections = [][2]int{allSecs[fg]}
		}
		where := func(v string) string {
			return fmt.Sprintf("file %s (%d row groups, gzip filters %v) opened with %s options WHILE the reads of the bloom filter section of %s fail (%s%s); %d reads failed during OpenFile, which returned nil; then the source %s; lookup of %s in column %s through %s",
				sp.Name, len(allSecs), gzip, open, which, mode, delivers, src.hits, map[string]string{"open": "recovers", "open-and-after": "keeps failing"}[during], v, colName, entry)
		}
		var f *parquet.File
		var get func() parquet.BloomFilter
		var parts []int
		var openErr error
		panicked := ""
		func() {
			defer func() {
				if x := recover(); x != nil {
					panicked = fmt.Sprint(x)
				}
			}()
			f, openErr = parquet.OpenFile(src, int64(len(data)), append(env.openOpts(sp), c14BloomOpenOptions(open)...)...)
			if openErr == nil {
				var err error
				get, parts, err = c14BloomEntry(f, src, entry, col)
				if err != nil {
					panicked = "entry: " + err.Error()
				}
			}
		}()
		c.Case(fmt.Sprintf("bloom-open/%s/%s", open, mode), fmt.Sprintf("%s|%v|%s|%s|%s|%d|%s|%s|%s", sp.Name, gzip, open, entry, colName, fg, mode, keep, during), src.hits > 0)
		if panicked != "" {
			c.Violation("bloom-panic", where("-")+": "+core.Trunc(panicked, 200), rp)
			return
		}
		if openErr != nil {
			// the failure surfaced: the other entry points would see the same open
			return
		}
		openHits := src.hits
		src.armed = during == "open-and-after"
		for _, v := range values {
			rp.Value = v.text
			src.hits = 0
			var ok bool
			var err error
			none := false
			func() {
				defer func() {
					if x := recover(); x != nil {
						panicked = fmt.Sprint(x)
					}
				}()
				bf := get()
				if bf == nil {
					none = true
					return
				}
				ok, err = bf.Check(v.v)
			}()
			lookupHits := src.hits
			src.hits = openHits
			if panicked != "" {
				c.Violation("bloom-panic", where(v.text)+": "+core.Trunc(panicked, 200), rp)
				return
			}
			if none {
				continue
			}
			isStored := false
			for _, g := range parts {
				if stored[v.text] != nil && stored[v.text][g] {
					isStored = true
				}
			}
			switch {
			case isStored && !ok && err == nil:
				c.Violation("bloom-stored-value-absent", where(v.text)+": Check = (false, nil) although the value is stored", rp)
				return
			case lookupHits > 0 && err == nil && keep == "":
				// (a longer short read may deliver everything the lookup needs)
				c.Violation("bloom-read-error-dropped", where(v.text)+fmt.Sprintf(": %d reads of filter sections failed during the lookup and Check returned (%v, nil)", lookupHits, ok), rp)
				return
			}
		}
	}
}
