// C14, the columnar reader of variant columns (parquet.NewVariantReader) over
// a source that fails after OpenFile.  A VariantReader reads the leaf columns
// of a shredded variant side by side, one window of rows at a time: when the
// read of one column fails the others may already be a window ahead, so that
// what the reader does with the error decides whether the following windows
// still hold the values of their rows.
//
// Histories (like the retry histories of C13): windows of w rows from the first
// row on; one ReadAt call of the history (every call index of the undisturbed
// history) fails ONCE - (0, err), or a short count with io.EOF /
// io.ErrUnexpectedEOF / another error - or the source fails from that call on;
// when Next returns an error the caller follows one of the retry policies:
// SeekToRow(the row the reader is at) and Next, Next again, SeekToRow(the row
// behind this window), SeekToRow(a window back); it gives up after a few
// errors in a row or when SeekToRow itself returns an error.
//
// Predicate, on what the implementation returns: every window returned WITHOUT
// an error holds the window state (rows, typed values, residual values of
// every cursor) of exactly the rows it stands for - compared with the state
// the same window has on the intact source, which is itself compared with the
// generated values; io.EOF is returned only behind the last row.  An error may
// be persistent: a reader that refuses to go on is fine.
package main

import (
	"bytes"
	"errors"
	"fmt"
	"io"
	"math/rand"
	"strings"

	"github.com/parquet-go/parquet-go"
	"github.com/parquet-go/parquet-go/variant"

	"verif/harness/core"
)

type c14VarSpec struct {
	Name    string `json:"name"`
	Rows    int    `json:"rows"`
	V       int    `json:"v"`
	Codec   string `json:"codec"`
	PageBuf int    `json:"page_buf"`
	MaxRows int64  `json:"max_rows"` // 0: one row group
	Seed    int64  `json:"seed"`
	ReadBuf int    `json:"read_buf"` // ReadBufferSize of the open (0: default)
}

type c14VarReplay struct {
	What    string     `json:"what"` // variant
	Spec    c14VarSpec `json:"spec"`
	RG      int        `json:"row_group"`
	Window  int        `json:"window"`
	Policy  string     `json:"policy"`
	Mode    string     `json:"mode"`
	Call    int        `json:"readat_call"`
	Persist bool       `json:"persistent,omitempty"`
}

type c14VarRaw struct {
	Metadata []byte `parquet:"metadata"`
	Value    []byte `parquet:"value"`
}

type c14VarRow struct {
	ID  int32 `parquet:"id"`
	Var any   `parquet:"var,variant"`
}

func c14VarSchema() (*parquet.Schema, error) {
	shredded, err := parquet.ShreddedVariant(parquet.Group{
		"a": parquet.Int(64),
		"s": parquet.String(),
		"o": parquet.Group{"x": parquet.Int(64)},
		"l": parquet.List(parquet.Int(64)),
	})
	if err != nil {
		return nil, err
	}
	return parquet.NewSchema("table", parquet.Group{
		"id":  parquet.Int(32),
		"var": parquet.Optional(shredded),
	}), nil
}

// c14VarA: the value of field a of row i (every object row has one: ground truth of the check).
func c14VarA(i int) int64 { return int64(i)*7919 + 3 }

// c14VarValue: fields mostly match the shredding schema, sometimes not
// (residual values), sometimes the value is null or not an object.
func c14VarValue(rng *rand.Rand, i int) (v *variant.Value, object bool) {
	if rng.Intn(11) == 0 {
		return nil, false
	}
	if rng.Intn(17) == 0 {
		x := variant.Int64(int64(i))
		return &x, false
	}
	fields := []variant.Field{{Name: "a", Value: variant.Int64(c14VarA(i))}}
	switch rng.Intn(4) {
	case 0:
		fields = append(fields, variant.Field{Name: "s", Value: variant.Int64(int64(rng.Intn(1000)))})
	case 1, 2:
		fields = append(fields, variant.Field{Name: "s", Value: variant.String(fmt.Sprintf("s-%d-%d", i, rng.Intn(50)))})
	}
	if rng.Intn(4) == 0 {
		fields = append(fields, variant.Field{Name: "o", Value: variant.Int64(-int64(i))})
	} else {
		fields = append(fields, variant.Field{Name: "o", Value: variant.MakeObject([]variant.Field{
			{Name: "x", Value: variant.Int64(int64(i)*31 + 1)},
			{Name: "y", Value: variant.String(fmt.Sprintf("y%d", i))},
		})})
	}
	var elems []variant.Value
	for j := rng.Intn(4); j > 0; j-- {
		elems = append(elems, variant.Int64(int64(i*10+j)))
	}
	fields = append(fields, variant.Field{Name: "l", Value: variant.MakeArray(elems)})
	fields = append(fields, variant.Field{Name: "u", Value: variant.String(fmt.Sprintf("u%d", i))})
	x := variant.MakeObject(fields)
	return &x, true
}

// c14VarFile writes the file; objects[i]: row i holds an object (with field a).
func c14VarFile(sp *c14VarSpec) (data []byte, objects []bool, err error) {
	schema, err := c14VarSchema()
	if err != nil {
		return nil, nil, err
	}
	rng := rand.New(rand.NewSource(sp.Seed))
	rows := make([]c14VarRow, sp.Rows)
	objects = make([]bool, sp.Rows)
	for i := range rows {
		v, obj := c14VarValue(rng, i)
		objects[i] = obj
		rows[i].ID = int32(i)
		if v != nil {
			var mb variant.MetadataBuilder
			value := variant.Encode(&mb, *v)
			_, metadata := mb.Build()
			rows[i].Var = c14VarRaw{Metadata: metadata, Value: value}
		}
	}
	var buf bytes.Buffer
	opts := []parquet.WriterOption{schema, parquet.DataPageVersion(sp.V), parquet.Compression(c14Codec(sp.Codec)), parquet.PageBufferSize(sp.PageBuf)}
	if sp.MaxRows > 0 {
		opts = append(opts, parquet.MaxRowsPerRowGroup(sp.MaxRows))
	}
	w := parquet.NewGenericWriter[c14VarRow](&buf, opts...)
	for i := 0; i < len(rows); i += 23 {
		if _, err := w.Write(rows[i:min(i+23, len(rows))]); err != nil {
			return nil, nil, err
		}
	}
	if err := w.Close(); err != nil {
		return nil, nil, err
	}
	return buf.Bytes(), objects, nil
}

var c14VarCursors = []struct {
	name string
	path []string
	elem bool
}{
	{"root", nil, false}, {"a", []string{"a"}, false}, {"s", []string{"s"}, false}, {"o", []string{"o"}, false}, {"o.x", []string{"o", "x"}, false},
	{"o.y", []string{"o", "y"}, false}, {"l", []string{"l"}, false}, {"l[]", []string{"l"}, true}, {"u", []string{"u"}, false},
}

func c14CursorState(sb *strings.Builder, cur *parquet.VariantCursor) {
	locs := cur.Locs()
	fmt.Fprintf(sb, "kind=%v locs=%v rows=%v typedrows=%v residuals=%d offsets=%v", cur.Kind(), locs, cur.Rows(), cur.TypedRows(), cur.ResidualCount(), cur.ListOffsets())
	if t := cur.LeafType(); t != nil {
		switch t.Kind() {
		case parquet.Int64:
			fmt.Fprintf(sb, " int64s=%v", cur.Int64s())
		case parquet.ByteArray:
			slab, offs := cur.ByteArrays()
			for i := 0; i+1 < len(offs); i++ {
				fmt.Fprintf(sb, " %q", slab[offs[i]:offs[i+1]])
			}
		}
	}
	for i := range locs {
		v, ok, err := cur.Residual(i)
		switch {
		case err != nil:
			fmt.Fprintf(sb, " r%d=error(%v)", i, err)
		case ok:
			fmt.Fprintf(sb, " r%d=%v", i, v.GoValue())
		}
	}
}

// c14VarSource: the ReadAt call number `call` (counted from the arming on)
// fails, once or from then on.
type c14VarSource struct {
	data    []byte
	armed   bool
	call    int
	persist bool
	mode    string
	calls   int
	hits    int
}

var errVarRead = errors.New("c14: injected ReadAt failure (variant column)")

func (s *c14VarSource) ReadAt(p []byte, off int64) (int, error) {
	if s.armed {
		i := s.calls
		s.calls++
		if i == s.call || (s.persist && i > s.call) {
			s.hits++
			if s.mode == "error" {
				return 0, errVarRead
			}
			n := 0
			if int(off) < len(s.data) {
				n = copy(p[:min(len(p)/2, 3)], s.data[off:])
			}
			switch s.mode {
			case "short-eof":
				return n, io.EOF
			case "short-unexpected-eof":
				return n, io.ErrUnexpectedEOF
			}
			return n, errVarRead
		}
	}
	if off >= int64(len(s.data)) {
		return 0, io.EOF
	}
	n := copy(p, s.data[off:])
	if n < len(p) {
		return n, io.EOF
	}
	return n, nil
}

type c14VarWindow struct {
	row, n int
	text   string
	as     []int64 // typed values of cursor a
	arows  []int32 // their rows in the window
}

type c14VarOut struct {
	windows  []c14VarWindow
	errs     int    // errors returned by Next / SeekToRow
	end      string // eof | gave-up | seek-refused | no-progress | open: ... | panic: ...
	endRow   int
	numRows  int
	readHits int
}

// c14VarRun performs one history over src.
func c14VarRun(src *c14VarSource, readBuf, rg, window int, policy string) (out c14VarOut) {
	defer func() {
		if x := recover(); x != nil {
			out.end = "panic: " + fmt.Sprint(x)
		}
		out.readHits = src.hits
	}()
	var fopts []parquet.FileOption
	if readBuf > 0 {
		fopts = append(fopts, parquet.ReadBufferSize(readBuf))
	}
	f, err := parquet.OpenFile(src, int64(len(src.data)), fopts...)
	if err != nil {
		out.end = "open: " + err.Error()
		return
	}
	r, err := parquet.NewVariantReader(f.RowGroups()[rg], "var")
	if err != nil {
		out.end = "open: NewVariantReader: " + err.Error()
		return
	}
	defer r.Close()
	curs := make([]*parquet.VariantCursor, len(c14VarCursors))
	for i, cd := range c14VarCursors {
		cur := r.Path(cd.path...)
		if cd.elem {
			cur = cur.Elements()
		}
		curs[i] = cur
	}
	out.numRows = int(r.NumRows())
	src.armed = true
	row, inRow := 0, 0
	var sb strings.Builder
	for steps := 0; steps < 4*out.numRows+16; steps++ {
		n, err := r.Next(window)
		if err == nil && n > 0 {
			inRow = 0
			sb.Reset()
			for i, cur := range curs {
				fmt.Fprintf(&sb, "%s: ", c14VarCursors[i].name)
				c14CursorState(&sb, cur)
				sb.WriteByte('\n')
			}
			w := c14VarWindow{row: row, n: n, text: sb.String()}
			w.as = append(w.as, curs[1].Int64s()...)
			w.arows = append(w.arows, curs[1].TypedRows()...)
			out.windows = append(out.windows, w)
			row += n
			continue
		}
		if err == io.EOF {
			out.end, out.endRow = "eof", row
			return
		}
		if err == nil {
			out.end, out.endRow = "no-progress", row
			return
		}
		out.errs++
		inRow++
		if inRow > 3 {
			out.end, out.endRow = "gave-up", row
			return
		}
		switch policy {
		case "seek-same":
			err = r.SeekToRow(int64(row))
		case "next-again":
			err = nil
		case "seek-ahead":
			row = min(row+window, out.numRows)
			err = r.SeekToRow(int64(row))
		case "seek-back":
			row = max(row-window, 0)
			err = r.SeekToRow(int64(row))
		}
		if err != nil {
			out.errs++
			out.end, out.endRow = "seek-refused", row
			return
		}
	}
	out.end, out.endRow = "no-progress", row
	return
}

var c14VarPolicies = []string{"seek-same", "next-again", "seek-ahead", "seek-back"}

func c14VarSpecs(c *core.Ctx) []c14VarSpec {
	specs := []c14VarSpec{
		{Name: "variant-v2", Rows: 90, V: 2, PageBuf: 160, Seed: 5},
		{Name: "variant-v2-small-reads", Rows: 90, V: 2, PageBuf: 160, Seed: 5, ReadBuf: 96},
		{Name: "variant-v1-snappy-two-groups", Rows: 120, V: 1, Codec: "snappy", PageBuf: 200, MaxRows: 70, Seed: 9, ReadBuf: 256},
	}
	if !c.Quick() {
		specs = append(specs,
			c14VarSpec{Name: "variant-zstd-big-pages", Rows: 300, V: 2, Codec: "zstd", PageBuf: 4096, Seed: int64(c.Rng.Intn(1000))},
			c14VarSpec{Name: "variant-random", Rows: 100 + c.Rng.Intn(200), V: 1 + c.Rng.Intn(2), PageBuf: 64 + c.Rng.Intn(500), MaxRows: int64(40 + c.Rng.Intn(100)), Seed: int64(c.Rng.Intn(1000))})
	}
	return specs
}

// variantFaults runs the scenario on one file.
func (env *c14Env) variantFaults(sp *c14VarSpec, only *c14VarReplay) {
	c := env.c
	data, objects, err := c14VarFile(sp)
	if err != nil {
		c.Violation("fault-free-run-differs", fmt.Sprintf("variant file %s could not be written: %v", sp.Name, err), c14VarReplay{What: "variant", Spec: *sp})
		return
	}
	ref, err := parquet.OpenFile(bytes.NewReader(data), int64(len(data)))
	if err != nil {
		c.Violation("fault-free-run-differs", fmt.Sprintf("variant file %s could not be opened: %v", sp.Name, err), c14VarReplay{What: "variant", Spec: *sp})
		return
	}
	first := 0 // first row of the row group in the file
	for rg, g := range ref.RowGroups() {
		rgRows := int(g.NumRows())
		for _, window := range []int{7, 32} {
			if only != nil && (only.RG != rg || only.Window != window) {
				continue
			}
			// the undisturbed history: its windows against the generated values, its number of reads
			clean := c14VarRun(&c14VarSource{data: data, call: -1}, sp.ReadBuf, rg, window, "seek-same")
			rp := c14VarReplay{What: "variant", Spec: *sp, RG: rg, Window: window, Call: -1}
			okClean := clean.end == "eof" && clean.endRow == rgRows && clean.errs == 0
			if okClean {
				for _, w := range clean.windows {
					k := 0
					for i := 0; i < w.n; i++ {
						if !objects[first+w.row+i] {
							continue
						}
						if k >= len(w.as) || int(w.arows[k]) != i || w.as[k] != c14VarA(first+w.row+i) {
							okClean = false
							break
						}
						k++
					}
					if k != len(w.as) {
						okClean = false
					}
				}
			}
			if !okClean {
				c.Violation("variant-clean-read-differs", fmt.Sprintf("variant file %s, row group %d, windows of %d rows over the intact source: end=%s at row %d of %d, %d errors, or the typed values of field a are not those written", sp.Name, rg, window, clean.end, clean.endRow, rgRows, clean.errs), rp)
				continue
			}
			cleanAt := map[[2]int]string{}
			for _, w := range clean.windows {
				cleanAt[[2]int{w.row, w.n}] = w.text
			}
			// windows at other positions (after seek-ahead / seek-back the windows stay on the grid of the
			// policy; a window cut by the end of the row group may be shorter): read on demand over the intact source
			cleanWindow := func(row, n int) (string, bool) {
				if t, ok := cleanAt[[2]int{row, n}]; ok {
					return t, true
				}
				f, err := parquet.OpenFile(bytes.NewReader(data), int64(len(data)))
				if err != nil {
					return "", false
				}
				r, err := parquet.NewVariantReader(f.RowGroups()[rg], "var")
				if err != nil {
					return "", false
				}
				defer r.Close()
				curs := make([]*parquet.VariantCursor, len(c14VarCursors))
				for i, cd := range c14VarCursors {
					cur := r.Path(cd.path...)
					if cd.elem {
						cur = cur.Elements()
					}
					curs[i] = cur
				}
				if row > 0 {
					// sequentially up to the row: no seek in the reference
					if m, err := r.Next(row); err != nil || m != row {
						return "", false
					}
				}
				if m, err := r.Next(n); err != nil || m != n {
					return "", false
				}
				var sb strings.Builder
				for i, cur := range curs {
					fmt.Fprintf(&sb, "%s: ", c14VarCursors[i].name)
					c14CursorState(&sb, cur)
					sb.WriteByte('\n')
				}
				cleanAt[[2]int{row, n}] = sb.String()
				return sb.String(), true
			}
			src0 := &c14VarSource{data: data, call: -1}
			c14VarRun(src0, sp.ReadBuf, rg, window, "seek-same")
			ncalls := src0.calls
			for pi, policy := range c14VarPolicies {
				for mi, mode := range c14BloomModes {
					for _, persist := range []bool{false, true} {
						if persist && (mode != "error" || policy == "seek-back") {
							continue
						}
						for call := 0; call < ncalls; call++ {
							if only != nil {
								if only.Policy != policy || only.Mode != mode || only.Call != call || only.Persist != persist {
									continue
								}
							} else if c.Quick() && (mode != "error" || persist) && (call+pi+mi)%3 != 0 {
								continue // quick tier: (0, err) once at every call, the other faults at every third
							}
							rp := c14VarReplay{What: "variant", Spec: *sp, RG: rg, Window: window, Policy: policy, Mode: mode, Call: call, Persist: persist}
							src := &c14VarSource{data: data, call: call, mode: mode, persist: persist}
							o := c14VarRun(src, sp.ReadBuf, rg, window, policy)
							c.Case(fmt.Sprintf("variant/%s/%s", policy, mode), fmt.Sprintf("%s|%d|%d|%s|%s|%d|%v", sp.Name, rg, window, policy, mode, call, persist), o.readHits > 0)
							where := fmt.Sprintf("variant file %s (%d rows, pages v%d %s), VariantReader over column var of row group %d (ReadBufferSize %d, 0 = default), windows of %d rows; ReadAt call %d after the open fails (%s, %s); after an error of Next the caller does %s",
								sp.Name, sp.Rows, sp.V, map[bool]string{true: "uncompressed", false: sp.Codec}[sp.Codec == ""], rg, sp.ReadBuf, window, call, mode, map[bool]string{true: "and every later call", false: "once"}[persist], policy)
							switch {
							case strings.HasPrefix(o.end, "panic: "):
								c.Violation("variant-panic", where+": "+core.Trunc(o.end, 200), rp)
								continue
							case strings.HasPrefix(o.end, "open: "):
								c.Violation("fault-free-run-differs", where+": "+core.Trunc(o.end, 200), rp)
								continue
							case o.end == "no-progress":
								c.Violation("variant-no-progress", where+fmt.Sprintf(": Next returned (0, nil) or the history did not end (at row %d of %d, %d errors returned)", o.endRow, rgRows, o.errs), rp)
								continue
							case o.end == "eof" && o.endRow != rgRows:
								c.Violation("variant-missing-rows", where+fmt.Sprintf(": Next returned io.EOF at row %d of %d (%d reads failed, %d errors returned)", o.endRow, rgRows, o.readHits, o.errs), rp)
								continue
							}
							for _, w := range o.windows {
								want, ok := cleanWindow(w.row, w.n)
								if !ok {
									c.Violation("variant-clean-read-differs", where+fmt.Sprintf(": the window of rows [%d,%d) could not be read over the intact source", w.row, w.row+w.n), rp)
									break
								}
								if w.text != want {
									c.Violation("variant-altered-rows", where+fmt.Sprintf(": %d reads of the source failed, %d errors were returned, and Next returned the window of rows [%d,%d) WITHOUT error but with another state than over the intact source: %s", o.readHits, o.errs, w.row, w.row+w.n, c14FirstDiff(w.text, want)), rp)
									break
								}
							}
						}
					}
				}
			}
		}
		first += rgRows
	}
}

// c14FirstDiff: the first line on which two window states differ.
func c14FirstDiff(got, want string) string {
	g, w := strings.Split(got, "\n"), strings.Split(want, "\n")
	for i := range g {
		if i >= len(w) || g[i] != w[i] {
			x := ""
			if i < len(w) {
				x = w[i]
			}
			return fmt.Sprintf("got %q, intact %q", core.Trunc(g[i], 160), core.Trunc(x, 160))
		}
	}
	return "intact state is longer"
}
