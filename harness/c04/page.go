package main

// RLE_DICTIONARY data pages at the level of Type.Decode / Type.NewPage: what
// the page reader does with (dictionary, index bytes, num_values of the page
// header) once the bytes are out of the file (column.go, decodeDataPage):
//
//	values := pageType.NewValues(<pooled buffer>, nil)
//	values, err = pageType.Decode(values, data, &RLEDictionary)
//	page := pageType.NewPage(column, numValues, values)
//
// The pooled buffer was used by earlier pages: its bytes are whatever they
// left.  Checked for every dictionary kind:
//
//   - conforming pages (the stream holds num_values indexes, or up to 7 more
//     when its last run is bit-packed: the padding of the last group): the
//     values of the page are Index(i) of the indexes of the stream, in fresh
//     and in reused buffers;
//   - SHORT streams: fewer indexes than num_values.  Encodings.md does not
//     allow them (a data page holds "the values encoded using RLE/Bit packed":
//     all num_values of them); the library accepts them on purpose
//     (newIndexedPage: "RLE encoded values that contain dictionary indexes in
//     data pages are sometimes truncated when they contain only zeros") and
//     reads the missing indexes as 0.  What the property demands of an input
//     the decoder accepts is that the result is a function of the input: the
//     values of the page must not depend on what the reused buffer held
//     (class dst-history-dependence).  That the missing indexes are 0 is the
//     model's transcription of newIndexedPage (GoDecPage.go_indexed_page),
//     compared as a correspondence, not a demand of the specification.
//
// Histories of the reused buffer: a page of Prior indexes, all the last entry
// of the dictionary, decoded into it just before (the previous page of the
// column chunk); or bytes 0xA5 everywhere (Prior = 0; what the poison switch
// of the verif hooks leaves in a released buffer).

import (
	"fmt"
	"io"
	"math/bits"
	"math/rand"
	"strings"

	"github.com/parquet-go/parquet-go"
	"github.com/parquet-go/parquet-go/encoding"

	"verif/harness/core"
)

type dictPageCase struct {
	Kind      string `json:"kind"`               // dictionary kind
	D         int    `json:"d"`                  // the dictionary holds the values of the keys 0..D-1
	Width     int    `json:"width"`              // bit width byte of the page data
	Runs      []frun `json:"runs,omitempty"`     // the index stream
	NoWidth   bool   `json:"no_width,omitempty"` // page data of 0 bytes (not even the bit width)
	NumValues int    `json:"num_values"`         // num_values of the page header
	Prior     int    `json:"prior,omitempty"`    // history of the reused buffer
}

func (pc *dictPageCase) String() string {
	return fmt.Sprintf("%s d=%d w=%d runs=%v nowidth=%v n=%d prior=%d", pc.Kind, pc.D, pc.Width, pc.Runs, pc.NoWidth, pc.NumValues, pc.Prior)
}

func (pc *dictPageCase) stream() ([]byte, []uint32) {
	if pc.NoWidth {
		return nil, nil
	}
	body, vals, _ := serializeRuns(pc.Width, pc.Runs)
	return append([]byte{byte(pc.Width)}, body...), vals
}

type pageOutcome struct {
	status  string // ok | err | panic: ...
	values  []parquet.Value
	indexes []int32
}

func (o pageOutcome) text() string {
	if o.status != "ok" {
		return o.status
	}
	parts := make([]string, len(o.values))
	for i, v := range o.values {
		parts[i] = showValue(v)
	}
	return "ok " + core.Trunc(strings.Join(parts, ","), 300)
}

func sameOutcome(a, b pageOutcome) bool {
	if a.status != b.status || len(a.values) != len(b.values) || len(a.indexes) != len(b.indexes) {
		return false
	}
	for i := range a.values {
		if !sameValue(a.values[i], b.values[i]) {
			return false
		}
	}
	for i := range a.indexes {
		if a.indexes[i] != b.indexes[i] {
			return false
		}
	}
	return true
}

// decodeIndexedPage: the three calls of decodeDataPage, then every value read.
func decodeIndexedPage(pt parquet.Type, buf []byte, data []byte, numValues int) (out pageOutcome) {
	defer func() {
		if r := recover(); r != nil {
			out = pageOutcome{status: "panic: " + core.Trunc(fmt.Sprint(r), 120)}
		}
	}()
	values := pt.NewValues(buf, nil)
	values, err := pt.Decode(values, data, &parquet.RLEDictionary)
	if err != nil {
		return pageOutcome{status: "err"}
	}
	page := pt.NewPage(0, numValues, values)
	out.status = "ok"
	pageData := page.Data()
	out.indexes = append([]int32{}, pageData.Int32()...)
	if n := page.NumValues(); n != int64(numValues) {
		out.status = fmt.Sprintf("ok but NumValues() = %d", n)
		return out
	}
	r := page.Values()
	chunk := make([]parquet.Value, 7)
	for {
		n, err := r.ReadValues(chunk)
		for _, v := range chunk[:n] {
			out.values = append(out.values, v.Clone())
		}
		if err == io.EOF {
			break
		}
		if err != nil {
			out.status = "read error: " + err.Error()
			break
		}
		if n == 0 {
			out.status = "ReadValues returns 0, nil"
			break
		}
	}
	return out
}

func (k *checker) checkPageCase(pc *dictPageCase) {
	c := k.c
	kind := kindNamed(pc.Kind)
	if kind == nil || kind.isNull() || pc.D < 1 || pc.NumValues < 0 || pc.Width < 0 || pc.Width > 32 || (kind.isBool() && pc.D > 2) {
		return
	}
	keys := make([]int, pc.D)
	for i := range keys {
		keys[i] = i
	}
	data, idx := pc.stream()
	for _, i := range idx {
		if int(i) >= pc.D {
			return // not a page over this dictionary
		}
	}
	fail := func(class, what string) {
		k.viol(class, fmt.Sprintf("RLE_DICTIONARY page (%s dictionary of %d values), page data %s holding %d indexes, num_values %d: %s", pc.Kind, pc.D, core.Trunc(core.Hexs(data), 200), len(idx), pc.NumValues, what))
	}
	var dict parquet.Dictionary
	var pt parquet.Type
	if p := safely(func() {
		dict = kind.newDictionary(keys)
		pt = dict.Type().NewPage(0, 0, encoding.Int32Values(nil)).Type()
	}); p != "" {
		fail("panic", "creating the dictionary panics: "+p)
		return
	}
	// fresh buffers
	fresh := decodeIndexedPage(pt, nil, data, pc.NumValues)
	if strings.HasPrefix(fresh.status, "panic") || strings.HasPrefix(fresh.status, "ok ") || strings.HasPrefix(fresh.status, "read") || strings.HasPrefix(fresh.status, "Read") {
		fail("indexed-page", "decoded into a new buffer: "+fresh.status)
		return
	}
	if fresh.status == "ok" {
		if len(fresh.values) != pc.NumValues {
			fail("indexed-page", fmt.Sprintf("decoded into a new buffer: %d values read", len(fresh.values)))
			return
		}
		// the indexes the stream holds designate the values
		for i := 0; i < len(idx) && i < pc.NumValues; i++ {
			if want := kind.val(int(idx[i])); !sameValue(fresh.values[i], want) {
				fail("indexed-page", fmt.Sprintf("decoded into a new buffer: value %d is %s, index %d of the dictionary is %s", i, showValue(fresh.values[i]), idx[i], showValue(want)))
				return
			}
		}
	} else if len(idx) >= pc.NumValues {
		fail("foreign-stream", "conforming page: Go returns an error")
		return
	}
	// the buffer of the page reader, used before
	size := max(pt.EstimateDecodeSize(pc.NumValues, data, &parquet.RLEDictionary), 4*pc.NumValues, 4*pc.Prior) + 64
	buf := make([]byte, size)
	history := "bytes 0xA5"
	if pc.Prior > 0 {
		history = fmt.Sprintf("the %d indexes (all %d) of the page decoded before", pc.Prior, pc.D-1)
		body, _, _ := serializeRuns(pc.Width, []frun{{Count: pc.Prior, Val: uint32(pc.D - 1)}})
		if p := decodeIndexedPage(pt, buf, append([]byte{byte(pc.Width)}, body...), pc.Prior); p.status != "ok" {
			if bits.Len(uint(pc.D-1)) <= pc.Width {
				fail("indexed-page", "the page decoded before (one run of the last index): "+p.status)
			}
			return
		}
	} else {
		for i := range buf {
			buf[i] = 0xA5
		}
	}
	reused := decodeIndexedPage(pt, buf, data, pc.NumValues)
	if !sameOutcome(fresh, reused) {
		fail("dst-history-dependence", fmt.Sprintf("decoded into a new buffer the page is %s; decoded into a reused buffer of %d bytes holding %s it is %s", fresh.text(), len(buf), history, reused.text()))
		return
	}
	if !c.HasOracle() {
		return
	}
	// the model: Go's index decoder, then the extension of newIndexedPage
	ans := c.Ask(fmt.Sprintf("c04.go_index_page %d %s", pc.NumValues, core.Hexs(data)))
	impl := fresh.status
	if impl == "ok" {
		impl = "GOK " + u32List(fresh.indexes)
	} else if impl == "err" {
		impl = "GERR"
	}
	k.corr("go_indexed_page", core.Trunc(impl, 400), core.Trunc(ans, 400))
}

// genIndexRuns: runs over the indexes 0..d-1 at bit width w
func genIndexRuns(rng *rand.Rand, w, d int) []frun {
	runs := genRuns(rng, w, false)
	fix := func(v uint32) uint32 {
		if int(v) >= d {
			return uint32(rng.Intn(d))
		}
		return v
	}
	for i := range runs {
		runs[i].Val = fix(runs[i].Val)
		for j := range runs[i].Groups {
			runs[i].Groups[j] = fix(runs[i].Groups[j])
		}
		if runs[i].Count > 400 { // (the three-byte run headers are runForeign's)
			runs[i].Count = 1 + runs[i].Count%400
		}
	}
	return runs[:1+rng.Intn(len(runs))]
}

func runPage(c *core.Ctx, pc *dictPageCase, bucket string) {
	cs := &c04Case{Enc: "dict-page", Page: pc}
	if c.Probe(func() { check(c, cs) }) {
		cur := *pc
		fails := func(t *dictPageCase) bool {
			return c.Probe(func() { check(c, &c04Case{Enc: "dict-page", Page: t}) })
		}
		for changed := true; changed; {
			changed = false
			for j := range cur.Runs {
				t := cur
				t.Runs = append(append([]frun(nil), cur.Runs[:j]...), cur.Runs[j+1:]...)
				if fails(&t) {
					cur, changed = t, true
					break
				}
			}
			if changed {
				continue
			}
			for j := range cur.Runs {
				t := cur
				t.Runs = append([]frun(nil), cur.Runs...)
				switch r := t.Runs[j]; {
				case r.Groups == nil && r.Count > 1:
					t.Runs[j].Count = r.Count / 2
				case len(r.Groups) > 8:
					t.Runs[j].Groups = r.Groups[:8]
				default:
					continue
				}
				if fails(&t) {
					cur, changed = t, true
					break
				}
			}
			if changed {
				continue
			}
			for _, t := range []dictPageCase{
				{Kind: "int32", D: cur.D, Width: cur.Width, Runs: cur.Runs, NoWidth: cur.NoWidth, NumValues: cur.NumValues, Prior: cur.Prior},
				{Kind: cur.Kind, D: cur.D, Width: cur.Width, Runs: cur.Runs, NoWidth: cur.NoWidth, NumValues: cur.NumValues / 2, Prior: cur.Prior},
				{Kind: cur.Kind, D: cur.D, Width: cur.Width, Runs: cur.Runs, NoWidth: cur.NoWidth, NumValues: cur.NumValues - 1, Prior: cur.Prior},
				{Kind: cur.Kind, D: cur.D, Width: cur.Width, Runs: cur.Runs, NoWidth: cur.NoWidth, NumValues: cur.NumValues, Prior: cur.Prior / 2},
			} {
				t := t
				if t.String() != cur.String() && t.NumValues >= 0 && fails(&t) {
					cur, changed = t, true
					break
				}
			}
		}
		check(c, &c04Case{Enc: "dict-page", Page: &cur})
	}
	_, idx := pc.stream()
	if len(idx) < pc.NumValues {
		c.Res.Buckets["dict/page:short-index-streams"]++
	}
	c.Case("dict/page/"+bucket, pc.String(), len(pc.Runs) >= 1 && pc.NumValues >= 2)
}

func dictPage(c *core.Ctx) {
	rng := dictRng(c, 6)
	extras := []int{0, 0, 0, 0, 0, 0, 1, 2, 7, 8, 9, 31, 64, 65, 300}
	short, total := 0, 0
	for ki := range dictKinds {
		kind := &dictKinds[ki]
		if kind.isNull() {
			continue
		}
		for rep := 0; rep < c.N(14, 120); rep++ {
			d := []int{1, 2, 3, 5, 16, 17, 200}[rng.Intn(7)]
			if kind.isBool() {
				d = 1 + rng.Intn(2)
			}
			w := bits.Len(uint(d - 1))
			if rng.Intn(4) == 0 { // wider than needed: any width that holds the indexes conforms
				w = min(32, w+1+rng.Intn(8))
			}
			pc := &dictPageCase{Kind: kind.name, D: d, Width: w}
			switch rng.Intn(12) {
			case 0: // only the bit width
			case 1:
				pc.NoWidth = true
			default:
				pc.Runs = genIndexRuns(rng, w, d)
			}
			_, idx := pc.stream()
			pc.NumValues = len(idx) + extras[rng.Intn(len(extras))]
			if n := len(pc.Runs); n > 0 && pc.Runs[n-1].Groups != nil && rng.Intn(2) == 0 {
				pc.NumValues = len(idx) - rng.Intn(8) // the last group is padded
			}
			pc.Prior = []int{0, pc.NumValues, pc.NumValues + 13, 5}[rng.Intn(4)]
			if len(idx) < pc.NumValues {
				short++
			}
			total++
			runPage(c, pc, kind.name)
			if ki == 1 && rep < 2 {
				c.Sample(pc)
			}
		}
	}
	c.Note("RLE_DICTIONARY pages at the level of Type.Decode / Type.NewPage (page.go), %d dictionary kinds: %d pages over dictionaries of 1..200 values, index streams of run-length and bit-packed runs at the needed and at wider bit widths, decoded into new buffers and into reused ones (holding the indexes of the page decoded before, or 0xA5 bytes): the values read are those the indexes designate and do not depend on the buffer's history; %d of the pages hold FEWER indexes than num_values (not allowed by Encodings.md, accepted by the library, which reads the missing indexes as 0: for those only the independence of the buffer's history is demanded, the zero extension is compared with the model GoDecPage.go_indexed_page)", len(dictKinds)-1, total, short)
}
