package main

// C04: page encodings are lossless and match the format specification.
// For every (encoding, type) the Go encoder's bytes are compared with the
// model's bytes, Go's decoder must return the input (with reused, dirty and
// oversized destination buffers), and the specification decoder extracted
// from Coq must decode Go's bytes to the input.

import (
	"bytes"
	"encoding/binary"
	"encoding/json"
	"fmt"
	"hash/fnv"
	"math"
	"math/rand"
	"os"
	"runtime/debug"
	"strconv"
	"strings"

	"github.com/parquet-go/parquet-go"
	"github.com/parquet-go/parquet-go/deprecated"
	"github.com/parquet-go/parquet-go/encoding"
	"github.com/parquet-go/parquet-go/encoding/bytestreamsplit"
	"github.com/parquet-go/parquet-go/encoding/delta"
	"github.com/parquet-go/parquet-go/encoding/plain"
	"github.com/parquet-go/parquet-go/encoding/rle"

	"verif/harness/core"
)

func main() { core.Main("C04", run, replay) }

type c04Case struct {
	Enc   string   `json:"enc"`             // encoding/type id
	Width int      `json:"width,omitempty"` // bit width (rle) or byte size (flba, bss)
	Ints  []int64  `json:"ints,omitempty"`
	Strs  []string `json:"strs,omitempty"` // hex of byte strings
	N     int      `json:"n,omitempty"`    // number of boolean values
	// Enc = "foreign": a conforming stream that Go's encoders did not write
	Foreign *foreignCase `json:"foreign,omitempty"`
	// Enc = "geom": a conforming DELTA stream at a geometry / in a style Go does not write (geometry.go);
	// the values are Ints (dbp32, dbp64) or Strs (dlba, dba, dba_flba with Width)
	Geom *geomCase `json:"geom,omitempty"`
	// Enc = "dict-life" / "dict-file": dictionary scenarios (dict.go)
	Life *dictLifeCase `json:"life,omitempty"`
	File *dictFileCase `json:"file,omitempty"`
	// Enc = "dict-page": an RLE_DICTIONARY data page through Type.Decode / Type.NewPage (page.go)
	Page *dictPageCase `json:"page,omitempty"`
	// Enc = "dict-pages-file": an RLE_DICTIONARY column chunk of a foreign writer read through the file reader (pagefile.go)
	PagesFile *dictPagesFileCase `json:"pages_file,omitempty"`
}

var dirty = func() []byte {
	b := make([]byte, 1<<16)
	for i := range b {
		b[i] = byte(i*7 + 13)
	}
	return b
}()

// dst buffers with garbage content, len 0 / len>0, varying capacity
func dstBytes(rng *rand.Rand) []byte {
	switch rng.Intn(4) {
	case 0:
		return nil
	case 1:
		return append([]byte(nil), dirty[:rng.Intn(64)]...)
	case 2:
		b := append(make([]byte, 0, 4096+rng.Intn(4096)), dirty[:4096]...)
		return b[:rng.Intn(100)]
	default:
		return make([]byte, 0, rng.Intn(16))
	}
}

// dirtyRoom returns a reused destination that is large enough for a result of
// need bytes (and the padding the kernels ask for) and holds older data, no
// zero byte, over its whole capacity.
func dirtyRoom(need int) []byte {
	b := make([]byte, need+256)
	for i := range b {
		b[i] = dirty[i%len(dirty)] | 0x81
	}
	return b[:need%5]
}

func hexList(vs [][]byte) string {
	if len(vs) == 0 {
		return "_"
	}
	parts := make([]string, len(vs))
	for i, v := range vs {
		parts[i] = core.Hexs(v)
	}
	return strings.Join(parts, ",")
}

func zList(vs []int64) string {
	if len(vs) == 0 {
		return "_"
	}
	parts := make([]string, len(vs))
	for i, v := range vs {
		parts[i] = core.Zs(v)
	}
	return strings.Join(parts, ",")
}

func uList(vs []uint64) string {
	if len(vs) == 0 {
		return "_"
	}
	parts := make([]string, len(vs))
	for i, v := range vs {
		parts[i] = core.Us(v)
	}
	return strings.Join(parts, ",")
}

type checker struct {
	c      *core.Ctx
	cs     *c04Case
	ok     bool
	fuzz   int  // malformed streams derived from the case: 0 none, 1 sampled, 2 also exhaustive for short encodings
	tie    bool // hand Go's encoding of the case to the model of the Go decoder
	cutRng *rand.Rand
}

// every fuzzEvery-th case (by hash) gets its encoding mutated; encodings
// longer than tieMaxLen are not handed to the model of the Go decoder, those
// longer than fuzzMaxLen are not mutated
var (
	fuzzEvery  = uint32(1)
	tieEvery   = uint32(1)
	tieMaxLen  = 6000
	fuzzMaxLen = 6000
)

func (k *checker) viol(class, what string) {
	k.ok = false
	k.c.Violation(class, what, k.cs)
}

func (k *checker) corr(name, impl, model string) {
	if impl != model {
		if k.ok {
			k.c.Mismatch("corr:C04."+name, fmt.Sprint(*k.cs), impl, model, k.cs)
		}
		k.ok = false
	}
}

func safely(f func()) (p string) {
	defer func() {
		if r := recover(); r != nil {
			p = fmt.Sprint(r)
			if os.Getenv("C04_STACK") != "" { // development aid
				os.Stderr.Write(debug.Stack())
			}
		}
	}()
	f()
	return ""
}

// check runs one case; returns false when something was reported.
func check(c *core.Ctx, cs *c04Case) bool {
	k := &checker{c: c, cs: cs, ok: true}
	if cs.Enc == "foreign" {
		if cs.Foreign == nil || len(cs.Foreign.Runs) == 0 {
			return true
		}
		k.cutRng = rand.New(rand.NewSource(int64(len(cs.Foreign.Runs))*31 + int64(cs.Foreign.Width)))
		if p := safely(func() { k.checkForeign(cs.Foreign) }); p != "" {
			k.viol("panic", "harness panicked on a foreign stream: "+p)
		}
		return k.ok
	}
	switch cs.Enc {
	case "geom":
		if cs.Geom != nil {
			k.cutRng = rand.New(rand.NewSource(int64(len(cs.Ints))*31 + int64(len(cs.Strs))*17 + int64(cs.Geom.BS)))
			if p := safely(func() { k.checkGeom(cs.Geom) }); p != "" {
				k.viol("panic", "harness panicked on a foreign DELTA stream: "+p)
			}
		}
		return k.ok
	case "dict-life":
		if cs.Life != nil {
			k.checkLifeCase(cs.Life)
		}
		return k.ok
	case "dict-file":
		if cs.File != nil {
			k.checkFileCase(cs.File)
		}
		return k.ok
	case "dict-pages-file":
		if cs.PagesFile != nil {
			if p := safely(func() { k.checkPagesFileCase(cs.PagesFile) }); p != "" {
				parquet.VerifSetPoison(false)
				k.viol("panic", "harness panicked on a foreign file: "+p)
			}
		}
		return k.ok
	case "dict-page":
		if cs.Page != nil {
			if p := safely(func() { k.checkPageCase(cs.Page) }); p != "" {
				k.viol("panic", "harness panicked on a dictionary page: "+p)
			}
		}
		return k.ok
	}
	if strings.HasPrefix(cs.Enc, "godec:") {
		if p := safely(func() { k.checkStream(cs.Enc[6:], cs.Width, strsOf(cs)[0]) }); p != "" {
			k.viol("panic", "harness panicked on a recorded stream: "+p)
		}
		return k.ok
	}
	key, _ := json.Marshal(cs)
	hh := fnv.New32a()
	hh.Write(key)
	hv := hh.Sum32()
	k.tie = hv%tieEvery == 0
	if hv%fuzzEvery == 0 {
		k.fuzz, k.tie = 1, true
		if (hv/fuzzEvery)%4 == 0 {
			k.fuzz = 2
		}
	}
	rng := rand.New(rand.NewSource(int64(len(cs.Ints))*7919 + int64(len(cs.Strs))*104729 + int64(cs.Width)))
	if p := safely(func() { checkInner(k, rng) }); p != "" {
		k.viol("panic", "encoder/decoder panicked: "+p)
	}
	return k.ok
}

func strsOf(cs *c04Case) [][]byte {
	out := make([][]byte, len(cs.Strs))
	for i, s := range cs.Strs {
		b := make([]byte, len(s)/2)
		for j := range b {
			v, _ := strconv.ParseUint(s[2*j:2*j+2], 16, 8)
			b[j] = byte(v)
		}
		out[i] = b
	}
	return out
}

func flatten(vs [][]byte) ([]byte, []uint32) {
	var data []byte
	offsets := []uint32{0}
	for _, v := range vs {
		data = append(data, v...)
		offsets = append(offsets, uint32(len(data)))
	}
	return data, offsets
}

// window places the values in the middle of a larger buffer: the encoders
// receive (buffer, offsets) where the offsets need not start at 0 nor end at
// len(buffer) (this is what Page.Slice produces).
func window(rng *rand.Rand, data []byte, offsets []uint32) ([]byte, []uint32) {
	if rng.Intn(3) == 0 {
		return data, offsets
	}
	pre := make([]byte, rng.Intn(9))
	post := make([]byte, rng.Intn(9))
	rng.Read(pre)
	rng.Read(post)
	buf := append(append(append([]byte{}, pre...), data...), post...)
	offs := make([]uint32, len(offsets))
	for i, o := range offsets {
		offs[i] = o + uint32(len(pre))
	}
	return buf, offs
}

func unflatten(data []byte, offsets []uint32) [][]byte {
	var out [][]byte
	for i := 0; i+1 < len(offsets); i++ {
		out = append(out, data[offsets[i]:offsets[i+1]])
	}
	return out
}

func eqStrs(a, b [][]byte) bool {
	if len(a) != len(b) {
		return false
	}
	for i := range a {
		if !bytes.Equal(a[i], b[i]) {
			return false
		}
	}
	return true
}

func checkInner(k *checker, rng *rand.Rand) {
	c, cs := k.c, k.cs
	switch cs.Enc {
	case "dbp32", "dbp64", "plain32", "plain64", "bss32", "bss64":
		var e encoding.Encoding
		switch cs.Enc[:3] {
		case "dbp":
			e = &delta.BinaryPackedEncoding{}
		case "pla":
			e = &plain.Encoding{}
		default:
			e = &bytestreamsplit.Encoding{}
		}
		is32 := strings.HasSuffix(cs.Enc, "32")
		var got []byte
		var back []int64
		var err, derr error
		if is32 {
			src := make([]int32, len(cs.Ints))
			for i, v := range cs.Ints {
				src[i] = int32(v)
			}
			got, err = e.EncodeInt32(dstBytes(rng), src)
			dst := make([]int32, 8+rng.Intn(len(src)+1)) // dirty over its whole capacity
			for i := range dst {
				dst[i] = -12345
			}
			dst = dst[:rng.Intn(8)]
			var d []int32
			d, derr = e.DecodeInt32(dst, got)
			for _, v := range d {
				back = append(back, int64(v))
			}
		} else {
			src := append([]int64(nil), cs.Ints...)
			got, err = e.EncodeInt64(dstBytes(rng), src)
			dst := make([]int64, 8+rng.Intn(len(src)+1)) // dirty over its whole capacity
			for i := range dst {
				dst[i] = -12345
			}
			dst = dst[:rng.Intn(8)]
			var d []int64
			d, derr = e.DecodeInt64(dst, got)
			back = append(back, d...)
		}
		if err != nil {
			k.viol("encode-error", cs.Enc+": "+err.Error())
			return
		}
		if derr != nil {
			k.viol("decode-error", cs.Enc+": Go decoder rejected Go's own output: "+derr.Error())
		} else if !eqInts(back, cs.Ints) {
			k.viol("go-roundtrip", fmt.Sprintf("%s: Go decode(encode(x)) != x", cs.Enc))
		}
		if !c.HasOracle() {
			return
		}
		width := "64"
		kbytes := "8"
		if is32 {
			width, kbytes = "32", "4"
		}
		switch cs.Enc[:3] {
		case "dbp":
			defer k.decoderTie(rng, cs.Enc, 0, got, zList(cs.Ints))
			k.corr("delta_binary_packed.encode_bytes", core.Hexs(got), c.Ask("c04.dbp_enc "+width+" "+zList(cs.Ints)))
			sd := c.Ask("c04.dbp_dec " + width + " " + core.Hexs(got))
			if sd != zList(cs.Ints)+" x" {
				k.viol("spec-decode", fmt.Sprintf("%s: the specification decoder applied to Go's bytes gives %s", cs.Enc, core.Trunc(sd, 200)))
			}
		case "pla":
			k.corr("plain.fixed_bytes", core.Hexs(got), c.Ask("c04.plain_fixed "+kbytes+" "+patterns(cs.Ints, is32)))
			if sd := c.Ask("c04.plain_fixed_dec " + kbytes + " " + core.Hexs(got)); sd != patterns(cs.Ints, is32) {
				k.viol("spec-decode", cs.Enc+": specification decoder disagrees: "+core.Trunc(sd, 200))
			}
		default:
			vs := make([][]byte, len(cs.Ints))
			for i, v := range cs.Ints {
				if is32 {
					vs[i] = binary.LittleEndian.AppendUint32(nil, uint32(v))
				} else {
					vs[i] = binary.LittleEndian.AppendUint64(nil, uint64(v))
				}
			}
			k.corr("byte_stream_split.encode_bytes", core.Hexs(got), c.Ask("c04.bss_enc "+kbytes+" "+hexList(vs)))
			if sd := c.Ask("c04.bss_dec " + kbytes + " " + core.Hexs(got)); sd != hexList(vs) {
				k.viol("spec-decode", cs.Enc+": specification decoder disagrees: "+core.Trunc(sd, 200))
			}
		}

	case "rle_levels":
		e := &rle.Encoding{BitWidth: cs.Width}
		src := make([]byte, len(cs.Ints))
		us := make([]uint64, len(cs.Ints))
		for i, v := range cs.Ints {
			src[i], us[i] = byte(v), uint64(v)
		}
		got, err := e.EncodeLevels(dstBytes(rng), src)
		if err != nil {
			k.viol("encode-error", "rle levels: "+err.Error())
			return
		}
		d, derr := e.DecodeLevels(dstBytes(rng), got)
		if derr != nil || !bytes.Equal(d, src) {
			k.viol("go-roundtrip", fmt.Sprintf("rle levels width %d: Go decode(encode(x)) != x (%v)", cs.Width, derr))
		}
		if c.HasOracle() {
			defer k.decoderTie(rng, "levels", cs.Width, got, uList(us))
			k.corr("rle_levels.encode_bytes", core.Hexs(got), c.Ask(fmt.Sprintf("c04.rle_levels %d %s", cs.Width, uList(us))))
			if sd := c.Ask(fmt.Sprintf("c04.rle_dec %d %s", cs.Width, core.Hexs(got))); sd != uList(us) {
				k.viol("spec-decode", fmt.Sprintf("rle levels width %d: specification decoder gives %s", cs.Width, core.Trunc(sd, 200)))
			}
		}

	case "rle_int32", "rle_dict":
		src := make([]int32, len(cs.Ints))
		us := make([]uint64, len(cs.Ints))
		for i, v := range cs.Ints {
			src[i], us[i] = int32(v), uint64(uint32(v))
		}
		var e encoding.Encoding = &rle.Encoding{BitWidth: cs.Width}
		if cs.Enc == "rle_dict" {
			e = &rle.DictionaryEncoding{}
		}
		got, err := e.EncodeInt32(dstBytes(rng), src)
		if err != nil {
			k.viol("encode-error", cs.Enc+": "+err.Error())
			return
		}
		dst := make([]int32, rng.Intn(8), 8+rng.Intn(len(src)+1))
		d, derr := e.DecodeInt32(dst, got)
		// bit-packed runs decode whole groups of 8: callers truncate
		if derr != nil || len(d) < len(src) || !eqInt32(d[:len(src)], src) {
			k.viol("go-roundtrip", fmt.Sprintf("%s width %d: Go decode(encode(x)) != x (%v)", cs.Enc, cs.Width, derr))
		}
		if c.HasOracle() {
			if derr == nil {
				defer k.decoderTie(rng, map[string]string{"rle_dict": "dict", "rle_int32": "int32"}[cs.Enc], cs.Width, got, u32List(d))
			}
			if cs.Enc == "rle_dict" {
				k.corr("rle_dictionary.encode_bytes", core.Hexs(got), c.Ask("c04.dict_enc "+uList(us)))
				if sd := c.Ask("c04.dict_dec " + core.Hexs(got)); sd != uList(us) {
					k.viol("spec-decode", "rle dictionary: specification decoder gives "+core.Trunc(sd, 200))
				}
			} else {
				k.corr("rle_int32.encode_bytes", core.Hexs(got), c.Ask(fmt.Sprintf("c04.rle_int32 %d %s", cs.Width, uList(us))))
				if sd := c.Ask(fmt.Sprintf("c04.rle_dec %d %s", cs.Width, core.Hexs(got))); sd != uList(us) {
					k.viol("spec-decode", fmt.Sprintf("rle int32 width %d: specification decoder gives %s", cs.Width, core.Trunc(sd, 200)))
				}
			}
		}

	case "rle_bool", "plain_bool":
		// cs.Ints are the packed bytes, cs.N the number of values
		src := make([]byte, len(cs.Ints))
		for i, v := range cs.Ints {
			src[i] = byte(v)
		}
		var bits []uint64
		for i := 0; i < cs.N; i++ {
			bits = append(bits, uint64(src[i/8]>>(i%8))&1)
		}
		var e encoding.Encoding = &plain.Encoding{}
		if cs.Enc == "rle_bool" {
			e = &rle.Encoding{BitWidth: 1}
		}
		got, err := e.EncodeBoolean(dstBytes(rng), src)
		if err != nil {
			k.viol("encode-error", cs.Enc+": "+err.Error())
			return
		}
		d, derr := e.DecodeBoolean(dstBytes(rng), got)
		if derr != nil || len(d) < len(src) || !bytes.Equal(d[:len(src)], src) {
			k.viol("go-roundtrip", fmt.Sprintf("%s: Go decode(encode(x)) != x (%v)", cs.Enc, derr))
		}
		if c.HasOracle() {
			if cs.Enc == "rle_bool" && derr == nil {
				defer k.decoderTie(rng, "bool", 1, got, core.Hexs(d))
			}
			if cs.Enc == "rle_bool" {
				k.corr("rle_boolean.encode_bytes", core.Hexs(got), c.Ask("c04.rle_bool_enc "+core.Hexs(src)))
				if sd := c.Ask(fmt.Sprintf("c04.rle_bool_dec %d %s", cs.N, core.Hexs(got))); sd != uList(bits) {
					k.viol("spec-decode", "rle boolean: specification decoder gives "+core.Trunc(sd, 200)+" for "+core.Hexs(got))
				}
			} else {
				k.corr("plain_boolean.encode_bytes", core.Hexs(got), c.Ask("c04.plain_bool "+uList(bits)))
				if sd := c.Ask(fmt.Sprintf("c04.plain_bool_dec %d %s", cs.N, core.Hexs(got))); sd != uList(bits) {
					k.viol("spec-decode", "plain boolean: specification decoder gives "+core.Trunc(sd, 200))
				}
			}
		}
		// a conforming writer may leave anything in the bits of the last byte behind the last
		// value (Go writes zeros): the values decoded must not depend on them
		if cs.Enc == "plain_bool" && cs.N%8 != 0 && len(got) == (cs.N+7)/8 && k.ok {
			g2 := append([]byte(nil), got...)
			g2[len(g2)-1] |= ^byte(0) << (uint(cs.N) % 8)
			d2, err2 := e.DecodeBoolean(dstBytes(rng), g2)
			ok := err2 == nil && 8*len(d2) >= cs.N
			for i := 0; ok && i < cs.N; i++ {
				ok = uint64(d2[i/8]>>(uint(i)%8))&1 == bits[i]
			}
			if !ok {
				k.viol("foreign-stream", fmt.Sprintf("plain boolean, %d values, conforming page %s with ones behind the last value: Go returns %x (%v)", cs.N, core.Hexs(g2), d2, err2))
			} else if c.HasOracle() {
				if sd := c.Ask(fmt.Sprintf("c04.plain_bool_dec %d %s", cs.N, core.Hexs(g2))); sd != uList(bits) {
					k.corr("foreign.generator.plain_bool", uList(bits), sd)
				}
			}
		}

	case "plain_ba", "dlba", "dba":
		vs := strsOf(cs)
		data, offsets := flatten(vs)
		data, offsets = window(rng, data, offsets)
		var e encoding.Encoding
		switch cs.Enc {
		case "plain_ba":
			e = &plain.Encoding{}
		case "dlba":
			e = &delta.LengthByteArrayEncoding{}
		default:
			e = &delta.ByteArrayEncoding{}
		}
		got, err := e.EncodeByteArray(dstBytes(rng), data, offsets)
		if err != nil {
			k.viol("encode-error", cs.Enc+": "+err.Error())
			return
		}
		dd, doff, derr := e.DecodeByteArray(dstBytes(rng), got, make([]uint32, rng.Intn(4), 4+rng.Intn(8)))
		if derr != nil || !eqStrs(unflatten(dd, doff), vs) {
			k.viol("go-roundtrip", fmt.Sprintf("%s: Go decode(encode(x)) != x (%v)", cs.Enc, derr))
		} else if d2, o2, err2 := e.DecodeByteArray(dirtyRoom(len(data)), got, dirtyOffsetsDst()); err2 != nil || !eqStrs(unflatten(d2, o2), vs) {
			// reused destinations large enough for the result, holding older data everywhere
			k.viol("dst-history-dependence", fmt.Sprintf("%s: decoded into nil / small destinations Go returns the input, into reused destinations holding older data it does not (%v)", cs.Enc, err2))
		}
		if c.HasOracle() {
			switch {
			case cs.Enc == "dlba" && derr == nil:
				us := make([]uint64, len(doff))
				for i, v := range doff {
					us[i] = uint64(v)
				}
				defer k.decoderTie(rng, "dlba", 0, got, core.Hexs(dd)+" "+uList(us))
			case cs.Enc == "dba":
				defer k.decoderTie(rng, "dba", 0, got, hexList(vs))
			}
			encCmd := map[string]string{"plain_ba": "c04.plain_ba", "dlba": "c04.dlba_enc", "dba": "c04.dba_enc"}[cs.Enc]
			decCmd := map[string]string{"plain_ba": "c04.plain_ba_dec", "dlba": "c04.dlba_dec", "dba": "c04.dba_dec"}[cs.Enc]
			k.corr(cs.Enc+".encode_bytes", core.Hexs(got), c.Ask(encCmd+" "+hexList(vs)))
			if sd := c.Ask(decCmd + " " + core.Hexs(got)); sd != hexList(vs) {
				k.viol("spec-decode", cs.Enc+": specification decoder gives "+core.Trunc(sd, 200))
			}
		}

	case "plain_flba", "dba_flba", "bss_flba":
		vs := strsOf(cs)
		data, _ := flatten(vs)
		var e encoding.Encoding
		switch cs.Enc {
		case "plain_flba":
			e = &plain.Encoding{}
		case "dba_flba":
			e = &delta.ByteArrayEncoding{}
		default:
			e = &bytestreamsplit.Encoding{}
		}
		got, err := e.EncodeFixedLenByteArray(dstBytes(rng), data, cs.Width)
		if err != nil {
			k.viol("encode-error", cs.Enc+": "+err.Error())
			return
		}
		d, derr := e.DecodeFixedLenByteArray(dstBytes(rng), got, cs.Width)
		if derr != nil || !bytes.Equal(d, data) {
			k.viol("go-roundtrip", fmt.Sprintf("%s size %d: Go decode(encode(x)) != x (%v)", cs.Enc, cs.Width, derr))
		} else if d2, err2 := e.DecodeFixedLenByteArray(dirtyRoom(len(data)), got, cs.Width); err2 != nil || !bytes.Equal(d2, data) {
			k.viol("dst-history-dependence", fmt.Sprintf("%s size %d: decoded into nil / small destinations Go returns the input, into a reused destination holding older data it does not (%v)", cs.Enc, cs.Width, err2))
		}
		if c.HasOracle() {
			switch cs.Enc {
			case "plain_flba":
				if sd := c.Ask(fmt.Sprintf("c04.plain_flba_dec %d %s", cs.Width, core.Hexs(got))); sd != hexList(vs) {
					k.viol("spec-decode", "plain flba: specification decoder gives "+core.Trunc(sd, 200))
				}
			case "dba_flba":
				defer k.decoderTie(rng, "dba_flba", cs.Width, got, core.Hexs(data))
				k.corr("delta_byte_array_flba.encode_bytes", core.Hexs(got), c.Ask("c04.dba_enc "+hexList(vs)))
				if sd := c.Ask("c04.dba_dec " + core.Hexs(got)); sd != hexList(vs) {
					k.viol("spec-decode", "delta byte array (flba): specification decoder gives "+core.Trunc(sd, 200))
				}
			default:
				k.corr("byte_stream_split_flba.encode_bytes", core.Hexs(got), c.Ask(fmt.Sprintf("c04.bss_enc %d %s", cs.Width, hexList(vs))))
				if sd := c.Ask(fmt.Sprintf("c04.bss_dec %d %s", cs.Width, core.Hexs(got))); sd != hexList(vs) {
					k.viol("spec-decode", "byte stream split (flba): specification decoder gives "+core.Trunc(sd, 200))
				}
			}
		}

	case "plain_int96":
		src := make([]deprecated.Int96, len(cs.Ints)/3)
		for i := range src {
			src[i] = deprecated.Int96{uint32(cs.Ints[3*i]), uint32(cs.Ints[3*i+1]), uint32(cs.Ints[3*i+2])}
		}
		e := &plain.Encoding{}
		got, err := e.EncodeInt96(dstBytes(rng), src)
		if err != nil {
			k.viol("encode-error", "int96: "+err.Error())
			return
		}
		d, derr := e.DecodeInt96(nil, got)
		if derr != nil || len(d) != len(src) {
			k.viol("go-roundtrip", fmt.Sprintf("int96: %v", derr))
		} else {
			for i := range d {
				if d[i] != src[i] {
					k.viol("go-roundtrip", "int96 value differs")
					break
				}
			}
		}
		if c.HasOracle() {
			us := make([]uint64, len(src)*3)
			for i, v := range src {
				us[3*i], us[3*i+1], us[3*i+2] = uint64(v[0]), uint64(v[1]), uint64(v[2])
			}
			k.corr("plain_int96.bytes", core.Hexs(got), c.Ask("c04.plain_fixed 4 "+uList(us)))
		}
	}
}

func patterns(vs []int64, is32 bool) string {
	us := make([]uint64, len(vs))
	for i, v := range vs {
		if is32 {
			us[i] = uint64(uint32(v))
		} else {
			us[i] = uint64(v)
		}
	}
	return uList(us)
}

func eqInts(a, b []int64) bool {
	if len(a) != len(b) {
		return false
	}
	for i := range a {
		if a[i] != b[i] {
			return false
		}
	}
	return true
}

func eqInt32(a, b []int32) bool {
	if len(a) != len(b) {
		return false
	}
	for i := range a {
		if a[i] != b[i] {
			return false
		}
	}
	return true
}

// runCase checks, shrinks on failure, records.
func runCase(c *core.Ctx, cs *c04Case, bucket string) {
	if c.Probe(func() { check(c, cs) }) {
		min := shrink(c, cs)
		check(c, min)
	}
	key, _ := json.Marshal(cs)
	c.Case(cs.Enc+"/"+bucket, string(key), len(cs.Ints)+len(cs.Strs) >= 2)
}

func shrink(c *core.Ctx, cs *c04Case) *c04Case {
	cur := *cs
	fails := func(t *c04Case) bool { return c.Probe(func() { check(c, t) }) }
	step := 3
	if cur.Enc == "plain_int96" {
		return &cur
	}
	_ = step
	for changed := true; changed; {
		changed = false
		// drop halves, then single elements
		for _, n := range []int{len(cur.Ints) / 2, len(cur.Ints) / 4, 8, 1} {
			if n < 1 {
				continue
			}
			for i := 0; i+n <= len(cur.Ints); i += n {
				t := cur
				t.Ints = append(append([]int64(nil), cur.Ints[:i]...), cur.Ints[i+n:]...)
				if cur.Enc == "rle_bool" || cur.Enc == "plain_bool" {
					if t.N > 8*len(t.Ints) {
						t.N = 8 * len(t.Ints)
					}
				}
				if fails(&t) {
					cur, changed = t, true
					break
				}
			}
			if changed {
				break
			}
		}
		if changed {
			continue
		}
		for i := range cur.Strs {
			t := cur
			t.Strs = append(append([]string(nil), cur.Strs[:i]...), cur.Strs[i+1:]...)
			if fails(&t) {
				cur, changed = t, true
				break
			}
		}
	}
	return &cur
}

var lengths = []int{0, 1, 2, 3, 7, 8, 9, 15, 16, 17, 31, 32, 33, 63, 64, 65, 127, 128, 129, 130, 255, 256, 257, 258, 1000, 1025}

func genInts(rng *rand.Rand, n int, bits int, kind int) []int64 {
	out := make([]int64, n)
	lo, hi := int64(-1)<<(bits-1), int64(1)<<(bits-1)-1
	if bits == 64 {
		lo, hi = math.MinInt64, math.MaxInt64
	}
	switch kind {
	case 0: // constant
		v := rng.Int63n(100) - 50
		for i := range out {
			out[i] = v
		}
	case 1: // ramp
		v := rng.Int63n(1000) - 500
		s := rng.Int63n(7) - 3
		for i := range out {
			out[i] = v
			v += s
		}
	case 2: // extremes
		ex := []int64{lo, hi, 0, -1, 1, lo + 1, hi - 1}
		for i := range out {
			out[i] = ex[rng.Intn(len(ex))]
		}
	case 3: // alternating
		a, b := rng.Int63n(10), rng.Int63n(1<<20)
		for i := range out {
			if i%2 == 0 {
				out[i] = a
			} else {
				out[i] = -b
			}
		}
	case 4: // random full range
		for i := range out {
			if bits == 64 {
				out[i] = int64(rng.Uint64())
			} else {
				out[i] = int64(int32(rng.Uint32()))
			}
		}
	default: // small random with runs
		v := int64(0)
		for i := range out {
			if rng.Intn(4) == 0 {
				v = rng.Int63n(17) - 8
			}
			out[i] = v
		}
	}
	return out
}

func genLevels(rng *rand.Rand, n, width, kind int) []int64 {
	out := make([]int64, n)
	max := int64(1)<<width - 1
	switch kind {
	case 0:
		v := rng.Int63n(max + 1)
		for i := range out {
			out[i] = v
		}
	case 1: // long runs with exceptions
		v := rng.Int63n(max + 1)
		for i := range out {
			if rng.Intn(13) == 0 {
				v = rng.Int63n(max + 1)
			}
			out[i] = v
		}
	case 2: // exactly filling the width
		for i := range out {
			out[i] = max - int64(rng.Intn(2))
			if out[i] < 0 {
				out[i] = 0
			}
		}
	case 3: // groups: constant group following a group whose first value equals it
		for i := range out {
			g := i / 8
			switch g % 3 {
			case 0:
				out[i] = int64(i%8) & max
			case 1:
				out[i] = 0
			default:
				out[i] = max
			}
		}
	default:
		for i := range out {
			out[i] = rng.Int63n(max + 1)
		}
	}
	return out
}

func genStrs(rng *rand.Rand, n, kind, fixed int) []string {
	out := make([]string, n)
	prev := []byte{}
	for i := range out {
		var b []byte
		l := rng.Intn(20)
		if fixed > 0 {
			l = fixed
		}
		switch kind {
		case 0: // shared prefixes
			p := rng.Intn(len(prev) + 1)
			b = append(b, prev[:p]...)
			for len(b) < l {
				b = append(b, byte('a'+rng.Intn(3)))
			}
			b = b[:min(len(b), max(l, 0))]
		case 1: // empty and long
			if rng.Intn(3) == 0 && fixed == 0 {
				l = 0
			} else if rng.Intn(10) == 0 && fixed == 0 {
				l = 300 + rng.Intn(200)
			}
			b = make([]byte, l)
			rng.Read(b)
		case 2: // identical
			b = bytes.Repeat([]byte{0xFF}, l)
		case 4:
			// long shared prefixes (sorted URLs, paths, keys of one namespace): a value keeps p
			// bytes of the previous one -- p around and far beyond the 16 / 32 / 64 byte steps of
			// the vector kernels -- and adds a suffix that is short most of the time, long
			// sometimes; now and then a fresh value starts a new family
			if fixed > 0 {
				p := min(len(prev), fixed)
				switch rng.Intn(6) {
				case 0:
					p = rng.Intn(p + 1)
				case 1:
					p = 0
				default:
					p -= rng.Intn(min(p, 6) + 1)
				}
				b = append(b, prev[:p]...)
				for len(b) < fixed {
					b = append(b, byte('a'+rng.Intn(26)))
				}
				break
			}
			if len(prev) == 0 || rng.Intn(9) == 0 {
				b = make([]byte, []int{0, 20, 40, 70, 100, 130, 200, 300}[rng.Intn(8)]+rng.Intn(8))
				for j := range b {
					b[j] = byte('a' + rng.Intn(26))
				}
				break
			}
			p := len(prev)
			switch rng.Intn(4) {
			case 0:
				ps := []int{15, 16, 17, 31, 32, 33, 63, 64, 65, 66, 95, 96, 97, 127, 128, 129, 191, 192, 193, 255, 256, 257}
				p = min(p, ps[rng.Intn(len(ps))])
			case 1:
				p = rng.Intn(p + 1)
			default:
				p -= rng.Intn(min(p, 6) + 1)
			}
			sl := rng.Intn(7)
			if rng.Intn(6) == 0 {
				sl = []int{31, 32, 33, 63, 64, 65, 100}[rng.Intn(7)]
			}
			if p+sl > 400 {
				p = 400 - sl
			}
			b = append(b, prev[:p]...)
			for j := 0; j < sl; j++ {
				b = append(b, byte('a'+rng.Intn(26)))
			}
		default:
			b = make([]byte, l)
			for j := range b {
				b[j] = byte(rng.Intn(4))
			}
		}
		if fixed > 0 {
			for len(b) < fixed {
				b = append(b, 0)
			}
			b = b[:fixed]
		}
		out[i] = fmt.Sprintf("%x", b)
		prev = b
	}
	return out
}

func run(c *core.Ctx) {
	// development aid: C04_ONLY=dict runs only the dictionary scenarios, C04_ONLY=enc skips them, C04_ONLY=geom runs geometry.go only
	if os.Getenv("C04_ONLY") != "enc" {
		dictBulk(c)
		dictLife(c)
		dictFile(c)
		dictPage(c)
		dictPagesFile(c)
	}
	if os.Getenv("C04_ONLY") == "dict" {
		return
	}
	if os.Getenv("C04_ONLY") == "geom" { // development aid: only the foreign DELTA streams
		runGeometry(c)
		return
	}
	c.Res.Rule = "per (encoding, type): sequences from length buckets {0,1,2,3,7,8,9,15..17,31..33,63..65,127..130,255..258,1000,1025} x value patterns (constant, ramp, extremes, alternating, random full range, small runs; levels: constant, long runs, width-filling, group patterns; byte strings: shared prefixes, empty/long, identical, small alphabet, long shared prefixes -- values keeping 15..400 bytes of the previous one with short and long suffixes, fixed-length values of 33..260 bytes), all RLE bit widths 0..8 (levels) and 0..32 (int32), an exhaustive sweep of all sequences of length <= 4 over {min,-1,0,1,max} for the delta encodings; destination buffers nil / dirty / oversized / reused, and every byte-array decode repeated into a reused destination that holds older data over its whole capacity (malformed and foreign streams: every Go decoder run a second time into such destinations, same outcome demanded). Checked per case: Go bytes == model bytes, Go decode(Go bytes) == input, specification decoder(Go bytes) == input. Non-trivial = at least 2 values; distinct by the JSON of the case. Conforming streams Go's encoders do not write: RLE / bit-packed streams built run by run (godec.go: run-length runs of any length, bit-packed runs of any number of groups; levels, int32, dictionary indexes, booleans; non-trivial = at least 2 runs) and DELTA pages (geometry.go: DELTA_BINARY_PACKED int32/int64, DELTA_LENGTH_BYTE_ARRAY, DELTA_BYTE_ARRAY produced by the model's encoder at every legal geometry -- block sizes 128..512 (thorough 768) x every mini-block count giving mini-blocks of a multiple of 32 values, 4096/1, thorough 65536/512 and 65536/2048 -- with value counts around the mini-block and block boundaries and the value patterns above plus walks whose bit width changes every 16 values; blocks in styles Go does not write where the specification decoder confirms the stream; non-trivial = more values than the first mini-block holds): Go's decoder must return exactly the values, the model of Go's decoder the same outcome. Dictionaries (dict.go): per dictionary kind, every short history of {Reset, Insert} calls on empty and pre-populated dictionaries and random long ones (Index/Lookup/Bounds/Page of the returned indexes against the inserted values; non-trivial = two inserts around a reset, or an insert into a pre-populated dictionary), and files/buffers of 2..4 row groups written through WriteRows and typed rows with and without fallback to PLAIN (non-trivial = at least 2 row groups actually written, and the fallback actually taken when a size limit is set). Dictionary values are a function of small integer keys: special values and pseudo-random bytes (plain keys), and four STRUCTURED key families run through the same three scenario families (bulk typed writes of 513 / 2500 rows with 170..2500 distinct values per column, every history of at most 2 calls plus random long histories over up to 3000 distinct values, files of every kind x shape and the typed row / buffer x split with up to 400 distinct values per row group): big-endian counters (all values share their leading bytes: DECIMAL / 128-bit numbers below 2^64), little-endian counters (shared trailing bytes), one fixed byte string with one byte changed (values differing in one or two bytes), values whose two halves are equal (low = high 16 / 32 / 64 bits), each at the width of the kind (4 / 8 / 12 bytes, FIXED_LEN_BYTE_ARRAY of 1, 5, 7, 12, 16, 17 bytes, byte arrays of 16, 9, 24, 33 bytes). RLE_DICTIONARY data pages (page.go, pagefile.go): per dictionary kind, (dictionary of 1..200 values, index stream of run-length / bit-packed runs at the needed or a wider bit width, num_values) through Type.Decode / Type.NewPage into new and into reused buffers (holding the indexes of the page decoded before, or 0xA5 bytes), and column chunks of a foreign writer (dictionary page + 2..5 data pages, required / optional) through the file reader with and without poisoned pooled buffers; num_values equal to the indexes of the stream, below them by the padding of a last bit-packed group, or ABOVE them (short streams: outside Encodings.md, accepted by the library: only independence of the buffers' history is demanded, the zero extension is compared with the model); non-trivial = at least one run and two values (pages), at least two data pages (files)."
	rng := c.Rng
	fuzzEvery = uint32(c.N(10, 1))
	tieEvery = uint32(c.N(2, 1))
	tieMaxLen = c.N(400, 2000)
	fuzzMaxLen = c.N(120, 600)

	// corpus: regressions first
	corpus := []c04Case{
		{Enc: "rle_bool", Ints: []int64{255, 255, 255}, N: 24},
		{Enc: "rle_bool", Ints: []int64{255, 255, 7}, N: 19},
		{Enc: "dbp32", Ints: []int64{math.MinInt32, math.MaxInt32, 0, -1, 7}},
		{Enc: "dbp64", Ints: []int64{math.MinInt64, math.MaxInt64, 0, -1, 7}},
		{Enc: "rle_levels", Width: 3, Ints: []int64{1, 1, 1, 1, 1, 1, 1, 1, 2, 3, 4, 5, 6, 7, 0, 1, 5}},
	}
	for i := range corpus {
		runCase(c, &corpus[i], "corpus")
		c.Sample(corpus[i])
	}

	// exhaustive sweep: delta encodings, all sequences of length <= 4 over extremes
	for _, enc := range []string{"dbp32", "dbp64"} {
		ex := []int64{math.MinInt32, -1, 0, 1, math.MaxInt32}
		if enc == "dbp64" {
			ex = []int64{math.MinInt64, -1, 0, 1, math.MaxInt64}
		}
		var rec func(prefix []int64)
		rec = func(prefix []int64) {
			cs := &c04Case{Enc: enc, Ints: append([]int64(nil), prefix...)}
			runCase(c, cs, "exhaustive<=4")
			if len(prefix) == 4 {
				return
			}
			for _, v := range ex {
				rec(append(prefix, v))
			}
		}
		rec(nil)
	}
	c.Note("exhaustive: all sequences of length <= 4 over {min,-1,0,1,max} for DELTA_BINARY_PACKED int32 and int64")

	reps := c.N(1, 3)
	for rep := 0; rep < reps; rep++ {
		for _, n := range lengths {
			if c.Quick() && n > 300 && rep > 0 {
				continue
			}
			for kind := 0; kind < 6; kind++ {
				// quick tier: the long inputs alternate between the value kinds from one
				// length to the next instead of running all six (the oracle dominates the time)
				if c.Quick() && n > 130 && (kind+n)%3 != 0 {
					continue
				}
				for _, enc := range []string{"dbp32", "dbp64", "plain32", "plain64", "bss32", "bss64"} {
					bits := 64
					if strings.HasSuffix(enc, "32") {
						bits = 32
					}
					runCase(c, &c04Case{Enc: enc, Ints: genInts(rng, n, bits, kind)}, fmt.Sprintf("len=%d", bucketOf(n)))
				}
			}
			for kind := 0; kind < 5; kind++ {
				for w := 0; w <= 8; w++ {
					if c.Quick() && n > 130 && w%3 != 0 {
						continue
					}
					ints := genLevels(rng, n, w, kind)
					runCase(c, &c04Case{Enc: "rle_levels", Width: w, Ints: ints}, fmt.Sprintf("w=%d", w))
				}
				for _, w := range []int{0, 1, 2, 3, 5, 7, 8, 9, 12, 15, 16, 17, 20, 24, 31, 32} {
					if c.Quick() && n > 130 && w%4 != 0 {
						continue
					}
					ww := w
					if ww > 30 {
						ww = 30
					}
					ints := genLevels(rng, n, ww, kind)
					if w >= 31 && n > 0 {
						ints[rng.Intn(n)] = int64(uint32(1)<<uint(w-1)) | 1
					}
					runCase(c, &c04Case{Enc: "rle_int32", Width: w, Ints: ints}, fmt.Sprintf("w=%d", w))
				}
				runCase(c, &c04Case{Enc: "rle_dict", Ints: genLevels(rng, n, 1+rng.Intn(20), kind)}, fmt.Sprintf("len=%d", bucketOf(n)))
			}
			// booleans: packed bytes
			for kind := 0; kind < 4; kind++ {
				nb := (n + 7) / 8
				src := make([]int64, nb)
				for i := range src {
					switch kind {
					case 0:
						src[i] = 0xFF
					case 1:
						src[i] = 0
					case 2:
						src[i] = []int64{0, 0xFF, 0xFF, 0, 0x55, 0xFF, 0xFF, 0xFF, 0, 0}[rng.Intn(10)]
					default:
						src[i] = int64(rng.Intn(256))
					}
				}
				if n%8 != 0 && nb > 0 {
					src[nb-1] &= int64(1)<<(uint(n)%8) - 1 // padding bits are zero
				}
				runCase(c, &c04Case{Enc: "rle_bool", Ints: src, N: n}, fmt.Sprintf("len=%d", bucketOf(n)))
				runCase(c, &c04Case{Enc: "plain_bool", Ints: src, N: n}, fmt.Sprintf("len=%d", bucketOf(n)))
			}
			if n <= 300 || !c.Quick() {
				for kind := 0; kind < 5; kind++ {
					for _, enc := range []string{"plain_ba", "dlba", "dba"} {
						if kind == 4 && (c.Quick() && n > 130 || n > 300) && enc != "dba" {
							continue // (long pages of long values: the encoding that shares prefixes)
						}
						runCase(c, &c04Case{Enc: enc, Strs: genStrs(rng, n, kind, 0)}, fmt.Sprintf("len=%d", bucketOf(n)))
					}
					sizes := []int{1, 4, 12, 16, 17}
					switch kind { // values longer than one, two and four steps of the vector kernels
					case 2:
						sizes = []int{1, 4, 12, 16, 17, 70}
					case 4:
						sizes = []int{16, 17, 33, 40, 70, 133, 260}
					}
					for _, size := range sizes {
						if c.Quick() && n > 70 && size != 16 && size != 4 && size != 70 {
							continue
						}
						if n > 300 && size > 17 && (kind != 4 || size > 133) { // (the oracle's time on long pages of long values)
							continue
						}
						for _, enc := range []string{"plain_flba", "dba_flba", "bss_flba"} {
							if kind == 4 && (c.Quick() && n > 130 || n > 300) && enc != "dba_flba" {
								continue
							}
							runCase(c, &c04Case{Enc: enc, Width: size, Strs: genStrs(rng, n, kind, size)}, fmt.Sprintf("size=%d", size))
						}
					}
				}
				i96 := make([]int64, 3*(n%40))
				for i := range i96 {
					i96[i] = int64(rng.Uint32())
				}
				runCase(c, &c04Case{Enc: "plain_int96", Ints: i96}, "int96")
			}
		}
	}

	// fixed-length DELTA_BYTE_ARRAY around the hand-over from the vector kernels to the scalar
	// tail (decodeFixedLenByteArray: the kernel takes the values whose successors' suffixes
	// total at least 64 bytes): 2 and 3 values of 40 / 70 / 133 bytes, every value sharing
	// 0, 1, 2, half, all but one or all of its bytes with the one before it, so that the kernel
	// decodes exactly one value, two, or none, and the first scalar value has a prefix to take
	// from the last vector value
	for _, size := range []int{40, 70, 133} {
		shares := []int{0, 1, 2, size / 2, size - 1, size}
		var rec func(vals [][]byte, left int)
		rec = func(vals [][]byte, left int) {
			if left == 0 {
				strs := make([]string, len(vals))
				for i, v := range vals {
					strs[i] = fmt.Sprintf("%x", v)
				}
				runCase(c, &c04Case{Enc: "dba_flba", Width: size, Strs: strs}, fmt.Sprintf("handover/size=%d", size))
				return
			}
			for _, p := range shares {
				v := make([]byte, size)
				for j := range v {
					v[j] = byte(1 + rng.Intn(255))
				}
				copy(v, vals[len(vals)-1][:p])
				rec(append(vals[:len(vals):len(vals)], v), left-1)
			}
		}
		first := make([]byte, size)
		for j := range first {
			first[j] = byte(1 + rng.Intn(255))
		}
		rec([][]byte{first}, 1)
		rec([][]byte{first}, 2)
	}

	// history: one encoder value and one destination reused across many calls
	histDst := make([]byte, 0, 64)
	e := &delta.BinaryPackedEncoding{}
	for i := 0; i < c.N(200, 800); i++ {
		src := make([]int32, rng.Intn(300))
		ints := make([]int64, len(src))
		for j := range src {
			src[j] = int32(rng.Intn(1 << uint(1+rng.Intn(30))))
			ints[j] = int64(src[j])
		}
		var err error
		histDst, err = e.EncodeInt32(histDst, src)
		cs := &c04Case{Enc: "dbp32", Ints: ints}
		if err != nil {
			c.Violation("encode-error", err.Error(), cs)
			continue
		}
		if c.HasOracle() {
			if want := c.Ask("c04.dbp_enc 32 " + zList(ints)); want != core.Hexs(histDst) {
				c.Violation("dst-history-dependence", "encoding into a reused destination differs from the model's bytes", cs)
			}
		}
		c.Case("dst-history", fmt.Sprint(i, len(src)), len(src) >= 2)
	}

	// conforming streams Go's encoders do not write
	runForeign(c)
	runGeometry(c)

	// vm_compute cross-check sample
	c.Vm("From Coq Require Import List NArith ZArith Bool.\nFrom PQ Require Import Base.Bytes Enc.DeltaBP Enc.Rle.\nImport ListNotations.\nOpen Scope Z_scope.\nOpen Scope bool_scope.")
	var vm []string
	count := 0
	for i := 0; i < 60; i++ {
		n := []int{0, 1, 5, 33, 129}[i%5]
		ints := genInts(rng, n, 32, i%6)
		src := make([]int32, n)
		zs := make([]string, n)
		for j, v := range ints {
			src[j] = int32(v)
			zs[j] = core.CoqZ(v)
		}
		b, _ := (&delta.BinaryPackedEncoding{}).EncodeInt32(nil, src)
		vm = append(vm, fmt.Sprintf("(%s, %s)", core.CoqList(zs), core.CoqBytes(b)))
		count++
	}
	c.Vm("Definition cases : list (list Z * list N) := [\n  " + strings.Join(vm, ";\n  ") + "].")
	c.Vm("Definition eqb_bytes (a b : list N) := (Nat.eqb (length a) (length b)) && forallb (fun p => N.eqb (fst p) (snd p)) (combine a b).")
	c.Vm("Definition mismatches := filter (fun '(xs, b) => negb (eqb_bytes (DeltaBP.enc 32 xs) b)) cases.")
	c.Vm("Definition M := Eval vm_compute in (length cases, mismatches).\nPrint M.")
	c.Res.VmCases = count
	reportDecoderStats(c)
}

func bucketOf(n int) int {
	switch {
	case n <= 9:
		return n
	case n <= 17:
		return 16
	case n <= 33:
		return 32
	case n <= 65:
		return 64
	case n <= 130:
		return 128
	case n <= 258:
		return 256
	}
	return 1000
}

func replay(c *core.Ctx, raw json.RawMessage) {
	var cs c04Case
	var bulk struct {
		Kind                 string
		Rows, Stride, Family int
	}
	if err := json.Unmarshal(raw, &bulk); err == nil && bulk.Kind == "dict-bulk" && bulk.Stride > 0 && bulk.Family >= 0 && bulk.Family < len(structFamilies) {
		dictBulkCase(c, bulk.Family, bulk.Rows, bulk.Stride)
		return
	}
	if err := json.Unmarshal(raw, &cs); err != nil || cs.Enc == "" {
		c.Note("replay file does not hold an encoding case")
		return
	}
	check(c, &cs)
	key, _ := json.Marshal(cs)
	c.Case("replay", string(key), true)
}
