package main

// Foreign-but-valid DELTA streams: pages that conform to Encodings.md but that
// Go's own encoders never write.  The format leaves to the writer
//
//   - the GEOMETRY of DELTA_BINARY_PACKED: the number of values per block (a
//     multiple of 128) and of mini-blocks per block (mini-blocks of a multiple
//     of 32 values), written in the header of the page.  Go writes 128 / 4;
//     parquet-rs writes 256 / 4 for INT64; any reader must follow the header;
//   - for DELTA_LENGTH_BYTE_ARRAY and DELTA_BYTE_ARRAY the geometry of each of
//     their DELTA_BINARY_PACKED sections, and for DELTA_BYTE_ARRAY how much of
//     the common prefix is shared (any length up to the longest);
//   - the STYLE of a block: a min delta that is not the minimum, bit widths
//     larger than needed, arbitrary bit widths for the mini-blocks behind the
//     last value (which carry no data).
//
// The streams come from the MODEL's encoder at the chosen geometry
// (DeltaBP.enc_g through the oracle, proved to be inverted by the
// specification decoder and by the model of Go's decoder at every geometry:
// C04_delta_binary_packed_any_geometry, C04_go_decoder_delta_any_geometry).
// specEncodeDelta below is the same encoder written in Go: it must produce the
// model's bytes (corr:C04.foreign.generator.delta), it is what runs when there
// is no oracle, and it implements the styles, for which every stream is first
// handed to the specification decoder of the model, which must return the
// values (otherwise the case is a generator error, not a finding).
//
// Checked per case: Go's decoder returns exactly the values the stream was
// built from (into a nil destination and into a dirty, partly filled one;
// with and without spare capacity behind the input), and the model of Go's
// decoder returns the same outcome.

import (
	"encoding/binary"
	"fmt"
	"math"
	"math/bits"
	"math/rand"
	"os"

	"github.com/parquet-go/parquet-go/encoding/delta"

	"verif/harness/core"
)

type deltaStyle struct {
	Slack uint64 `json:"slack,omitempty"` // subtracted (wrap-around) from the min delta of every block
	Extra int    `json:"extra,omitempty"` // added to the bit width of every needed mini-block (capped at the type's width)
	Junk  int    `json:"junk,omitempty"`  // bit width written for the mini-blocks behind the last value
}

func (s deltaStyle) plain() bool { return s == deltaStyle{} }

type geomCase struct {
	Kind string `json:"kind"` // dbp32 dbp64 dlba dba dba_flba
	BS   int    `json:"bs"`   // values per block
	NMB  int    `json:"nmb"`  // mini-blocks per block
	// DELTA_BYTE_ARRAY: geometry of the suffix-length section and cap on the shared prefix
	BS2   int        `json:"bs2,omitempty"`
	NMB2  int        `json:"nmb2,omitempty"`
	Cap   int        `json:"cap,omitempty"`
	Style deltaStyle `json:"style,omitempty"`
}

// specEncodeDelta: DELTA_BINARY_PACKED from Encodings.md for values of k bits
// at the geometry bs / nmb.  With the plain style it is DeltaBP.enc_g: like
// Go's encoder, the deltas and their minimum are taken over the block padded
// with zeros.
func specEncodeDelta(values []int64, k, bs, nmb int, st deltaStyle) (out []byte, cost int) {
	vpm := bs / nmb
	mask := ^uint64(0)
	if k == 32 {
		mask = 1<<32 - 1
	}
	sext := func(u uint64) int64 {
		if k == 32 {
			return int64(int32(uint32(u)))
		}
		return int64(u)
	}
	first := int64(0)
	if len(values) > 0 {
		first = values[0]
	}
	out = binary.AppendUvarint(nil, uint64(bs))
	out = binary.AppendUvarint(out, uint64(nmb))
	out = binary.AppendUvarint(out, uint64(len(values)))
	out = binary.AppendVarint(out, first)
	if len(values) < 2 {
		return out, 0
	}
	last := uint64(first) & mask
	rest := values[1:]
	for len(rest) > 0 {
		n := min(bs, len(rest))
		block := make([]uint64, bs) // zero padded
		for i := 0; i < n; i++ {
			block[i] = uint64(rest[i]) & mask
		}
		rest = rest[n:]
		deltas := make([]uint64, bs)
		prev := last
		for i, v := range block {
			deltas[i] = (v - prev) & mask
			prev = v
		}
		last = block[n-1]
		m := deltas[0]
		for _, d := range deltas[1:] {
			if sext(d) < sext(m) {
				m = d
			}
		}
		m = (m - st.Slack) & mask
		out = binary.AppendVarint(out, sext(m))
		cleared := make([]uint64, bs)
		for i := 0; i < n; i++ {
			cleared[i] = (deltas[i] - m) & mask
		}
		widths := make([]int, nmb)
		for j := range widths {
			if j*vpm >= n {
				widths[j] = st.Junk
				continue
			}
			for _, u := range cleared[j*vpm : (j+1)*vpm] {
				widths[j] = max(widths[j], bits.Len64(u))
			}
			widths[j] = min(k, widths[j]+st.Extra)
		}
		for _, w := range widths {
			out = append(out, byte(w))
		}
		for j, w := range widths {
			if j*vpm >= n {
				break // no data behind the last value
			}
			cost += vpm * w * vpm * w
			packed := make([]byte, vpm*w/8)
			bit := 0
			for _, u := range cleared[j*vpm : (j+1)*vpm] {
				for b := 0; b < w; b++ {
					if (u>>uint(b))&1 != 0 {
						packed[bit/8] |= 1 << (bit % 8)
					}
					bit++
				}
			}
			out = append(out, packed...)
		}
	}
	return out, cost
}

func lcpLen(a, b []byte) int {
	n := 0
	for n < len(a) && n < len(b) && a[n] == b[n] {
		n++
	}
	return n
}

// specEncodeByteArrays: DELTA_LENGTH_BYTE_ARRAY / DELTA_BYTE_ARRAY over specEncodeDelta
func specEncodeByteArrays(g *geomCase, vs [][]byte) ([]byte, int) {
	if g.Kind == "dlba" {
		lens := make([]int64, len(vs))
		for i, v := range vs {
			lens[i] = int64(len(v))
		}
		out, cost := specEncodeDelta(lens, 32, g.BS, g.NMB, g.Style)
		for _, v := range vs {
			out = append(out, v...)
		}
		return out, cost
	}
	prefixes := make([]int64, len(vs))
	suffixes := make([]int64, len(vs))
	var data, prev []byte
	for i, v := range vs {
		p := min(g.Cap, lcpLen(prev, v))
		prefixes[i], suffixes[i] = int64(p), int64(len(v)-p)
		data = append(data, v[p:]...)
		prev = v
	}
	out, c1 := specEncodeDelta(prefixes, 32, g.BS, g.NMB, g.Style)
	sfx, c2 := specEncodeDelta(suffixes, 32, g.BS2, g.NMB2, g.Style)
	return append(append(out, sfx...), data...), c1 + c2
}

// the specification decoder of the model packs a whole mini-block into one
// number: its cost grows with the square of the mini-block's size in bits
// (specEncodeDelta returns the sum over the mini-blocks)
const specDecoderBudget = 24 << 20

var geomStats struct {
	cases, model, spec, styled int
	geoms                      map[string]bool
}

// checkGeom: one foreign DELTA stream.
func (k *checker) checkGeom(g *geomCase) {
	c, cs := k.c, k.cs
	fail := func(class, what string) {
		k.ok = false
		c.Violation(class, what, cs)
	}
	legal := func(bs, nmb int) bool {
		return bs > 0 && nmb > 0 && bs%128 == 0 && bs <= 65536 && bs%nmb == 0 && (bs/nmb)%32 == 0
	}
	if !legal(g.BS, g.NMB) || ((g.Kind == "dba" || g.Kind == "dba_flba") && !legal(g.BS2, g.NMB2)) {
		return
	}
	vs := strsOf(cs)
	geo := fmt.Sprintf("%d/%d", g.BS, g.NMB)
	if g.Kind == "dba" || g.Kind == "dba_flba" {
		geo += fmt.Sprintf("+%d/%d cap %d", g.BS2, g.NMB2, g.Cap)
	}
	// the stream, and the values Go's decoder has to return in goDecode's canonical text
	var stream []byte
	var ask, want string
	cost := 0
	switch g.Kind {
	case "dbp32", "dbp64":
		kb := 64
		if g.Kind == "dbp32" {
			kb = 32
		}
		stream, cost = specEncodeDelta(cs.Ints, kb, g.BS, g.NMB, g.Style)
		ask = fmt.Sprintf("c04.dbp_enc_g %d %d %d %s", g.BS, g.NMB, kb, zList(cs.Ints))
		want = zList(cs.Ints)
	case "dlba":
		stream, cost = specEncodeByteArrays(g, vs)
		ask = fmt.Sprintf("c04.dlba_enc_g %d %d %s", g.BS, g.NMB, hexList(vs))
		data, offs := flatten(vs)
		us := make([]uint64, len(offs))
		for i, o := range offs {
			us[i] = uint64(o)
		}
		want = core.Hexs(data) + " " + uList(us)
	case "dba", "dba_flba":
		stream, cost = specEncodeByteArrays(g, vs)
		ask = fmt.Sprintf("c04.dba_enc_g %d %d %d %d %d %s", g.Cap, g.BS, g.NMB, g.BS2, g.NMB2, hexList(vs))
		want = hexList(vs)
		if g.Kind == "dba_flba" {
			data, _ := flatten(vs)
			want = core.Hexs(data)
		}
	default:
		return
	}
	desc := fmt.Sprintf("%s, geometry %s, %d values, conforming stream %s", g.Kind, geo, len(cs.Ints)+len(cs.Strs), core.Trunc(core.Hexs(stream), 400))
	specCheck := func() bool {
		geomStats.spec++
		var sd, sw string
		switch g.Kind {
		case "dbp32", "dbp64":
			sd, sw = specDecode(c, g.Kind, 0, stream), want
		case "dlba":
			sd, sw = c.Ask("c04.dlba_dec "+core.Hexs(stream)), hexList(vs)
		default:
			sd, sw = c.Ask("c04.dba_dec "+core.Hexs(stream)), hexList(vs)
		}
		if sd != sw {
			k.corr("foreign.generator.delta.spec", core.Trunc(sw, 300), core.Trunc(sd, 300))
			return false
		}
		return true
	}
	if g.Style.plain() {
		if c.HasOracle() {
			// the model's encoder is the reference; the Go transcription must agree with it
			ms := c.Ask(ask)
			geomStats.model++
			if ms != core.Hexs(stream) {
				k.corr("foreign.generator.delta", core.Trunc(core.Hexs(stream), 400), core.Trunc(ms, 400))
				return
			}
		}
	} else {
		// a styled stream is a case only once the specification decoder has returned the values from it
		if !c.HasOracle() || cost > specDecoderBudget || !specCheck() {
			return
		}
		geomStats.styled++
		desc += fmt.Sprintf(" (style %+v)", g.Style)
	}
	geomStats.cases++
	if geomStats.geoms == nil {
		geomStats.geoms = map[string]bool{}
	}
	geomStats.geoms[g.Kind+" "+geo] = true
	// Go's decoder: the values, nothing else
	gd := goDecode(g.Kind, cs.Width, exact(stream))
	switch {
	case gd.status == "panic":
		fail("decoder-panic", desc+": Go decoder panics: "+gd.vals)
		return
	case gd.status != "ok":
		fail("foreign-stream", desc+": Go decoder returns an error")
		return
	case gd.vals != want:
		fail("foreign-stream", fmt.Sprintf("%s: expected %s, Go returns %s without error", desc, core.Trunc(want, 300), core.Trunc(gd.vals, 300)))
		return
	}
	if g2 := goDecode(g.Kind, cs.Width, roomy(stream)); g2 != gd {
		fail("reads-beyond-input", fmt.Sprintf("%s: with 64 spare bytes of 0xAA behind the slice Go returns %s", desc, g2))
		return
	}
	if g3 := goDecodeInto(g.Kind, cs.Width, exact(stream), true); g3 != gd {
		fail("dst-history-dependence", fmt.Sprintf("%s: into reused destinations holding older data Go returns %s", desc, g3))
		return
	}
	// a destination that holds values already and garbage in its spare capacity
	if g.Kind == "dbp32" || g.Kind == "dbp64" {
		if p := safely(func() {
			e := &delta.BinaryPackedEncoding{}
			pre := k.cutRng.Intn(5)
			var back []int64
			if g.Kind == "dbp32" {
				dst := make([]int32, pre+len(cs.Ints)+k.cutRng.Intn(40))
				for i := range dst {
					dst[i] = -12345
				}
				d, err := e.DecodeInt32(dst[:pre], exact(stream)) // (the values replace those of dst)
				if err != nil || len(d) != len(cs.Ints) {
					fail("foreign-stream", fmt.Sprintf("%s: decoding into a dirty destination of %d values: %d values, error %v", desc, pre, len(d), err))
					return
				}
				for _, v := range d {
					back = append(back, int64(v))
				}
			} else {
				dst := make([]int64, pre+len(cs.Ints)+k.cutRng.Intn(40))
				for i := range dst {
					dst[i] = -12345
				}
				d, err := e.DecodeInt64(dst[:pre], exact(stream))
				if err != nil || len(d) != len(cs.Ints) {
					fail("foreign-stream", fmt.Sprintf("%s: decoding into a dirty destination of %d values: %d values, error %v", desc, pre, len(d), err))
					return
				}
				back = append(back, d...)
			}
			if !eqInts(back, cs.Ints) {
				fail("dst-history-dependence", fmt.Sprintf("%s: decoded into a dirty destination of %d values Go returns %s", desc, pre, core.Trunc(zList(back), 300)))
			}
		}); p != "" {
			fail("decoder-panic", desc+": Go decoder panics with a dirty destination: "+p)
		}
		if !k.ok {
			return
		}
	}
	if !c.HasOracle() {
		return
	}
	// the model of Go's decoder
	if m := modelDecode(c, g.Kind, cs.Width, stream); m != gd {
		k.corr("go_decoder."+g.Kind+".geometry", gd.String(), m.String())
		return
	}
	// the specification decoder on the model encoder's streams: covered by the theorem, sampled
	if g.Style.plain() && cost <= specDecoderBudget && geomStats.cases%4 == 0 {
		specCheck()
	}
}

// the geometries Go's header checks admit, in a small range: block sizes 128 ..
// maxBS, every mini-block count that gives mini-blocks of a multiple of 32 values
func geometries(maxBS int) [][2]int {
	var out [][2]int
	for bs := 128; bs <= maxBS; bs += 128 {
		for nmb := 1; nmb <= bs/32; nmb++ {
			if bs%nmb == 0 && (bs/nmb)%32 == 0 {
				out = append(out, [2]int{bs, nmb})
			}
		}
	}
	return out
}

// value counts around the mini-block and block boundaries of a geometry (the
// first value lives in the header: n values = n-1 deltas)
func geomCounts(bs, nmb int) []int {
	vpm := bs / nmb
	cand := []int{0, 1, 2, 3, vpm, vpm + 1, vpm + 2, 2*vpm + 1, 2*vpm + 2, bs, bs + 1, bs + 2, bs + vpm + 1, bs + vpm + 2, 2*bs + 1, 2*bs + 2, 2*bs + vpm + 3}
	seen := map[int]bool{}
	var out []int
	for _, n := range cand {
		if !seen[n] {
			seen[n] = true
			out = append(out, n)
		}
	}
	return out
}

// genGeomInts: the value patterns of genInts plus walks whose step magnitude
// changes from one stretch of 16 values to the next (zero-width, narrow and
// wide mini-blocks in one page)
func genGeomInts(rng *rand.Rand, n, kbits, kind int) []int64 {
	if kind < 6 {
		return genInts(rng, n, kbits, kind)
	}
	maxMag := kbits - 6
	if kind == 7 { // narrower: the long pages of the quick tier (the model's arithmetic is slow on wide values)
		maxMag = 20
	}
	out := make([]int64, n)
	v := rng.Int63n(1 << 40)
	if kbits == 32 {
		v = rng.Int63n(1 << 20)
	}
	mag := uint(0)
	for i := range out {
		if i%16 == 0 {
			mag = uint(rng.Intn(maxMag))
			if rng.Intn(4) == 0 {
				mag = 0
			}
		}
		step := int64(0)
		if mag > 0 {
			step = rng.Int63n(1<<mag) - 1<<(mag-1)/2
		}
		v += step
		if kbits == 32 {
			v = int64(int32(v))
		}
		out[i] = v
	}
	return out
}

func runGeomCase(c *core.Ctx, cs *c04Case) {
	g := cs.Geom
	if c.Probe(func() { check(c, cs) }) {
		min := shrink(c, cs)
		check(c, min)
	}
	n := len(cs.Ints) + len(cs.Strs)
	vpm := g.BS / g.NMB
	c.Case(fmt.Sprintf("geometry/%s/%d-%d", g.Kind, g.BS, g.NMB), fmt.Sprint(*g, cs.Width, cs.Ints, cs.Strs), n > vpm+1)
}

func runGeometry(c *core.Ctx) {
	if os.Getenv("C04_GODEC") == "off" {
		return
	}
	rng := c.Rng
	geoms := geometries(c.N(512, 768))
	turn := 0
	pick := func(l []int) int { turn++; return l[turn%len(l)] }
	for gi, gm := range geoms {
		bs, nmb := gm[0], gm[1]
		vpm := bs / nmb
		counts := geomCounts(bs, nmb)
		for _, kind := range []string{"dbp32", "dbp64"} {
			kbits := 64
			if kind == "dbp32" {
				kbits = 32
			}
			var ns []int
			if c.Quick() {
				// one count across a mini-block boundary, one across a block boundary, one other
				ns = []int{pick([]int{vpm + 2, 2*vpm + 2, vpm + 1}), pick([]int{bs + 2, bs + vpm + 2, bs + 1}), counts[rng.Intn(len(counts))]}
				if (gi+kbits/32)%3 != 0 || ns[2] > bs+vpm+2 {
					ns = ns[:2]
				}
			} else {
				ns = append(counts, 2+rng.Intn(2*bs+vpm))
			}
			for _, n := range ns {
				// the value patterns rotate from one case to the next; the wide ones are the slow
				// ones in the model: narrower walks on the long pages
				vk := pick([]int{6, 4, 2, 1, 5, 6, 3, 0})
				if n > c.N(300, 600) && (vk == 4 || vk == 2 || vk == 6) {
					vk = 7
				}
				runGeomCase(c, &c04Case{Enc: "geom", Geom: &geomCase{Kind: kind, BS: bs, NMB: nmb}, Ints: genGeomInts(rng, n, kbits, vk)})
			}
		}
		// byte arrays: the length sections at this geometry, the suffix-length section of
		// DELTA_BYTE_ARRAY at another one, prefixes capped at 0 / 2 / any length
		other := geoms[rng.Intn(len(geoms))]
		for _, kind := range []string{"dlba", "dba", "dba_flba"} {
			reps := c.N(1, 4)
			for r := 0; r < reps; r++ {
				n := pick([]int{vpm + 2, bs + 2, 2*vpm + 2, counts[rng.Intn(len(counts))]})
				if c.Quick() && n > 400 {
					n = vpm + 2
				}
				gc := &geomCase{Kind: kind, BS: bs, NMB: nmb}
				cs := &c04Case{Enc: "geom", Geom: gc}
				if kind != "dlba" {
					gc.BS2, gc.NMB2 = other[0], other[1]
					gc.Cap = pick([]int{math.MaxInt16, 0, 2, math.MaxInt16})
				}
				if kind == "dba_flba" {
					cs.Width = pick([]int{1, 4, 16, 5})
					sk := pick([]int{0, 3, 4, 2})
					if sk == 4 { // long values sharing long prefixes
						cs.Width = pick([]int{70, 33, 133})
					}
					cs.Strs = genStrs(rng, n, sk, cs.Width)
				} else {
					cs.Strs = genStrs(rng, n, pick([]int{0, 1, 4, 3, 2}), 0)
				}
				runGeomCase(c, cs)
			}
		}
		// styles, where the specification decoder of the model can confirm the stream
		if vpm <= 64 {
			reps := c.N(2, 12)
			for r := 0; r < reps; r++ {
				kind := []string{"dbp64", "dbp32"}[pick([]int{0, 1})]
				kbits := 64
				if kind == "dbp32" {
					kbits = 32
				}
				st := deltaStyle{}
				switch pick([]int{0, 1, 2, 3}) {
				case 0:
					st.Slack = uint64(1 + rng.Intn(1000))
				case 1:
					st.Extra = 1 + rng.Intn(5)
				case 2:
					st.Junk = pick([]int{1, 7, 32, 33, 64, 65, 255})
				default:
					st = deltaStyle{Slack: rng.Uint64() >> uint(rng.Intn(64)), Extra: rng.Intn(3), Junk: pick([]int{0, 9, 200})}
				}
				n := pick([]int{vpm + 2, bs + 2, 2*vpm + 3, bs + vpm + 2, 3})
				vk := pick([]int{6, 1, 5, 2})
				if c.Quick() && (vk == 2 || vk == 6) && n > 200 {
					vk = 7
				}
				runGeomCase(c, &c04Case{Enc: "geom", Geom: &geomCase{Kind: kind, BS: bs, NMB: nmb, Style: st}, Ints: genGeomInts(rng, n, kbits, vk)})
			}
		}
	}
	// the largest block Go accepts, and a block size behind it (rejected by Go, not a conforming
	// stream's fault: recorded as an observation by the decoder statistics, not run here)
	for _, gm := range [][2]int{{65536, 512}, {65536, 2048}, {4096, 1}} {
		if c.Quick() && gm[0] == 65536 { // (a second for the model's encoder)
			continue
		}
		n := gm[0]/gm[1] + 3
		runGeomCase(c, &c04Case{Enc: "geom", Geom: &geomCase{Kind: "dbp64", BS: gm[0], NMB: gm[1]}, Ints: genGeomInts(rng, n, 64, 1)})
		runGeomCase(c, &c04Case{Enc: "geom", Geom: &geomCase{Kind: "dbp32", BS: gm[0], NMB: gm[1]}, Ints: genGeomInts(rng, n, 32, 5)})
	}
	c.Note("foreign DELTA streams (geometry.go): %d conforming streams at %d (encoding, geometry) pairs other than Go's own 128/4 included -- block sizes 128..%d x every legal mini-block count, 4096/1 (thorough: 65536/512, 65536/2048); value counts around the mini-block and block boundaries; DELTA_LENGTH_BYTE_ARRAY / DELTA_BYTE_ARRAY with independent geometries of their sections and capped prefixes -- decoded by Go to the values they were built from (nil and dirty destinations, with and without spare capacity behind the input); %d of them produced by the model's encoder DeltaBP.enc_g (byte-identical to the harness transcription), %d with a style Go does not write (min delta below the minimum, wider bit widths, arbitrary widths behind the last value) confirmed by the specification decoder first; specification decoder run on %d; outcome equal to the model of Go's decoder on all unless a corr:C04.go_decoder.*.geometry mismatch is listed",
		geomStats.cases, len(geomStats.geoms), c.N(512, 768), geomStats.model, geomStats.styled, geomStats.spec)
}
