package main

// Tie of the Gallina models of the GO DECODERS (coq/theories/Enc/GoDec*.v) to
// the code: for the bytes Go encoded and for malformed streams derived from
// them (truncations, bit flips, counts lying about the length, trailing
// bytes) the Go decoder's outcome -- ok / error / panic, and the decoded
// values when ok -- must be the model's.  The specification decoders are run
// on the same streams for the record (Go is deliberately more lenient in
// places; streams that both accept with DIFFERENT values are listed in the
// notes of the run).

import (
	"bytes"
	"fmt"
	"math/rand"
	"strings"

	"github.com/parquet-go/parquet-go/encoding/delta"
	"github.com/parquet-go/parquet-go/encoding/rle"

	"verif/harness/core"
)

type decRes struct {
	status string // ok | err | panic
	vals   string // canonical text of the decoded values when ok
}

func (r decRes) String() string {
	if r.status == "ok" {
		return "ok " + core.Trunc(r.vals, 400)
	}
	return r.status
}

const costLimit = 1 << 14

// exact returns a copy of b whose capacity equals its length.
func exact(b []byte) []byte {
	c := make([]byte, len(b))
	copy(c, b)
	return c
}

// roomy returns a copy of b followed by 64 bytes of 0xAA of spare capacity.
func roomy(b []byte) []byte {
	c := make([]byte, len(b)+64)
	copy(c, b)
	for i := len(b); i < len(c); i++ {
		c[i] = 0xAA
	}
	return c[:len(b)]
}

func u32List(d []int32) string {
	us := make([]uint64, len(d))
	for i, v := range d {
		us[i] = uint64(uint32(v))
	}
	return uList(us)
}

func safeUnflatten(data []byte, offsets []uint32) string {
	vs := make([][]byte, 0, len(offsets))
	for i := 0; i+1 < len(offsets); i++ {
		a, b := offsets[i], offsets[i+1]
		if a > b || int(b) > len(data) {
			return "BAD-OFFSETS"
		}
		vs = append(vs, data[a:b])
	}
	return hexList(vs)
}

// goDecode runs the Go decoder of one kind on src.
func goDecode(kind string, width int, src []byte) (res decRes) {
	defer func() {
		if r := recover(); r != nil {
			res = decRes{status: "panic"}
		}
	}()
	st := func(err error, vals func() string) decRes {
		if err != nil {
			return decRes{status: "err"}
		}
		return decRes{status: "ok", vals: vals()}
	}
	switch kind {
	case "levels":
		d, err := (&rle.Encoding{BitWidth: width}).DecodeLevels(nil, src)
		return st(err, func() string {
			us := make([]uint64, len(d))
			for i, v := range d {
				us[i] = uint64(v)
			}
			return uList(us)
		})
	case "int32":
		d, err := (&rle.Encoding{BitWidth: width}).DecodeInt32(nil, src)
		return st(err, func() string { return u32List(d) })
	case "dict":
		d, err := (&rle.DictionaryEncoding{}).DecodeInt32(nil, src)
		return st(err, func() string { return u32List(d) })
	case "bool":
		d, err := (&rle.Encoding{BitWidth: 1}).DecodeBoolean(nil, src)
		return st(err, func() string { return core.Hexs(d) })
	case "dbp32":
		d, err := (&delta.BinaryPackedEncoding{}).DecodeInt32(nil, src)
		return st(err, func() string {
			vs := make([]int64, len(d))
			for i, v := range d {
				vs[i] = int64(v)
			}
			return zList(vs)
		})
	case "dbp64":
		d, err := (&delta.BinaryPackedEncoding{}).DecodeInt64(nil, src)
		return st(err, func() string { return zList(d) })
	case "dlba":
		d, offs, err := (&delta.LengthByteArrayEncoding{}).DecodeByteArray(nil, src, nil)
		return st(err, func() string {
			us := make([]uint64, len(offs))
			for i, v := range offs {
				us[i] = uint64(v)
			}
			return core.Hexs(d) + " " + uList(us)
		})
	case "dba":
		d, offs, err := (&delta.ByteArrayEncoding{}).DecodeByteArray(nil, src, nil)
		return st(err, func() string { return safeUnflatten(d, offs) })
	case "dba_flba":
		d, err := (&delta.ByteArrayEncoding{}).DecodeFixedLenByteArray(nil, src, width)
		return st(err, func() string { return core.Hexs(d) })
	}
	panic("goDecode: kind " + kind)
}

func parseG(ans string, vals func(rest string) string) decRes {
	switch {
	case ans == "GERR":
		return decRes{status: "err"}
	case ans == "GPANIC":
		return decRes{status: "panic"}
	case strings.HasPrefix(ans, "GOK "):
		return decRes{status: "ok", vals: vals(ans[4:])}
	}
	return decRes{status: "oracle:" + core.Trunc(ans, 100)}
}

// modelDecode asks the model of the Go decoder.
func modelDecode(c *core.Ctx, kind string, width int, src []byte) decRes {
	h := core.Hexs(src)
	id := func(s string) string { return s }
	switch kind {
	case "levels", "int32":
		return parseG(c.Ask(fmt.Sprintf("c04.go_rle_dec %s %d %s", kind, width, h)), id)
	case "dict", "bool":
		return parseG(c.Ask(fmt.Sprintf("c04.go_rle_dec %s 0 %s", kind, h)), id)
	case "dbp32", "dbp64":
		return parseG(c.Ask("c04.go_delta_dec "+kind[3:]+" "+h), func(s string) string { return strings.SplitN(s, " ", 2)[0] })
	case "dlba":
		return parseG(c.Ask("c04.go_dlba_dec "+h), id)
	case "dba":
		return parseG(c.Ask("c04.go_dba_dec "+h), id)
	case "dba_flba":
		return parseG(c.Ask("c04.go_dba_dec "+h), func(s string) string {
			if s == "_" {
				return "x"
			}
			return "x" + strings.ReplaceAll(strings.ReplaceAll(s, ",", ""), "x", "")
		})
	}
	panic("modelDecode: kind " + kind)
}

// specDecode asks the decoder written from the specification; "NONE" = rejects.
func specDecode(c *core.Ctx, kind string, width int, src []byte) string {
	h := core.Hexs(src)
	switch kind {
	case "levels", "int32":
		return c.Ask(fmt.Sprintf("c04.rle_dec %d %s", width, h))
	case "dict":
		return c.Ask("c04.dict_dec " + h)
	case "dbp32", "dbp64":
		return strings.SplitN(c.Ask("c04.dbp_dec "+kind[3:]+" "+h), " ", 2)[0]
	case "dlba":
		return c.Ask("c04.dlba_dec " + h)
	case "dba", "dba_flba":
		return c.Ask("c04.dba_dec " + h)
	}
	return "NONE"
}

// costs returns (cost of Go's walk, cost of the specification decoder's walk).
func costs(c *core.Ctx, kind string, width int, src []byte) (uint64, uint64) {
	h := core.Hexs(src)
	parse := func(s string) uint64 {
		if len(s) > 8 {
			return 1 << 62
		}
		var v uint64
		fmt.Sscanf(s, "%x", &v)
		return v
	}
	switch kind {
	case "levels", "int32":
		f := strings.Fields(c.Ask(fmt.Sprintf("c04.go_rle_cost %s %d %s", kind, width, h)))
		return parse(f[0]), parse(f[1])
	case "dict":
		if len(src) == 0 {
			return 0, 0
		}
		f := strings.Fields(c.Ask(fmt.Sprintf("c04.go_rle_cost int32 %d %s", src[0], core.Hexs(src[1:]))))
		return parse(f[0]), parse(f[1])
	case "bool":
		if len(src) <= 4 {
			return 0, 0
		}
		f := strings.Fields(c.Ask("c04.go_rle_cost bool 1 " + core.Hexs(src[4:])))
		return parse(f[0]), parse(f[1])
	case "dbp32", "dbp64", "dlba":
		v := parse(c.Ask(fmt.Sprintf("c04.go_delta_cost 1 %x %s", costLimit, h)))
		return v, v
	default:
		v := parse(c.Ask(fmt.Sprintf("c04.go_delta_cost 2 %x %s", costLimit, h)))
		return v, v
	}
}

type decStats struct {
	streams, goOK, goErr, goPanic int
	lenient, strict, differ       int // Go vs the specification decoder
	overread                      int
	exDiffer, exOverread, exPanic map[string]string
}

var stats = decStats{exDiffer: map[string]string{}, exOverread: map[string]string{}, exPanic: map[string]string{}}

// valuesOfSpec brings the specification decoder's answer to the canonical
// text of goDecode where the two are comparable; ok=false when they are not.
func specComparable(kind string, g decRes, spec string) (same bool, ok bool) {
	switch kind {
	case "levels", "dbp32", "dbp64", "dba":
		return g.vals == spec, true
	case "int32", "dict":
		// bit-packed runs decode whole groups of 8 on both sides
		return g.vals == spec, true
	}
	return false, false
}

// tieStream compares Go with its model (and records Go vs specification) on
// one stream.  Returns false when a mismatch was reported.
func (k *checker) tieStream(kind string, width int, stream []byte, what string) bool {
	c := k.c
	goCost, specCost := costs(c, kind, width, stream)
	if goCost > costLimit {
		return true
	}
	g := goDecode(kind, width, exact(stream))
	m := modelDecode(c, kind, width, stream)
	stats.streams++
	switch g.status {
	case "ok":
		stats.goOK++
	case "err":
		stats.goErr++
	default:
		stats.goPanic++
		if _, seen := stats.exPanic[kind]; !seen {
			stats.exPanic[kind] = fmt.Sprintf("width %d stream %s", width, core.Hexs(stream))
		}
	}
	if g != m {
		if k.ok {
			cs := &c04Case{Enc: "godec:" + kind, Width: width, Strs: []string{fmt.Sprintf("%x", stream)}}
			c.Mismatch("corr:C04.go_decoder."+kind, fmt.Sprintf("%s width %d stream %s (%s)", kind, width, core.Hexs(stream), what), g.String(), m.String(), cs)
		}
		k.ok = false
		return false
	}
	// spare capacity behind the slice must not change the outcome
	if g2 := goDecode(kind, width, roomy(stream)); g2 != g {
		stats.overread++
		if _, seen := stats.exOverread[kind]; !seen {
			stats.exOverread[kind] = fmt.Sprintf("width %d stream %s: cap=len gives %s, 64 spare bytes of 0xAA give %s", width, core.Hexs(stream), g, g2)
		}
	}
	if specCost <= costLimit && kind != "bool" && kind != "dlba" && kind != "dba_flba" {
		spec := specDecode(c, kind, width, stream)
		switch {
		case g.status == "ok" && spec == "NONE":
			stats.lenient++
		case g.status != "ok" && spec != "NONE":
			stats.strict++
		case g.status == "ok":
			if same, cmp := specComparable(kind, g, spec); cmp && !same {
				stats.differ++
				if _, seen := stats.exDiffer[kind]; !seen {
					stats.exDiffer[kind] = fmt.Sprintf("width %d stream %s: Go %s, specification decoder %s", width, core.Hexs(stream), core.Trunc(g.vals, 200), core.Trunc(spec, 200))
				}
			}
		}
	}
	return true
}

// mutations of an encoded stream
func mutations(rng *rand.Rand, kind string, b []byte, full bool) [][]byte {
	var out [][]byte
	L := len(b)
	// truncation: every position for short inputs
	if L <= 40 || full {
		for n := 0; n < L; n++ {
			out = append(out, b[:n])
		}
	} else {
		for i := 0; i < 4; i++ {
			out = append(out, b[:rng.Intn(L)])
		}
		out = append(out, b[:L-1], b[:L-2])
	}
	if L == 0 {
		return append(out, []byte{0x80}, []byte{0xff, 0xff, 0xff, 0xff, 0xff, 0xff, 0xff, 0xff, 0xff, 0x7f})
	}
	// bit flips
	flips := 6
	if full {
		flips = 8 * L
	}
	for i := 0; i < flips; i++ {
		m := append([]byte(nil), b...)
		pos := rng.Intn(8 * L)
		if full {
			pos = i
		}
		m[pos/8] ^= 1 << (pos % 8)
		out = append(out, m)
	}
	// counts lying about the length
	lie := func(at int, d int) {
		if at < L {
			m := append([]byte(nil), b...)
			m[at] = byte(int(m[at]) + d)
			out = append(out, m)
		}
	}
	set := func(at int, v ...byte) {
		if at < L {
			m := append(append(append([]byte(nil), b[:at]...), v...), b[at+1:]...)
			out = append(out, m)
		}
	}
	switch kind {
	case "dbp32", "dbp64", "dlba", "dba", "dba_flba":
		// 80 01 | 04 | total | first ...
		lie(3, 1)
		lie(3, -1)
		lie(3, 37)
		lie(2, 4)  // 8 mini-blocks
		lie(2, -4) // no mini-block
		lie(1, 1)  // block size 256
		lie(0, 1)  // block size 129
	case "bool":
		lie(0, 1)
		lie(0, -1)
		lie(4, 2)
		lie(4, 1)
	case "dict":
		lie(0, 1)
		lie(0, -1)
		lie(1, 2)
		lie(1, 1)
	default:
		lie(0, 2)
		lie(0, -2)
		lie(0, 1)                                    // run-length <-> bit-packed
		set(0, 0x00, b[0])                           // an empty run first
		set(0, b[0]|0x80, 0x00)                      // non-canonical varint
		set(0, 0xfe, 0xff, 0xff, 0xff, 0x0f)         // MaxInt32 values
		set(0, 0x80, 0x80, 0x80, 0x80, 0x10)         // MaxInt32 + 1 values
	}
	// trailing bytes
	out = append(out, append(append([]byte(nil), b...), 0), append(append([]byte(nil), b...), 0x03, 0x88, 0xc6, 0xfa))
	return out
}

// decoderTie is called by checkInner with the bytes Go encoded.
func (k *checker) decoderTie(rng *rand.Rand, kind string, width int, got []byte, wantVals string) {
	c := k.c
	if !c.HasOracle() || !k.ok || len(got) > 6000 {
		return
	}
	// (a) the bytes Go encoded: the model of the Go decoder decodes them to the input
	m := modelDecode(c, kind, width, got)
	if wantVals != "" && (m.status != "ok" || m.vals != wantVals) {
		k.corr("go_decoder."+kind+".on_go_bytes", "ok "+core.Trunc(wantVals, 400), m.String())
		return
	}
	if !k.tieStream(kind, width, got, "Go's bytes") {
		return
	}
	// (b) malformed streams
	if k.fuzz == 0 {
		return
	}
	full := k.fuzz == 2 && len(got) <= 24
	for _, mu := range mutations(rng, kind, got, full) {
		if bytes.Equal(mu, got) {
			continue
		}
		if !k.tieStream(kind, width, mu, "mutation of Go's encoding of the case") {
			return
		}
	}
}

// checkStream replays one recorded stream.
func (k *checker) checkStream(kind string, width int, stream []byte) {
	if !k.c.HasOracle() {
		return
	}
	k.tieStream(kind, width, stream, "replay")
}

func reportDecoderStats(c *core.Ctx) {
	if stats.streams == 0 {
		return
	}
	c.Note("Go decoders vs their Gallina models (Enc/GoDec*.v): %d streams (Go's own bytes, truncations, bit flips, lying counts, trailing bytes; slices with cap = len): Go ok %d, error %d, panic %d; outcome and values equal to the model's on all of them unless a corr:C04.go_decoder.* mismatch is listed", stats.streams, stats.goOK, stats.goErr, stats.goPanic)
	c.Note("Go vs specification decoder on those streams (not part of the property, malformed input): Go accepts / specification rejects %d, Go rejects / specification accepts %d, both accept with different values %d; outcome changed by 64 spare bytes behind the slice: %d", stats.lenient, stats.strict, stats.differ, stats.overread)
	for kind, ex := range stats.exPanic {
		c.Note("observation (malformed input): Go decoder %s panics, as its model predicts: %s", kind, core.Trunc(ex, 300))
	}
	for kind, ex := range stats.exOverread {
		c.Note("observation (malformed input): Go decoder %s reads beyond len(src): %s", kind, core.Trunc(ex, 600))
	}
	for kind, ex := range stats.exDiffer {
		c.Note("observation (malformed input): %s: %s", kind, core.Trunc(ex, 600))
	}
}
