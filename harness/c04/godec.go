package main

// Tie of the Gallina models of the GO DECODERS (coq/theories/Enc/GoDec*.v) to
// the code, and hard checks of the Go decoders on input that Go's encoders
// did not produce:
//
//   * the bytes Go encoded, and malformed streams derived from them
//     (truncation at every position for short encodings, bit flips, counts
//     lying about the length, empty runs, trailing bytes): the Go decoder's
//     outcome -- ok / error / panic, and the decoded values when ok -- must be
//     the model's (corr:C04.go_decoder.<kind>); a Go decoder must never
//     panic, its outcome must not depend on what lies behind len(src) in the
//     capacity of the slice (RLE decoders), and when both Go and the
//     specification decoder accept a stream they must return the same values
//     (streams with an empty run excepted, see the notes of the run);
//   * foreign streams: specification-conforming RLE / bit-packed streams with
//     run-length runs of ANY length (not only the multiples of 8 that Go
//     writes; up to run headers of three bytes) and bit-packed runs of any
//     number of groups (run headers of two bytes), for levels, int32,
//     dictionary indexes (bit width byte in front) and booleans: Go must
//     decode them to the values they were built from; a bit-packed block cut
//     short must be an error.

import (
	"bytes"
	"encoding/binary"
	"fmt"
	"math/rand"
	"os"
	"strings"

	"github.com/parquet-go/parquet-go/encoding/delta"
	"github.com/parquet-go/parquet-go/encoding/rle"

	"verif/harness/core"
)

type decRes struct {
	status string // ok | err | panic
	vals   string // canonical text of the decoded values when ok
}

func (r decRes) String() string {
	if r.status == "ok" {
		return "ok " + core.Trunc(r.vals, 400)
	}
	return r.status
}

const costLimit = 1 << 13

// exact returns a copy of b whose capacity equals its length.
func exact(b []byte) []byte {
	c := make([]byte, len(b))
	copy(c, b)
	return c
}

// roomy returns a copy of b followed by 64 bytes of 0xAA of spare capacity.
func roomy(b []byte) []byte {
	c := make([]byte, len(b)+64)
	copy(c, b)
	for i := len(b); i < len(c); i++ {
		c[i] = 0xAA
	}
	return c[:len(b)]
}

func u32List(d []int32) string {
	us := make([]uint64, len(d))
	for i, v := range d {
		us[i] = uint64(uint32(v))
	}
	return uList(us)
}

func safeUnflatten(data []byte, offsets []uint32) string {
	vs := make([][]byte, 0, len(offsets))
	for i := 0; i+1 < len(offsets); i++ {
		a, b := offsets[i], offsets[i+1]
		if a > b || int(b) > len(data) {
			return "BAD-OFFSETS"
		}
		vs = append(vs, data[a:b])
	}
	return hexList(vs)
}

func isRLE(kind string) bool {
	return kind == "levels" || kind == "int32" || kind == "dict" || kind == "bool"
}

// goDecode runs the Go decoder of one kind on src, into nil destinations.
func goDecode(kind string, width int, src []byte) decRes {
	return goDecodeInto(kind, width, src, false)
}

// dirty destinations: buffers that an earlier call filled (no zero in them),
// handed back with a few elements of length and plenty of capacity, the way
// the page readers reuse their pooled buffers
func dirtyBytesDst() []byte {
	b := make([]byte, 1<<15)
	for i := range b {
		b[i] = dirty[i] | 0x81
	}
	return b[:len(b)%7]
}

func dirtyInt32Dst() []int32 {
	b := make([]int32, 1<<12)
	for i := range b {
		b[i] = int32(-12345 - i)
	}
	return b[:3]
}

func dirtyInt64Dst() []int64 {
	b := make([]int64, 1<<12)
	for i := range b {
		b[i] = int64(-12345 - i)
	}
	return b[:3]
}

func dirtyOffsetsDst() []uint32 {
	b := make([]uint32, 1<<12)
	for i := range b {
		b[i] = 0xA5A5A5A5
	}
	return b[:2]
}

// goDecodeInto runs the Go decoder of one kind on src, into nil destinations
// or (dirtyDst) into reused ones.
func goDecodeInto(kind string, width int, src []byte, dirtyDst bool) (res decRes) {
	var bdst []byte
	var i32dst []int32
	var i64dst []int64
	var odst []uint32
	if dirtyDst {
		switch kind {
		case "int32", "dict", "dbp32":
			i32dst = dirtyInt32Dst()
		case "dbp64":
			i64dst = dirtyInt64Dst()
		case "dlba", "dba":
			bdst, odst = dirtyBytesDst(), dirtyOffsetsDst()
		default:
			bdst = dirtyBytesDst()
		}
	}
	defer func() {
		if r := recover(); r != nil {
			res = decRes{status: "panic", vals: fmt.Sprint(r)}
		}
	}()
	st := func(err error, vals func() string) decRes {
		if err != nil {
			return decRes{status: "err"}
		}
		return decRes{status: "ok", vals: vals()}
	}
	switch kind {
	case "levels":
		d, err := (&rle.Encoding{BitWidth: width}).DecodeLevels(bdst, src)
		return st(err, func() string {
			us := make([]uint64, len(d))
			for i, v := range d {
				us[i] = uint64(v)
			}
			return uList(us)
		})
	case "int32":
		d, err := (&rle.Encoding{BitWidth: width}).DecodeInt32(i32dst, src)
		return st(err, func() string { return u32List(d) })
	case "dict":
		d, err := (&rle.DictionaryEncoding{}).DecodeInt32(i32dst, src)
		return st(err, func() string { return u32List(d) })
	case "bool":
		d, err := (&rle.Encoding{BitWidth: 1}).DecodeBoolean(bdst, src)
		return st(err, func() string { return core.Hexs(d) })
	case "dbp32":
		d, err := (&delta.BinaryPackedEncoding{}).DecodeInt32(i32dst, src)
		return st(err, func() string {
			vs := make([]int64, len(d))
			for i, v := range d {
				vs[i] = int64(v)
			}
			return zList(vs)
		})
	case "dbp64":
		d, err := (&delta.BinaryPackedEncoding{}).DecodeInt64(i64dst, src)
		return st(err, func() string { return zList(d) })
	case "dlba":
		d, offs, err := (&delta.LengthByteArrayEncoding{}).DecodeByteArray(bdst, src, odst)
		return st(err, func() string {
			us := make([]uint64, len(offs))
			for i, v := range offs {
				us[i] = uint64(v)
			}
			return core.Hexs(d) + " " + uList(us)
		})
	case "dba":
		d, offs, err := (&delta.ByteArrayEncoding{}).DecodeByteArray(bdst, src, odst)
		return st(err, func() string { return safeUnflatten(d, offs) })
	case "dba_flba":
		d, err := (&delta.ByteArrayEncoding{}).DecodeFixedLenByteArray(bdst, src, width)
		return st(err, func() string { return core.Hexs(d) })
	}
	panic("goDecode: kind " + kind)
}

func parseG(ans string, vals func(rest string) string) decRes {
	switch {
	case ans == "GERR":
		return decRes{status: "err"}
	case ans == "GPANIC":
		return decRes{status: "panic"}
	case strings.HasPrefix(ans, "GOK "):
		return decRes{status: "ok", vals: vals(ans[4:])}
	}
	return decRes{status: "oracle:" + core.Trunc(ans, 100)}
}

// modelDecode asks the model of the Go decoder.
func modelDecode(c *core.Ctx, kind string, width int, src []byte) decRes {
	h := core.Hexs(src)
	id := func(s string) string { return s }
	switch kind {
	case "levels", "int32":
		return parseG(c.Ask(fmt.Sprintf("c04.go_rle_dec %s %d %s", kind, width, h)), id)
	case "dict", "bool":
		return parseG(c.Ask(fmt.Sprintf("c04.go_rle_dec %s 0 %s", kind, h)), id)
	case "dbp32", "dbp64":
		return parseG(c.Ask("c04.go_delta_dec "+kind[3:]+" "+h), func(s string) string { return strings.SplitN(s, " ", 2)[0] })
	case "dlba":
		return parseG(c.Ask("c04.go_dlba_dec "+h), id)
	case "dba":
		return parseG(c.Ask("c04.go_dba_dec "+h), id)
	case "dba_flba":
		return parseG(c.Ask("c04.go_dba_dec "+h), func(s string) string {
			if s == "_" {
				return "x"
			}
			return "x" + strings.ReplaceAll(strings.ReplaceAll(s, ",", ""), "x", "")
		})
	}
	panic("modelDecode: kind " + kind)
}

// flbaWrongWidth: does the stream, decoded as DELTA_BYTE_ARRAY by the model of the Go decoder,
// hold a value whose length is not width?
func flbaWrongWidth(c *core.Ctx, width int, src []byte) bool {
	ans := c.Ask("c04.go_dba_dec " + core.Hexs(src))
	if !strings.HasPrefix(ans, "GOK ") {
		return false
	}
	s := ans[4:]
	if s == "_" {
		return false
	}
	for _, v := range strings.Split(s, ",") {
		v = strings.TrimPrefix(v, "x")
		if len(v) != 2*width {
			return true
		}
	}
	return false
}

// specDecode asks the decoder written from the specification; "NONE" = rejects.
func specDecode(c *core.Ctx, kind string, width int, src []byte) string {
	h := core.Hexs(src)
	switch kind {
	case "levels", "int32":
		return c.Ask(fmt.Sprintf("c04.rle_dec %d %s", width, h))
	case "dict":
		return c.Ask("c04.dict_dec " + h)
	case "dbp32", "dbp64":
		return strings.SplitN(c.Ask("c04.dbp_dec "+kind[3:]+" "+h), " ", 2)[0]
	case "dba":
		return c.Ask("c04.dba_dec " + h)
	}
	return "NONE"
}

func specComparable(kind string) bool {
	switch kind {
	case "levels", "int32", "dict", "dbp32", "dbp64", "dba":
		return true
	}
	return false
}

// costs returns (cost of Go's walk, cost of the specification decoder's
// walk, whether a walk meets an empty run).
func costs(c *core.Ctx, kind string, width int, src []byte) (uint64, uint64, bool) {
	h := core.Hexs(src)
	parse := func(s string) uint64 {
		if len(s) > 8 {
			return 1 << 62
		}
		var v uint64
		fmt.Sscanf(s, "%x", &v)
		return v
	}
	rleCost := func(k string, w int, b []byte) (uint64, uint64, bool) {
		f := strings.Fields(c.Ask(fmt.Sprintf("c04.go_rle_cost %s %d %s", k, w, core.Hexs(b))))
		if len(f) != 3 {
			return 1 << 62, 1 << 62, false
		}
		return parse(f[0]), parse(f[1]), f[2] == "1"
	}
	switch kind {
	case "levels", "int32":
		return rleCost(kind, width, src)
	case "dict":
		if len(src) == 0 {
			return 0, 0, false
		}
		return rleCost("int32", int(src[0]), src[1:])
	case "bool":
		if len(src) <= 4 {
			return 0, 0, false
		}
		return rleCost("bool", 1, src[4:])
	case "dbp32", "dbp64", "dlba":
		v := parse(c.Ask(fmt.Sprintf("c04.go_delta_cost 1 %x %s", costLimit, h)))
		return v, v, false
	default:
		v := parse(c.Ask(fmt.Sprintf("c04.go_delta_cost 2 %x %s", costLimit, h)))
		return v, v, false
	}
}

type decStats struct {
	streams, goOK, goErr       int
	lenient, strict, emptyRuns int // Go vs the specification decoder
	overread, specTurn         int
	flbaWrongWidth             int // malformed fixed-length DELTA_BYTE_ARRAY streams whose values were not compared
	foreign, foreignCut        int
	exOverread, exEmpty        map[string]string
}

var stats = decStats{exOverread: map[string]string{}, exEmpty: map[string]string{}}

// kinds whose decoder is known to read into the spare capacity of src on
// malformed input (recorded as an observation, not a violation): none since b47fdb3
var overreadTolerated = map[string]bool{}

// tieStream compares Go with its model and evaluates the hard checks on one
// stream.  Returns false when something was reported.
func (k *checker) tieStream(kind string, width int, stream []byte, what string, goBytes bool) bool {
	c := k.c
	var goCost, specCost uint64
	var emptyRun bool
	if !goBytes { // Go's own encodings are not hostile
		goCost, specCost, emptyRun = costs(c, kind, width, stream)
	}
	if goCost > costLimit {
		return true
	}
	rec := &c04Case{Enc: "godec:" + kind, Width: width, Strs: []string{fmt.Sprintf("%x", stream)}}
	g := goDecode(kind, width, exact(stream))
	stats.streams++
	if g.status == "panic" {
		k.ok = false
		c.Violation("decoder-panic", fmt.Sprintf("Go decoder %s (width %d) panics on the stream %s (%s): %s", kind, width, core.Hexs(stream), what, g.vals), rec)
		return false
	}
	if g.status == "ok" {
		stats.goOK++
	} else {
		stats.goErr++
	}
	m := modelDecode(c, kind, width, stream)
	if g != m && kind == "dba_flba" && !goBytes && g.status == "ok" && m.status == "ok" && flbaWrongWidth(c, width, stream) {
		// The stream decodes to values that do not have the declared width: it is not an
		// encoding of FIXED_LEN_BYTE_ARRAY(width) values.  Go accepts it in every build, but the
		// AVX2 kernels and the portable loop (which the model follows) lay such values out
		// differently; the statement is about encoded values, so only the outcome is compared.
		stats.flbaWrongWidth++
		return true
	}
	if g != m {
		if k.ok {
			c.Mismatch("corr:C04.go_decoder."+kind, fmt.Sprintf("%s width %d stream %s (%s)", kind, width, core.Hexs(stream), what), g.String(), m.String(), rec)
		}
		k.ok = false
		return false
	}
	// spare capacity behind the slice must not change the outcome
	if g2 := goDecode(kind, width, roomy(stream)); g2 != g {
		if !overreadTolerated[kind] {
			k.ok = false
			c.Violation("reads-beyond-input", fmt.Sprintf("Go decoder %s (width %d), stream %s (%s): with cap(src) = len(src) the result is %s, with 64 spare bytes of 0xAA behind the slice it is %s", kind, width, core.Hexs(stream), what, g, g2), rec)
			return false
		}
		stats.overread++
		if _, seen := stats.exOverread[kind]; !seen {
			stats.exOverread[kind] = fmt.Sprintf("width %d stream %s: cap=len gives %s, 64 spare bytes of 0xAA give %s", width, core.Hexs(stream), g, g2)
		}
	}
	// what the reused destination buffers held must not change the outcome
	if g3 := goDecodeInto(kind, width, exact(stream), true); g3 != g {
		k.ok = false
		c.Violation("dst-history-dependence", fmt.Sprintf("Go decoder %s (width %d), stream %s (%s): into nil destinations the result is %s, into reused destinations holding older data it is %s", kind, width, core.Trunc(core.Hexs(stream), 400), what, g, g3), rec)
		return false
	}
	// (the specification decoders of the DELTA encodings are slow: every other stream in the quick tier)
	stats.specTurn++
	if !goBytes && specCost <= costLimit && specComparable(kind) && (isRLE(kind) || !c.Quick() || what == "replay" || stats.specTurn%2 == 0) {
		spec := specDecode(c, kind, width, stream)
		switch {
		case g.status == "ok" && spec == "NONE":
			stats.lenient++
		case g.status != "ok" && spec != "NONE":
			stats.strict++
		case g.status == "ok" && g.vals != spec:
			if emptyRun {
				stats.emptyRuns++
				if _, seen := stats.exEmpty[kind]; !seen {
					stats.exEmpty[kind] = fmt.Sprintf("width %d stream %s: Go %s, specification decoder %s", width, core.Hexs(stream), core.Trunc(g.vals, 120), core.Trunc(spec, 120))
				}
			} else {
				k.ok = false
				c.Violation("go-vs-spec-values", fmt.Sprintf("%s (width %d), stream %s (%s): Go decodes %s without error, the specification decoder decodes %s", kind, width, core.Hexs(stream), what, core.Trunc(g.vals, 300), core.Trunc(spec, 300)), rec)
				return false
			}
		}
	}
	return true
}

// mutations of an encoded stream
func mutations(rng *rand.Rand, kind string, b []byte, full bool) [][]byte {
	var out [][]byte
	L := len(b)
	// truncation: every position for short inputs
	if L <= 40 || full {
		for n := 0; n < L; n++ {
			out = append(out, b[:n])
		}
	} else {
		for i := 0; i < 4; i++ {
			out = append(out, b[:rng.Intn(L)])
		}
		out = append(out, b[:L-1], b[:L-2])
	}
	if L == 0 {
		return append(out, []byte{0x80}, []byte{0xff, 0xff, 0xff, 0xff, 0xff, 0xff, 0xff, 0xff, 0xff, 0x7f})
	}
	// bit flips
	flips := 6
	if full {
		flips = 8 * L
	}
	for i := 0; i < flips; i++ {
		m := append([]byte(nil), b...)
		pos := rng.Intn(8 * L)
		if full {
			pos = i
		}
		m[pos/8] ^= 1 << (pos % 8)
		out = append(out, m)
	}
	// counts lying about the length
	lie := func(at int, d int) {
		if at < L {
			m := append([]byte(nil), b...)
			m[at] = byte(int(m[at]) + d)
			out = append(out, m)
		}
	}
	set := func(at int, v ...byte) {
		if at < L {
			m := append(append(append([]byte(nil), b[:at]...), v...), b[at+1:]...)
			out = append(out, m)
		}
	}
	hdr := 0 // position of the first run header
	switch kind {
	case "dbp32", "dbp64", "dlba", "dba", "dba_flba":
		// 80 01 | 04 | total | first ...
		lie(3, 1)
		lie(3, -1)
		lie(3, 37)
		lie(2, 4)                            // 8 mini-blocks
		lie(2, -4)                           // no mini-block
		lie(2, -1)                           // 3 mini-blocks
		lie(1, 1)                            // block size 256
		lie(0, 1)                            // block size 129
		set(3, 0xff, 0xff, 0xff, 0xff, 0x07) // MaxInt32 values
		set(3, 0x80, 0x80, 0x80, 0x80, 0x08) // MaxInt32 + 1 values
		// a min delta outside int32 (truncated by decodeInt32, kept by decodeInt64),
		// a first value outside int32, bit widths at and above the width of the type
		if p := blockStart(b); p > 0 && p < L {
			_, n := binary.Varint(b[p:])
			if n < 0 { // (no block: the bytes behind the header are values, not a varint)
				n = 0
			}
			for _, md := range []int64{1<<40 + 5, -(1 << 35) - 3, 1<<31 + 1} {
				out = append(out, append(append(append([]byte(nil), b[:p]...), binary.AppendVarint(nil, md)...), b[p+n:]...))
			}
			if q := p + n; n > 0 && q < L {
				for _, w := range []byte{32, 33, 64, 65, 255} {
					m := append([]byte(nil), b...)
					m[q] = w
					out = append(out, m)
				}
			}
		}
		return append(out, append(append([]byte(nil), b...), 0), append(append([]byte(nil), b...), 0x03, 0x88, 0xc6, 0xfa))
	case "bool":
		lie(0, 1)
		lie(0, -1)
		hdr = 4
	case "dict":
		lie(0, 1)
		lie(0, -1)
		hdr = 1
	}
	if hdr < L {
		lie(hdr, 2)
		lie(hdr, -2)
		lie(hdr, 1)                                                          // run-length <-> bit-packed
		set(hdr, 0x00, b[hdr])                                               // an empty run first
		set(hdr, b[hdr]|0x80, 0x00)                                          // non-canonical varint
		set(hdr, 0xfe, 0xff, 0xff, 0xff, 0x0f)                               // MaxInt32 values
		set(hdr, 0x80, 0x80, 0x80, 0x80, 0x10)                               // MaxInt32 + 1 values
		set(hdr, 0xff, 0xff, 0xff, 0xff, 0xff, 0xff, 0xff, 0xff, 0xff, 0x01) // 2^63 groups
		set(hdr, 0xff, 0xff, 0xff, 0xff, 0xff, 0xff, 0xff, 0xff, 0xff, 0x02) // varint overflow
	}
	// trailing bytes
	out = append(out, append(append([]byte(nil), b...), 0), append(append([]byte(nil), b...), 0x03, 0x88, 0xc6, 0xfa))
	return out
}

// blockStart returns the offset of the first block of a DELTA_BINARY_PACKED
// section (behind the four header fields), 0 when the header does not parse.
func blockStart(b []byte) int {
	p := 0
	for i := 0; i < 4; i++ {
		_, n := binary.Uvarint(b[p:])
		if n <= 0 {
			return 0
		}
		p += n
	}
	return p
}

// decoderTie is called by checkInner with the bytes Go encoded.
func (k *checker) decoderTie(rng *rand.Rand, kind string, width int, got []byte, wantVals string) {
	c := k.c
	_ = wantVals
	if !c.HasOracle() || !k.ok || !k.tie || len(got) > tieMaxLen || os.Getenv("C04_GODEC") == "off" {
		return
	}
	// (a) the bytes Go encoded: the model of the Go decoder decodes them to the input
	// (Go's decoder returned wantVals; the specification decoder was run on these bytes by checkInner)
	if !k.tieStream(kind, width, got, "Go's bytes", true) {
		return
	}
	// (b) malformed streams
	if k.fuzz == 0 || len(got) > fuzzMaxLen {
		return
	}
	full := k.fuzz == 2 && len(got) <= 20
	for _, mu := range mutations(rng, kind, got, full) {
		if bytes.Equal(mu, got) {
			continue
		}
		if !k.tieStream(kind, width, mu, "mutation of Go's encoding of the case", false) {
			return
		}
	}
}

// ---- foreign streams -------------------------------------------------------

type frun struct {
	Count  int      `json:"count,omitempty"`  // run-length run: number of values
	Val    uint32   `json:"val,omitempty"`    //                 the value
	Groups []uint32 `json:"groups,omitempty"` // bit-packed run: 8*g values
}

func putUvarint(b []byte, v uint64) []byte {
	var t [binary.MaxVarintLen64]byte
	return append(b, t[:binary.PutUvarint(t[:], v)]...)
}

// serializeRuns writes the runs as Encodings.md describes them.
func serializeRuns(w int, runs []frun) (stream []byte, vals []uint32, lastBP int) {
	lastBP = -1
	for _, r := range runs {
		if r.Groups == nil {
			stream = putUvarint(stream, uint64(r.Count)<<1)
			for i := 0; i < (w+7)/8; i++ {
				stream = append(stream, byte(r.Val>>(8*i)))
			}
			for i := 0; i < r.Count; i++ {
				vals = append(vals, r.Val)
			}
			lastBP = -1
			continue
		}
		stream = putUvarint(stream, uint64(len(r.Groups)/8)<<1|1)
		lastBP = len(stream)
		var acc uint64
		nbits := 0
		for _, v := range r.Groups {
			acc |= uint64(v) << nbits
			nbits += w
			for nbits >= 8 {
				stream = append(stream, byte(acc))
				acc >>= 8
				nbits -= 8
			}
		}
		vals = append(vals, r.Groups...)
	}
	return
}

// foreignLevelsWidth0BitPacked: bit-packed runs at bit width 0 in the levels
// generator (before 3bd17ac the amd64 kernel decodeBytesBitpackBMI2 returned the
// bytes around its (empty) input for them; portable code: zeros).
var foreignLevelsWidth0BitPacked = true

func genRuns(rng *rand.Rand, w int, rleOnly bool) []frun {
	n := 1 + rng.Intn(6)
	max := uint32(1)<<uint(w) - 1
	if w == 32 {
		max = ^uint32(0)
	}
	val := func() uint32 {
		switch rng.Intn(4) {
		case 0:
			return max
		case 1:
			return 0
		}
		if max == ^uint32(0) {
			return rng.Uint32()
		}
		return uint32(rng.Int63n(int64(max) + 1))
	}
	runs := make([]frun, n)
	for i := range runs {
		if rleOnly || rng.Intn(3) > 0 {
			counts := []int{1, 2, 3, 5, 7, 8, 9, 10, 13, 15, 16, 17, 23, 24, 31, 33, 63, 64, 65, 100, 127, 128, 129, 1 + rng.Intn(300)}
			runs[i] = frun{Count: counts[rng.Intn(len(counts))], Val: val()}
			if rng.Intn(40) == 0 { // run headers of three bytes: more values than Go's encoders put in one run
				runs[i].Count = []int{8191, 8192, 8193, 8192 + rng.Intn(9000)}[rng.Intn(4)]
			}
		} else {
			groups := 1 + rng.Intn(3)
			if rng.Intn(10) == 0 { // bit-packed runs of many groups: run headers of two bytes from 64 groups on
				groups = []int{9, 31, 63, 64, 65, 127, 128, 64 + rng.Intn(100)}[rng.Intn(8)]
			}
			g := make([]uint32, 8*groups)
			for j := range g {
				g[j] = val()
			}
			runs[i] = frun{Groups: g}
		}
	}
	return runs
}

type foreignCase struct {
	Kind  string `json:"kind"`
	Width int    `json:"width"`
	Runs  []frun `json:"runs"`
}

// checkForeign: Go must decode a conforming stream to the values it was built from.
func (k *checker) checkForeign(fc *foreignCase) {
	c := k.c
	body, vals, lastBP := serializeRuns(fc.Width, fc.Runs)
	// the page: booleans carry the length of the runs in front, dictionary indexes their bit width
	page := func(body []byte) []byte {
		switch fc.Kind {
		case "bool":
			return append(binary.LittleEndian.AppendUint32(nil, uint32(len(body))), body...)
		case "dict":
			return append([]byte{byte(fc.Width)}, body...)
		}
		return body
	}
	stream := page(body)
	us := make([]uint64, len(vals))
	for i, v := range vals {
		us[i] = uint64(v)
	}
	want := uList(us)
	g := goDecode(fc.Kind, fc.Width, exact(stream))
	stats.foreign++
	fail := func(class, what string) {
		k.ok = false
		c.Violation(class, what, k.cs)
	}
	desc := fmt.Sprintf("%s width %d, conforming stream %s", fc.Kind, fc.Width, core.Hexs(stream))
	switch {
	case g.status == "panic":
		fail("decoder-panic", desc+": Go decoder panics: "+g.vals)
		return
	case g.status != "ok":
		fail("foreign-stream", desc+": Go decoder returns an error")
		return
	}
	if fc.Kind == "bool" {
		// packed bits: the first len(vals) must be the values
		d, _ := (&rle.Encoding{BitWidth: 1}).DecodeBoolean(nil, exact(stream))
		if 8*len(d) < len(vals) {
			fail("foreign-stream", fmt.Sprintf("%s: %d values expected, Go returns %d bytes", desc, len(vals), len(d)))
			return
		}
		for i, v := range vals {
			if uint32(d[i/8]>>(uint(i)%8))&1 != v {
				fail("foreign-stream", fmt.Sprintf("%s: value %d of %d is %d, Go returns the packed bits %x without error", desc, i, len(vals), v, d))
				return
			}
		}
	} else if g.vals != want {
		fail("foreign-stream", fmt.Sprintf("%s: expected %s, Go returns %s without error", desc, core.Trunc(want, 300), core.Trunc(g.vals, 300)))
		return
	}
	// a bit-packed block cut short must be an error
	if lastBP >= 0 && len(body) > lastBP {
		cut := lastBP + k.cutRng.Intn(len(body)-lastBP)
		t := page(body[:cut])
		stats.foreignCut++
		for _, src := range [][]byte{exact(t), roomy(t)} {
			if gt := goDecode(fc.Kind, fc.Width, src); gt.status != "err" {
				fail("truncated-block-accepted", fmt.Sprintf("%s width %d: the stream %s ends inside a bit-packed block (cap-len = %d): Go returns %s", fc.Kind, fc.Width, core.Hexs(t), cap(src)-len(src), gt))
				return
			}
		}
	}
	// what the reused destination buffers held must not change the outcome
	if g3 := goDecodeInto(fc.Kind, fc.Width, exact(stream), true); g3 != g {
		fail("dst-history-dependence", fmt.Sprintf("%s: into nil destinations Go returns %s, into reused destinations holding older data %s", desc, g, g3))
		return
	}
	if !c.HasOracle() {
		return
	}
	// the model of the Go decoder and the specification decoder agree
	if m := modelDecode(c, fc.Kind, fc.Width, stream); m != g {
		k.corr("go_decoder."+fc.Kind+".foreign", g.String(), m.String())
		return
	}
	if fc.Kind == "bool" {
		if sd := c.Ask(fmt.Sprintf("c04.rle_bool_dec %d %s", len(vals), core.Hexs(stream))); sd != want {
			k.corr("foreign.generator.bool", want, sd)
		}
	} else if fc.Kind == "dict" {
		if sd := c.Ask("c04.dict_dec " + core.Hexs(stream)); sd != want {
			k.corr("foreign.generator.dict", want, sd)
		}
	} else if sd := c.Ask(fmt.Sprintf("c04.rle_dec %d %s", fc.Width, core.Hexs(stream))); sd != want {
		k.corr("foreign.generator", want, sd)
	}
}

func runForeign(c *core.Ctx) {
	if os.Getenv("C04_GODEC") == "off" {
		return
	}
	rng := c.Rng
	n := c.N(1200, 10000)
	for i := 0; i < n; i++ {
		var fc foreignCase
		switch i % 7 {
		case 0, 3:
			fc = foreignCase{Kind: "bool", Width: 1}
		case 1, 4:
			fc = foreignCase{Kind: "levels", Width: rng.Intn(9)}
		case 6: // RLE_DICTIONARY index pages: the bit width in front, any width up to 32
			fc = foreignCase{Kind: "dict", Width: rng.Intn(33)}
		default:
			fc = foreignCase{Kind: "int32", Width: []int{0, 1, 2, 3, 5, 7, 8, 9, 12, 16, 17, 24, 31, 32}[rng.Intn(14)]}
		}
		fc.Runs = genRuns(rng, fc.Width, fc.Kind == "levels" && fc.Width == 0 && !foreignLevelsWidth0BitPacked)
		cs := &c04Case{Enc: "foreign", Foreign: &fc}
		if c.Probe(func() { check(c, cs) }) {
			// shrink: drop runs
			for changed := true; changed; {
				changed = false
				for j := range fc.Runs {
					t := fc
					t.Runs = append(append([]frun(nil), fc.Runs[:j]...), fc.Runs[j+1:]...)
					tc := &c04Case{Enc: "foreign", Foreign: &t}
					if len(t.Runs) > 0 && c.Probe(func() { check(c, tc) }) {
						fc, changed = t, true
						break
					}
				}
			}
			check(c, &c04Case{Enc: "foreign", Foreign: &fc})
		}
		c.Case("foreign/"+fc.Kind, fmt.Sprint(fc), len(fc.Runs) >= 2)
		if i < 2 {
			c.Sample(fc)
		}
	}
}

// checkStream replays one recorded stream.
func (k *checker) checkStream(kind string, width int, stream []byte) {
	if !k.c.HasOracle() {
		return
	}
	k.tieStream(kind, width, stream, "replay", false)
}

func reportDecoderStats(c *core.Ctx) {
	if stats.streams == 0 {
		return
	}
	c.Note("Go decoders vs their Gallina models (Enc/GoDec*.v): %d streams (Go's own bytes; truncations, bit flips, lying counts, empty runs, trailing bytes derived from them; slices with cap = len): Go ok %d, error %d, no panic; outcome and values equal to the model's on all of them unless a corr:C04.go_decoder.* mismatch is listed", stats.streams, stats.goOK, stats.goErr)
	c.Note("Go vs specification decoder on those streams: Go accepts / specification rejects %d (Go tolerates a last DELTA mini-block without padding and a short bit-width list), Go rejects / specification accepts %d (Go's header checks, 10-byte varints, run counts above MaxInt32, mini-block bit widths above the width of the type), both accept with different values only when an empty run is present: %d", stats.lenient, stats.strict, stats.emptyRuns)
	c.Note("foreign streams (conforming RLE/bit-packed streams with run-length runs of any length and bit-packed runs of any number of groups, levels / int32 / dictionary indexes / booleans): %d decoded by Go to the values they were built from; %d of them cut inside their last bit-packed block: Go returns an error (with and without spare capacity)", stats.foreign, stats.foreignCut)
	for kind, ex := range stats.exEmpty {
		c.Note("observation: a run header announcing 0 values is skipped by Go's %s decoder without reading a value, the format's grammar gives a run-length run its value: %s", kind, core.Trunc(ex, 500))
	}
	c.Note("malformed fixed-length DELTA_BYTE_ARRAY streams whose values do not have the declared width (accepted by Go in every build; the AVX2 kernels and the portable loop lay them out differently, so their values are not compared with the model of the portable code): %d", stats.flbaWrongWidth)
	for kind, ex := range stats.exOverread {
		c.Note("observation (malformed input, %d streams): Go decoder %s reads beyond len(src): %s", stats.overread, kind, core.Trunc(ex, 600))
	}
}
