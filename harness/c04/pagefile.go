package main

// RLE_DICTIONARY column chunks of a FOREIGN writer, read through the file
// reader (OpenFile, Pages / Rows): one dictionary page and several version 1
// data pages put together here byte by byte -- thrift page headers, optional
// definition levels, the bit width and the runs of the index stream -- behind
// the schema and footer of a one-row file of the library (the footer is
// rewritten: offsets, sizes, counts; no statistics, no page index).  What the
// file reader adds to page.go: the pooled buffers (each page is decoded into
// the buffers the pages before it gave back), EstimateDecodeSize, the level
// decoding and the optional-page wrapper.
//
// Pages: index streams of run-length and bit-packed runs of any shape; pages
// whose stream holds the padding of a last bit-packed group; and SHORT pages
// (fewer indexes than the non-null values of the page: not conforming, see
// page.go) behind pages that filled the buffers with other indexes.
//
// Checked: the values read page by page (Release after each page, as the
// readers of the library do) and row by row are the values the indexes
// designate (missing indexes: entry 0, the model's reading of the library's
// leniency, reported as a correspondence mismatch when the file is not
// conforming) and do not change when released buffers are overwritten with
// 0xA5 bytes before they are reused (VerifSetPoison): class
// dst-history-dependence.

import (
	"bytes"
	"encoding/binary"
	"fmt"
	"io"
	"math/bits"

	"github.com/parquet-go/parquet-go"
	"github.com/parquet-go/parquet-go/encoding/thrift"
	"github.com/parquet-go/parquet-go/format"

	"verif/harness/core"
)

type foreignPage struct {
	Runs  []frun `json:"runs,omitempty"`  // the index stream
	Extra int    `json:"extra,omitempty"` // non-null values of the page beyond the indexes of the stream (> 0: short page); < 0: padding of the last bit-packed group
	Nulls []int  `json:"nulls,omitempty"` // optional column: lengths of alternating runs of non-null / null values (the non-null ones sum up to the values of the page)
}

type dictPagesFileCase struct {
	Kind     string        `json:"kind"`
	D        int           `json:"d"`
	Width    int           `json:"width"`
	Optional bool          `json:"optional,omitempty"`
	Pages    []foreignPage `json:"pages"`
}

func (fc *dictPagesFileCase) String() string {
	return fmt.Sprintf("%s d=%d w=%d opt=%v pages=%v", fc.Kind, fc.D, fc.Width, fc.Optional, fc.Pages)
}

// plainValues: the values of the keys as Type.NewValues takes them
func (k *dictKind) plainValues(keys []int) (data []byte, offsets []uint32) {
	t := k.node.Type()
	switch t.Kind() {
	case parquet.Boolean:
		data = make([]byte, (len(keys)+7)/8)
		for i, key := range keys {
			if key&1 == 1 {
				data[i/8] |= 1 << uint(i%8)
			}
		}
	case parquet.ByteArray:
		offsets = []uint32{0}
		for _, key := range keys {
			data = append(data, baOf(key)...)
			offsets = append(offsets, uint32(len(data)))
		}
	default:
		for _, key := range keys {
			data = append(data, k.val(key).Bytes()...)
		}
	}
	return
}

// build returns the file, the values of its pages (nil = null) and whether
// every page is conforming.
func (fc *dictPagesFileCase) build() (file []byte, want [][]*int, conforming bool, err error) {
	kind := kindNamed(fc.Kind)
	node := parquet.Encoded(kind.node, &parquet.RLEDictionary)
	if fc.Optional {
		node = parquet.Optional(node)
	}
	schema := parquet.NewSchema("t", parquet.Group{"v": node})
	// the skeleton: schema and footer of a file of the library
	var skel bytes.Buffer
	w := parquet.NewWriter(&skel, schema)
	dl := 0
	if fc.Optional {
		dl = 1
	}
	if _, err = w.WriteRows([]parquet.Row{{kind.val(0).Level(0, dl, 0)}}); err != nil {
		return
	}
	if err = w.Close(); err != nil {
		return
	}
	sf, err := parquet.OpenFile(bytes.NewReader(skel.Bytes()), int64(skel.Len()))
	if err != nil {
		return
	}
	md := *sf.Metadata()
	if len(md.RowGroups) != 1 || len(md.RowGroups[0].Columns) != 1 {
		return nil, nil, false, fmt.Errorf("skeleton: %d row groups", len(md.RowGroups))
	}
	proto := &thrift.CompactProtocol{}
	out := []byte("PAR1")
	putPage := func(h *format.PageHeader, body []byte) error {
		h.UncompressedPageSize, h.CompressedPageSize = int32(len(body)), int32(len(body))
		hb, err := thrift.Marshal(proto, h)
		if err != nil {
			return err
		}
		out = append(append(out, hb...), body...)
		return nil
	}
	// dictionary page: PLAIN
	keys := make([]int, fc.D)
	for i := range keys {
		keys[i] = i
	}
	t := kind.node.Type()
	data, offsets := kind.plainValues(keys)
	dictBody, err := t.Encode(nil, t.NewValues(data, offsets), &parquet.Plain)
	if err != nil {
		return
	}
	dictOffset := int64(len(out))
	if err = putPage(&format.PageHeader{Type: format.DictionaryPage,
		DictionaryPageHeader: thrift.New(format.DictionaryPageHeader{NumValues: int32(fc.D), Encoding: format.Plain})}, dictBody); err != nil {
		return
	}
	dataOffset := int64(len(out))
	conforming = true
	total := 0
	for _, pg := range fc.Pages {
		body, idx, _ := serializeRuns(fc.Width, pg.Runs)
		nonNull := len(idx) + pg.Extra
		if nonNull < 0 || (pg.Extra < 0 && (pg.Extra < -7 || len(pg.Runs) == 0 || pg.Runs[len(pg.Runs)-1].Groups == nil)) {
			return nil, nil, false, fmt.Errorf("page: extra %d", pg.Extra)
		}
		if pg.Extra > 0 {
			conforming = false
		}
		var vals []*int
		at := 0
		next := func() *int {
			v := 0
			if at < len(idx) {
				v = int(idx[at])
			}
			at++
			return &v
		}
		var pageBody []byte
		if fc.Optional {
			var lruns []frun
			left := nonNull
			for i, n := range pg.Nulls {
				if n <= 0 {
					continue
				}
				if i%2 == 0 {
					n = min(n, left)
					if n == 0 {
						continue
					}
					left -= n
					lruns = append(lruns, frun{Count: n, Val: 1})
					for j := 0; j < n; j++ {
						vals = append(vals, next())
					}
				} else {
					lruns = append(lruns, frun{Count: n, Val: 0})
					for j := 0; j < n; j++ {
						vals = append(vals, nil)
					}
				}
			}
			if left > 0 {
				lruns = append(lruns, frun{Count: left, Val: 1})
				for j := 0; j < left; j++ {
					vals = append(vals, next())
				}
			}
			lv, _, _ := serializeRuns(1, lruns)
			pageBody = append(binary.LittleEndian.AppendUint32(nil, uint32(len(lv))), lv...)
		} else {
			for j := 0; j < nonNull; j++ {
				vals = append(vals, next())
			}
		}
		if len(vals) == 0 {
			continue // (a page without values is another subject)
		}
		pageBody = append(append(pageBody, byte(fc.Width)), body...)
		if err = putPage(&format.PageHeader{Type: format.DataPage,
			DataPageHeader: thrift.New(format.DataPageHeader{NumValues: int32(len(vals)), Encoding: format.RLEDictionary,
				DefinitionLevelEncoding: format.RLE, RepetitionLevelEncoding: format.RLE})}, pageBody); err != nil {
			return
		}
		want = append(want, vals)
		total += len(vals)
	}
	if total == 0 {
		return nil, nil, false, fmt.Errorf("no values")
	}
	// the footer
	size := int64(len(out)) - dictOffset
	rgs := append(thrift.Slice[format.RowGroup]{}, md.RowGroups...)
	rg := &rgs[0]
	cols := append(thrift.Slice[format.ColumnChunk]{}, rg.Columns...)
	col := &cols[0]
	rg.Columns = cols
	md.RowGroups = rgs
	md.NumRows, rg.NumRows = int64(total), int64(total)
	rg.TotalByteSize, rg.TotalCompressedSize, rg.FileOffset = size, size, dictOffset
	col.FileOffset = 0
	col.OffsetIndexOffset, col.OffsetIndexLength, col.ColumnIndexOffset, col.ColumnIndexLength = 0, 0, 0, 0
	cm := &col.MetaData
	cm.Encoding = thrift.Slice[format.Encoding]{format.Plain, format.RLE, format.RLEDictionary}
	cm.Codec = format.Uncompressed
	cm.NumValues = int64(total)
	cm.TotalCompressedSize, cm.TotalUncompressedSize = size, size
	cm.DataPageOffset, cm.DictionaryPageOffset, cm.IndexPageOffset = dataOffset, dictOffset, 0
	cm.Statistics = format.Statistics{}
	cm.EncodingStats = nil
	cm.BloomFilterOffset, cm.BloomFilterLength = 0, 0
	cm.SizeStatistics = format.SizeStatistics{}
	footer, err := thrift.Marshal(proto, &md)
	if err != nil {
		return
	}
	out = append(out, footer...)
	out = binary.LittleEndian.AppendUint32(out, uint32(len(footer)))
	out = append(out, "PAR1"...)
	return out, want, conforming, nil
}

// readForeignFile returns the values of the file, page by page through Pages
// (each page released before the next is read), then row by row.
func readForeignFile(file []byte) (out string, pages [][]parquet.Value, rows []parquet.Value) {
	defer func() {
		if r := recover(); r != nil {
			out = "panic: " + core.Trunc(fmt.Sprint(r), 160)
		}
	}()
	f, err := parquet.OpenFile(bytes.NewReader(file), int64(len(file)))
	if err != nil {
		return "OpenFile: " + err.Error(), nil, nil
	}
	if n := len(f.RowGroups()); n != 1 {
		return fmt.Sprintf("%d row groups", n), nil, nil
	}
	rg := f.RowGroups()[0]
	pr := rg.ColumnChunks()[0].Pages()
	defer pr.Close()
	for {
		page, err := pr.ReadPage()
		if err == io.EOF {
			break
		}
		if err != nil {
			return "ReadPage: " + err.Error(), pages, nil
		}
		var vals []parquet.Value
		vr := page.Values()
		chunk := make([]parquet.Value, 11)
		for {
			n, err := vr.ReadValues(chunk)
			for _, v := range chunk[:n] {
				vals = append(vals, v.Clone())
			}
			if err == io.EOF {
				break
			}
			if err != nil {
				parquet.Release(page)
				return "ReadValues: " + err.Error(), pages, nil
			}
			if n == 0 {
				parquet.Release(page)
				return "ReadValues returns 0, nil", pages, nil
			}
		}
		parquet.Release(page)
		pages = append(pages, vals)
	}
	rr := rg.Rows()
	defer rr.Close()
	buf := make([]parquet.Row, 37)
	for {
		n, err := rr.ReadRows(buf)
		for _, row := range buf[:n] {
			if len(row) != 1 {
				return fmt.Sprintf("a row of %d values", len(row)), pages, rows
			}
			rows = append(rows, row[0].Clone())
		}
		if err == io.EOF {
			break
		}
		if err != nil {
			return "ReadRows: " + err.Error(), pages, rows
		}
		if n == 0 {
			return "ReadRows returns 0, nil", pages, rows
		}
	}
	return "ok", pages, rows
}

func showValues(vs []parquet.Value) string {
	s := ""
	for i, v := range vs {
		if i > 0 {
			s += ","
		}
		if i == 24 {
			return s + "..."
		}
		s += showValue(v)
	}
	return s
}

func (k *checker) checkPagesFileCase(fc *dictPagesFileCase) {
	kind := kindNamed(fc.Kind)
	if kind == nil || kind.isNull() || fc.D < 1 || fc.Width < bits.Len(uint(fc.D-1)) || fc.Width > 32 || (kind.isBool() && fc.D > 2) || len(fc.Pages) == 0 {
		return
	}
	for _, pg := range fc.Pages {
		_, idx, _ := serializeRuns(fc.Width, pg.Runs)
		for _, i := range idx {
			if int(i) >= fc.D {
				return
			}
		}
	}
	file, want, conforming, err := fc.build()
	if err != nil {
		return // not a case
	}
	what := fmt.Sprintf("file of a foreign writer, one %s column (optional: %v), dictionary page of %d values, %d RLE_DICTIONARY data pages", fc.Kind, fc.Optional, fc.D, len(want))
	if !conforming {
		what += " (some hold fewer indexes than values)"
	}
	// expected values
	var wantPages [][]parquet.Value
	var wantRows []parquet.Value
	for _, pg := range want {
		var vs []parquet.Value
		for _, ix := range pg {
			v := parquet.NullValue()
			if ix != nil {
				v = kind.val(*ix)
			}
			vs = append(vs, v)
		}
		wantPages = append(wantPages, vs)
		wantRows = append(wantRows, vs...)
	}
	same := func(a, b []parquet.Value) bool {
		if len(a) != len(b) {
			return false
		}
		for i := range a {
			if a[i].IsNull() != b[i].IsNull() || !a[i].IsNull() && !sameValue(a[i], b[i]) {
				return false
			}
		}
		return true
	}
	diff := func(st string, pages [][]parquet.Value, rows []parquet.Value) string {
		if st != "ok" {
			return st
		}
		if len(pages) != len(wantPages) {
			return fmt.Sprintf("%d pages read", len(pages))
		}
		for i := range pages {
			if !same(pages[i], wantPages[i]) {
				return fmt.Sprintf("page %d of %d: read %s, the page holds %s", i+1, len(pages), showValues(pages[i]), showValues(wantPages[i]))
			}
		}
		if !same(rows, wantRows) {
			return fmt.Sprintf("rows: read %s, the pages hold %s", showValues(rows), showValues(wantRows))
		}
		return ""
	}
	st1, pages1, rows1 := readForeignFile(file)
	parquet.VerifSetPoison(true)
	st2, pages2, rows2 := readForeignFile(file)
	parquet.VerifSetPoison(false)
	d1, d2 := diff(st1, pages1, rows1), diff(st2, pages2, rows2)
	switch {
	case d1 == "" && d2 == "":
	case d1 != d2:
		if d1 == "" {
			d1 = "the values of the pages"
		}
		if d2 == "" {
			d2 = "the values of the pages"
		}
		k.viol("dst-history-dependence", fmt.Sprintf("%s: what is read depends on what the reused buffers held: %s; with released buffers overwritten by 0xA5 bytes: %s", what, d1, d2))
	case conforming:
		k.viol("foreign-file", what+": "+d1)
	default:
		// the same in both histories, but not the zero extension of newIndexedPage
		k.corr("go_indexed_page.file", core.Trunc(d1, 400), "missing indexes read as 0")
	}
}

func runPagesFile(c *core.Ctx, fc *dictPagesFileCase, bucket string) {
	cs := &c04Case{Enc: "dict-pages-file", PagesFile: fc}
	if c.Probe(func() { check(c, cs) }) {
		cur := *fc
		fails := func(t *dictPagesFileCase) bool {
			return c.Probe(func() { check(c, &c04Case{Enc: "dict-pages-file", PagesFile: t}) })
		}
		for changed := true; changed; {
			changed = false
			var cands []dictPagesFileCase
			for j := range cur.Pages {
				t := cur
				t.Pages = append(append([]foreignPage(nil), cur.Pages[:j]...), cur.Pages[j+1:]...)
				cands = append(cands, t)
			}
			for j, pg := range cur.Pages {
				for r := range pg.Runs {
					if pg.Extra < 0 && r == len(pg.Runs)-1 {
						continue
					}
					t := cur
					t.Pages = append([]foreignPage(nil), cur.Pages...)
					t.Pages[j].Runs = append(append([]frun(nil), pg.Runs[:r]...), pg.Runs[r+1:]...)
					cands = append(cands, t)
				}
				if len(pg.Nulls) > 0 {
					t := cur
					t.Pages = append([]foreignPage(nil), cur.Pages...)
					t.Pages[j].Nulls = nil
					cands = append(cands, t)
				}
				if pg.Extra > 1 {
					t := cur
					t.Pages = append([]foreignPage(nil), cur.Pages...)
					t.Pages[j].Extra = pg.Extra / 2
					cands = append(cands, t)
				}
			}
			if cur.Optional {
				t := cur
				t.Optional = false
				cands = append(cands, t)
			}
			if cur.Kind != "int32" {
				t := cur
				t.Kind = "int32"
				cands = append(cands, t)
			}
			for i := range cands {
				if len(cands[i].Pages) > 0 && fails(&cands[i]) {
					cur, changed = cands[i], true
					break
				}
			}
		}
		check(c, &c04Case{Enc: "dict-pages-file", PagesFile: &cur})
	}
	short := false
	for _, pg := range fc.Pages {
		short = short || pg.Extra > 0
	}
	if short {
		c.Res.Buckets["dict/pages-file:with-short-index-streams"]++
	}
	c.Case("dict/pages-file/"+bucket, fc.String(), len(fc.Pages) >= 2)
}

func dictPagesFile(c *core.Ctx) {
	rng := dictRng(c, 7)
	total, short := 0, 0
	for ki := range dictKinds {
		kind := &dictKinds[ki]
		if kind.isNull() {
			continue
		}
		for rep := 0; rep < c.N(3, 30); rep++ {
			d := []int{1, 2, 3, 5, 16, 17, 200}[rng.Intn(7)]
			if kind.isBool() {
				d = 1 + rng.Intn(2)
			}
			w := bits.Len(uint(d - 1))
			if rng.Intn(4) == 0 {
				w = min(32, w+1+rng.Intn(8))
			}
			fc := &dictPagesFileCase{Kind: kind.name, D: d, Width: w, Optional: rng.Intn(3) == 0}
			withShort := rep%3 != 0
			np := 2 + rng.Intn(4)
			for p := 0; p < np; p++ {
				pg := foreignPage{Runs: genIndexRuns(rng, w, d)}
				if n := len(pg.Runs); pg.Runs[n-1].Groups != nil && rng.Intn(2) == 0 {
					pg.Extra = -rng.Intn(8)
				} else if withShort && p > 0 && rng.Intn(2) == 0 {
					pg.Extra = []int{1, 2, 7, 8, 9, 31, 64, 300}[rng.Intn(8)]
					if rng.Intn(4) == 0 {
						pg.Runs = nil // only the bit width
					}
				}
				if fc.Optional {
					for i := rng.Intn(5); i > 0; i-- {
						pg.Nulls = append(pg.Nulls, 1+rng.Intn(40))
					}
				}
				fc.Pages = append(fc.Pages, pg)
			}
			// a page whose indexes are all the last entry first: what a short page behind it finds in the buffers
			if withShort && rng.Intn(2) == 0 {
				fc.Pages[0] = foreignPage{Runs: []frun{{Count: 300 + rng.Intn(200), Val: uint32(d - 1)}}}
			}
			for _, pg := range fc.Pages {
				if pg.Extra > 0 {
					short++
					break
				}
			}
			total++
			runPagesFile(c, fc, kind.name)
			if ki == 1 && rep < 1 {
				c.Sample(fc)
			}
		}
	}
	c.Note("RLE_DICTIONARY column chunks of a foreign writer read through the file reader (pagefile.go), %d dictionary kinds: %d files of one dictionary page and 2..5 version 1 data pages built byte by byte (required and optional columns; index streams of run-length and bit-packed runs at the needed and at wider bit widths, padded last groups), read page by page with Release and row by row, once as is and once with released buffers overwritten by 0xA5 bytes: the values are those the indexes designate in both; %d of the files have pages with FEWER indexes than values (not conforming; accepted by the library, missing indexes read as entry 0) behind pages that left other indexes in the pooled buffers", len(dictKinds)-1, total, short)
}
