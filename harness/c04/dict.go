package main

// RLE_DICTIONARY at the level of values: the dictionaries that turn values into
// the indexes which the RLE/bit-packed hybrid encodes (main.go checks the index
// encoding itself against the model).  Losslessness of the encoding needs, for
// every dictionary kind of the library and whatever the dictionary object was
// used for before:
//
//	Index(indexes[i]) == values[i]   after Insert(indexes, values)
//
// Three families of scenarios:
//
//   - dictBulk: columns of every kind filled by ONE typed Write of many rows;
//   - dictLife: the life cycle of one Dictionary object through the public API
//     (NewDictionary over existing values, Insert, Lookup, Bounds, Page, Reset,
//     Insert again with overlapping and disjoint values);
//   - dictFile: files of several row groups (Flush, MaxRowsPerRowGroup), writers
//     and buffers reused through Reset, whose later row groups repeat and do not
//     repeat earlier values, with and without the fallback to PLAIN when the
//     dictionary outgrows DictionaryMaxBytes in the middle of a row group;
//     written through Writer.WriteRows (Dictionary.Insert of Values) and through
//     the typed GenericWriter/GenericBuffer (bulk insert of Go memory and the
//     scalar insert of time.Time fields), read back and compared.

import (
	"bytes"
	"encoding/binary"
	"fmt"
	"io"
	"math"
	"math/rand"
	"reflect"
	"sort"
	"strings"
	"time"

	"github.com/parquet-go/parquet-go"
	"github.com/parquet-go/parquet-go/deprecated"
	"github.com/parquet-go/parquet-go/format"
	"verif/harness/core"
)

// ---------------------------------------------------------------------------
// typed rows holding one column per dictionary kind

type dictRow struct {
	Bo  bool              `parquet:"bo,dict"`
	I32 int32             `parquet:"i32,dict"`
	I64 int64             `parquet:"i64,dict"`
	T96 deprecated.Int96  `parquet:"t96,dict"`
	U32 uint32            `parquet:"u32,dict"`
	U64 uint64            `parquet:"u64,dict"`
	F32 float32           `parquet:"f32,dict"`
	F64 float64           `parquet:"f64,dict"`
	S   string            `parquet:"s,dict"`
	B16 [16]byte          `parquet:"b16,dict"`
	U   [16]byte          `parquet:"u,uuid,dict"`
	B5  [5]byte           `parquet:"b5,dict"`
	Tm  time.Time         `parquet:"tm,dict,timestamp(microsecond)"`
	Dt  int32             `parquet:"dt,dict,date"`
	O   *int64            `parquet:"o,dict"`
	O96 *deprecated.Int96 `parquet:"o96,dict"`
	L   []string          `parquet:"l,dict"`
}

func dictRowOf(key int) dictRow {
	r := dictRow{Bo: key&1 == 1, I32: i32Of(key), I64: i64Of(key), T96: i96Of(key), U32: u32Of(key), U64: u64Of(key),
		F32: f32Of(key), F64: f64Of(key), S: string(baOf(key)), Dt: int32(key) * 3,
		Tm: time.Unix(int64(key)*1000, int64(key)*1000).UTC()}
	copy(r.B16[:], flbaOf(16, key))
	copy(r.U[:], flbaOf(16, key+1))
	copy(r.B5[:], flbaOf(5, key))
	if key%3 != 0 {
		v := int64(key) * 11
		r.O = &v
	}
	if key%4 != 1 {
		v := i96Of(key + 2)
		r.O96 = &v
	}
	for i := 0; i < key%3; i++ {
		r.L = append(r.L, fmt.Sprintf("l%d-%d", key, i))
	}
	return r
}

// diffDictRow names the first column in which two rows differ ("" if none);
// floating point columns are compared bit for bit.
func diffDictRow(a, b dictRow) string {
	if math.Float32bits(a.F32) != math.Float32bits(b.F32) {
		return fmt.Sprintf("f32: %x read back as %x", math.Float32bits(a.F32), math.Float32bits(b.F32))
	}
	if math.Float64bits(a.F64) != math.Float64bits(b.F64) {
		return fmt.Sprintf("f64: %x read back as %x", math.Float64bits(a.F64), math.Float64bits(b.F64))
	}
	if !a.Tm.Equal(b.Tm) {
		return fmt.Sprintf("tm: %v read back as %v", a.Tm, b.Tm)
	}
	a.F32, b.F32, a.F64, b.F64 = 0, 0, 0, 0
	a.Tm, b.Tm = time.Time{}, time.Time{}
	if len(a.L) == 0 {
		a.L = nil
	}
	if len(b.L) == 0 {
		b.L = nil
	}
	va, vb := reflect.ValueOf(a), reflect.ValueOf(b)
	for i := 0; i < va.NumField(); i++ {
		if !reflect.DeepEqual(va.Field(i).Interface(), vb.Field(i).Interface()) {
			x, y := va.Field(i), vb.Field(i)
			if x.Kind() == reflect.Ptr && !x.IsNil() && !y.IsNil() {
				x, y = x.Elem(), y.Elem()
			}
			return fmt.Sprintf("%s: %v read back as %v", va.Type().Field(i).Name, x.Interface(), y.Interface())
		}
	}
	return ""
}

// dictBulk: RLE_DICTIONARY columns of every dictionary kind filled by ONE
// typed Write call of many rows (the dictionaries insert in chunks; a new key
// may first appear deep inside a batch), read back and compared.  The bulk
// insertion routines are not reached by row-at-a-time writes.
func dictBulk(c *core.Ctx) {
	for family := range structFamilies {
		sizes, strides := []int{1, 64, 511, 512, 513, 1100, 2500}, []int{1, 37, 300, 700}
		if family > 0 {
			// the structured key families (see structBase): many distinct values per column
			sizes, strides = []int{513, 2500}, []int{1, 3}
			if !c.Quick() {
				sizes, strides = []int{64, 513, 1100, 2500, 6000}, []int{1, 3, 37}
			}
		}
		for _, n := range sizes {
			for _, stride := range strides {
				dictBulkCase(c, family, n, stride)
			}
		}
	}
}

func dictBulkCase(c *core.Ctx, family, n, stride int) {
	rows := make([]dictRow, n)
	for i := range rows {
		rows[i] = dictRowOf(structKey(family, i/stride))
	}
	what := fmt.Sprintf("GenericBuffer[dictRow].Write of %d rows in one call, a new key every %d rows, key family %s", n, stride, structFamilies[family])
	replay := map[string]any{"kind": "dict-bulk", "rows": n, "stride": stride, "family": family}
	bad := ""
	p := safely(func() {
		buf := parquet.NewGenericBuffer[dictRow]()
		if _, err := buf.Write(rows); err != nil {
			bad = "write: " + err.Error()
			return
		}
		out := make([]dictRow, n)
		r := parquet.NewGenericRowGroupReader[dictRow](buf)
		got, _ := r.Read(out)
		r.Close()
		if got != n {
			bad = fmt.Sprintf("%d rows read back", got)
			return
		}
		for i := range rows {
			if d := diffDictRow(rows[i], out[i]); d != "" {
				bad = fmt.Sprintf("row %d (key %d): column %s", i, structKey(family, i/stride), d)
				return
			}
		}
	})
	c.Res.Evaluations++
	if p != "" {
		c.Violation("dict-bulk", what+": panic "+core.Trunc(p, 200), replay)
	} else if bad != "" {
		c.Violation("dict-bulk", what+": "+bad, replay)
	}
	c.Case("dict/bulk", fmt.Sprintf("%s/%d/%d", structFamilies[family], n, stride), n > 1)
}

// ---------------------------------------------------------------------------
// values of every kind, as a function of a small integer key (low keys are the
// special values of the type; two keys may give the same value: the reference
// works on the values, not on the keys)

func mix32(key int) uint32 { return uint32(key) * 0x9E3779B1 }
func mix64(key int) uint64 { return uint64(key) * 0x9E3779B97F4A7C15 }

func u32Of(key int) uint32 {
	if key >= structBase {
		return uint32(i32Of(key))
	}
	return mix32(key)
}

func u64Of(key int) uint64 {
	if key >= structBase {
		return uint64(i64Of(key))
	}
	return mix64(key)
}

// STRUCTURED keys.  The values of the keys below structBase are special values
// and pseudo-random bytes: two distinct values differ in (nearly) every byte
// and in every aligned word.  Real columns are not like that - big-endian
// decimals and counters share their leading bytes, little-endian ones their
// trailing bytes, ids share a prefix or a suffix, neighbouring values differ in
// one byte - and a dictionary whose equality / hash looks at a part of the
// value only is lossless on the former and not on the latter.  A key
//
//	family<<20 | n        (family 1..4, n < 2^20)
//
// stands, for a type of w bytes (4: INT32/FLOAT, 8: INT64/DOUBLE, 12: INT96,
// w: FIXED_LEN_BYTE_ARRAY(w), byte arrays: 16, 9, 24, 33 by n), for
//
//	1 be     the big-endian number n+1 in w bytes: all values share their leading bytes
//	2 le     the little-endian number n+1: all values share their trailing bytes
//	3 byte   one fixed byte string with ONE byte changed (position n mod w, by 1 + n/w mod 255):
//	         any two values differ in one or two bytes, every aligned half / word is shared by most
//	4 halves both halves of the value equal (the low and the high 16 / 32 / 64 bits, w/2 bytes)
//
// The scenarios (dictBulk, dictLife, dictFile) are run over the plain keys and
// over each family (structKeys maps the keys of a case into a family).
const structBase = 1 << 20

var structFamilies = []string{"plain", "be", "le", "byte", "halves"}

func structKey(family, n int) int {
	if family == 0 {
		return n
	}
	return family<<20 | n&(structBase-1)
}

func structBytes(w, key int) []byte {
	family, n := key>>20&7, key&(structBase-1)
	b := make([]byte, w)
	if w == 0 {
		return b
	}
	switch family {
	case 1:
		x := uint64(n) + 1
		for i := w - 1; i >= 0 && x > 0; i-- {
			b[i] = byte(x)
			x >>= 8
		}
	case 2:
		x := uint64(n) + 1
		for i := 0; i < w && x > 0; i++ {
			b[i] = byte(x)
			x >>= 8
		}
	case 3:
		for i := range b {
			b[i] = byte(0xA5 + 31*i)
		}
		b[n%w] ^= byte(1 + n/w%255)
	default:
		h := w / 2
		if h == 0 {
			b[0] = byte(n)
			break
		}
		for i := 0; i < h; i++ {
			b[i] = byte(mix64(n+1+i/8*977) >> (8 * uint(i%8)))
			b[w-h+i] = b[i]
		}
	}
	return b
}

// structKeys maps the keys of a case into a family (a copy; family 0: as it is)
func structKeys(family int, keys []int) []int {
	if keys == nil || family == 0 {
		return keys
	}
	out := make([]int, len(keys))
	for i, key := range keys {
		out[i] = structKey(family, key)
	}
	return out
}

func structGroups(family int, groups [][][]int) [][][]int {
	if family == 0 {
		return groups
	}
	out := make([][][]int, len(groups))
	for gi, g := range groups {
		out[gi] = make([][]int, len(g))
		for ri, row := range g {
			out[gi][ri] = structKeys(family, row)
			if row != nil && len(row) == 0 {
				out[gi][ri] = []int{}
			}
		}
	}
	return out
}

func i32Of(key int) int32 {
	if key >= structBase {
		return int32(binary.LittleEndian.Uint32(structBytes(4, key)))
	}
	sp := []int32{0, -1, 1, math.MinInt32, math.MaxInt32, 2, -2}
	if key < len(sp) {
		return sp[key]
	}
	return int32(mix32(key))
}

func i64Of(key int) int64 {
	if key >= structBase {
		return int64(binary.LittleEndian.Uint64(structBytes(8, key)))
	}
	sp := []int64{0, -1, 1, math.MinInt64, math.MaxInt64, 1 << 32, -(1 << 32)}
	if key < len(sp) {
		return sp[key]
	}
	return int64(mix64(key))
}

func i96Of(key int) deprecated.Int96 {
	if key >= structBase {
		b := structBytes(12, key)
		return deprecated.Int96{binary.LittleEndian.Uint32(b), binary.LittleEndian.Uint32(b[4:]), binary.LittleEndian.Uint32(b[8:])}
	}
	sp := []deprecated.Int96{{0, 0, 0}, {1, 0, 0}, {0, 1, 0}, {0, 0, 1}, {0xFFFFFFFF, 0xFFFFFFFF, 0xFFFFFFFF}, {0, 0, 0x80000000}}
	if key < len(sp) {
		return sp[key]
	}
	return deprecated.Int96{uint32(key), uint32(key * 7), 2440588}
}

func f32Of(key int) float32 {
	if key >= structBase {
		// (NaN patterns with the quiet bit set, like the special values below: a
		// signaling float32 NaN is stored bit for bit but quieted by the
		// float32 -> float64 -> float32 conversion of the typed READERS when
		// they fill a Go float32 field, which is not a matter of the encodings)
		bits := binary.LittleEndian.Uint32(structBytes(4, key))
		if bits&0x7f800000 == 0x7f800000 && bits&0x007fffff != 0 {
			bits |= 0x00400000
		}
		return math.Float32frombits(bits)
	}
	sp := []uint32{0, 0x80000000, 0x7fc00000, 0x7fc00001, 0xffc00000, 0x7f800000, 0xff800000, 1, 0x3f800000}
	if key < len(sp) {
		return math.Float32frombits(sp[key])
	}
	return float32(key) / 3
}

func f64Of(key int) float64 {
	if key >= structBase {
		return math.Float64frombits(binary.LittleEndian.Uint64(structBytes(8, key)))
	}
	sp := []uint64{0, 1 << 63, 0x7ff8000000000000, 0x7ff8000000000001, 0xfff8000000000000, 0x7ff0000000000000, 0xfff0000000000000, 1, 0x3ff0000000000000}
	if key < len(sp) {
		return math.Float64frombits(sp[key])
	}
	return float64(key) / 7
}

func baOf(key int) []byte {
	if key >= structBase {
		// byte strings of 16 bytes (the first 1024 keys of a family), then 9, 24 and 33
		return structBytes([]int{16, 9, 24, 33}[(key&(structBase-1))>>10&3], key)
	}
	sp := [][]byte{{}, {0}, []byte("a"), []byte("ab"), []byte("abc"), bytes.Repeat([]byte{0xff}, 300), {0, 0}, []byte("key-7\x00")}
	if key < len(sp) {
		return sp[key]
	}
	return []byte(fmt.Sprintf("key-%d", key))
}

func flbaOf(n, key int) []byte {
	if key >= structBase {
		return structBytes(n, key)
	}
	b := make([]byte, n)
	switch key {
	case 0:
	case 1:
		for i := range b {
			b[i] = 0xff
		}
	default:
		for i := range b {
			b[i] = byte(mix64(key+i/8*977) >> (8 * uint(i%8)))
		}
	}
	return b
}

type dictKind struct {
	name string
	node parquet.Node // required leaf, no encoding
}

var dictKinds = []dictKind{
	{"boolean", parquet.Leaf(parquet.BooleanType)},
	{"int32", parquet.Leaf(parquet.Int32Type)},
	{"int64", parquet.Leaf(parquet.Int64Type)},
	{"int96", parquet.Leaf(parquet.Int96Type)},
	{"float", parquet.Leaf(parquet.FloatType)},
	{"double", parquet.Leaf(parquet.DoubleType)},
	{"byte_array", parquet.Leaf(parquet.ByteArrayType)},
	{"string", parquet.String()},
	{"enum", parquet.Enum()},
	{"flba1", parquet.Leaf(parquet.FixedLenByteArrayType(1))},
	{"flba5", parquet.Leaf(parquet.FixedLenByteArrayType(5))},
	{"flba17", parquet.Leaf(parquet.FixedLenByteArrayType(17))},
	{"interval", parquet.IntervalNode()},
	{"be128", parquet.Leaf(parquet.FixedLenByteArrayType(16))},
	{"uuid", parquet.UUID()},
	{"uint8", parquet.Uint(8)},
	{"int16", parquet.Int(16)},
	{"uint32", parquet.Uint(32)},
	{"uint64", parquet.Uint(64)},
	{"date", parquet.Date()},
	{"time_ms", parquet.Time(parquet.Millisecond)},
	{"time_us", parquet.Time(parquet.Microsecond)},
	{"timestamp", parquet.Timestamp(parquet.Nanosecond)},
	{"decimal_int32", parquet.Decimal(2, 9, parquet.Int32Type)},
	{"decimal_int64", parquet.Decimal(2, 18, parquet.Int64Type)},
	{"decimal_flba7", parquet.Decimal(2, 16, parquet.FixedLenByteArrayType(7))},
	{"decimal_be128", parquet.Decimal(2, 38, parquet.FixedLenByteArrayType(16))},
	{"decimal_ba", parquet.Decimal(2, 20, parquet.ByteArrayType)},
	{"null", parquet.Leaf(parquet.NullType)},
}

func kindNamed(name string) *dictKind {
	for i := range dictKinds {
		if dictKinds[i].name == name {
			return &dictKinds[i]
		}
	}
	return nil
}

func (k *dictKind) isNull() bool { return k.name == "null" }
func (k *dictKind) isBool() bool { return k.node.Type().Kind() == parquet.Boolean }

func (k *dictKind) val(key int) parquet.Value {
	t := k.node.Type()
	switch t.Kind() {
	case parquet.Boolean:
		return parquet.BooleanValue(key&1 == 1)
	case parquet.Int32:
		return parquet.Int32Value(i32Of(key))
	case parquet.Int64:
		return parquet.Int64Value(i64Of(key))
	case parquet.Int96:
		return parquet.Int96Value(i96Of(key))
	case parquet.Float:
		return parquet.FloatValue(f32Of(key))
	case parquet.Double:
		return parquet.DoubleValue(f64Of(key))
	case parquet.ByteArray:
		return parquet.ByteArrayValue(baOf(key))
	case parquet.FixedLenByteArray:
		return parquet.FixedLenByteArrayValue(flbaOf(t.Length(), key))
	}
	return parquet.NullValue()
}

func sameValue(a, b parquet.Value) bool {
	if a.IsNull() || b.IsNull() {
		return a.IsNull() && b.IsNull()
	}
	return a.Kind() == b.Kind() && bytes.Equal(a.Bytes(), b.Bytes())
}

func valueKey(v parquet.Value) string {
	if v.IsNull() {
		return "null"
	}
	return fmt.Sprintf("%d:%x", v.Kind(), v.Bytes())
}

func showValue(v parquet.Value) string {
	if v.IsNull() {
		return "null"
	}
	return core.Trunc(fmt.Sprintf("%s(%x)", v.Kind(), v.Bytes()), 80)
}

func isNaNValue(v parquet.Value) bool {
	switch v.Kind() {
	case parquet.Float:
		return v.Float() != v.Float()
	case parquet.Double:
		return v.Double() != v.Double()
	}
	return false
}

// ---------------------------------------------------------------------------
// dictLife: one Dictionary object driven through the public API

type dictOp struct {
	Reset bool  `json:"reset,omitempty"`
	Keys  []int `json:"keys,omitempty"` // Insert of the values of these keys (Reset false)
}

type dictLifeCase struct {
	Kind string   `json:"kind"`
	Pre  []int    `json:"pre,omitempty"` // NewDictionary over the (distinct) values of these keys
	Ops  []dictOp `json:"ops"`
}

func (lc *dictLifeCase) String() string {
	s := lc.Kind
	if len(lc.Pre) > 0 {
		s += fmt.Sprintf(" new%v", lc.Pre)
	}
	for _, op := range lc.Ops {
		if op.Reset {
			s += " R"
		} else {
			s += fmt.Sprintf(" I%v", op.Keys)
		}
	}
	return s
}

// newDictionary builds the dictionary of the kind over existing values, the way
// a dictionary page read from a file is handed to Type.NewDictionary, or empty
// the way the writer creates it.
func (k *dictKind) newDictionary(pre []int) parquet.Dictionary {
	t := k.node.Type()
	if len(pre) == 0 {
		return t.NewDictionary(0, 0, t.NewValues(make([]byte, 0, 64), nil))
	}
	var data []byte
	var offsets []uint32
	switch t.Kind() {
	case parquet.Boolean:
		data = make([]byte, (len(pre)+7)/8)
		for i, key := range pre {
			if key&1 == 1 {
				data[i/8] |= 1 << uint(i%8)
			}
		}
	case parquet.ByteArray:
		offsets = []uint32{0}
		for _, key := range pre {
			data = append(data, baOf(key)...)
			offsets = append(offsets, uint32(len(data)))
		}
	default:
		for _, key := range pre {
			data = append(data, k.val(key).Bytes()...)
		}
	}
	return t.NewDictionary(0, len(pre), t.NewValues(data, offsets))
}

// checkLife runs the history and evaluates, after every call, what the
// encoding relies on; it returns the description of the first failure.
func checkLife(lc *dictLifeCase) (bad string) {
	k := kindNamed(lc.Kind)
	if k == nil {
		return ""
	}
	t := k.node.Type()
	var d parquet.Dictionary
	if p := safely(func() { d = k.newDictionary(lc.Pre) }); p != "" {
		return "NewDictionary panicked: " + core.Trunc(p, 200)
	}
	distinct := map[string]bool{} // values the dictionary holds since its creation or last Reset
	for _, key := range lc.Pre {
		distinct[valueKey(k.val(key))] = true
	}
	if !k.isNull() && d.Len() != len(lc.Pre) {
		return fmt.Sprintf("NewDictionary over %d values: Len() = %d", len(lc.Pre), d.Len())
	}
	for i, key := range lc.Pre {
		var got parquet.Value
		if p := safely(func() { got = d.Index(int32(i)) }); p != "" {
			return fmt.Sprintf("NewDictionary over %d values: Index(%d) panicked: %s", len(lc.Pre), i, core.Trunc(p, 200))
		}
		if !k.isNull() && !sameValue(got, k.val(key)) {
			return fmt.Sprintf("NewDictionary over %d values: Index(%d) = %s, created with %s", len(lc.Pre), i, showValue(got), showValue(k.val(key)))
		}
	}
	inserted := false
	for oi, op := range lc.Ops {
		at := fmt.Sprintf("call %d", oi+1)
		if op.Reset {
			var n int
			var pn int64
			if p := safely(func() { d.Reset(); n = d.Len(); pn = d.Page().NumValues() }); p != "" {
				return at + " Reset panicked: " + core.Trunc(p, 200)
			}
			if n != 0 || pn != 0 {
				return fmt.Sprintf("%s Reset: Len() = %d, Page().NumValues() = %d afterwards", at, n, pn)
			}
			distinct = map[string]bool{}
			continue
		}
		values := make([]parquet.Value, len(op.Keys))
		for i, key := range op.Keys {
			values[i] = k.val(key)
			distinct[valueKey(values[i])] = true
		}
		at += fmt.Sprintf(" Insert of %d values", len(values))
		indexes := make([]int32, len(values)+2)
		for i := range indexes {
			indexes[i] = -77
		}
		if k.isNull() {
			for i := range indexes {
				indexes[i] = 0 // the NULL dictionary assigns no index
			}
		}
		if len(values) == 0 && len(lc.Pre) > 0 && !inserted {
			// the lookup table of a dictionary created over values is built by
			// its first Insert, with the caller's indexes as scratch space: an
			// Insert of nothing must return (run under a watchdog)
			hung := hangs[lc.Kind]
			if !hung {
				done := make(chan string, 1)
				go func() { done <- safely(func() { d.Insert(indexes[:0], values) }) }()
				select {
				case <-done:
				case <-time.After(2 * time.Second):
					hung = true
					hangs[lc.Kind] = true // the goroutine is lost: not tried again
				}
			}
			if hung {
				return "HANG: " + at + " as the first Insert into a dictionary created over values does not return"
			}
		}
		inserted = true
		if p := safely(func() { d.Insert(indexes[:len(values)], values) }); p != "" {
			return at + " panicked: " + core.Trunc(p, 200)
		}
		if !k.isNull() && (indexes[len(values)] != -77 || indexes[len(values)+1] != -77) {
			return at + " wrote behind the indexes it was given"
		}
		indexes = indexes[:len(values)]
		n := d.Len()
		if !k.isNull() {
			for i, x := range indexes {
				if x < 0 || int(x) >= n {
					return fmt.Sprintf("%s: value %d (%s) got index %d, the dictionary holds %d values", at, i, showValue(values[i]), x, n)
				}
			}
		}
		for i, x := range indexes {
			var got parquet.Value
			if p := safely(func() { got = d.Index(x) }); p != "" {
				return fmt.Sprintf("%s: Index(%d) panicked: %s", at, x, core.Trunc(p, 200))
			}
			if !sameValue(got, values[i]) {
				return fmt.Sprintf("%s: value %d (%s) got index %d which designates %s", at, i, showValue(values[i]), x, showValue(got))
			}
		}
		// the dictionary holds the distinct values and nothing else (BOOLEAN
		// dictionaries always hold both values once a value was inserted)
		switch {
		case k.isNull():
		case k.isBool():
			if n > len(lc.Pre)+2 {
				return fmt.Sprintf("%s: the dictionary holds %d values", at, n)
			}
		default:
			if n != len(distinct) {
				return fmt.Sprintf("%s: the dictionary holds %d values, %d distinct values were inserted since it was created or reset", at, n, len(distinct))
			}
		}
		// Lookup
		out := make([]parquet.Value, len(values))
		if p := safely(func() { d.Lookup(indexes, out) }); p != "" {
			return at + ": Lookup of the returned indexes panicked: " + core.Trunc(p, 200)
		}
		for i := range out {
			if !sameValue(out[i], values[i]) {
				return fmt.Sprintf("%s: Lookup gives %s for value %d (%s, index %d)", at, showValue(out[i]), i, showValue(values[i]), indexes[i])
			}
		}
		// Bounds
		var lo, hi parquet.Value
		if p := safely(func() { lo, hi = d.Bounds(indexes) }); p != "" {
			return at + ": Bounds of the returned indexes panicked: " + core.Trunc(p, 200)
		}
		if !k.isNull() {
			if msg := checkBounds(t, values, lo, hi); msg != "" {
				return at + ": Bounds of the returned indexes: " + msg
			}
		}
		// Page: what the writer puts in the dictionary page
		var pageVals []parquet.Value
		var pn int64
		if p := safely(func() {
			pg := d.Page()
			pn = pg.NumValues()
			pageVals = make([]parquet.Value, n+1)
			m, _ := pg.Values().ReadValues(pageVals)
			pageVals = pageVals[:m]
		}); p != "" {
			return at + ": reading Page() panicked: " + core.Trunc(p, 200)
		}
		if !k.isNull() {
			if pn != int64(n) || len(pageVals) != n {
				return fmt.Sprintf("%s: Page() has %d values (%d read), Len() = %d", at, pn, len(pageVals), n)
			}
			for i, v := range pageVals {
				if !sameValue(v, d.Index(int32(i))) {
					return fmt.Sprintf("%s: value %d of Page() is %s, Index(%d) = %s", at, i, showValue(v), i, showValue(d.Index(int32(i))))
				}
			}
		}
	}
	return ""
}

// kinds whose Insert of nothing was seen not to return (see checkLife)
var hangs = map[string]bool{}

func checkBounds(t parquet.Type, values []parquet.Value, lo, hi parquet.Value) string {
	if len(values) == 0 {
		if !lo.IsNull() || !hi.IsNull() {
			return "not null for no index"
		}
		return ""
	}
	var wantLo, wantHi parquet.Value
	have := false
	for _, v := range values {
		if isNaNValue(v) {
			continue
		}
		if !have {
			wantLo, wantHi, have = v, v, true
			continue
		}
		if t.Compare(v, wantLo) < 0 {
			wantLo = v
		}
		if t.Compare(v, wantHi) > 0 {
			wantHi = v
		}
	}
	if lo.IsNull() || hi.IsNull() {
		return "null bounds for " + fmt.Sprint(len(values)) + " values"
	}
	if !have { // NaN only
		if !isNaNValue(lo) || !isNaNValue(hi) {
			return fmt.Sprintf("[%s, %s] for NaN values only", showValue(lo), showValue(hi))
		}
		return ""
	}
	if isNaNValue(lo) || isNaNValue(hi) || t.Compare(lo, wantLo) != 0 || t.Compare(hi, wantHi) != 0 {
		return fmt.Sprintf("[%s, %s], the values span [%s, %s]", showValue(lo), showValue(hi), showValue(wantLo), showValue(wantHi))
	}
	return ""
}

func (k *checker) checkLifeCase(lc *dictLifeCase) {
	bad := ""
	if p := safely(func() { bad = checkLife(lc) }); p != "" {
		bad = "panic: " + core.Trunc(p, 200)
	}
	if strings.HasPrefix(bad, "HANG: ") {
		k.viol("dict-life-hang-"+lc.Kind, "Dictionary ("+lc.Kind+") "+lifeHistory(lc)+": "+bad[6:])
	} else if bad != "" {
		k.viol("dict-life-"+lc.Kind, "Dictionary ("+lc.Kind+") "+lifeHistory(lc)+": "+bad)
	}
}

func lifeHistory(lc *dictLifeCase) string {
	s := ""
	if len(lc.Pre) > 0 {
		s = fmt.Sprintf("NewDictionary over %d values; ", len(lc.Pre))
	}
	for i, op := range lc.Ops {
		if i > 0 {
			s += ", "
		}
		if op.Reset {
			s += "Reset"
		} else if len(op.Keys) <= 6 {
			s += fmt.Sprintf("Insert%v", op.Keys)
		} else {
			s += fmt.Sprintf("Insert(%d values)", len(op.Keys))
		}
	}
	return "[" + s + "]"
}

func shrinkLife(c *core.Ctx, lc *dictLifeCase) *dictLifeCase {
	cur := *lc
	fails := func(t *dictLifeCase) bool {
		return c.Probe(func() { check(c, &c04Case{Enc: "dict-life", Life: t}) })
	}
	for changed := true; changed; {
		changed = false
		if len(cur.Pre) > 0 {
			for _, pre := range [][]int{nil, cur.Pre[:len(cur.Pre)/2], cur.Pre[1:]} {
				t := cur
				t.Pre = pre
				if fails(&t) {
					cur, changed = t, true
					break
				}
			}
			if changed {
				continue
			}
		}
		for i := range cur.Ops {
			t := cur
			t.Ops = append(append([]dictOp(nil), cur.Ops[:i]...), cur.Ops[i+1:]...)
			if fails(&t) {
				cur, changed = t, true
				break
			}
		}
		if changed {
			continue
		}
		for i, op := range cur.Ops {
			for _, n := range []int{len(op.Keys) / 2, len(op.Keys) / 4, 8, 1} {
				if n < 1 || n > len(op.Keys) {
					continue
				}
				for j := 0; j+n <= len(op.Keys); j += n {
					t := cur
					t.Ops = append([]dictOp(nil), cur.Ops...)
					t.Ops[i].Keys = append(append([]int(nil), op.Keys[:j]...), op.Keys[j+n:]...)
					if fails(&t) {
						cur, changed = t, true
						break
					}
				}
				if changed {
					break
				}
			}
			if changed {
				break
			}
		}
	}
	// dense keys, when the failure does not depend on the values themselves
	ren := map[int]int{}
	t := cur
	t.Pre = renameKeys(cur.Pre, ren)
	t.Ops = make([]dictOp, len(cur.Ops))
	for i, op := range cur.Ops {
		t.Ops[i] = dictOp{Reset: op.Reset, Keys: renameKeys(op.Keys, ren)}
	}
	if fails(&t) {
		cur = t
	}
	return &cur
}

// keys are renamed to 10, 11, ... (the keys below 10 are special values)
func renameKeys(keys []int, ren map[int]int) []int {
	if keys == nil {
		return nil
	}
	out := make([]int, len(keys))
	for i, key := range keys {
		if _, ok := ren[key]; !ok {
			ren[key] = 10 + len(ren)
		}
		out[i] = ren[key]
	}
	return out
}

func runLife(c *core.Ctx, lc *dictLifeCase, bucket string) {
	cs := &c04Case{Enc: "dict-life", Life: lc}
	if c.Probe(func() { check(c, cs) }) {
		check(c, &c04Case{Enc: "dict-life", Life: shrinkLife(c, lc)})
	}
	inserts, resets := 0, 0
	for _, op := range lc.Ops {
		if op.Reset {
			resets++
		} else if len(op.Keys) > 0 {
			inserts++
		}
	}
	c.Case("dict/life/"+bucket, lc.String(), inserts >= 2 && resets >= 1 || len(lc.Pre) > 0 && inserts >= 1)
}

// keysFrom draws n keys: mode 0 cycles through [base, base+span), 1 the same
// backwards, 2 random keys of the range, 3 runs of equal keys.
func keysFrom(rng *rand.Rand, n, base, span, mode int) []int {
	if span < 1 {
		span = 1
	}
	out := make([]int, n)
	run := base
	for i := range out {
		switch mode {
		case 0:
			out[i] = base + i%span
		case 1:
			out[i] = base + span - 1 - i%span
		case 2:
			out[i] = base + rng.Intn(span)
		default:
			if rng.Intn(5) == 0 {
				run = base + rng.Intn(span)
			}
			out[i] = run
		}
	}
	return out
}

// the dictionary scenarios draw from their own generator (derived from the
// seed) so that they do not shift the cases of the encodings
func dictRng(c *core.Ctx, salt int64) *rand.Rand {
	return rand.New(rand.NewSource(c.Seed*7919 + salt))
}

func dictLife(c *core.Ctx) {
	rng := dictRng(c, 4)
	// every short history over a small alphabet of calls, for every kind, on an
	// empty dictionary and on dictionaries created over existing values
	alphabet := []dictOp{{Reset: true}, {Keys: []int{}}, {Keys: []int{10}}, {Keys: []int{11}}, {Keys: []int{10, 11}},
		{Keys: []int{11, 10}}, {Keys: []int{12, 10, 12}}, {Keys: []int{2, 2, 3}}}
	pres := [][]int{nil, {11}, {10, 11}, {12, 10, 11, 13, 14, 15, 16, 17, 18}}
	depth := c.N(3, 4)
	for ki := range dictKinds {
		k := &dictKinds[ki]
		for _, pre := range pres {
			var rec func(ops []dictOp)
			rec = func(ops []dictOp) {
				if len(ops) > 0 {
					runLife(c, &dictLifeCase{Kind: k.name, Pre: pre, Ops: append([]dictOp(nil), ops...)}, "exhaustive")
				}
				if len(ops) == depth {
					return
				}
				for _, op := range alphabet {
					rec(append(ops, op))
				}
			}
			rec(nil)
		}
	}
	c.Note("dictionary life cycle: every history of at most %d calls over {Reset, Insert of 8 small batches} x {empty, created over 1, 2, 9 values} for each of the %d dictionary kinds", depth, len(dictKinds))
	// longer histories with batches across the chunk sizes of the bulk inserts
	sizes := []int{1, 3, 64, 513, 1100, 2100, 2600, 4200}
	for ki := range dictKinds {
		k := &dictKinds[ki]
		for rep := 0; rep < c.N(6, 40); rep++ {
			lc := &dictLifeCase{Kind: k.name}
			span := []int{1, 2, 5, 40, 300, 1500}[rng.Intn(6)]
			if rng.Intn(3) == 0 {
				// distinct values, as a dictionary page holds them
				seen := map[string]bool{}
				for _, key := range keysFrom(rng, min(1+rng.Intn(span), 700), 0, 1<<30, 0) {
					if vk := valueKey(k.val(key)); !seen[vk] {
						seen[vk] = true
						lc.Pre = append(lc.Pre, key)
					}
				}
			}
			base := 0
			for n := 2 + rng.Intn(5); n > 0; n-- {
				switch rng.Intn(4) {
				case 0:
					lc.Ops = append(lc.Ops, dictOp{Reset: true})
					// after a reset: the same values, an overlapping range or new values
					base += []int{0, span / 2, span, 7 * span}[rng.Intn(4)]
				default:
					sz := sizes[rng.Intn(len(sizes))]
					if c.Quick() && sz > 2600 {
						sz = 2600
					}
					lc.Ops = append(lc.Ops, dictOp{Keys: keysFrom(rng, sz, base, span, rng.Intn(4))})
					if rng.Intn(3) == 0 {
						base += span / 2
					}
				}
			}
			runLife(c, lc, "random")
		}
	}
	// the same over the STRUCTURED key families (see structBase): the short
	// histories up to two calls, and long histories with many distinct values
	srng := dictRng(c, 6)
	for family := 1; family < len(structFamilies); family++ {
		for ki := range dictKinds {
			k := &dictKinds[ki]
			for _, pre := range pres {
				for _, a := range alphabet {
					runLife(c, &dictLifeCase{Kind: k.name, Pre: structKeys(family, pre), Ops: []dictOp{{Reset: a.Reset, Keys: structKeys(family, a.Keys)}}}, "structured-short")
					for _, b := range alphabet {
						runLife(c, &dictLifeCase{Kind: k.name, Pre: structKeys(family, pre), Ops: []dictOp{{Reset: a.Reset, Keys: structKeys(family, a.Keys)}, {Reset: b.Reset, Keys: structKeys(family, b.Keys)}}}, "structured-short")
					}
				}
			}
			for rep := 0; rep < c.N(2, 12); rep++ {
				lc := &dictLifeCase{Kind: k.name}
				span := []int{5, 40, 300, 1500, 3000}[srng.Intn(5)]
				if srng.Intn(3) == 0 {
					seen := map[string]bool{}
					for _, key := range keysFrom(srng, min(1+srng.Intn(span), 700), 0, span, 2) {
						if vk := valueKey(k.val(structKey(family, key))); !seen[vk] {
							seen[vk] = true
							lc.Pre = append(lc.Pre, structKey(family, key))
						}
					}
				}
				base := 0
				for n := 2 + srng.Intn(4); n > 0; n-- {
					if srng.Intn(4) == 0 {
						lc.Ops = append(lc.Ops, dictOp{Reset: true})
						base += []int{0, span / 2, span, 7 * span}[srng.Intn(4)]
						continue
					}
					sz := sizes[srng.Intn(len(sizes))]
					if c.Quick() && sz > 2600 {
						sz = 2600
					}
					lc.Ops = append(lc.Ops, dictOp{Keys: structKeys(family, keysFrom(srng, sz, base, span, srng.Intn(4)))})
					if srng.Intn(3) == 0 {
						base += span / 2
					}
				}
				runLife(c, lc, "structured-random")
			}
		}
	}
	c.Note("dictionary life cycle over structured values (key families %v: big-endian / little-endian counters = shared leading / trailing bytes, one changed byte, equal halves; for every kind: 4 / 8 / 12 byte numbers, FIXED_LEN_BYTE_ARRAY of 1, 5, 7, 12, 16, 17 bytes, byte arrays of 16, 9, 24, 33 bytes): every history of at most 2 calls and %d random long histories per kind and family over up to 3000 distinct values", structFamilies[1:], c.N(2, 12))
}

// ---------------------------------------------------------------------------
// dictFile: files and buffers of several row groups

type dictFileCase struct {
	Kind     string    `json:"kind"`            // dictionary kind, "struct" for the typed row of all kinds
	Path     string    `json:"path"`            // rows: Writer.WriteRows; typed: GenericWriter[dictRow].Write; buffer: GenericBuffer[dictRow] reused through Reset
	Shape    string    `json:"shape,omitempty"` // rows: required | optional | repeated
	Split    string    `json:"split,omitempty"` // flush | maxrows | reset (Close, Reset) | abandon (Reset without Close)
	Chunk    int       `json:"chunk,omitempty"` // rows per Write call (0: one call per group)
	Groups   [][][]int `json:"groups"`          // row group -> row -> keys of its values
	MaxBytes int64     `json:"max_bytes,omitempty"`
	PageBuf  int       `json:"page_buf,omitempty"`
	V2       bool      `json:"v2,omitempty"`
}

func (fc *dictFileCase) String() string {
	return fmt.Sprintf("%s/%s/%s/%s chunk=%d max=%d page=%d v2=%v %v", fc.Kind, fc.Path, fc.Shape, fc.Split, fc.Chunk, fc.MaxBytes, fc.PageBuf, fc.V2, fc.Groups)
}

func (fc *dictFileCase) what() string {
	rows := 0
	for _, g := range fc.Groups {
		rows += len(g)
	}
	s := map[string]string{"rows": "Writer.WriteRows", "typed": "GenericWriter[dictRow].Write", "buffer": "GenericBuffer[dictRow].Write"}[fc.Path]
	s += fmt.Sprintf(", RLE_DICTIONARY %s", fc.Kind)
	if fc.Path == "rows" {
		s += " (" + fc.Shape + ")"
	}
	s += fmt.Sprintf(", %d rows in %d groups", rows, len(fc.Groups))
	switch {
	case fc.Path == "buffer":
		s += " (buffer Reset between)"
	case fc.Split == "flush":
		s += " (Flush between)"
	case fc.Split == "maxrows":
		s += fmt.Sprintf(" (MaxRowsPerRowGroup %d)", len(fc.Groups[0]))
	case fc.Split == "reset":
		s += " (one file each: Close, Reset)"
	case fc.Split == "abandon":
		s += " (writer Reset without Close between, last file checked)"
	}
	if fc.MaxBytes > 0 {
		s += fmt.Sprintf(", DictionaryMaxBytes %d", fc.MaxBytes)
	}
	if fc.PageBuf > 0 {
		s += fmt.Sprintf(", PageBufferSize %d", fc.PageBuf)
	}
	if fc.V2 {
		s += ", data pages v2"
	}
	return s
}

type fileStats struct {
	rowGroups int
	dictPages int  // column chunks whose pages carry a dictionary
	fallback  bool // a column chunk holds RLE_DICTIONARY and PLAIN data pages
}

func (fc *dictFileCase) options() []parquet.WriterOption {
	var opts []parquet.WriterOption
	if fc.MaxBytes > 0 {
		opts = append(opts, parquet.DictionaryMaxBytes(fc.MaxBytes))
	}
	if fc.PageBuf > 0 {
		opts = append(opts, parquet.PageBufferSize(fc.PageBuf))
	}
	if fc.Split == "maxrows" && len(fc.Groups[0]) > 0 {
		opts = append(opts, parquet.MaxRowsPerRowGroup(int64(len(fc.Groups[0]))))
	}
	if fc.V2 {
		opts = append(opts, parquet.DataPageVersion(2))
	}
	return opts
}

// sink abstracts the two writers
type dictSink interface {
	write(group [][]int, chunk int) error
	Flush() error
	Close() error
	Reset(io.Writer)
	// compares the content of a finished file with the rows written to it
	verify(file []byte, groups [][][]int, st *fileStats) string
}

func checkFile(fc *dictFileCase, st *fileStats) (bad string) {
	if len(fc.Groups) == 0 {
		return ""
	}
	if fc.Path == "buffer" {
		return checkBuffer(fc)
	}
	out := new(bytes.Buffer)
	var w dictSink
	if p := safely(func() {
		if fc.Path == "typed" {
			w = &typedSink{parquet.NewGenericWriter[dictRow](out, fc.options()...)}
		} else {
			w = newRowsSink(fc, out)
		}
	}); p != "" {
		return "creating the writer panicked: " + core.Trunc(p, 200)
	}
	if w == nil {
		return ""
	}
	var pending [][][]int
	finish := func(g int) string {
		var err error
		if p := safely(func() { err = w.Close() }); p != "" {
			return fmt.Sprintf("Close after group %d panicked: %s", g+1, core.Trunc(p, 200))
		}
		if err != nil {
			return fmt.Sprintf("Close after group %d: %v", g+1, err)
		}
		msg := ""
		if p := safely(func() { msg = w.verify(out.Bytes(), pending, st) }); p != "" {
			return fmt.Sprintf("reading the file closed after group %d panicked: %s", g+1, core.Trunc(p, 200))
		}
		if msg != "" {
			return fmt.Sprintf("file closed after group %d: %s", g+1, msg)
		}
		return ""
	}
	for g, grp := range fc.Groups {
		var err error
		if p := safely(func() { err = w.write(grp, fc.Chunk) }); p != "" {
			return fmt.Sprintf("writing group %d panicked: %s", g+1, core.Trunc(p, 200))
		}
		if err != nil {
			return fmt.Sprintf("writing group %d: %v", g+1, err)
		}
		pending = append(pending, grp)
		last := g == len(fc.Groups)-1
		switch fc.Split {
		case "flush":
			if !last {
				if p := safely(func() { err = w.Flush() }); p != "" {
					return fmt.Sprintf("Flush after group %d panicked: %s", g+1, core.Trunc(p, 200))
				}
				if err != nil {
					return fmt.Sprintf("Flush after group %d: %v", g+1, err)
				}
			}
		case "reset":
			if msg := finish(g); msg != "" {
				return msg
			}
			if !last {
				out = new(bytes.Buffer)
				pending = nil
				if p := safely(func() { w.Reset(out) }); p != "" {
					return fmt.Sprintf("Reset after group %d panicked: %s", g+1, core.Trunc(p, 200))
				}
			}
		case "abandon":
			if !last {
				out = new(bytes.Buffer)
				pending = nil
				if p := safely(func() { w.Reset(out) }); p != "" {
					return fmt.Sprintf("Reset after group %d panicked: %s", g+1, core.Trunc(p, 200))
				}
			}
		}
	}
	if fc.Split != "reset" {
		return finish(len(fc.Groups) - 1)
	}
	return ""
}

func inspect(f *parquet.File, st *fileStats) {
	if st == nil {
		return
	}
	md := f.Metadata()
	st.rowGroups += len(md.RowGroups)
	for _, rg := range md.RowGroups {
		for _, col := range rg.Columns {
			hasDict, hasPlain := false, false
			for _, e := range col.MetaData.Encoding {
				switch e {
				case format.RLEDictionary:
					hasDict = true
				case format.Plain:
					hasPlain = true
				}
			}
			if hasDict && col.MetaData.DictionaryPageOffset > 0 {
				st.dictPages++
			}
			if hasDict && hasPlain {
				st.fallback = true
			}
		}
	}
}

// --- Writer.WriteRows over a one-column schema of the kind

type rowsSink struct {
	k     *dictKind
	shape string
	w     *parquet.Writer
}

func newRowsSink(fc *dictFileCase, out io.Writer) dictSink {
	k := kindNamed(fc.Kind)
	if k == nil {
		return nil
	}
	node := parquet.Encoded(k.node, &parquet.RLEDictionary)
	switch fc.Shape {
	case "optional":
		node = parquet.Optional(node)
	case "repeated":
		node = parquet.Repeated(node)
	}
	schema := parquet.NewSchema("t", parquet.Group{"v": node})
	opts := append([]parquet.WriterOption{schema}, fc.options()...)
	return &rowsSink{k: k, shape: fc.Shape, w: parquet.NewWriter(out, opts...)}
}

// rowOf gives the row of a list of keys: required columns take the first key,
// optional ones are null without a key, repeated ones hold all of them.
func (s *rowsSink) rowOf(keys []int) parquet.Row {
	switch s.shape {
	case "optional":
		if len(keys) == 0 || s.k.isNull() {
			return parquet.Row{parquet.NullValue().Level(0, 0, 0)}
		}
		return parquet.Row{s.k.val(keys[0]).Level(0, 1, 0)}
	case "repeated":
		if len(keys) == 0 || s.k.isNull() {
			return parquet.Row{parquet.NullValue().Level(0, 0, 0)}
		}
		row := make(parquet.Row, len(keys))
		for i, key := range keys {
			rep := 1
			if i == 0 {
				rep = 0
			}
			row[i] = s.k.val(key).Level(rep, 1, 0)
		}
		return row
	}
	key := 0
	if len(keys) > 0 {
		key = keys[0]
	}
	return parquet.Row{s.k.val(key).Level(0, 0, 0)}
}

func (s *rowsSink) write(group [][]int, chunk int) error {
	rows := make([]parquet.Row, len(group))
	for i, keys := range group {
		rows[i] = s.rowOf(keys)
	}
	if chunk <= 0 {
		chunk = len(rows)
	}
	for i := 0; i < len(rows); i += chunk {
		j := min(i+chunk, len(rows))
		n, err := s.w.WriteRows(rows[i:j])
		if err != nil {
			return err
		}
		if n != j-i {
			return fmt.Errorf("WriteRows of %d rows wrote %d", j-i, n)
		}
	}
	return nil
}

func (s *rowsSink) Flush() error      { return s.w.Flush() }
func (s *rowsSink) Close() error      { return s.w.Close() }
func (s *rowsSink) Reset(o io.Writer) { s.w.Reset(o) }

func (s *rowsSink) verify(file []byte, groups [][][]int, st *fileStats) string {
	f, err := parquet.OpenFile(bytes.NewReader(file), int64(len(file)))
	if err != nil {
		return "OpenFile: " + err.Error()
	}
	inspect(f, st)
	var want []parquet.Row
	for _, g := range groups {
		for _, keys := range g {
			want = append(want, s.rowOf(keys))
		}
	}
	at := 0
	for gi, rg := range f.RowGroups() {
		rr := rg.Rows()
		buf := make([]parquet.Row, 53)
		for {
			n, err := rr.ReadRows(buf)
			for _, row := range buf[:n] {
				if at >= len(want) {
					rr.Close()
					return fmt.Sprintf("more than the %d rows written are read back", len(want))
				}
				if msg := diffRow(want[at], row); msg != "" {
					rr.Close()
					return fmt.Sprintf("row %d (row group %d): %s", at, gi+1, msg)
				}
				at++
			}
			if err == io.EOF {
				break
			}
			if err != nil {
				rr.Close()
				return fmt.Sprintf("ReadRows in row group %d: %v", gi+1, err)
			}
			if n == 0 {
				rr.Close()
				return fmt.Sprintf("ReadRows in row group %d made no progress", gi+1)
			}
		}
		rr.Close()
	}
	if at != len(want) {
		return fmt.Sprintf("%d rows read back, %d written", at, len(want))
	}
	return ""
}

func diffRow(want, got parquet.Row) string {
	if len(want) != len(got) {
		return fmt.Sprintf("%d values read back, %d written", len(got), len(want))
	}
	for i := range want {
		a, b := want[i], got[i]
		if !sameValue(a, b) || a.RepetitionLevel() != b.RepetitionLevel() || a.DefinitionLevel() != b.DefinitionLevel() {
			return fmt.Sprintf("value %d: %s (levels %d/%d) read back as %s (levels %d/%d)", i, showValue(a), a.RepetitionLevel(), a.DefinitionLevel(),
				showValue(b), b.RepetitionLevel(), b.DefinitionLevel())
		}
	}
	return ""
}

// --- GenericWriter[dictRow].Write: one column per kind

type typedSink struct {
	w *parquet.GenericWriter[dictRow]
}

func typedRows(group [][]int) []dictRow {
	rows := make([]dictRow, len(group))
	for i, keys := range group {
		key := 0
		if len(keys) > 0 {
			key = keys[0]
		}
		rows[i] = dictRowOf(key)
	}
	return rows
}

func (s *typedSink) write(group [][]int, chunk int) error {
	rows := typedRows(group)
	if chunk <= 0 {
		chunk = len(rows)
	}
	for i := 0; i < len(rows); i += chunk {
		j := min(i+chunk, len(rows))
		n, err := s.w.Write(rows[i:j])
		if err != nil {
			return err
		}
		if n != j-i {
			return fmt.Errorf("Write of %d rows wrote %d", j-i, n)
		}
	}
	return nil
}

func (s *typedSink) Flush() error      { return s.w.Flush() }
func (s *typedSink) Close() error      { return s.w.Close() }
func (s *typedSink) Reset(o io.Writer) { s.w.Reset(o) }

func (s *typedSink) verify(file []byte, groups [][][]int, st *fileStats) string {
	f, err := parquet.OpenFile(bytes.NewReader(file), int64(len(file)))
	if err != nil {
		return "OpenFile: " + err.Error()
	}
	inspect(f, st)
	var want []dictRow
	for _, g := range groups {
		want = append(want, typedRows(g)...)
	}
	r := parquet.NewGenericReader[dictRow](f)
	defer r.Close()
	got := make([]dictRow, len(want)+3)
	n := 0
	for n < len(got) {
		m, err := r.Read(got[n:])
		n += m
		if err == io.EOF {
			break
		}
		if err != nil {
			return "Read: " + err.Error()
		}
		if m == 0 {
			return "Read made no progress"
		}
	}
	if n != len(want) {
		return fmt.Sprintf("%d rows read back, %d written", n, len(want))
	}
	for i := range want {
		if d := diffDictRow(want[i], got[i]); d != "" {
			return fmt.Sprintf("row %d: column %s", i, d)
		}
	}
	return ""
}

// --- GenericBuffer[dictRow] reused through Reset: each group is written,
// read back and the buffer reset.
func checkBuffer(fc *dictFileCase) string {
	var buf *parquet.GenericBuffer[dictRow]
	if p := safely(func() { buf = parquet.NewGenericBuffer[dictRow]() }); p != "" {
		return "NewGenericBuffer panicked: " + p
	}
	for g, grp := range fc.Groups {
		rows := typedRows(grp)
		chunk := fc.Chunk
		if chunk <= 0 {
			chunk = len(rows)
		}
		bad := ""
		p := safely(func() {
			for i := 0; i < len(rows); i += chunk {
				if _, err := buf.Write(rows[i:min(i+chunk, len(rows))]); err != nil {
					bad = "Write: " + err.Error()
					return
				}
			}
			out := make([]dictRow, len(rows)+1)
			r := parquet.NewGenericRowGroupReader[dictRow](buf)
			n := 0
			for n < len(out) {
				m, err := r.Read(out[n:])
				n += m
				if err != nil || m == 0 {
					break
				}
			}
			r.Close()
			if n != len(rows) {
				bad = fmt.Sprintf("%d rows read back, %d written", n, len(rows))
				return
			}
			for i := range rows {
				if d := diffDictRow(rows[i], out[i]); d != "" {
					bad = fmt.Sprintf("row %d: column %s", i, d)
					return
				}
			}
			buf.Reset()
		})
		if p != "" {
			return fmt.Sprintf("group %d panicked: %s", g+1, core.Trunc(p, 200))
		}
		if bad != "" {
			return fmt.Sprintf("group %d: %s", g+1, bad)
		}
	}
	return ""
}

func (k *checker) checkFileCase(fc *dictFileCase) {
	bad := ""
	if p := safely(func() { bad = checkFile(fc, nil) }); p != "" {
		bad = "panic: " + core.Trunc(p, 200)
	}
	if bad != "" {
		k.viol("dict-file-"+fc.Kind, fc.what()+": "+bad)
	}
}

func shrinkFile(c *core.Ctx, fc *dictFileCase) *dictFileCase {
	cur := *fc
	fails := func(t *dictFileCase) bool {
		return c.Probe(func() { check(c, &c04Case{Enc: "dict-file", File: t}) })
	}
	budget := 3000
	try := func(t dictFileCase) bool {
		if budget <= 0 {
			return false
		}
		budget--
		if fails(&t) {
			cur = t
			return true
		}
		return false
	}
	for changed := true; changed && budget > 0; {
		changed = false
		// fewer groups
		for g := range cur.Groups {
			if len(cur.Groups) <= 1 {
				break
			}
			t := cur
			t.Groups = append(append([][][]int(nil), cur.Groups[:g]...), cur.Groups[g+1:]...)
			if try(t) {
				changed = true
				break
			}
		}
		if changed {
			continue
		}
		// simpler configuration
		for _, f := range []func(t *dictFileCase) bool{
			func(t *dictFileCase) bool { ok := t.V2; t.V2 = false; return ok },
			func(t *dictFileCase) bool { ok := t.MaxBytes != 0; t.MaxBytes = 0; return ok },
			func(t *dictFileCase) bool { ok := t.PageBuf != 0; t.PageBuf = 0; return ok },
			func(t *dictFileCase) bool { ok := t.Chunk != 0; t.Chunk = 0; return ok },
			func(t *dictFileCase) bool {
				ok := t.Shape == "repeated" || t.Shape == "optional"
				t.Shape = "required"
				return ok
			},
			func(t *dictFileCase) bool { ok := t.Split == "maxrows"; t.Split = "flush"; return ok },
		} {
			t := cur
			if f(&t) && try(t) {
				changed = true
				break
			}
		}
		if changed {
			continue
		}
		// fewer rows
		for g := range cur.Groups {
			rows := cur.Groups[g]
			for _, n := range []int{len(rows) / 2, len(rows) / 4, 8, 1} {
				if n < 1 || n > len(rows) || cur.Split == "maxrows" && g == 0 {
					continue
				}
				for j := 0; j+n <= len(rows); j += n {
					t := cur
					t.Groups = append([][][]int(nil), cur.Groups...)
					t.Groups[g] = append(append([][]int(nil), rows[:j]...), rows[j+n:]...)
					if try(t) {
						changed = true
						break
					}
				}
				if changed {
					break
				}
			}
			if changed {
				break
			}
		}
		if changed {
			continue
		}
		// fewer values per row
		for g := range cur.Groups {
			for r, keys := range cur.Groups[g] {
				if len(keys) <= 1 {
					continue
				}
				t := cur
				t.Groups = append([][][]int(nil), cur.Groups...)
				t.Groups[g] = append([][]int(nil), cur.Groups[g]...)
				t.Groups[g][r] = keys[:1]
				if try(t) {
					changed = true
					break
				}
			}
			if changed {
				break
			}
		}
	}
	// dense keys
	ren := map[int]int{}
	t := cur
	t.Groups = make([][][]int, len(cur.Groups))
	for g := range cur.Groups {
		t.Groups[g] = make([][]int, len(cur.Groups[g]))
		for r, keys := range cur.Groups[g] {
			t.Groups[g][r] = renameKeys(keys, ren)
		}
	}
	try(t)
	return &cur
}

func runFile(c *core.Ctx, fc *dictFileCase, bucket string) {
	cs := &c04Case{Enc: "dict-file", File: fc}
	if c.Probe(func() { check(c, cs) }) {
		check(c, &c04Case{Enc: "dict-file", File: shrinkFile(c, fc)})
	}
	// what the file looks like (second run, only to classify the case)
	st := &fileStats{}
	safely(func() { checkFile(fc, st) })
	nontrivial := len(fc.Groups) >= 2
	if fc.Path != "buffer" {
		if fc.Split == "flush" || fc.Split == "maxrows" {
			nontrivial = nontrivial && st.rowGroups >= 2
		}
		if st.dictPages > 0 {
			c.Res.Buckets["dict/file:dictionary-pages-written"] += st.dictPages
		}
		if fc.MaxBytes > 0 {
			nontrivial = nontrivial && st.fallback
			if st.fallback {
				c.Res.Buckets["dict/file:fallback-to-plain-happened"]++
			}
		}
	}
	c.Case("dict/file/"+bucket, fc.String(), nontrivial)
}

// groupsOf draws the keys of g row groups of r rows over about d distinct
// values per group.  pattern: same (every group the same values), disjoint,
// new-then-old (new values first, then those of the previous groups backwards),
// subset (a part of the first group's values, backwards), random (a range that
// half overlaps the previous group's).
func groupsOf(rng *rand.Rand, pattern string, g, r, d int, shape string) [][][]int {
	out := make([][][]int, g)
	for gi := range out {
		var keys []int
		switch pattern {
		case "same":
			keys = keysFrom(rng, r, 0, d, gi%2)
		case "disjoint":
			keys = keysFrom(rng, r, gi*d, d, 0)
		case "new-then-old":
			if gi == 0 {
				keys = keysFrom(rng, r, 0, d, 0)
			} else {
				fresh := min(r, (d+1)/2)
				keys = append(keysFrom(rng, fresh, gi*d, d, 0), keysFrom(rng, r-fresh, 0, gi*d, 1)...)
			}
		case "subset":
			if gi == 0 {
				keys = keysFrom(rng, r, 0, d, 0)
			} else {
				keys = keysFrom(rng, r, d/3, max(1, d/2), 1)
			}
		default:
			keys = keysFrom(rng, r, gi*d/2, d, 2+rng.Intn(2))
		}
		rows := make([][]int, 0, r)
		for i := 0; i < len(keys); {
			switch shape {
			case "optional":
				if rng.Intn(5) == 0 {
					rows = append(rows, []int{})
				}
				rows = append(rows, keys[i:i+1])
				i++
			case "repeated":
				n := rng.Intn(4)
				if n == 0 {
					rows = append(rows, []int{})
					n = 1
				}
				j := min(i+n, len(keys))
				rows = append(rows, keys[i:j])
				i = j
			default:
				rows = append(rows, keys[i:i+1])
				i++
			}
		}
		out[gi] = rows
	}
	return out
}

var dictPatterns = []string{"same", "disjoint", "new-then-old", "subset", "random"}

func dictFile(c *core.Ctx) {
	rng := dictRng(c, 5)
	shapes := []string{"required", "optional", "repeated"}
	splits := []string{"flush", "maxrows", "reset", "abandon"}
	reps := c.N(1, 4)
	pi := 0
	for rep := 0; rep < reps; rep++ {
		for ki := range dictKinds {
			k := &dictKinds[ki]
			for _, shape := range shapes {
				if k.isNull() && shape == "required" {
					continue
				}
				for _, split := range splits {
					// without a size limit
					pattern := dictPatterns[pi%len(dictPatterns)]
					pi++
					fc := &dictFileCase{Kind: k.name, Path: "rows", Shape: shape, Split: split,
						Chunk:  []int{0, 0, 1, 7, 100}[rng.Intn(5)],
						Groups: groupsOf(rng, pattern, 2+rng.Intn(3), 5+rng.Intn(140), 1+rng.Intn(40), shape),
						V2:     rng.Intn(3) == 0}
					if rng.Intn(3) == 0 {
						fc.PageBuf = []int{64, 256, 1024}[rng.Intn(3)]
					}
					runFile(c, fc, "rows/"+pattern)
				}
				// the dictionary outgrows DictionaryMaxBytes in the middle of a
				// row group: the remaining pages of the group are PLAIN, the next
				// group (or file) starts over with an empty dictionary
				for _, split := range []string{"flush", "reset"} {
					pattern := dictPatterns[pi%len(dictPatterns)]
					pi++
					d := 20 + rng.Intn(60)
					fc := &dictFileCase{Kind: k.name, Path: "rows", Shape: shape, Split: split,
						Chunk:    []int{0, 5, 16}[rng.Intn(3)],
						Groups:   groupsOf(rng, pattern, 2+rng.Intn(2), 2*d+rng.Intn(200), d, shape),
						MaxBytes: []int64{1, 40, 150}[rng.Intn(3)],
						PageBuf:  []int{32, 64, 200}[rng.Intn(3)],
						V2:       rng.Intn(3) == 0}
					if k.isBool() {
						fc.MaxBytes = 1 // never exceeded by the one byte of a BOOLEAN dictionary
					}
					runFile(c, fc, "rows-fallback/"+pattern)
				}
			}
		}
	}
	// the typed row of all kinds
	for rep := 0; rep < c.N(2, 8); rep++ {
		for _, pattern := range dictPatterns {
			for _, split := range splits {
				fc := &dictFileCase{Kind: "struct", Path: "typed", Split: split,
					Chunk:  []int{0, 0, 1, 9, 100}[rng.Intn(5)],
					Groups: groupsOf(rng, pattern, 2+rng.Intn(3), 5+rng.Intn(200), 1+rng.Intn(50), "required"),
					V2:     rng.Intn(3) == 0}
				runFile(c, fc, "typed/"+pattern)
				if split == "flush" || split == "reset" {
					d := 20 + rng.Intn(60)
					fb := &dictFileCase{Kind: "struct", Path: "typed", Split: split,
						Chunk:    []int{0, 5, 16}[rng.Intn(3)],
						Groups:   groupsOf(rng, pattern, 2+rng.Intn(2), 2*d+rng.Intn(200), d, "required"),
						MaxBytes: []int64{40, 150, 600}[rng.Intn(3)],
						PageBuf:  []int{64, 200, 1000}[rng.Intn(3)]}
					runFile(c, fb, "typed-fallback/"+pattern)
				}
			}
			fc := &dictFileCase{Kind: "struct", Path: "buffer",
				Chunk:  []int{0, 1, 100}[rng.Intn(3)],
				Groups: groupsOf(rng, pattern, 2+rng.Intn(3), 5+rng.Intn(700), 1+rng.Intn(50), "required")}
			runFile(c, fc, "buffer/"+pattern)
		}
	}
	// the same over the STRUCTURED key families (see structBase): per kind and
	// shape one file per family (splits and patterns in turn) with up to 400
	// distinct values per group, and the typed row of all kinds per family x split
	srng := dictRng(c, 7)
	for rep := 0; rep < reps; rep++ {
		for ki := range dictKinds {
			k := &dictKinds[ki]
			for si, shape := range shapes {
				if k.isNull() && shape == "required" {
					continue
				}
				for family := 1; family < len(structFamilies); family++ {
					if c.Quick() && (family+si+ki+int(c.Seed))%2 == 0 {
						continue // quick tier: every other (kind, shape, family), alternating with the seed
					}
					pattern := dictPatterns[pi%len(dictPatterns)]
					split := splits[pi%len(splits)]
					pi++
					fc := &dictFileCase{Kind: k.name, Path: "rows", Shape: shape, Split: split,
						Chunk:  []int{0, 0, 7, 100}[srng.Intn(4)],
						Groups: structGroups(family, groupsOf(srng, pattern, 2+srng.Intn(2), 50+srng.Intn(500), 1+srng.Intn(400), shape)),
						V2:     srng.Intn(3) == 0}
					runFile(c, fc, "rows-structured/"+structFamilies[family])
				}
			}
		}
	}
	for rep := 0; rep < c.N(1, 4); rep++ {
		for family := 1; family < len(structFamilies); family++ {
			for _, split := range splits {
				pattern := dictPatterns[pi%len(dictPatterns)]
				pi++
				fc := &dictFileCase{Kind: "struct", Path: "typed", Split: split,
					Chunk:  []int{0, 0, 9, 100}[srng.Intn(4)],
					Groups: structGroups(family, groupsOf(srng, pattern, 2+srng.Intn(2), 50+srng.Intn(600), 1+srng.Intn(400), "required")),
					V2:     srng.Intn(3) == 0}
				runFile(c, fc, "typed-structured/"+structFamilies[family])
			}
			pattern := dictPatterns[pi%len(dictPatterns)]
			pi++
			fc := &dictFileCase{Kind: "struct", Path: "buffer",
				Chunk:  []int{0, 100}[srng.Intn(2)],
				Groups: structGroups(family, groupsOf(srng, pattern, 2+srng.Intn(2), 50+srng.Intn(700), 1+srng.Intn(400), "required"))}
			runFile(c, fc, "buffer-structured/"+structFamilies[family])
		}
	}
	c.Note("files over structured values: key families %v x every kind x {required, optional, repeated} (quick tier: every other combination, alternating with the seed) through WriteRows, and x {flush, maxrows, reset, abandon} through the typed GenericWriter[dictRow] and the GenericBuffer[dictRow], up to 400 distinct values per row group", structFamilies[1:])
	names := make([]string, len(dictKinds))
	for i := range dictKinds {
		names[i] = dictKinds[i].name
	}
	sort.Strings(names)
	c.Note("dictionary kinds: %v; files: every kind x {required, optional, repeated} x {Flush between groups, MaxRowsPerRowGroup, writer Close+Reset, writer Reset without Close} x value patterns %v, with and without DictionaryMaxBytes exceeded in the middle of a row group; typed rows (bool, int32, int64, deprecated.Int96, uint32, uint64, float32, float64, string, [16]byte, uuid, [5]byte, time.Time, date, *int64, *deprecated.Int96, []string, all with the dict tag) through GenericWriter and a GenericBuffer reused through Reset", names, dictPatterns)
}
