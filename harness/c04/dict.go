package main

import (
	"fmt"
	"math"
	"reflect"

	"github.com/parquet-go/parquet-go"
	"verif/harness/core"
)

// dictBulk: RLE_DICTIONARY columns of every dictionary kind filled by ONE
// typed Write call of many rows (the dictionaries insert in chunks; a new key
// may first appear deep inside a batch), read back and compared.  The bulk
// insertion routines are not reached by row-at-a-time writes.
type dictRow struct {
	I32 int32    `parquet:"i32,dict"`
	I64 int64    `parquet:"i64,dict"`
	U32 uint32   `parquet:"u32,dict"`
	U64 uint64   `parquet:"u64,dict"`
	F32 float32  `parquet:"f32,dict"`
	F64 float64  `parquet:"f64,dict"`
	S   string   `parquet:"s,dict"`
	B16 [16]byte `parquet:"b16,dict"`
	U   [16]byte `parquet:"u,uuid,dict"`
	B5  [5]byte  `parquet:"b5,dict"`
	O   *int64   `parquet:"o,dict"`
	L   []string `parquet:"l,dict"`
}

func dictRowOf(key int) dictRow {
	r := dictRow{I32: int32(key) * -7, I64: int64(key) << 33, U32: uint32(key) * 0x9E3779B1, U64: uint64(key) * 0x9E3779B97F4A7C15,
		F32: float32(key) / 3, F64: float64(key) / 7, S: fmt.Sprintf("key-%d", key)}
	for i := range r.B16 {
		r.B16[i] = byte(key * (i + 1))
		r.U[i] = byte(key + i)
	}
	for i := range r.B5 {
		r.B5[i] = byte(key >> i)
	}
	if key%3 != 0 {
		v := int64(key) * 11
		r.O = &v
	}
	for i := 0; i < key%3; i++ {
		r.L = append(r.L, fmt.Sprintf("l%d-%d", key, i))
	}
	return r
}

func dictBulk(c *core.Ctx) {
	for _, n := range []int{1, 64, 511, 512, 513, 1100, 2500} {
		for _, stride := range []int{1, 37, 300, 700} {
			rows := make([]dictRow, n)
			for i := range rows {
				rows[i] = dictRowOf(i / stride)
			}
			what := fmt.Sprintf("GenericBuffer[dictRow].Write of %d rows in one call, a new key every %d rows", n, stride)
			replay := map[string]any{"kind": "dict-bulk", "rows": n, "stride": stride}
			bad := ""
			p := safely(func() {
				buf := parquet.NewGenericBuffer[dictRow]()
				if _, err := buf.Write(rows); err != nil {
					bad = "write: " + err.Error()
					return
				}
				out := make([]dictRow, n)
				r := parquet.NewGenericRowGroupReader[dictRow](buf)
				got, _ := r.Read(out)
				r.Close()
				if got != n {
					bad = fmt.Sprintf("%d rows read back", got)
					return
				}
				for i := range rows {
					a, b := rows[i], out[i]
					if math.Float32bits(a.F32) != math.Float32bits(b.F32) || math.Float64bits(a.F64) != math.Float64bits(b.F64) {
						bad = fmt.Sprintf("row %d: float columns differ", i)
						return
					}
					a.F32, b.F32, a.F64, b.F64 = 0, 0, 0, 0
					if len(a.L) == 0 {
						a.L = nil
					}
					if len(b.L) == 0 {
						b.L = nil
					}
					if !reflect.DeepEqual(a, b) {
						bad = fmt.Sprintf("row %d (key %d) read back as %+v, written %+v", i, i/stride, b, a)
						return
					}
				}
			})
			c.Res.Evaluations++
			if p != "" {
				c.Violation("dict-bulk", what+": panic "+core.Trunc(p, 200), replay)
			} else if bad != "" {
				c.Violation("dict-bulk", what+": "+bad, replay)
			}
			c.Case("dict/bulk", fmt.Sprintf("%d/%d", n, stride), n > 1)
		}
	}
}
