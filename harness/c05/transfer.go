// C05 — (b') files written through Writer.WriteRowGroup from sorted row groups
// (every path: verbatim copy, column-wise re-encode, row path, segments of a
// MultiRowGroup) and the column indexes of MultiRowGroup(...) column chunks.
package main

import (
	"bytes"
	"fmt"
	"io"
	"slices"
	"sort"
	"strings"

	"github.com/parquet-go/parquet-go"
	"github.com/parquet-go/parquet-go/format"

	"verif/harness/core"
)

func showSorting(sc []format.SortingColumn) string {
	if len(sc) == 0 {
		return "{}"
	}
	var sb strings.Builder
	for _, s := range sc {
		fmt.Fprintf(&sb, "{column %d descending=%v nullsFirst=%v}", s.ColumnIdx, s.Descending, s.NullsFirst)
	}
	return sb.String()
}

// sortedWhy tells why the rows of a row group (vals[column] = the values of
// the column chunk, one per row for required and optional columns) are not
// sorted the way the sorting columns sc say; "" when they are. Sorting columns
// on repeated columns are not evaluated.
func sortedWhy(cols []fcol, sc []format.SortingColumn, vals [][]parquet.Value) string {
	n := -1
	for _, s := range sc {
		ci := int(s.ColumnIdx)
		if ci < 0 || ci >= len(cols) {
			return fmt.Sprintf("column %d does not exist", ci)
		}
		if cols[ci].Rep == "rep" || vals[ci] == nil {
			return ""
		}
		if n < 0 || len(vals[ci]) < n {
			n = len(vals[ci])
		}
	}
	for r := 0; r+1 < n; r++ {
	keys:
		for _, s := range sc {
			ci := int(s.ColumnIdx)
			k := kindByName[cols[ci].Kind]
			a, b := vals[ci][r], vals[ci][r+1]
			d := 0
			switch {
			case a.IsNull() && b.IsNull():
			case a.IsNull():
				d = 1
				if s.NullsFirst {
					d = -1
				}
			case b.IsNull():
				d = -1
				if s.NullsFirst {
					d = 1
				}
			default:
				d = k.Typ.Compare(a, b)
				if s.Descending {
					d = -d
				}
			}
			switch {
			case d < 0:
				break keys
			case d > 0:
				return fmt.Sprintf("row %d holds %s and row %d holds %s in column %d", r, k.show(a), r+1, k.show(b), ci)
			}
		}
	}
	return ""
}

// ---------------------------------------------------------------- MultiRowGroup column indexes

// multiChecks: the column chunks of parquet.MultiRowGroup over the row groups
// of a file (in file order, reversed, and in the order fc.Multi asks for).
func multiChecks(c *core.Ctx, fc *fcase, f *parquet.File, label string, cols []fcol, chunkPages [][][]pageData) bool {
	n := len(f.RowGroups())
	if n < 2 {
		return true
	}
	natural, reversed := make([]int, n), make([]int, n)
	for i := range natural {
		natural[i], reversed[i] = i, n-1-i
	}
	ok := multiCheck(c, fc, f, label, cols, chunkPages, natural, 0)
	if !multiCheck(c, fc, f, label, cols, chunkPages, reversed, 0) {
		ok = false
	}
	if len(fc.Multi) >= 2 {
		pick := make([]int, len(fc.Multi))
		for i, x := range fc.Multi {
			pick[i] = ((x % n) + n) % n
		}
		if !multiCheck(c, fc, f, label, cols, chunkPages, pick, fc.MultiNest) {
			ok = false
		}
	}
	return ok
}

func multiCheck(c *core.Ctx, fc *fcase, f *parquet.File, label string, cols []fcol, chunkPages [][][]pageData, pick []int, nest int) (ok bool) {
	ok = true
	what := fmt.Sprintf("%s: MultiRowGroup of row groups %v", label, pick)
	if nest >= 2 && nest < len(pick) {
		what += fmt.Sprintf(" (the first %d nested)", nest)
	}
	viol := func(class, msg string) {
		c.Violation(class, what+" "+msg, fc)
		ok = false
	}
	defer func() {
		if r := recover(); r != nil {
			viol("multi-index-panic", fmt.Sprintf("panicked: %v", r))
		}
	}()
	all := f.RowGroups()
	rgs := make([]parquet.RowGroup, len(pick))
	for i, p := range pick {
		rgs[i] = all[p]
	}
	if nest >= 2 && nest < len(rgs) {
		rgs = append([]parquet.RowGroup{parquet.MultiRowGroup(rgs[:nest]...)}, rgs[nest:]...)
	}
	m := parquet.MultiRowGroup(rgs...)
	chunks := m.ColumnChunks()
	if len(chunks) != len(cols) {
		viol("multi-index-columns", fmt.Sprintf("has %d column chunks, the file has %d columns", len(chunks), len(cols)))
		return
	}
columns:
	for ci, cc := range chunks {
		col := cols[ci]
		k := kindByName[col.Kind]
		where := fmt.Sprintf("column %d (%s %s dict=%v)", ci, col.Kind, col.Rep, col.Dict)
		// the pages the index must describe, and what the index of each chunk says
		var pages []pageData
		var claims []string
		nullChunks := 0
		for _, p := range pick {
			if chunkPages[p][ci] == nil {
				continue columns // no column index for this column
			}
			pages = append(pages, chunkPages[p][ci]...)
			cix, err := all[p].ColumnChunks()[ci].ColumnIndex()
			if err != nil || cix == nil {
				continue columns
			}
			var sb strings.Builder
			for _, b := range []bool{cix.IsAscending(), cix.IsDescending()} {
				if b {
					sb.WriteByte('1')
				} else {
					sb.WriteByte('0')
				}
			}
			sb.WriteByte('~')
			nonNull := 0
			for i := 0; i < cix.NumPages(); i++ {
				if i > 0 {
					sb.WriteByte(',')
				}
				if cix.NullPage(i) {
					sb.WriteByte('N')
				} else {
					nonNull++
					sb.WriteString(k.tok(cix.MinValue(i)) + ":" + k.tok(cix.MaxValue(i)))
				}
			}
			if nonNull == 0 {
				nullChunks++
			}
			claims = append(claims, sb.String())
		}
		ix, err := cc.ColumnIndex()
		if err != nil || ix == nil {
			viol("multi-index-missing", fmt.Sprintf("%s: ColumnIndex(): %v", where, err))
			continue
		}
		np := len(pages)
		if ix.NumPages() != np {
			viol("multi-index-pages", fmt.Sprintf("%s: the index has %d pages, the chunks have %d", where, ix.NumPages(), np))
			continue
		}
		mins, maxs := make([]parquet.Value, np), make([]parquet.Value, np)
		for p, pg := range pages {
			nulls := countNulls(pg.vals)
			allNull := nulls == int64(len(pg.vals))
			mins[p], maxs[p] = ix.MinValue(p).Clone(), ix.MaxValue(p).Clone()
			if ix.NullCount(p) != nulls {
				viol("multi-index-null-count", fmt.Sprintf("%s page %d: null_count %d, real %d", where, p, ix.NullCount(p), nulls))
			}
			if ix.NullPage(p) != allNull {
				viol("multi-index-null-page", fmt.Sprintf("%s page %d: null_page %v, %d of %d values are null", where, p, ix.NullPage(p), nulls, len(pg.vals)))
				continue
			}
			if allNull {
				continue
			}
			if why := boundsPredicate(k, mins[p], maxs[p], true, pg.vals, false); why != "" {
				viol("multi-index-bound-not-bound", fmt.Sprintf("%s page %d: %s", where, p, why))
			}
		}
		asc, desc := ix.IsAscending(), ix.IsDescending()
		for _, o := range []struct {
			claimed bool
			order   format.BoundaryOrder
		}{{asc, format.Ascending}, {desc, format.Descending}} {
			if !o.claimed {
				continue
			}
			if good, why := orderClaimTrue(k, o.order, ix.NullPage, mins, maxs); !good {
				viol("order-claim-false", where+": "+why)
			}
		}
		// skip safety: Search never goes past the page of a present value
		typ := cc.Type()
	search:
		for p, pg := range pages {
			seen := map[string]bool{}
			for _, v := range pg.vals {
				if v.IsNull() || k.isNaN(v) || seen[k.tok(v)] {
					continue
				}
				seen[k.tok(v)] = true
				c.Res.Evaluations++
				if r := parquet.Search(ix, v, typ); r > p {
					viol("skip-unsafe", fmt.Sprintf("%s: value %s is in page %d of %d but Search returned %d (ascending=%v descending=%v, page bounds [%s,%s])", where, k.show(v), p, np, r, asc, desc, k.show(mins[p]), k.show(maxs[p])))
					break search
				}
			}
		}
		// the model of multiColumnIndex.isOrdered on what the chunks' indexes say
		if c.HasOracle() {
			req := "c05.multi " + k.Model + " " + strings.Join(claims, "/")
			got := "00"
			switch {
			case asc && desc:
				got = "11"
			case asc:
				got = "10"
			case desc:
				got = "01"
			}
			if want := c.Ask(req); want != got && ok {
				c.Mismatch("corr:C05.multi_order", req, got, want, fc)
				ok = false
			}
		}
		bucket := fmt.Sprintf("multi/%s/asc=%v,desc=%v", label, asc, desc)
		if nullChunks > 0 {
			bucket += "/nullchunks"
		}
		if nest >= 2 && nest < len(pick) {
			bucket += "/nested"
		}
		c.Case(bucket, fmt.Sprintf("%s|%s|%v|%s", col.Kind, col.Rep, col.Dict, strings.Join(claims, "/")), len(pick) >= 2 && np > len(pick))
	}
	return
}

// ---------------------------------------------------------------- Writer.WriteRowGroup

// opaqueRowGroup: an application-defined RowGroup (the writer cannot look
// behind it and takes the row path).
type opaqueRowGroup struct{ parquet.RowGroup }

func (fc *fcase) sortingColumns() (sc []parquet.SortingColumn, want []format.SortingColumn) {
	for _, key := range fc.Keys {
		if key.Col < 0 || key.Col >= len(fc.Cols) {
			continue
		}
		s := parquet.Ascending(colName(key.Col))
		if key.Desc {
			s = parquet.Descending(colName(key.Col))
		}
		if key.NullsFirst {
			s = parquet.NullsFirst(s)
		}
		sc = append(sc, s)
		want = append(want, format.SortingColumn{ColumnIdx: int32(key.Col), Descending: key.Desc, NullsFirst: key.NullsFirst})
	}
	return
}

func readAllRows(rg parquet.RowGroup) (out []parquet.Row, err error) {
	rr := rg.Rows()
	defer rr.Close()
	buf := make([]parquet.Row, 64)
	for idle := 0; idle < 3; {
		n, e := rr.ReadRows(buf)
		for _, r := range buf[:n] {
			out = append(out, r.Clone())
		}
		if e == io.EOF {
			return out, nil
		}
		if e != nil {
			return out, e
		}
		if n == 0 {
			idle++
		}
	}
	return out, fmt.Errorf("ReadRows makes no progress")
}

// colsOfRows: the columns of fc holding the given rows.
func colsOfRows(fc *fcase, rows []parquet.Row) []fcol {
	cols := make([]fcol, len(fc.Cols))
	for i, col := range fc.Cols {
		cols[i] = col
		cols[i].Rows = make([][]string, len(rows))
		for r := range rows {
			cols[i].Rows[r] = []string{}
		}
	}
	for r, row := range rows {
		for _, v := range row {
			ci := v.Column()
			if ci < 0 || ci >= len(cols) {
				continue
			}
			switch {
			case !v.IsNull():
				cols[ci].Rows[r] = append(cols[ci].Rows[r], kindByName[cols[ci].Kind].tok(v))
			case cols[ci].Rep != "rep":
				cols[ci].Rows[r] = append(cols[ci].Rows[r], "N")
			}
		}
	}
	return cols
}

// projection: the columns of the target schema of the conversion on the way
// (valid, ascending, without repetitions); nil when there is none.
func (fc *fcase) projection() (proj []int) {
	for _, i := range fc.Project {
		if i >= 0 && i < len(fc.Cols) && !slices.Contains(proj, i) {
			proj = append(proj, i)
		}
	}
	sort.Ints(proj)
	return proj
}

// convertedSortingWhy: the sorting columns a converted row group declares are
// columns of its schema, are a leading part of what may be declared (kept), and
// are true of the rows it yields.
func convertedSortingWhy(proj []int, tcols []fcol, rg parquet.RowGroup, kept []format.SortingColumn) (class, why string) {
	var sc []format.SortingColumn
	for _, s := range rg.SortingColumns() {
		path := s.Path()
		j := -1
		for t, i := range proj {
			if len(path) == 1 && path[0] == colName(i) {
				j = t
			}
		}
		if j < 0 {
			return "sorting-not-declared", fmt.Sprintf("it declares the sorting column %v which its schema lacks", path)
		}
		sc = append(sc, format.SortingColumn{ColumnIdx: int32(j), Descending: s.Descending(), NullsFirst: s.NullsFirst()})
	}
	if len(sc) > len(kept) || !slices.Equal(sc, kept[:len(sc)]) {
		return "sorting-differs", fmt.Sprintf("it declares the sorting columns %s, the rows are known to be sorted by %s only", showSorting(sc), showSorting(kept))
	}
	if len(sc) == 0 {
		return "", ""
	}
	rows, err := readAllRows(rg)
	if err != nil {
		return "file-read-error", "reading its rows: " + err.Error()
	}
	vals := make([][]parquet.Value, len(tcols))
	for _, row := range rows {
		for _, v := range row {
			if ci := v.Column(); ci >= 0 && ci < len(vals) {
				vals[ci] = append(vals[ci], v)
			}
		}
	}
	for _, s := range sc {
		if tcols[s.ColumnIdx].Rep != "rep" && len(vals[s.ColumnIdx]) != len(rows) {
			return "file-read-error", fmt.Sprintf("its %d rows hold %d values of column %d", len(rows), len(vals[s.ColumnIdx]), s.ColumnIdx)
		}
	}
	if why := sortedWhy(tcols, sc, vals); why != "" {
		return "sorting-claim-false", fmt.Sprintf("it declares the sorting columns %s but %s", showSorting(sc), why)
	}
	return "", ""
}

// viaCheck: the rows sorted in source row groups that declare their sorting
// columns, written through Writer.WriteRowGroup; every statistic of the file
// is checked as for a written file, and the sorting columns recorded for each
// row group must be the declaration and be true of the rows.
func viaCheck(c *core.Ctx, fc *fcase) (ok bool) {
	if len(fc.Project) > 0 && (fc.Sort != "" || fc.SkipBounds) {
		// the options that name columns of the source schema do not go with a conversion
		t := *fc
		t.Sort, t.SkipBounds = "", false
		fc = &t
	}
	fail := func(class, what string) bool {
		c.Violation(class, "via "+fc.Via+": "+what, fc)
		return false
	}
	defer func() {
		if r := recover(); r != nil {
			ok = fail("file-write-error", fmt.Sprintf("panic: %v", r))
		}
	}()
	s, e := fc.schema()
	if e != "" {
		return fail("file-write-error", "schema: "+e)
	}
	rows := fc.rows()
	groups := fc.SrcGroups
	if groups < 1 {
		groups = 1
	}
	if groups > len(rows) {
		groups = len(rows)
	}
	if groups == 0 {
		return true
	}
	sorting, want := fc.sortingColumns()
	// the source row groups: sorted buffers
	var sources []parquet.RowGroup
	var sorted []parquet.Row
	maxGroup := 0
	for g := 0; g < groups; g++ {
		part := rows[g*len(rows)/groups : (g+1)*len(rows)/groups]
		if len(part) > maxGroup {
			maxGroup = len(part)
		}
		opts := []parquet.RowGroupOption{s}
		if len(sorting) > 0 {
			opts = append(opts, parquet.SortingRowGroupConfig(parquet.SortingColumns(sorting...)))
		}
		buf := parquet.NewBuffer(opts...)
		if _, err := buf.WriteRows(part); err != nil {
			return fail("file-write-error", "Buffer.WriteRows: "+err.Error())
		}
		sort.Sort(buf)
		got, err := readAllRows(buf)
		if err != nil || len(got) != len(part) {
			return fail("file-write-error", fmt.Sprintf("reading the sorted buffer: %d of %d rows, %v", len(got), len(part), err))
		}
		sorted = append(sorted, got...)
		sources = append(sources, buf)
	}
	cols := colsOfRows(fc, sorted)
	exp := sortExpect{want: want, truth: true}
	ok = true
	switch fc.Via {
	case "buffer":
	case "wrapped":
		for i := range sources {
			sources[i] = opaqueRowGroup{sources[i]}
		}
	default:
		// a source file
		src := *fc
		src.Sort, src.MaxRows = "", 0
		if fc.Via == "file-reencode" {
			src.V2 = !fc.V2
		}
		opts := src.options(s)
		if fc.SrcCfg && len(sorting) > 0 {
			opts = append(opts, parquet.SortingWriterConfig(parquet.SortingColumns(sorting...)))
		}
		var sbuf bytes.Buffer
		w := parquet.NewWriter(&sbuf, opts...)
		for _, rg := range sources {
			if _, err := w.WriteRowGroup(rg); err != nil {
				return fail("file-write-error", "source file: WriteRowGroup: "+err.Error())
			}
		}
		if err := w.Close(); err != nil {
			return fail("file-write-error", "source file: Close: "+err.Error())
		}
		if !checkFile(c, fc, sbuf.Bytes(), "wrg-source", cols, exp) {
			ok = false
		}
		f, err := parquet.OpenFile(bytes.NewReader(sbuf.Bytes()), int64(sbuf.Len()))
		if err != nil {
			return fail("file-open-error", "source file: "+err.Error())
		}
		sources = sources[:0]
		for _, rg := range f.RowGroups() {
			if fc.Via == "file-wrapped" {
				rg = opaqueRowGroup{rg}
			}
			sources = append(sources, rg)
		}
	}
	// the conversion on the way: each source row group behind ConvertRowGroup
	target, tcols := s, cols
	if proj := fc.projection(); proj != nil {
		var e string
		if target, e = fc.schemaOf(proj); e != "" {
			return fail("file-write-error", "target schema: "+e)
		}
		conv, err := parquet.Convert(target, s)
		if err != nil {
			return fail("file-write-error", "Convert: "+err.Error())
		}
		tcols = make([]fcol, len(proj))
		for j, i := range proj {
			tcols[j] = cols[i]
		}
		// what may be declared for the converted rows: the sorting columns
		// before the first one that the target lacks
		var kept []format.SortingColumn
		for _, sc := range want {
			j := slices.Index(proj, int(sc.ColumnIdx))
			if j < 0 {
				break
			}
			sc.ColumnIdx = int32(j)
			kept = append(kept, sc)
		}
		exp.want = kept
		if len(kept) < len(want) {
			exp.optional = true
		}
		for i := range sources {
			sources[i] = parquet.ConvertRowGroup(sources[i], conv)
			if class, why := convertedSortingWhy(proj, tcols, sources[i], kept); why != "" {
				ok = fail(class, fmt.Sprintf("source row group %d converted to columns %v: %s", i, proj, why))
			}
		}
	}
	if fc.Via == "multi" && len(sources) >= 2 {
		sources = []parquet.RowGroup{parquet.MultiRowGroup(sources...)}
		exp.optional = true
	}
	if fc.MaxRows > 0 && int64(maxGroup) > fc.MaxRows {
		// cut on the way: the parts written before the last one carry no declaration
		exp.optional = true
	}
	if fc.Sort != "" {
		// the writer's own declaration prevails; nobody said it is true of these rows
		exp = fc.writerSortExpect()
	}
	var out bytes.Buffer
	w := parquet.NewWriter(&out, fc.options(target)...)
	copied, columns := parquet.VerifCopyPathCount(), parquet.VerifReencodePathCount()
	var total int64
	for _, rg := range sources {
		n, err := w.WriteRowGroup(rg)
		if err != nil {
			return fail("file-write-error", "WriteRowGroup: "+err.Error())
		}
		total += n
	}
	if err := w.Close(); err != nil {
		return fail("file-write-error", "Close: "+err.Error())
	}
	if total != int64(len(rows)) {
		ok = fail("write-row-group-count", fmt.Sprintf("WriteRowGroup reported %d rows, %d were handed over", total, len(rows)))
	}
	label := "wrg-rows"
	switch {
	case parquet.VerifCopyPathCount() > copied:
		label = "wrg-copied"
	case parquet.VerifReencodePathCount() > columns:
		label = "wrg-columns"
	}
	if !checkFile(c, fc, out.Bytes(), label, tcols, exp) {
		ok = false
	}
	if fc.projection() != nil {
		label += "/converted"
		if len(exp.want) < len(want) {
			label += "-keys-lost"
		}
	}
	desc, nf := "", ""
	for _, k := range fc.Keys {
		desc += map[bool]string{false: "a", true: "d"}[k.Desc]
		nf += map[bool]string{false: "l", true: "f"}[k.NullsFirst]
	}
	c.Case("transfer/"+fc.Via+"/"+label, fmt.Sprintf("%s|%s|%s|%d|%d", desc, nf, fc.Sort, groups, len(rows)), len(fc.Keys) > 0 && len(rows) >= 2)
	return ok
}

var vias = []string{"buffer", "wrapped", "file", "file-reencode", "file-wrapped", "split", "multi"}

// ---------------------------------------------------------------- generators

// genColumnSaw produces the rows of one column as segments of seg rows (one
// per row group when the writer is flushed every seg rows): each segment is an
// ascending, descending, constant, random or null-only run (most of them in
// the direction of the column's trend) that starts near the place where the
// previous one ended, so that the value ranges of neighbouring
// row groups are disjoint, touch, overlap partially or are nested; optional and
// repeated columns get nulls inside the runs and whole pages of nulls at the
// ends of a segment. nan: NaN values are mixed in (float kinds).
func genColumnSaw(c *core.Ctx, k *kind, rep string, n, seg int, nan bool) [][]string {
	rows := make([][]string, 0, n)
	d := len(k.Domain)
	cur := c.Rng.Intn(d)
	trend := c.Rng.Intn(10) // 0-4: most segments ascend, 5-7: most descend, 8-9: any
	switch {
	case trend < 5:
		cur = c.Rng.Intn(1 + d/3)
	case trend < 8:
		cur = d - 1 - c.Rng.Intn(1+d/3)
	}
	null := func() []string {
		if rep == "rep" {
			return []string{}
		}
		return []string{"N"}
	}
	for len(rows) < n {
		m := seg
		if m > n-len(rows) {
			m = n - len(rows)
		}
		mode := c.Rng.Intn(20) // 0-11 ascending, 12-15 descending, 16 constant, 17 random, 18-19 null only
		switch {
		case trend < 5 && mode < 16: // an ascending column: 14 ascending, 1 descending, 1 constant
			mode = []int{0, 0, 0, 0, 0, 0, 0, 0, 0, 0, 0, 0, 0, 0, 12, 16}[mode]
		case trend < 8 && mode < 16: // a descending column
			mode = []int{12, 12, 12, 12, 12, 12, 12, 12, 12, 12, 12, 12, 12, 12, 0, 16}[mode]
		}
		if rep == "req" && mode >= 18 {
			mode = c.Rng.Intn(16)
		}
		// where the segment starts relative to the end of the previous one
		// (half of the time exactly there: the ranges touch)
		switch {
		case c.Rng.Intn(2) == 0 || trend < 8 && c.Rng.Intn(2) == 0:
		case mode < 12:
			cur -= c.Rng.Intn(4)
		case mode < 16:
			cur += c.Rng.Intn(4)
		}
		if c.Rng.Intn(8) == 0 {
			cur = c.Rng.Intn(d)
		}
		step := 1 + c.Rng.Intn(1+2*m/(d+1))
		leadNulls, tailNulls := 0, 0
		if rep != "req" {
			if c.Rng.Intn(4) == 0 {
				leadNulls = 1 + c.Rng.Intn(1+m/3)
			}
			if c.Rng.Intn(4) == 0 {
				tailNulls = 1 + c.Rng.Intn(1+m/3)
			}
		}
		for i := 0; i < m; i++ {
			switch {
			case mode >= 18 || i < leadNulls || i >= m-tailNulls:
				rows = append(rows, null())
				continue
			case rep != "req" && c.Rng.Intn(7) == 0:
				rows = append(rows, null())
				continue
			case nan && len(k.NaNs) > 0 && c.Rng.Intn(40) == 0:
				rows = append(rows, []string{k.tok(k.NaNs[c.Rng.Intn(len(k.NaNs))])})
				continue
			}
			switch {
			case mode < 12:
				if c.Rng.Intn(step) == 0 {
					cur += c.Rng.Intn(2)
				}
			case mode < 16:
				if c.Rng.Intn(step) == 0 {
					cur -= c.Rng.Intn(2)
				}
			case mode == 17:
				cur = c.Rng.Intn(d)
			}
			if cur < 0 {
				cur = 0
			}
			if cur >= d {
				cur = d - 1
			}
			vals := []string{k.tok(k.Domain[cur])}
			if rep == "rep" && c.Rng.Intn(3) == 0 {
				vals = append(vals, vals[0])
			}
			rows = append(rows, vals)
		}
	}
	return rows
}

// stripNaN replaces the NaN values of a column by values of the domain (the
// column order says nothing about NaN, so a sorting column must not hold any).
func stripNaN(c *core.Ctx, k *kind, rows [][]string) {
	if len(k.NaNs) == 0 {
		return
	}
	nan := map[string]bool{}
	for _, v := range k.NaNs {
		nan[k.tok(v)] = true
	}
	for _, r := range rows {
		for i, t := range r {
			if nan[t] {
				r[i] = k.tok(k.Domain[c.Rng.Intn(len(k.Domain))])
			}
		}
	}
}

func randMulti(c *core.Ctx, fc *fcase) {
	if c.Rng.Intn(2) == 0 {
		// consecutive row groups, starting anywhere
		from := c.Rng.Intn(8)
		for n := 2 + c.Rng.Intn(3); n > 0; n-- {
			fc.Multi = append(fc.Multi, from)
			from++
		}
	} else {
		for n := 2 + c.Rng.Intn(4); n > 0; n-- {
			fc.Multi = append(fc.Multi, c.Rng.Intn(8))
		}
	}
	if c.Rng.Intn(3) == 0 {
		fc.MultiNest = 2 + c.Rng.Intn(2)
	}
}

// multiSweep: for every kind three files (required / optional, plain /
// dictionary) of 3-6 row groups whose value ranges are laid out by
// genColumnSaw; the column indexes of MultiRowGroup over the row groups in
// file order, reversed and in a random order (with repetitions and nesting).
func multiSweep(c *core.Ctx) {
	i := 0
	for round := c.N(1, 4); round > 0; round-- {
		for _, k := range kinds {
			for v := 0; v < 3; v++ {
				seg := 12 + c.Rng.Intn(28)
				n := seg * (3 + c.Rng.Intn(4))
				fc := &fcase{PageBuf: []int{16, 32, 64}[c.Rng.Intn(3)], Limit: []int{16, 0, 4}[i%3], V2: i%2 == 0, Batch: 1 + c.Rng.Intn(12), Flush: seg}
				rep := []string{"req", "opt", "opt", "rep"}[(i+v)%4]
				fc.Cols = []fcol{{Kind: k.Name, Rep: rep, Dict: canDict(k) && (i/2+v)%2 == 1, Rows: genColumnSaw(c, k, rep, n, seg, v == 2)}}
				randMulti(c, fc)
				fileRun(c, fc)
				i++
			}
		}
	}
}

// transferSweep: every way into Writer.WriteRowGroup with every combination
// of (descending, nulls first) on one sorting column, and with two sorting
// columns, over rotating kinds.
func transferSweep(c *core.Ctx) {
	i := 0
	mkcol := func(rep string, n int) fcol {
		k := kinds[(i*5+c.Rng.Intn(3))%len(kinds)]
		i++
		col := fcol{Kind: k.Name, Rep: rep, Dict: canDict(k) && c.Rng.Intn(3) == 0, Rows: genColumnSaw(c, k, rep, n, 1+c.Rng.Intn(n), false)}
		return col
	}
	for round := c.N(1, 4); round > 0; round-- {
		for _, via := range vias {
			for combo := 0; combo < 6; combo++ {
				n := 30 + c.Rng.Intn(60)
				fc := &fcase{PageBuf: []int{16, 32, 64, 256}[c.Rng.Intn(4)], Limit: []int{16, 0, 3}[i%3], V2: c.Rng.Intn(2) == 0, Batch: 1,
					Via: via, SrcGroups: 1 + c.Rng.Intn(3), SrcCfg: c.Rng.Intn(2) == 0}
				if via == "split" {
					fc.MaxRows = int64(2 + c.Rng.Intn(n/fc.SrcGroups))
				}
				fc.Cols = []fcol{mkcol("opt", n), mkcol([]string{"req", "opt", "rep"}[c.Rng.Intn(3)], n)}
				if combo < 4 {
					fc.Keys = []skey{{Col: 0, Desc: combo&1 != 0, NullsFirst: combo&2 != 0}}
				} else {
					// two sorting columns, the second column first
					fc.Cols[1] = mkcol("opt", n)
					a, b := c.Rng.Intn(4), c.Rng.Intn(4)
					fc.Keys = []skey{{Col: 1, Desc: a&1 != 0, NullsFirst: a&2 != 0}, {Col: 0, Desc: b&1 != 0, NullsFirst: b&2 != 0}}
				}
				fileRun(c, fc)
			}
		}
	}
}

// convertSweep: every way into Writer.WriteRowGroup with a conversion of the
// source row groups on the way. Four columns whose values repeat (so that the
// later sorting columns decide the order of many rows), three of them sorting
// columns in a random order of precedence; the target schema lacks the first,
// the second, the third sorting column, the first two, the column that is not
// a sorting column, or nothing.
func convertSweep(c *core.Ctx) {
	small := []string{"int8", "bool", "uint16", "int32", "date", "flba5", "decflba", "float"}
	for round := c.N(1, 3); round > 0; round-- {
		for vi, via := range vias {
			for shape := 0; shape < 6; shape++ {
				n := 40 + c.Rng.Intn(50)
				fc := &fcase{PageBuf: []int{16, 64, 256}[c.Rng.Intn(3)], Limit: 16, V2: c.Rng.Intn(2) == 0, Batch: 1,
					Via: via, SrcGroups: 1 + c.Rng.Intn(3), SrcCfg: c.Rng.Intn(2) == 0}
				if via == "split" {
					fc.MaxRows = int64(2 + c.Rng.Intn(n/fc.SrcGroups))
				}
				for j := 0; j < 4; j++ {
					k := kindByName[small[(vi+shape+3*j+c.Rng.Intn(2))%len(small)]]
					rep := []string{"req", "opt"}[c.Rng.Intn(2)]
					// a few distinct values per column: runs of a constant, short walks
					rows := genColumnSaw(c, k, rep, n, 2+c.Rng.Intn(6), false)
					if j < 2 {
						// the sorting columns of higher precedence: 2-4 distinct values
						d := 2 + c.Rng.Intn(3)
						for r := range rows {
							if rows[r][0] != "N" {
								rows[r] = []string{k.tok(k.Domain[c.Rng.Intn(d)%len(k.Domain)])}
							}
						}
					}
					fc.Cols = append(fc.Cols, fcol{Kind: k.Name, Rep: rep, Dict: canDict(k) && c.Rng.Intn(3) == 0, Rows: rows})
				}
				// precedence: the two columns of few values first (in either order), then one of the others
				perm := []int{0, 1, 2 + c.Rng.Intn(2)}
				if c.Rng.Intn(2) == 0 {
					perm[0], perm[1] = 1, 0
				}
				for _, ci := range perm {
					fc.Keys = append(fc.Keys, skey{Col: ci, Desc: c.Rng.Intn(2) == 0, NullsFirst: c.Rng.Intn(2) == 0})
				}
				other := 5 - perm[2]
				drop := [][]int{{perm[0]}, {perm[1]}, {perm[2]}, {perm[0], perm[1]}, {other}, {}}[shape]
				for ci := 0; ci < 4; ci++ {
					if !slices.Contains(drop, ci) {
						fc.Project = append(fc.Project, ci)
					}
				}
				fileRun(c, fc)
			}
		}
	}
}

// randVia turns a random file case into a WriteRowGroup case.
func randVia(c *core.Ctx, fc *fcase) {
	fc.Via = vias[c.Rng.Intn(len(vias))]
	fc.Copy, fc.Reuse, fc.Flush, fc.Multi, fc.MultiNest = false, 0, 0, nil, 0
	fc.SrcGroups = 1 + c.Rng.Intn(4)
	fc.SrcCfg = c.Rng.Intn(2) == 0
	if fc.Via != "split" && c.Rng.Intn(4) != 0 {
		fc.MaxRows = 0
	}
	if c.Rng.Intn(4) != 0 {
		fc.Sort = ""
	}
	var cand []int
	for i, col := range fc.Cols {
		if col.Rep != "rep" {
			cand = append(cand, i)
		}
	}
	c.Rng.Shuffle(len(cand), func(i, j int) { cand[i], cand[j] = cand[j], cand[i] })
	nkeys := 1 + c.Rng.Intn(3)
	for i := 0; i < len(cand) && i < nkeys; i++ {
		col := &fc.Cols[cand[i]]
		stripNaN(c, kindByName[col.Kind], col.Rows)
		fc.Keys = append(fc.Keys, skey{Col: cand[i], Desc: c.Rng.Intn(2) == 0, NullsFirst: c.Rng.Intn(2) == 0})
	}
	// one case in three of several columns: a conversion to some of the columns on the way
	if len(fc.Cols) >= 2 && c.Rng.Intn(3) == 0 {
		for i := range fc.Cols {
			if c.Rng.Intn(3) != 0 {
				fc.Project = append(fc.Project, i)
			}
		}
		if len(fc.Project) == 0 {
			fc.Project = []int{c.Rng.Intn(len(fc.Cols))}
		}
		fc.Sort, fc.SkipBounds = "", false
	}
}
