// C05 — statistics and page indexes bound the data they describe.
//
// (a) direct calls of every ColumnIndexer, of Type.Compare and of the page and
// dictionary Bounds against the extracted model (exact correspondence) and
// against the property predicates; (b) files written with generated schemas
// and layouts (and re-written through the verbatim copy path) whose page-header
// statistics, chunk statistics, column index, level histograms and sorting
// metadata are checked directly against the values read back from the pages
// and against the model; (c) a vm_compute sample.
package main

import (
	"bytes"
	"encoding/hex"
	"encoding/json"
	"fmt"
	"math"
	"math/big"
	"slices"
	"sort"
	"strconv"
	"strings"

	"github.com/parquet-go/parquet-go"
	"github.com/parquet-go/parquet-go/deprecated"
	"github.com/parquet-go/parquet-go/encoding/thrift"
	"github.com/parquet-go/parquet-go/format"

	"verif/harness/core"
)

func main() { core.Main("C05", runC05, replayC05) }

// ---------------------------------------------------------------- kinds

// kind describes one column type: the oracle kind that models it, the parquet
// type, a leaf node constructor and an ordered domain of interesting values.
type kind struct {
	Name   string
	Model  string
	Typ    parquet.Type
	Node   func() parquet.Node
	Num    bool // value = bit pattern
	Float  bool
	Width  int // bytes of a numeric value
	Trunc  bool
	Domain []parquet.Value // sorted by Typ.Compare, no NaN
	NaNs   []parquet.Value
}

var kinds []*kind
var kindByName = map[string]*kind{}

func i32s(xs ...int32) (vs []parquet.Value) {
	for _, x := range xs {
		vs = append(vs, parquet.Int32Value(x))
	}
	return
}
func i64s(xs ...int64) (vs []parquet.Value) {
	for _, x := range xs {
		vs = append(vs, parquet.Int64Value(x))
	}
	return
}
func f32s(xs ...uint32) (vs []parquet.Value) {
	for _, x := range xs {
		vs = append(vs, parquet.FloatValue(math.Float32frombits(x)))
	}
	return
}
func f64s(xs ...uint64) (vs []parquet.Value) {
	for _, x := range xs {
		vs = append(vs, parquet.DoubleValue(math.Float64frombits(x)))
	}
	return
}
func hexs(fixed bool, xs ...string) (vs []parquet.Value) {
	for _, x := range xs {
		b, err := hex.DecodeString(strings.ReplaceAll(x, " ", ""))
		if err != nil {
			panic(err)
		}
		if fixed {
			vs = append(vs, parquet.FixedLenByteArrayValue(b))
		} else {
			vs = append(vs, parquet.ByteArrayValue(b))
		}
	}
	return
}

func ff(n int) string { return strings.Repeat("ff", n) }

func addKind(k *kind) {
	sort.SliceStable(k.Domain, func(i, j int) bool { return k.Typ.Compare(k.Domain[i], k.Domain[j]) < 0 })
	kinds = append(kinds, k)
	kindByName[k.Name] = k
}

func init() {
	leaf := func(t parquet.Type) func() parquet.Node { return func() parquet.Node { return parquet.Leaf(t) } }
	int32dom := i32s(math.MinInt32, math.MinInt32+1, -1000, -5, -4, -3, -2, -1, 0, 1, 2, 3, 4, 5, 1000, math.MaxInt32-1, math.MaxInt32)
	int64dom := i64s(math.MinInt64, math.MinInt64+1, -(1 << 40), -5, -4, -3, -2, -1, 0, 1, 2, 3, 4, 5, 1<<40, math.MaxInt64-1, math.MaxInt64)
	u32 := func(x uint32) int32 { return int32(x) }
	u64 := func(x uint64) int64 { return int64(x) }
	uint32dom := i32s(0, 1, 2, 3, 4, 5, 1000, u32(0x7fffffff), u32(0x80000000), u32(0x80000001), u32(0xfffffffe), u32(0xffffffff))
	uint64dom := i64s(0, 1, 2, 3, 4, 5, 1000, u64(0x7fffffffffffffff), u64(0x8000000000000000), u64(0x8000000000000001), u64(0xfffffffffffffffe), u64(0xffffffffffffffff))
	f32dom := f32s(0xff800000, 0xff7fffff, 0xc0a00000, 0xbf800000, 0x80000001, 0x80000000, 0x00000000, 0x00000001, 0x3f800000, 0x40400000, 0x40a00000, 0x7f7fffff, 0x7f800000)
	f32nan := f32s(0x7fc00000, 0xffc00001, 0x7f800001, 0x7fffffff)
	f64dom := f64s(0xfff0000000000000, 0xffefffffffffffff, 0xc014000000000000, 0xbff0000000000000, 0x8000000000000001, 0x8000000000000000, 0, 1, 0x3ff0000000000000, 0x4008000000000000, 0x4014000000000000, 0x7fefffffffffffff, 0x7ff0000000000000)
	f64nan := f64s(0x7ff8000000000000, 0xfff8000000000001, 0x7ff0000000000001, 0x7fffffffffffffff)
	var i96dom []parquet.Value
	for _, w := range [][3]uint32{{0, 0, 0x80000000}, {1, 0, 0x80000000}, {0, 0, 0xffffffff}, {0xfffffffb, 0xffffffff, 0xffffffff}, {0xffffffff, 0xffffffff, 0xffffffff},
		{0, 0, 0}, {1, 0, 0}, {5, 0, 0}, {0xffffffff, 0, 0}, {0, 1, 0}, {0, 0x80000000, 0}, {0, 0, 1}, {0xffffffff, 0xffffffff, 0x7fffffff}} {
		i96dom = append(i96dom, parquet.Int96Value(deprecated.Int96(w)))
	}
	bytesdom := hexs(false, "", "00", "0000", "01", "0100", "01ff", "01ffff", "7f", "80", "fe", "feff", "ff", "ff00", "ff01", "fffe", "ffff", "ffff00", "ffff01", "fffffe", "ffffff",
		ff(8)+"01", ff(15)+"00", ff(16), ff(16)+"01", ff(19), ff(19)+"00", ff(20), ff(20)+"7f", ff(21), "61", "6162", "616263", "6162636465666768696a6b6c6d6e6f707172737475767778797a", "6162636465666768696a6b6c6d6e6f70ff")
	flba5 := hexs(true, "0000000000", "0000000001", "00000000ff", "01ffffffff", "7f00000000", "8000000000", "feffffffff", "ff00000000", "ff000000ff", "ffff000000", "ffff010000", "ffffff0000", "fffffffffe", "ffffffffff")
	be := hexs(true, strings.Repeat("00", 16), strings.Repeat("00", 15)+"01", strings.Repeat("00", 8)+ff(8), strings.Repeat("00", 7)+"01"+strings.Repeat("00", 8), "01"+strings.Repeat("00", 15),
		"7f"+ff(15), "80"+strings.Repeat("00", 15), ff(8)+strings.Repeat("00", 8), ff(8)+"80"+strings.Repeat("00", 7), ff(15)+"fe", ff(16))
	decb := hexs(false, "", "00", "01", "7f", "0080", "00ff", "0100", "7fff", "ff", "fe", "80", "ff7f", "ff00", "8000", "000001", "ffffff", "ff80", "00000000ff")
	decf := hexs(true, "00000000000000", "00000000000001", "000000000000ff", "7fffffffffffff", "80000000000000", "ffffffffffffff", "fffffffffffffe", "ff000000000000", "00ffffffffffff", "01000000000000")

	addKind(&kind{Name: "bool", Model: "bool", Typ: parquet.BooleanType, Node: leaf(parquet.BooleanType), Num: true, Width: 1,
		Domain: []parquet.Value{parquet.BooleanValue(false), parquet.BooleanValue(true)}})
	addKind(&kind{Name: "int32", Model: "int32", Typ: parquet.Int32Type, Node: leaf(parquet.Int32Type), Num: true, Width: 4, Domain: int32dom})
	addKind(&kind{Name: "int64", Model: "int64", Typ: parquet.Int64Type, Node: leaf(parquet.Int64Type), Num: true, Width: 8, Domain: int64dom})
	addKind(&kind{Name: "uint32", Model: "uint32", Typ: parquet.Uint(32).Type(), Node: func() parquet.Node { return parquet.Uint(32) }, Num: true, Width: 4, Domain: uint32dom})
	addKind(&kind{Name: "uint64", Model: "uint64", Typ: parquet.Uint(64).Type(), Node: func() parquet.Node { return parquet.Uint(64) }, Num: true, Width: 8, Domain: uint64dom})
	addKind(&kind{Name: "int8", Model: "int32", Typ: parquet.Int(8).Type(), Node: func() parquet.Node { return parquet.Int(8) }, Num: true, Width: 4, Domain: i32s(-128, -5, -1, 0, 1, 5, 127)})
	addKind(&kind{Name: "uint16", Model: "uint32", Typ: parquet.Uint(16).Type(), Node: func() parquet.Node { return parquet.Uint(16) }, Num: true, Width: 4, Domain: i32s(0, 1, 5, 0x7fff, 0x8000, 0xffff)})
	addKind(&kind{Name: "int64l", Model: "int64", Typ: parquet.Int(64).Type(), Node: func() parquet.Node { return parquet.Int(64) }, Num: true, Width: 8, Domain: int64dom})
	addKind(&kind{Name: "date", Model: "int32", Typ: parquet.Date().Type(), Node: parquet.Date, Num: true, Width: 4, Domain: int32dom})
	addKind(&kind{Name: "timestamp", Model: "int64", Typ: parquet.Timestamp(parquet.Millisecond).Type(), Node: func() parquet.Node { return parquet.Timestamp(parquet.Millisecond) }, Num: true, Width: 8, Domain: int64dom})
	addKind(&kind{Name: "float", Model: "float", Typ: parquet.FloatType, Node: leaf(parquet.FloatType), Num: true, Float: true, Width: 4, Domain: f32dom, NaNs: f32nan})
	addKind(&kind{Name: "double", Model: "double", Typ: parquet.DoubleType, Node: leaf(parquet.DoubleType), Num: true, Float: true, Width: 8, Domain: f64dom, NaNs: f64nan})
	addKind(&kind{Name: "int96", Model: "int96", Typ: parquet.Int96Type, Node: leaf(parquet.Int96Type), Num: true, Width: 12, Domain: i96dom})
	addKind(&kind{Name: "bytes", Model: "bytes", Typ: parquet.ByteArrayType, Node: leaf(parquet.ByteArrayType), Trunc: true, Domain: bytesdom})
	addKind(&kind{Name: "string", Model: "bytes", Typ: parquet.String().Type(), Node: parquet.String, Trunc: true, Domain: bytesdom})
	addKind(&kind{Name: "flba5", Model: "flba:5", Typ: parquet.FixedLenByteArrayType(5), Node: leaf(parquet.FixedLenByteArrayType(5)), Trunc: true, Domain: flba5})
	addKind(&kind{Name: "flba16", Model: "be128", Typ: parquet.FixedLenByteArrayType(16), Node: leaf(parquet.FixedLenByteArrayType(16)), Domain: be})
	addKind(&kind{Name: "uuid", Model: "be128", Typ: parquet.UUID().Type(), Node: parquet.UUID, Domain: be})
	decB := func() parquet.Node { return parquet.Decimal(2, 20, parquet.ByteArrayType) }
	decF := func() parquet.Node { return parquet.Decimal(2, 16, parquet.FixedLenByteArrayType(7)) }
	dec32 := func() parquet.Node { return parquet.Decimal(2, 9, parquet.Int32Type) }
	dec64 := func() parquet.Node { return parquet.Decimal(2, 18, parquet.Int64Type) }
	addKind(&kind{Name: "decbytes", Model: "decimal", Typ: decB().Type(), Node: decB, Domain: decb})
	addKind(&kind{Name: "decflba", Model: "decimal", Typ: decF().Type(), Node: decF, Domain: decf})
	addKind(&kind{Name: "dec32", Model: "int32", Typ: dec32().Type(), Node: dec32, Num: true, Width: 4, Domain: int32dom})
	addKind(&kind{Name: "dec64", Model: "int64", Typ: dec64().Type(), Node: dec64, Num: true, Width: 8, Domain: int64dom})
}

// tokBytes renders the PLAIN bytes of a value as an oracle token.
func (k *kind) tokBytes(b []byte) string {
	if !k.Num {
		return core.Hexs(b)
	}
	x := new(big.Int)
	for i := len(b) - 1; i >= 0; i-- {
		x.Lsh(x, 8)
		x.Or(x, big.NewInt(int64(b[i])))
	}
	return x.Text(16)
}

func (k *kind) tok(v parquet.Value) string {
	if v.IsNull() {
		return "N"
	}
	return k.tokBytes(v.Bytes())
}

// val parses an oracle token back into a value of the kind.
func (k *kind) val(tok string) parquet.Value {
	if tok == "N" {
		return parquet.Value{}
	}
	var b []byte
	if k.Num {
		x, ok := new(big.Int).SetString(tok, 16)
		if !ok {
			panic("bad token " + tok)
		}
		b = make([]byte, k.Width)
		for i := 0; i < k.Width; i++ {
			b[i] = byte(new(big.Int).And(new(big.Int).Rsh(x, uint(8*i)), big.NewInt(255)).Int64())
		}
	} else {
		var err error
		b, err = hex.DecodeString(tok[1:])
		if err != nil {
			panic(err)
		}
	}
	return k.Typ.Kind().Value(b)
}

func (k *kind) isNaN(v parquet.Value) bool {
	if !k.Float || v.IsNull() {
		return false
	}
	if v.Kind() == parquet.Float {
		f := v.Float()
		return f != f
	}
	f := v.Double()
	return f != f
}

// normZero erases the sign of floating point zeros in an oracle answer: -0 and
// +0 are equal in the column order and the vectorised min/max kernels keep
// either of them, so the correspondence is stated up to the sign of zero (the
// predicates still require the stored bound to be one of the page's values).
func (k *kind) normZero(s string) string {
	if !k.Float {
		return s
	}
	neg := "80000000"
	if k.Width == 8 {
		neg = "8000000000000000"
	}
	f := func(r rune) bool { return r == ',' || r == ':' || r == '|' }
	var sb strings.Builder
	start := 0
	for i, r := range s + "|" {
		if f(r) {
			t := s[start:i]
			if t == neg {
				t = "0"
			}
			sb.WriteString(t)
			if i < len(s) {
				sb.WriteRune(r)
			}
			start = i + 1
		}
	}
	return sb.String()
}

// show renders a value for messages (byte strings in hex).
func (k *kind) show(v parquet.Value) string {
	if v.IsNull() {
		return "null"
	}
	if k.Num {
		return fmt.Sprintf("%v", v)
	}
	return hex.EncodeToString(v.Bytes())
}

func (k *kind) fixedSize() int {
	if k.Typ.Kind() == parquet.FixedLenByteArray {
		return k.Typ.Length()
	}
	return 0
}

// ---------------------------------------------------------------- (a) indexers

type idxPage struct {
	NV   int64  `json:"nv"`
	NN   int64  `json:"nn"`
	Null bool   `json:"null_bounds,omitempty"` // IndexPage receives the null Value
	Min  string `json:"min,omitempty"`
	Max  string `json:"max,omitempty"`
}

type idxCase struct {
	Kind  string    `json:"kind"`
	Limit int       `json:"limit"`
	Pages []idxPage `json:"pages"`
	// Prior: page lists indexed earlier by the same ColumnIndexer, each followed
	// by ColumnIndex() and Reset() (what the writer does between row groups and
	// after Writer.Reset). A reset indexer must behave like a new one, so the
	// model is asked about Pages only.
	Prior [][]idxPage `json:"prior,omitempty"`
}

func feedIndexer(k *kind, ix parquet.ColumnIndexer, pages []idxPage) {
	for _, p := range pages {
		mn, mx := parquet.Value{}, parquet.Value{}
		if !p.Null {
			mn, mx = k.val(p.Min), k.val(p.Max)
		}
		ix.IndexPage(p.NV, p.NN, mn, mx)
	}
}

// runIndexer replays the whole history of a case on one ColumnIndexer.
func runIndexer(k *kind, cs *idxCase) format.ColumnIndex {
	ci, _ := runIndexerKeeping(k, cs)
	return ci
}

// runIndexerKeeping also keeps the column indexes handed out along the history
// (the writer keeps the index of every finished row group until Close while the
// indexer is Reset and indexes the next one): changed tells which of them no
// longer reads as it did when it was handed out.
func runIndexerKeeping(k *kind, cs *idxCase) (ci format.ColumnIndex, changed string) {
	ix := k.Typ.NewColumnIndexer(cs.Limit)
	var kept []format.ColumnIndex
	var was []string
	for _, prior := range cs.Prior {
		feedIndexer(k, ix, prior)
		kept = append(kept, ix.ColumnIndex())
		was = append(was, canonIndex(k, &kept[len(kept)-1]))
		ix.Reset()
	}
	feedIndexer(k, ix, cs.Pages)
	ci = ix.ColumnIndex()
	for h := range kept {
		if now := canonIndex(k, &kept[h]); now != was[h] && changed == "" {
			changed = fmt.Sprintf("the column index of list %d of the history was %s when ColumnIndex returned it and reads %s after Reset and %d later pages", h, was[h], now, len(cs.Pages))
		}
	}
	return ci, changed
}

func idxRequest(k *kind, cs *idxCase) string {
	var sb strings.Builder
	fmt.Fprintf(&sb, "c05.index %s %s ", k.Model, core.Zs(int64(cs.Limit)))
	if len(cs.Pages) == 0 {
		sb.WriteString("_")
	}
	for i, p := range cs.Pages {
		if i > 0 {
			sb.WriteByte(',')
		}
		if p.Null {
			fmt.Fprintf(&sb, "%x:%x:N", p.NV, p.NN)
		} else {
			fmt.Fprintf(&sb, "%x:%x:%s:%s", p.NV, p.NN, p.Min, p.Max)
		}
	}
	return sb.String()
}

// canonIndex renders a format.ColumnIndex like the oracle does.
func canonIndex(k *kind, ci *format.ColumnIndex) string {
	np := "_"
	if len(ci.NullPages) > 0 {
		var sb strings.Builder
		for _, b := range ci.NullPages {
			if b {
				sb.WriteByte('1')
			} else {
				sb.WriteByte('0')
			}
		}
		np = sb.String()
	}
	list := func(n int, f func(i int) string) string {
		if n == 0 {
			return "_"
		}
		s := make([]string, n)
		for i := range s {
			s[i] = f(i)
		}
		return strings.Join(s, ",")
	}
	nc := list(len(ci.NullCounts), func(i int) string { return core.Zs(ci.NullCounts[i]) })
	mn := list(len(ci.MinValues), func(i int) string { return k.tokBytes(ci.MinValues[i]) })
	mx := list(len(ci.MaxValues), func(i int) string { return k.tokBytes(ci.MaxValues[i]) })
	return np + "|" + nc + "|" + mn + "|" + mx + "|" + strconv.Itoa(int(ci.BoundaryOrder))
}

// storedValue turns a stored (possibly truncated) bound into a Value comparable
// with Type.Compare.
func storedValue(k *kind, b []byte) (v parquet.Value, ok bool) {
	defer func() {
		if recover() != nil {
			ok = false
		}
	}()
	return k.Typ.Kind().Value(b), true
}

// orderClaimTrue evaluates the claim of a boundary order over the non-null
// pages, for every pair of pages (not only neighbours).
func orderClaimTrue(k *kind, order format.BoundaryOrder, nullPage func(int) bool, mins, maxs []parquet.Value) (bool, string) {
	if order != format.Ascending && order != format.Descending {
		return true, ""
	}
	for i := range mins {
		if nullPage(i) {
			continue
		}
		if k.isNaN(mins[i]) || k.isNaN(maxs[i]) {
			return false, fmt.Sprintf("order %v is claimed although page %d has a NaN bound", order, i)
		}
		for j := i + 1; j < len(mins); j++ {
			if nullPage(j) {
				continue
			}
			a, b := k.Typ.Compare(mins[i], mins[j]), k.Typ.Compare(maxs[i], maxs[j])
			if order == format.Descending {
				a, b = -a, -b
			}
			if a > 0 || b > 0 {
				return false, fmt.Sprintf("order %v is claimed but pages %d [%s,%s] and %d [%s,%s] are not in that order", order, i, k.show(mins[i]), k.show(maxs[i]), j, k.show(mins[j]), k.show(maxs[j]))
			}
		}
	}
	return true, ""
}

func idxCheck(c *core.Ctx, cs *idxCase) bool {
	k := kindByName[cs.Kind]
	ok := true
	var ci format.ColumnIndex
	panicked, changed := "", ""
	func() {
		defer func() {
			if r := recover(); r != nil {
				panicked = fmt.Sprint(r)
			}
		}()
		ci, changed = runIndexerKeeping(k, cs)
	}()
	if panicked != "" {
		c.Violation("indexer-panic", fmt.Sprintf("%s ColumnIndexer panicked: %s", k.Name, panicked), cs)
		return false
	}
	if changed != "" {
		c.Violation("index-not-kept", fmt.Sprintf("%s indexer (limit %d): %s", k.Name, cs.Limit, changed), cs)
		ok = false
	}
	n := len(cs.Pages)
	if len(ci.NullPages) != n || len(ci.NullCounts) != n || len(ci.MinValues) != n || len(ci.MaxValues) != n {
		c.Violation("index-misaligned", fmt.Sprintf("%s indexer: %d pages but %d null_pages, %d null_counts, %d min_values, %d max_values",
			k.Name, n, len(ci.NullPages), len(ci.NullCounts), len(ci.MinValues), len(ci.MaxValues)), cs)
		return false
	}
	mins, maxs := make([]parquet.Value, n), make([]parquet.Value, n)
	for i, p := range cs.Pages {
		if ci.NullCounts[i] != p.NN || ci.NullPages[i] != (p.NV == p.NN) {
			c.Violation("index-counts", fmt.Sprintf("%s indexer page %d: null_count %d null_page %v for %d values, %d nulls", k.Name, i, ci.NullCounts[i], ci.NullPages[i], p.NV, p.NN), cs)
			ok = false
		}
		var ok1, ok2 bool
		mins[i], ok1 = storedValue(k, ci.MinValues[i])
		maxs[i], ok2 = storedValue(k, ci.MaxValues[i])
		if p.Null || !ok1 || !ok2 {
			continue
		}
		mn, mx := k.val(p.Min), k.val(p.Max)
		if k.isNaN(mn) || k.isNaN(mx) {
			continue
		}
		if k.Typ.Compare(mins[i], mn) > 0 || k.Typ.Compare(mx, maxs[i]) > 0 {
			c.Violation("index-bound-not-bound", fmt.Sprintf("%s indexer (limit %d) page %d: stored [%x,%x] does not enclose [%s,%s]", k.Name, cs.Limit, i, ci.MinValues[i], ci.MaxValues[i], p.Min, p.Max), cs)
			ok = false
		}
	}
	if good, why := orderClaimTrue(k, ci.BoundaryOrder, func(i int) bool { return cs.Pages[i].Null || ci.NullPages[i] }, mins, maxs); !good {
		c.Violation("order-claim-false", k.Name+" indexer: "+why, cs)
		ok = false
	}
	req := idxRequest(k, cs)
	want := c.Ask(req)
	got := canonIndex(k, &ci)
	if c.HasOracle() && k.normZero(want) != k.normZero(got) {
		if ok {
			c.Mismatch("corr:C05.index", req, got, want, cs)
		}
		ok = false
	}
	return ok
}

func idxShrink(c *core.Ctx, cs *idxCase) *idxCase {
	cur := *cs
	fails := func(t *idxCase) bool { return c.Probe(func() { idxCheck(c, t) }) }
	// long lists: whole blocks of pages first
	for size := len(cur.Pages) / 2; size >= 2; size /= 2 {
		for from := 0; from+size <= len(cur.Pages); {
			t := cur
			t.Pages = append(append([]idxPage(nil), cur.Pages[:from]...), cur.Pages[from+size:]...)
			if fails(&t) {
				cur = t
			} else {
				from += size
			}
		}
	}
	for changed := true; changed; {
		changed = false
		for i := range cur.Pages {
			t := cur
			t.Pages = append(append([]idxPage(nil), cur.Pages[:i]...), cur.Pages[i+1:]...)
			if fails(&t) {
				cur, changed = t, true
				break
			}
		}
		if changed {
			continue
		}
		// the history: whole earlier lists, then their pages
		for h := range cur.Prior {
			t := cur
			t.Prior = append(append([][]idxPage(nil), cur.Prior[:h]...), cur.Prior[h+1:]...)
			if fails(&t) {
				cur, changed = t, true
				break
			}
			for i := range cur.Prior[h] {
				t := cur
				t.Prior = append([][]idxPage(nil), cur.Prior...)
				t.Prior[h] = append(append([]idxPage(nil), cur.Prior[h][:i]...), cur.Prior[h][i+1:]...)
				if fails(&t) {
					cur, changed = t, true
					break
				}
			}
			if changed {
				break
			}
		}
	}
	return &cur
}

// idxShrunk: failing indexer cases shrunk so far (one replay per class is kept:
// after a few of them the failing cases are reported as they are; shrinking a
// list of hundreds of pages costs as many model calls per round).
var idxShrunk int

func idxRun(c *core.Ctx, cs *idxCase, bucket string) bool {
	ok := true
	if c.Probe(func() { idxCheck(c, cs) }) {
		ok = false
		if idxShrunk < 6 {
			idxShrunk++
			idxCheck(c, idxShrink(c, cs))
		} else {
			idxCheck(c, cs)
		}
	}
	key, _ := json.Marshal(cs)
	c.Case(bucket, string(key), len(cs.Pages) >= 2)
	return ok
}

// walk produces n indexes into a domain of size d following a pattern.
func walk(c *core.Ctx, pattern, n, d int) []int {
	out := make([]int, n)
	cur := c.Rng.Intn(d)
	if pattern == 0 {
		cur = c.Rng.Intn(1 + d/3)
	} else if pattern == 1 {
		cur = d - 1 - c.Rng.Intn(1+d/3)
	}
	for i := range out {
		switch pattern {
		case 0:
			cur += c.Rng.Intn(3)
		case 1:
			cur -= c.Rng.Intn(3)
		case 2:
		default:
			cur = c.Rng.Intn(d)
		}
		if cur < 0 {
			cur = 0
		}
		if cur >= d {
			cur = d - 1
		}
		out[i] = cur
	}
	return out
}

func randIdxCase(c *core.Ctx, k *kind) *idxCase {
	cs := &idxCase{Kind: k.Name}
	if k.Trunc || c.Rng.Intn(4) == 0 {
		cs.Limit = c.Rng.Intn(23) - 1
	}
	// one case in three runs on an indexer with a history (1-2 earlier lists)
	if c.Rng.Intn(3) == 0 {
		for h := 1 + c.Rng.Intn(2); h > 0; h-- {
			cs.Prior = append(cs.Prior, randIdxPages(c, k, 1+c.Rng.Intn(8)))
		}
	}
	cs.Pages = randIdxPages(c, k, c.Rng.Intn(9))
	return cs
}

func randIdxPages(c *core.Ctx, k *kind, n int) (pages []idxPage) {
	pattern := c.Rng.Intn(4)
	lo := walk(c, pattern, n, len(k.Domain))
	for i := 0; i < n; i++ {
		p := idxPage{NV: int64(1 + c.Rng.Intn(5))}
		switch r := c.Rng.Intn(12); {
		case r < 2:
			p.NN, p.Null = p.NV, true
		case r == 2 && len(k.NaNs) > 0:
			v := k.NaNs[c.Rng.Intn(len(k.NaNs))]
			p.Min, p.Max = k.tok(v), k.tok(v)
			p.NN = c.Rng.Int63n(p.NV)
		case r == 3 && c.Rng.Intn(4) == 0:
			p.NN, p.Null = c.Rng.Int63n(p.NV), true // bounds withheld (SkipPageBounds)
		default:
			a := lo[i]
			b := a + c.Rng.Intn(3)
			if pattern == 1 {
				b = a
				a -= c.Rng.Intn(3)
			}
			if a < 0 {
				a = 0
			}
			if b >= len(k.Domain) {
				b = len(k.Domain) - 1
			}
			if b < a {
				b = a
			}
			p.Min, p.Max = k.tok(k.Domain[a]), k.tok(k.Domain[b])
			p.NN = c.Rng.Int63n(p.NV)
		}
		pages = append(pages, p)
	}
	return pages
}

// resetSweep: the indexer of every kind after it was used and Reset (once and
// twice): lists of 1..4 pages whose min and max differ, after histories of
// shorter, equal and longer lists (the slices an indexer keeps across Reset
// keep their capacity, so the history decides which appends reallocate).
func resetSweep(c *core.Ctx) {
	for _, k := range kinds {
		d := len(k.Domain)
		mk := func(n, from int) (pages []idxPage) {
			for i := 0; i < n; i++ {
				a := (from + i) % (d - 1)
				pages = append(pages, idxPage{NV: 3, NN: int64(i % 2), Min: k.tok(k.Domain[a]), Max: k.tok(k.Domain[a+1])})
			}
			return
		}
		limits := []int{0}
		if k.Trunc {
			limits = []int{0, 3}
		}
		for _, limit := range limits {
			for _, h := range []int{1, 2, 4, 9} {
				for _, n := range []int{1, 2, 4} {
					for resets := 1; resets <= 2; resets++ {
						cs := &idxCase{Kind: k.Name, Limit: limit, Pages: mk(n, 0)}
						for r := 0; r < resets; r++ {
							cs.Prior = append(cs.Prior, mk(h, 1+r))
						}
						idxRun(c, cs, "sweep/indexer-after-reset/"+k.Name)
					}
				}
			}
		}
	}
}

// lengthSweep: page lists whose length is around the multiples of the strides
// of the vectorised order kernels (8 and 16 lanes advancing by 7 and 15: 56,
// 112, 240, ...), for every kind: ascending lists that end with the greatest
// value of the domain and descending lists that end with the smallest one, so
// that a comparison with whatever follows the list in memory (zeroes in a new
// indexer, the entries of a longer earlier list after Reset) cannot go
// unnoticed.
func lengthSweep(c *core.Ctx) {
	for _, k := range kinds {
		lo, hi := k.tok(k.Domain[0]), k.tok(k.Domain[len(k.Domain)-1])
		lengths := []int{55, 56, 57, 111, 112, 113, 239, 240, 241}
		if c.Quick() && !map[string]bool{"int32": true, "int64": true, "uint32": true, "uint64": true, "float": true, "double": true}[k.Name] {
			// the kinds that share these six indexers or have no vector kernel: the multiples only
			lengths = []int{56, 112, 240}
		}
		switch {
		case k.Name == "int96" && c.Quick():
			// the model's INT96 order (word by word on 96-bit patterns) costs 0.4 s for 240 pages; the
			// implementation's is a Go loop without a vector kernel
			lengths = []int{56}
		case !c.Quick():
			lengths = append(lengths, 63, 64, 65, 167, 168, 169, 223, 224, 225, 447, 448, 449, 479, 480, 481)
		case k.Name == "int32" || k.Name == "float":
			// the quick tier goes to the next multiple for one kernel of each stride only (the model's
			// lists are appended to page by page: its cost grows with the square of the length)
			lengths = append(lengths, 479, 480, 481)
		case k.Name == "int64" || k.Name == "double":
			lengths = append(lengths, 447, 448, 449)
		}
		for _, n := range lengths {
			for _, desc := range []bool{false, true} {
				first, rest := lo, hi
				if desc {
					first, rest = hi, lo
				}
				mk := func(n int, first, rest string) (pages []idxPage) {
					for i := 0; i < n; i++ {
						v := rest
						if i == 0 {
							v = first
						}
						pages = append(pages, idxPage{NV: 1, Min: v, Max: v})
					}
					return
				}
				cs := &idxCase{Kind: k.Name, Pages: mk(n, first, rest)}
				if k.Trunc {
					cs.Limit = 16
				}
				idxRun(c, cs, "sweep/indexer-length/"+k.Name)
				if n%8 == 0 && len(lengths) > 3 || !c.Quick() {
					// after a longer list of the other direction and Reset
					cs2 := *cs
					cs2.Prior = [][]idxPage{mk(n+9, rest, first)}
					idxRun(c, &cs2, "sweep/indexer-length/"+k.Name)
				}
			}
		}
	}
}

// cmpCheck ties Type.Compare to the model on every pair of the domain.
func cmpCheck(c *core.Ctx, k *kind) {
	vals := append(append([]parquet.Value(nil), k.Domain...), k.NaNs...)
	var pairs, got []string
	for _, a := range vals {
		for _, b := range vals {
			pairs = append(pairs, k.tok(a)+":"+k.tok(b))
			r := k.Typ.Compare(a, b)
			switch {
			case r < 0:
				got = append(got, "-1")
			case r > 0:
				got = append(got, "1")
			default:
				got = append(got, "0")
			}
			c.Res.Evaluations++
		}
	}
	req := "c05.cmp " + k.Model + " " + strings.Join(pairs, ",")
	if want := c.Ask(req); c.HasOracle() && want != strings.Join(got, ",") {
		c.Mismatch("corr:C05.compare."+k.Name, req, strings.Join(got, ","), want, map[string]any{"kind": k.Name})
	}
	c.Case("compare", k.Name, true)
}

// boundsCase: the Bounds of an in-memory page (plain or dictionary indexed).
type boundsCase struct {
	Kind   string   `json:"kind"`
	Dict   bool     `json:"dict"`
	Values []string `json:"values"`
	// noModel: predicates only (the exhaustive pair sweep asks the model about
	// the kinds whose order has ties; a replay always asks)
	noModel bool
}

// searchOwnPage: the comparator and the bounds kernels must use one order. A
// column index made of the page's own bounds has to lead Search to the page
// for every value the page holds, values that compare equal to a bound (zeros
// of the other sign, equal decimals of another length) included.
func searchOwnPage(k *kind, mn, mx parquet.Value, vals []parquet.Value) (why string) {
	if k.isNaN(mn) || k.isNaN(mx) {
		return ""
	}
	defer func() {
		if r := recover(); r != nil {
			why = fmt.Sprintf("Search panicked: %v", r)
		}
	}()
	ix := k.Typ.NewColumnIndexer(0)
	ix.IndexPage(int64(len(vals)), 0, mn, mx)
	ci := ix.ColumnIndex()
	index := parquet.NewColumnIndex(k.Typ.Kind(), &ci)
	for _, v := range vals {
		if v.IsNull() || k.isNaN(v) {
			continue
		}
		if r := parquet.Search(index, v, k.Typ); r != 0 {
			return fmt.Sprintf("the page holds %s and its bounds are [%s,%s], but Search(%s) in the one-page index of these bounds returns %d", k.show(v), k.show(mn), k.show(mx), k.show(v), r)
		}
	}
	return ""
}

func pageBounds(k *kind, dict bool, vals []parquet.Value) (mn, mx parquet.Value, ok bool, err string) {
	defer func() {
		if r := recover(); r != nil {
			err = fmt.Sprint(r)
		}
	}()
	typ := k.Typ
	if dict {
		d := typ.NewDictionary(0, 0, typ.NewValues(nil, nil))
		typ = d.Type()
	}
	buf := typ.NewColumnBuffer(0, len(vals)+1)
	if _, e := buf.WriteValues(vals); e != nil {
		return mn, mx, false, e.Error()
	}
	mn, mx, ok = buf.Page().Bounds()
	return
}

// boundsPredicate: the property of a pair of bounds with respect to values.
func boundsPredicate(k *kind, mn, mx parquet.Value, has bool, vals []parquet.Value, exact bool) string {
	nonNull, nonNaN := 0, 0
	for _, v := range vals {
		if v.IsNull() {
			continue
		}
		nonNull++
		if !k.isNaN(v) {
			nonNaN++
		}
	}
	if !has {
		if nonNull > 0 && exact {
			return "no bounds although the unit holds values"
		}
		return ""
	}
	if nonNull == 0 {
		return fmt.Sprintf("bounds [%s,%s] for a unit without values", k.show(mn), k.show(mx))
	}
	if nonNaN > 0 && (k.isNaN(mn) || k.isNaN(mx)) {
		return fmt.Sprintf("bounds [%v,%v] are NaN although the unit holds %d other values", mn, mx, nonNaN)
	}
	if nonNaN == 0 {
		if exact && !(k.isNaN(mn) && k.isNaN(mx)) {
			return fmt.Sprintf("bounds [%v,%v] for a unit holding only NaN", mn, mx)
		}
		return ""
	}
	minHit, maxHit := false, false
	for _, v := range vals {
		if v.IsNull() || k.isNaN(v) {
			continue
		}
		if k.Typ.Compare(mn, v) > 0 {
			return fmt.Sprintf("min %s is above the value %s", k.show(mn), k.show(v))
		}
		if k.Typ.Compare(v, mx) > 0 {
			return fmt.Sprintf("max %s is below the value %s", k.show(mx), k.show(v))
		}
		// a zero bound of a FLOAT / DOUBLE unit stands for the zeros of both signs (the format
		// recommends -0 as a zero minimum and +0 as a zero maximum; repair 3cd122f): it is a
		// value of the unit when the unit holds a zero
		floatKind := k.Typ.Kind() == parquet.Float || k.Typ.Kind() == parquet.Double
		if bytes.Equal(v.Bytes(), mn.Bytes()) || (floatKind && k.Typ.Compare(v, mn) == 0) {
			minHit = true
		}
		if bytes.Equal(v.Bytes(), mx.Bytes()) || (floatKind && k.Typ.Compare(v, mx) == 0) {
			maxHit = true
		}
	}
	if exact && (!minHit || !maxHit) {
		return fmt.Sprintf("bounds [%s,%s] are not values of the unit", k.show(mn), k.show(mx))
	}
	return ""
}

func boundsCheck(c *core.Ctx, cs *boundsCase) bool {
	k := kindByName[cs.Kind]
	vals := make([]parquet.Value, len(cs.Values))
	parsed := map[string]parquet.Value{} // long pages repeat a few values
	for i, t := range cs.Values {
		v, have := parsed[t]
		if !have {
			v = k.val(t)
			parsed[t] = v
		}
		vals[i] = v
	}
	mn, mx, has, err := pageBounds(k, cs.Dict, vals)
	if err != "" {
		c.Violation("bounds-panic", fmt.Sprintf("%s page (dict=%v) Bounds failed: %s", k.Name, cs.Dict, err), cs)
		return false
	}
	class := "page-bounds-wrong"
	if cs.Dict {
		class = "dict-page-bounds-wrong"
	}
	if why := boundsPredicate(k, mn, mx, has, vals, true); why != "" {
		c.Violation(class, fmt.Sprintf("%s page (dict=%v): %s", k.Name, cs.Dict, why), cs)
		return false
	}
	if has {
		if why := searchOwnPage(k, mn, mx, vals); why != "" {
			c.Violation("skip-unsafe", fmt.Sprintf("%s page (dict=%v): %s", k.Name, cs.Dict, why), cs)
			return false
		}
	}
	if cs.noModel {
		return true
	}
	cmd := "c05.bounds "
	if cs.Dict {
		cmd = "c05.dictbounds "
	}
	toks := "_"
	if len(cs.Values) > 0 {
		toks = strings.Join(cs.Values, ",")
	}
	req := cmd + k.Model + " " + toks
	got := "N"
	if has {
		got = k.tok(mn) + ":" + k.tok(mx)
	}
	if want := c.Ask(req); c.HasOracle() && k.normZero(want) != k.normZero(got) {
		c.Mismatch("corr:C05.bounds", req, got, want, cs)
		return false
	}
	return true
}

func boundsRun(c *core.Ctx, cs *boundsCase, bucket string) {
	if c.Probe(func() { boundsCheck(c, cs) }) {
		cur := *cs
		for changed := true; changed; {
			changed = false
			for i := range cur.Values {
				t := cur
				t.Values = append(append([]string(nil), cur.Values[:i]...), cur.Values[i+1:]...)
				if c.Probe(func() { boundsCheck(c, &t) }) {
					cur, changed = t, true
					break
				}
			}
		}
		boundsCheck(c, &cur)
	}
	key, _ := json.Marshal(cs)
	c.Case(bucket, string(key), len(cs.Values) >= 2)
}

// pairSweep: every ordered pair (and every pair framed by a third value) of the
// domain of every kind, NaNs included, as a page, plain and dictionary indexed:
// the bounds kernels and Type.Compare agree on the order of the two values
// (the bounds are values of the page and no value compares outside them), and
// Search finds the page for both.
func pairSweep(c *core.Ctx) {
	for _, k := range kinds {
		vals := append(append([]parquet.Value(nil), k.Domain...), k.NaNs...)
		ties := k.Float || k.Model == "decimal"
		for _, dict := range []bool{false, true} {
			if dict && !canDict(k) {
				continue
			}
			for i, a := range vals {
				for j, b := range vals {
					cs := &boundsCase{Kind: k.Name, Dict: dict, Values: []string{k.tok(a), k.tok(b)}, noModel: !ties}
					boundsRun(c, cs, "sweep/pairs/"+k.Name)
					if ties && i != j {
						// the pair between two copies of a third value: the kernels'
						// vector and tail paths see the pair at other positions
						m := vals[(i+j)%len(k.Domain)]
						cs := &boundsCase{Kind: k.Name, Dict: dict, noModel: true}
						for _, v := range []parquet.Value{m, a, b, m, a, b, a, m, b, b, a} {
							cs.Values = append(cs.Values, k.tok(v))
						}
						boundsRun(c, cs, "sweep/pairs/"+k.Name)
					}
				}
			}
		}
	}
}

func byteSweep(c *core.Ctx) {
	for _, k := range kinds {
		w := k.Width
		if !k.Num {
			if len(k.Domain) == 0 || k.Trunc && k.Name != "flba5" || k.Model == "decimal" && k.Name != "decflba" {
				continue
			}
			w = len(k.Domain[0].Bytes())
			for _, d := range k.Domain {
				if len(d.Bytes()) != w {
					w = 0
				}
			}
		}
		if w < 2 || k.Name == "int8" || k.Name == "uint16" || k.Name == "bool" {
			continue
		}
		for p := 0; p < w; p++ {
			for _, n := range []int{15, 16, 17, 33, 64, 70} {
				for _, dict := range []bool{false, true} {
					if dict && (!canDict(k) || n > 33) {
						continue
					}
					cs := &boundsCase{Kind: k.Name, Dict: dict}
					for i := 0; i < n; i++ {
						b := bytes.Repeat([]byte{0x40}, w)
						if i == n/3 {
							b[p] = 0x3f
						}
						if i == 2*n/3 {
							b[p] = 0x41
						}
						cs.Values = append(cs.Values, k.tok(k.Typ.Kind().Value(b)))
					}
					boundsRun(c, cs, "sweep/bounds/"+k.Name)
				}
			}
		}
	}
}

// largeBounds: pages of more than 1 MiB of values. The bounds kernels switch
// to other ("combined") routines for large inputs; their vector loops and
// scalar tails are not reached by small pages.  The extreme values are placed
// at positions that fall into the tail (count not a multiple of 32 or 64) and
// into the middle, on both sides of the sign bit.
func largeBounds(c *core.Ctx) {
	for _, k := range kinds {
		if !k.Num || k.Width < 4 || len(k.Domain) < 4 || k.Name == "int8" || k.Name == "uint16" {
			continue
		}
		for _, n := range []int{(1 << 20) / k.Width, (1<<20)/k.Width + 7, (1<<20)/k.Width + 45} {
			lo, hi := k.Domain[0], k.Domain[len(k.Domain)-1]
			midA, midB := k.Domain[len(k.Domain)/2], k.Domain[len(k.Domain)/2-1]
			for _, where := range []string{"tail", "middle", "head"} {
				vals := make([]parquet.Value, n)
				for i := range vals {
					if i%2 == 0 {
						vals[i] = midA
					} else {
						vals[i] = midB
					}
				}
				switch where {
				case "tail":
					vals[n-2], vals[n-1] = hi, lo
				case "middle":
					vals[n/2], vals[n/2+13] = lo, hi
				default:
					vals[1], vals[2] = hi, lo
				}
				mn, mx, has, err := pageBounds(k, false, vals)
				c.Res.Evaluations++
				what := fmt.Sprintf("%s page of %d values (%d bytes), extremes in the %s", k.Name, n, n*k.Width, where)
				rp := map[string]any{"kind": k.Name, "values": n, "where": where, "what": "large page bounds"}
				switch {
				case err != "":
					c.Violation("bounds-panic", what+": "+err, rp)
				case !has:
					c.Violation("page-bounds-wrong", what+": no bounds", rp)
				case k.Typ.Compare(mn, lo) != 0 || k.Typ.Compare(mx, hi) != 0:
					c.Violation("page-bounds-wrong", fmt.Sprintf("%s: bounds [%s,%s], the page holds %s and %s", what, k.show(mn), k.show(mx), k.show(lo), k.show(hi)), rp)
				}
				c.Case("large/bounds/"+k.Name, fmt.Sprintf("%d/%s", n, where), true)
			}
		}
	}
}

// positionSweep: pages of more than 64 values, the only smallest and the only
// largest value at EVERY position. The page code that is not a kernel reads the
// values of a page in batches (64 values: decimalPage.Bounds, the generic
// readers), the kernels advance by 8..64 values and finish with a scalar tail;
// the random pages hold fewer than 24 values and the byte sweep puts its
// extremes at a third and two thirds of at most 70. A page of n values (n one
// above a multiple of the batch, and a length that is none) holds two middle
// values of the domain and, for every p, the smallest value of the domain at
// position p and the largest at position (p + n/2) mod n: every position,
// the first and the last of every batch included, holds the minimum of one page
// and the maximum of another. Plain and dictionary indexed, every kind.
func positionSweep(c *core.Ctx) {
	lengths := []int{65, 129, 200}
	if !c.Quick() {
		lengths = []int{65, 66, 96, 127, 128, 129, 130, 191, 192, 193, 200, 257}
	}
	failures := 0
	for _, k := range kinds {
		if len(k.Domain) < 4 {
			continue
		}
		lo, hi := k.tok(k.Domain[0]), k.tok(k.Domain[len(k.Domain)-1])
		midA, midB := k.tok(k.Domain[len(k.Domain)/2]), k.tok(k.Domain[len(k.Domain)/2-1])
		for _, dict := range []bool{false, true} {
			if dict && !canDict(k) {
				continue
			}
			for _, n := range lengths {
				for p := 0; p < n && failures < 3; p++ {
					// the model is asked about one page in 32 (the long lists cost the extracted
					// model more than the page costs the library); the predicates see every page
					cs := &boundsCase{Kind: k.Name, Dict: dict, Values: make([]string, n), noModel: p%32 != 0}
					for i := range cs.Values {
						cs.Values[i] = midA
						if i%2 == 1 {
							cs.Values[i] = midB
						}
					}
					cs.Values[p], cs.Values[(p+n/2)%n] = lo, hi
					c.Case(fmt.Sprintf("sweep/positions/%s/dict=%v", k.Name, dict), fmt.Sprintf("%d/%d", n, p), true)
					if !c.Probe(func() { boundsCheck(c, cs) }) {
						continue
					}
					// shrink: values off the end, then off the start (the positions of the extremes move with it)
					failures++
					cur := *cs
					for len(cur.Values) > 1 {
						t := cur
						t.Values = cur.Values[:len(cur.Values)-1]
						if !c.Probe(func() { boundsCheck(c, &t) }) {
							break
						}
						cur = t
					}
					for len(cur.Values) > 1 {
						t := cur
						t.Values = cur.Values[1:]
						if !c.Probe(func() { boundsCheck(c, &t) }) {
							break
						}
						cur = t
					}
					cur.Values = append([]string(nil), cur.Values...)
					boundsCheck(c, &cur)
				}
			}
		}
	}
	if failures >= 3 {
		c.Note("position sweep of the page bounds stopped after three failing pages")
	}
}

func randValues(c *core.Ctx, k *kind, n int, nanRate int) []parquet.Value {
	idx := walk(c, c.Rng.Intn(4), n, len(k.Domain))
	out := make([]parquet.Value, n)
	for i := range out {
		if len(k.NaNs) > 0 && nanRate > 0 && c.Rng.Intn(nanRate) == 0 {
			out[i] = k.NaNs[c.Rng.Intn(len(k.NaNs))]
		} else {
			out[i] = k.Domain[idx[i]]
		}
	}
	return out
}

// ---------------------------------------------------------------- (b) files

type fcol struct {
	Kind string     `json:"kind"`
	Rep  string     `json:"rep"` // req | opt | rep
	Dict bool       `json:"dict,omitempty"`
	Rows [][]string `json:"rows"` // per row: the values (one for req/opt, any number for rep); "N" = null
}

type fcase struct {
	Cols    []fcol `json:"cols"`
	PageBuf int    `json:"page_buffer_size"`
	Limit   int    `json:"column_index_size_limit"`
	V2      bool   `json:"data_page_v2"`
	MaxRows int64  `json:"max_rows_per_row_group,omitempty"`
	Batch   int    `json:"write_batch"`
	NoStats bool   `json:"no_page_statistics,omitempty"`
	// Deprecated: parquet.DeprecatedDataPageStatistics(true): the writer also
	// fills the deprecated min / max fields of the column chunk statistics.
	Deprecated bool `json:"deprecated_statistics,omitempty"`
	Copy    bool   `json:"copy_path,omitempty"`
	Sort    string `json:"sorting,omitempty"` // "", "asc", "desc": declared on column 0
	// SkipBounds: parquet.SkipPageBounds on column SkipCol (no bounds in the footer for it)
	SkipBounds bool `json:"skip_page_bounds,omitempty"`
	SkipCol    int  `json:"skip_col,omitempty"`
	// Flush: Writer.Flush after every Flush rows (explicit row group ends, on top
	// of MaxRowsPerRowGroup).
	Flush int `json:"flush_every,omitempty"`
	// Reuse: the history of the Writer before the file. 1: it wrote the same rows
	// (second half first) to another output and was closed; 2: it wrote the first
	// half of the rows to another output and was abandoned without Close; then
	// Writer.Reset(output). A reset writer must produce the file a new one does.
	Reuse int `json:"writer_reuse,omitempty"`
	// Via: the rows reach the file through Writer.WriteRowGroup instead of
	// WriteRows. They are cut into SrcGroups source row groups, each sorted by a
	// parquet.Buffer that declares the sorting columns Keys, and handed over as
	//   buffer         the Buffers (column-wise re-encode)
	//   wrapped        the Buffers behind an application-defined RowGroup (row path)
	//   file           row groups of a file written with the same settings (verbatim copy)
	//   file-reencode  row groups of a file written with the other data page version (column-wise re-encode)
	//   file-wrapped   file row groups behind an application-defined RowGroup (row path)
	//   split          file row groups larger than MaxRowsPerRowGroup (row path, cut on the way)
	//   multi          one MultiRowGroup over the file row groups (segments)
	// SrcCfg: the writer of the source file declares Keys itself (otherwise it
	// records what the Buffers declare). Sort (the destination writer's own
	// declaration) prevails over Keys when both are given.
	Via       string `json:"via,omitempty"`
	Keys      []skey `json:"source_sorting,omitempty"`
	SrcGroups int    `json:"source_row_groups,omitempty"`
	SrcCfg    bool   `json:"source_writer_declares,omitempty"`
	// Multi: row group numbers (modulo the number of row groups of the file) that
	// form a parquet.MultiRowGroup whose concatenated column indexes are checked,
	// on top of the natural and the reversed order; the first MultiNest of them
	// are wrapped in an inner MultiRowGroup first.
	Multi     []int `json:"multi_pick,omitempty"`
	MultiNest int   `json:"multi_nest,omitempty"`
	// Project (with Via): every source row group is handed to WriteRowGroup behind
	// parquet.ConvertRowGroup to the schema made of these columns of Cols (the
	// writer has that schema). A converted row group may only declare the
	// sorting columns that precede the first one its schema lacks: that is all
	// its rows are known to be sorted by.
	Project []int `json:"convert_to,omitempty"`
}

// skey: one sorting column of a source row group.
type skey struct {
	Col        int  `json:"col"`
	Desc       bool `json:"descending,omitempty"`
	NullsFirst bool `json:"nulls_first,omitempty"`
}

// sortExpect: what the sorting metadata of the row groups of a file must be.
type sortExpect struct {
	want     []format.SortingColumn // the declaration
	optional bool                   // a row group may also record none (row groups cut or packed on the way)
	truth    bool                   // the rows were handed over sorted as declared: what is recorded must be true of the rows
}

func (fc *fcase) writerSortExpect() sortExpect {
	if fc.Sort == "" {
		return sortExpect{}
	}
	return sortExpect{want: []format.SortingColumn{{ColumnIdx: 0, Descending: fc.Sort == "desc", NullsFirst: fc.Sort == "desc"}}}
}

func colName(i int) string { return fmt.Sprintf("c%02d", i) }

func (fc *fcase) schema() (s *parquet.Schema, err string) { return fc.schemaOf(nil) }

// schemaOf: the schema made of the columns only (all of them when only is nil),
// under the names they have in the schema of the case.
func (fc *fcase) schemaOf(only []int) (s *parquet.Schema, err string) {
	defer func() {
		if r := recover(); r != nil {
			err = fmt.Sprint(r)
		}
	}()
	g := parquet.Group{}
	for i, col := range fc.Cols {
		if only != nil && !slices.Contains(only, i) {
			continue
		}
		k := kindByName[col.Kind]
		n := k.Node()
		if col.Dict {
			n = parquet.Encoded(n, &parquet.RLEDictionary)
		}
		switch col.Rep {
		case "opt":
			n = parquet.Optional(n)
		case "rep":
			n = parquet.Repeated(n)
		default:
			n = parquet.Required(n)
		}
		g[colName(i)] = n
	}
	return parquet.NewSchema("t", g), ""
}

func (fc *fcase) numRows() int {
	if len(fc.Cols) == 0 {
		return 0
	}
	return len(fc.Cols[0].Rows)
}

func (fc *fcase) rows() []parquet.Row {
	n := fc.numRows()
	rows := make([]parquet.Row, n)
	for r := 0; r < n; r++ {
		var row parquet.Row
		for ci, col := range fc.Cols {
			k := kindByName[col.Kind]
			vals := col.Rows[r]
			switch col.Rep {
			case "req":
				row = append(row, k.val(vals[0]).Level(0, 0, ci))
			case "opt":
				if vals[0] == "N" {
					row = append(row, parquet.Value{}.Level(0, 0, ci))
				} else {
					row = append(row, k.val(vals[0]).Level(0, 1, ci))
				}
			default:
				if len(vals) == 0 {
					row = append(row, parquet.Value{}.Level(0, 0, ci))
				}
				for j, t := range vals {
					rep := 1
					if j == 0 {
						rep = 0
					}
					row = append(row, k.val(t).Level(rep, 1, ci))
				}
			}
		}
		rows[r] = row
	}
	return rows
}

func (fc *fcase) options(s *parquet.Schema) []parquet.WriterOption {
	lim := fc.Limit
	opts := []parquet.WriterOption{s, parquet.PageBufferSize(fc.PageBuf), parquet.ColumnIndexSizeLimit(func([]string) int { return lim })}
	if fc.V2 {
		opts = append(opts, parquet.DataPageVersion(2))
	} else {
		opts = append(opts, parquet.DataPageVersion(1))
	}
	if fc.MaxRows > 0 {
		opts = append(opts, parquet.MaxRowsPerRowGroup(fc.MaxRows))
	}
	if fc.NoStats {
		opts = append(opts, parquet.DataPageStatistics(false))
	}
	if fc.SkipBounds {
		opts = append(opts, parquet.SkipPageBounds(colName(fc.SkipCol)))
	}
	if fc.Deprecated {
		opts = append(opts, parquet.DeprecatedDataPageStatistics(true))
	}
	switch fc.Sort {
	case "asc":
		opts = append(opts, parquet.SortingWriterConfig(parquet.SortingColumns(parquet.Ascending(colName(0)))))
	case "desc":
		opts = append(opts, parquet.SortingWriterConfig(parquet.SortingColumns(parquet.NullsFirst(parquet.Descending(colName(0))))))
	}
	return opts
}

func (fc *fcase) write() (data []byte, err string) {
	defer func() {
		if r := recover(); r != nil {
			err = fmt.Sprintf("panic while writing: %v", r)
		}
	}()
	s, e := fc.schema()
	if e != "" {
		return nil, "schema: " + e
	}
	var buf, scratch bytes.Buffer
	rows := fc.rows()
	batch := fc.Batch
	if batch <= 0 {
		batch = 7
	}
	writeAll := func(w *parquet.Writer, rows []parquet.Row) string {
		sinceFlush := 0
		for i := 0; i < len(rows); {
			j := i + batch
			if fc.Flush > 0 && j-i > fc.Flush-sinceFlush {
				j = i + fc.Flush - sinceFlush
			}
			if j > len(rows) {
				j = len(rows)
			}
			if _, e := w.WriteRows(rows[i:j]); e != nil {
				return "WriteRows: " + e.Error()
			}
			sinceFlush += j - i
			i = j
			if fc.Flush > 0 && sinceFlush >= fc.Flush && i < len(rows) {
				if e := w.Flush(); e != nil {
					return "Flush: " + e.Error()
				}
				sinceFlush = 0
			}
		}
		return ""
	}
	var w *parquet.Writer
	switch fc.Reuse {
	case 0:
		w = parquet.NewWriter(&buf, fc.options(s)...)
	case 1:
		w = parquet.NewWriter(&scratch, fc.options(s)...)
		h := len(rows) / 2
		if e := writeAll(w, append(append([]parquet.Row(nil), rows[h:]...), rows[:h]...)); e != "" {
			return nil, "earlier file: " + e
		}
		if e := w.Close(); e != nil {
			return nil, "earlier file: Close: " + e.Error()
		}
		w.Reset(&buf)
	default:
		w = parquet.NewWriter(&scratch, fc.options(s)...)
		if e := writeAll(w, rows[:len(rows)/2]); e != "" {
			return nil, "earlier file: " + e
		}
		w.Reset(&buf)
	}
	if e := writeAll(w, rows); e != "" {
		return nil, e
	}
	if e := w.Close(); e != nil {
		return nil, "Close: " + e.Error()
	}
	return buf.Bytes(), ""
}

// copyFile rewrites a file through Writer.WriteRowGroup with identical settings
// (the verbatim copy path) and tells how many chunks were copied.
func (fc *fcase) copyFile(src []byte) (data []byte, copied int64, err string) {
	defer func() {
		if r := recover(); r != nil {
			err = fmt.Sprintf("panic while copying: %v", r)
		}
	}()
	f, e := parquet.OpenFile(bytes.NewReader(src), int64(len(src)))
	if e != nil {
		return nil, 0, "open source: " + e.Error()
	}
	s, _ := fc.schema()
	var buf bytes.Buffer
	w := parquet.NewWriter(&buf, fc.options(s)...)
	before := parquet.VerifCopyPathCount()
	for _, rg := range f.RowGroups() {
		if _, e := w.WriteRowGroup(rg); e != nil {
			return nil, 0, "WriteRowGroup: " + e.Error()
		}
	}
	if e := w.Close(); e != nil {
		return nil, 0, "Close: " + e.Error()
	}
	return buf.Bytes(), parquet.VerifCopyPathCount() - before, ""
}

type pageStat struct {
	has     bool
	stats   format.Statistics
	isV2    bool
	v2Nulls int32
	v2Rows  int32
	nvals   int32
}

// headerStats decodes the data page headers of a column chunk from the raw file.
func headerStats(data []byte, cm *format.ColumnMetaData) (out []pageStat, err error) {
	start := cm.DataPageOffset
	if cm.DictionaryPageOffset != 0 && cm.DictionaryPageOffset < start {
		start = cm.DictionaryPageOffset
	}
	end := start + cm.TotalCompressedSize
	if start < 0 || end > int64(len(data)) {
		return nil, fmt.Errorf("column chunk [%d,%d) outside the file", start, end)
	}
	proto := &thrift.CompactProtocol{}
	for pos := start; pos < end; {
		var hdr format.PageHeader
		pr := proto.NewReaderFromBytes(data[pos:end])
		if e := thrift.NewDecoder(pr).Decode(&hdr); e != nil {
			return nil, fmt.Errorf("page header at %d: %v", pos, e)
		}
		switch hdr.Type {
		case format.DataPage:
			h := hdr.DataPageHeader.V
			out = append(out, pageStat{has: h.Statistics.MinValue != nil || h.Statistics.MaxValue != nil || h.Statistics.NullCount != 0, stats: h.Statistics, nvals: h.NumValues})
		case format.DataPageV2:
			h := hdr.DataPageHeaderV2.V
			out = append(out, pageStat{has: h.Statistics.MinValue != nil || h.Statistics.MaxValue != nil || h.Statistics.NullCount != 0, stats: h.Statistics, isV2: true, v2Nulls: h.NumNulls, v2Rows: h.NumRows, nvals: h.NumValues})
		}
		pos += int64(pr.BytesRead()) + int64(hdr.CompressedPageSize)
	}
	return out, nil
}

// rawColumnIndex decodes the column index of a chunk from the file bytes; nil
// when the chunk has none.
func rawColumnIndex(data []byte, cc *format.ColumnChunk) (*format.ColumnIndex, error) {
	off, n := cc.ColumnIndexOffset, int64(cc.ColumnIndexLength)
	if off == 0 {
		return nil, nil
	}
	if off < 0 || off+n > int64(len(data)) {
		return nil, fmt.Errorf("column index [%d,%d) outside the file", off, off+n)
	}
	ci := new(format.ColumnIndex)
	if err := thrift.Unmarshal(&thrift.CompactProtocol{}, data[off:off+n], ci); err != nil {
		return nil, err
	}
	return ci, nil
}

type pageData struct {
	vals []parquet.Value // every value of the page, nulls included
	rows int64
}

func readPages(cc parquet.ColumnChunk) (pages []pageData, err string) {
	defer func() {
		if r := recover(); r != nil {
			err = fmt.Sprintf("panic while reading pages: %v", r)
		}
	}()
	pr := cc.Pages()
	defer pr.Close()
	for {
		pg, e := pr.ReadPage()
		if e != nil {
			break
		}
		n := pg.NumValues()
		vals := make([]parquet.Value, n)
		got := 0
		vr := pg.Values()
		for got < int(n) {
			m, e := vr.ReadValues(vals[got:])
			got += m
			if e != nil || m == 0 {
				break
			}
		}
		vals = vals[:got]
		for i := range vals {
			vals[i] = vals[i].Clone()
		}
		if int64(got) != n {
			err = fmt.Sprintf("page announced %d values, %d read", n, got)
		}
		pages = append(pages, pageData{vals: vals, rows: pg.NumRows()})
		parquet.Release(pg)
	}
	return pages, err
}

func countNulls(vals []parquet.Value) (n int64) {
	for _, v := range vals {
		if v.IsNull() {
			n++
		}
	}
	return
}

func hist(vals []parquet.Value, max int, def bool) []int64 {
	h := make([]int64, max+1)
	for _, v := range vals {
		l := v.RepetitionLevel()
		if def {
			l = v.DefinitionLevel()
		}
		if l <= max {
			h[l]++
		}
	}
	return h
}

func eqInts(a, b []int64) bool {
	if len(a) != len(b) {
		return false
	}
	for i := range a {
		if a[i] != b[i] {
			return false
		}
	}
	return true
}

// checkFile evaluates the property on every column chunk of a written file.
// expect holds, per column, the flat list of values that were written.
//
// cols: the columns with the rows the file must hold, in order (fc.Cols unless
// the rows were reordered on the way); exp: the sorting metadata expected.
// chunkPageToks: the pages of a chunk as the model's recordPageStats sees them
// (num_values:num_nulls:min:max, N for a page without values).
func chunkPageToks(k *kind, pages []pageData) (ps []string) {
	for _, p := range pages {
		nn := countNulls(p.vals)
		var nonNull []parquet.Value
		for _, v := range p.vals {
			if !v.IsNull() {
				nonNull = append(nonNull, v)
			}
		}
		if len(nonNull) == 0 {
			ps = append(ps, fmt.Sprintf("%x:%x:N", len(p.vals), nn))
			continue
		}
		pmn, pmx, _, _ := pageBoundsOf(k, nonNull)
		ps = append(ps, fmt.Sprintf("%x:%x:%s:%s", len(p.vals), nn, k.tok(pmn), k.tok(pmx)))
	}
	return
}

// deprecatedBounds reads the DEPRECATED min / max fields of a Statistics struct.
//
// Which order they are held to, per kind. The format defines the two fields by
// "signed comparison only" and lets a writer set them "when the column order is
// signed". The property speaks of the column's sort order, and parquet-go
// documents (config.go DeprecatedDataPageStatistics) that it fills them with
// min_value / max_value for every column. So:
//   - BOOLEAN, the signed integers (INT32, INT64, INT(8..64,true), DATE, TIME*,
//     TIMESTAMP*, DECIMAL on INT32/INT64), FLOAT, DOUBLE: the column order is the
//     signed order of the format: the two readings coincide, the fields must
//     bound the data.
//   - unsigned integers, BYTE_ARRAY / FIXED_LEN_BYTE_ARRAY (strings, UUID, binary
//     DECIMAL), INT96: the format's signed reading differs from the column order
//     on some data (values on both sides of the sign bit, bytes >= 0x80) and the
//     library documents that the fields are wrong for a legacy reader there; in
//     the column order - the only documented reading, and the one a legacy
//     reader shares on data of one sign / of bytes below 0x80 - they must bound
//     the data like min_value / max_value do.
// Hence one predicate for every kind: boundsPredicate in the column order.
//
// An empty BYTE_ARRAY bound is written as an absent field: for that type one
// present field is enough and the absent one reads as the empty string.
func deprecatedBounds(k *kind, st *format.Statistics) (mn, mx parquet.Value, has bool, why string) {
	if st.Min == nil && st.Max == nil {
		return
	}
	if k.Typ.Kind() != parquet.ByteArray && (st.Min == nil || st.Max == nil) {
		return mn, mx, false, fmt.Sprintf("only one of the two is written: min %x max %x", st.Min, st.Max)
	}
	var o1, o2 bool
	mn, o1 = storedValue(k, st.Min)
	mx, o2 = storedValue(k, st.Max)
	if !o1 || !o2 || (k.Num && (len(st.Min) != k.Width || len(st.Max) != k.Width)) || (k.fixedSize() > 0 && (len(st.Min) != k.fixedSize() || len(st.Max) != k.fixedSize())) {
		return mn, mx, false, fmt.Sprintf("malformed: min %x max %x", st.Min, st.Max)
	}
	return mn, mx, true, ""
}

func checkFile(c *core.Ctx, fc *fcase, data []byte, label string, cols []fcol, exp sortExpect) bool {
	viol := func(class, what string) {
		c.Violation(class, label+": "+what, fc)
	}
	f, e := parquet.OpenFile(bytes.NewReader(data), int64(len(data)))
	if e != nil {
		viol("file-open-error", e.Error())
		return false
	}
	ok := true
	md := f.Metadata()
	ncols := len(cols)
	// sorting metadata: only what was declared
	for rgi := range md.RowGroups {
		sc := md.RowGroups[rgi].SortingColumns
		if len(sc) == 0 && (len(exp.want) == 0 || exp.optional) {
			continue
		}
		if !slices.Equal(sc, exp.want) {
			if len(exp.want) == 0 {
				viol("sorting-not-declared", fmt.Sprintf("row group %d records sorting columns %v, none were declared", rgi, sc))
			} else {
				viol("sorting-differs", fmt.Sprintf("row group %d records sorting columns %s, declared %s", rgi, showSorting(sc), showSorting(exp.want)))
			}
			ok = false
		}
	}
	offset := make([]int, ncols) // position in the flat written values of each column
	written := make([][]string, ncols)
	for ci, col := range cols {
		for _, r := range col.Rows {
			if col.Rep == "rep" && len(r) == 0 {
				written[ci] = append(written[ci], "N")
			}
			written[ci] = append(written[ci], r...)
		}
	}
	if f.Schema() == nil || len(f.Schema().Columns()) != ncols {
		viol("file-schema-differs", fmt.Sprintf("the file has %d columns, %d were written", len(f.Schema().Columns()), ncols))
		return false
	}
	// chunkPages[row group][column]: the values of the pages (nil: the chunk could not be read or has no column index)
	chunkPages := make([][][]pageData, len(f.RowGroups()))
	for rgi, rg := range f.RowGroups() {
		chunkPages[rgi] = make([][]pageData, ncols)
		rgVals := make([][]parquet.Value, ncols)
		for ci, cc := range rg.ColumnChunks() {
			col := cols[ci]
			k := kindByName[col.Kind]
			typ := cc.Type()
			where := fmt.Sprintf("row group %d column %d (%s %s dict=%v)", rgi, ci, col.Kind, col.Rep, col.Dict)
			skipBounds := fc.SkipBounds && ci == fc.SkipCol
			cm := &md.RowGroups[rgi].Columns[ci].MetaData
			pages, perr := readPages(cc)
			if perr != "" {
				viol("file-read-error", where+": "+perr)
				ok = false
				continue
			}
			// the pages hold exactly what was written (guards the checks below)
			var all []parquet.Value
			for _, p := range pages {
				all = append(all, p.vals...)
			}
			for i, v := range all {
				j := offset[ci] + i
				if j >= len(written[ci]) || k.tok(v) != written[ci][j] {
					viol("file-values-differ", fmt.Sprintf("%s: value %d read back as %s", where, j, k.tok(v)))
					ok = false
					break
				}
			}
			offset[ci] += len(all)
			rgVals[ci] = all
			maxDef, maxRep := 0, 0
			if col.Rep != "req" {
				maxDef = 1
			}
			if col.Rep == "rep" {
				maxRep = 1
			}

			// ---- page headers
			hs, herr := headerStats(data, cm)
			if herr != nil {
				viol("file-read-error", where+": "+herr.Error())
				ok = false
			} else if len(hs) != len(pages) {
				viol("page-count-differs", fmt.Sprintf("%s: %d data page headers, %d pages read", where, len(hs), len(pages)))
				ok = false
			} else {
				for p, h := range hs {
					nulls := countNulls(pages[p].vals)
					if int(h.nvals) != len(pages[p].vals) {
						viol("page-num-values", fmt.Sprintf("%s page %d: header num_values %d, %d values", where, p, h.nvals, len(pages[p].vals)))
						ok = false
					}
					if h.isV2 && (int64(h.v2Nulls) != nulls || int64(h.v2Rows) != pages[p].rows) {
						viol("page-v2-counts", fmt.Sprintf("%s page %d: header num_nulls %d num_rows %d, real %d %d", where, p, h.v2Nulls, h.v2Rows, nulls, pages[p].rows))
						ok = false
					}
					if fc.NoStats {
						// the statistics struct of the header is always serialised
						// (null_count has no unset form): no bounds, but a true count
						if h.stats.MinValue != nil || h.stats.MaxValue != nil || h.stats.Min != nil || h.stats.Max != nil {
							viol("page-stats-unwanted", fmt.Sprintf("%s page %d: bounds written although page statistics are disabled", where, p))
							ok = false
						}
						if h.stats.NullCount != nulls {
							viol("page-null-count", fmt.Sprintf("%s page %d (page statistics disabled): header null_count %d, real %d", where, p, h.stats.NullCount, nulls))
							ok = false
						}
						continue
					}
					if h.stats.NullCount != nulls {
						viol("page-null-count", fmt.Sprintf("%s page %d: header null_count %d, real %d", where, p, h.stats.NullCount, nulls))
						ok = false
					}
					has := h.stats.MinValue != nil && h.stats.MaxValue != nil
					var mn, mx parquet.Value
					if has {
						var o1, o2 bool
						mn, o1 = storedValue(k, h.stats.MinValue)
						mx, o2 = storedValue(k, h.stats.MaxValue)
						if !o1 || !o2 {
							viol("page-stats-malformed", fmt.Sprintf("%s page %d: min %x max %x", where, p, h.stats.MinValue, h.stats.MaxValue))
							ok = false
							continue
						}
					}
					// an empty byte string is written as an absent field: not exact then
					exact := !(k.Typ.Kind() == parquet.ByteArray)
					if why := boundsPredicate(k, mn, mx, has, pages[p].vals, exact); why != "" {
						viol("page-stats-wrong", fmt.Sprintf("%s page %d: %s", where, p, why))
						ok = false
					}
					// the deprecated min / max of the header, when present, are held to
					// the same predicate (see deprecatedBounds)
					dmn, dmx, dhas, dwhy := deprecatedBounds(k, &h.stats)
					if dwhy == "" {
						dwhy = boundsPredicate(k, dmn, dmx, dhas, pages[p].vals, false)
					}
					if dwhy != "" {
						viol("page-deprecated-stats-wrong", fmt.Sprintf("%s page %d: deprecated min/max: %s", where, p, dwhy))
						ok = false
					}
					if has && c.HasOracle() {
						var toks []string
						for _, v := range pages[p].vals {
							if !v.IsNull() {
								toks = append(toks, k.tok(v))
							}
						}
						cmd := "c05.bounds "
						if col.Dict {
							cmd = "c05.dictbounds "
						}
						req := cmd + k.Model + " " + strings.Join(toks, ",")
						want := c.Ask(req)
						if got := k.tok(mn) + ":" + k.tok(mx); k.normZero(want) != k.normZero(got) {
							c.Mismatch("corr:C05.page_stats", req, got, want, fc)
							ok = false
						}
						// writer.go makePageStatistics gives the deprecated fields of a
						// header the bytes of min_value / max_value
						if dhas {
							if got := k.tok(dmn) + ":" + k.tok(dmx); k.normZero(want) != k.normZero(got) {
								c.Mismatch("corr:C05.page_deprecated_stats", req, got, want, fc)
								ok = false
							}
						}
					}
				}
			}

			// ---- chunk statistics
			fcc, _ := cc.(*parquet.FileColumnChunk)
			var totalNulls int64
			for _, p := range pages {
				totalNulls += countNulls(p.vals)
			}
			if cm.NumValues != int64(len(all)) {
				viol("chunk-num-values", fmt.Sprintf("%s: num_values %d, %d values", where, cm.NumValues, len(all)))
				ok = false
			}
			if fcc != nil {
				if fcc.NullCount() != totalNulls {
					viol("chunk-null-count", fmt.Sprintf("%s: null_count %d, real %d", where, fcc.NullCount(), totalNulls))
					ok = false
				}
				mn, mx, has := fcc.Bounds()
				if why := boundsPredicate(k, mn, mx, has, all, k.Typ.Kind() != parquet.ByteArray && !skipBounds); why != "" {
					viol("chunk-stats-wrong", fmt.Sprintf("%s: %s", where, why))
					ok = false
				}
				if c.HasOracle() && has && !skipBounds {
					req := "c05.chunk " + k.Model + " " + strings.Join(chunkPageToks(k, pages), ",")
					got := fmt.Sprintf("%x|%x|%s:%s", cm.NumValues, fcc.NullCount(), k.tok(mn), k.tok(mx))
					if want := c.Ask(req); k.normZero(want) != k.normZero(got) {
						c.Mismatch("corr:C05.chunk_stats", req, got, want, fc)
						ok = false
					}
				}
			}
			// ---- deprecated min / max of the chunk statistics
			{
				dmn, dmx, dhas, dwhy := deprecatedBounds(k, &cm.Statistics)
				// with the option set they are demanded like min_value / max_value
				// (present, values of the chunk) wherever those are
				exact := fc.Deprecated && k.Typ.Kind() != parquet.ByteArray && !skipBounds
				if dwhy == "" {
					dwhy = boundsPredicate(k, dmn, dmx, dhas, all, exact)
				}
				if dwhy != "" {
					viol("chunk-deprecated-stats-wrong", fmt.Sprintf("%s: deprecated min/max: %s", where, dwhy))
					ok = false
				}
				if c.HasOracle() && !skipBounds && (dhas || exact) {
					dep := "0"
					if fc.Deprecated {
						dep = "1"
					}
					req := "c05.chunkdep " + k.Model + " " + dep + " " + strings.Join(chunkPageToks(k, pages), ",")
					got := "N:N"
					if dhas {
						got = k.tok(dmn) + ":" + k.tok(dmx)
					}
					if want := c.Ask(req); k.normZero(want) != k.normZero(got) {
						c.Mismatch("corr:C05.chunk_deprecated_stats", req, got, want, fc)
						ok = false
					}
				}
				if fc.Deprecated && !skipBounds {
					moves := 0 // times a page after the first one with values moves a bound of the chunk
					var lo, hi parquet.Value
					for _, p := range pages {
						var nonNull []parquet.Value
						for _, v := range p.vals {
							if !v.IsNull() {
								nonNull = append(nonNull, v)
							}
						}
						if len(nonNull) == 0 {
							continue
						}
						pmn, pmx, pok, nan := pageBoundsOf(k, nonNull)
						if !pok || nan {
							continue
						}
						if lo.IsNull() {
							lo, hi = pmn, pmx
							continue
						}
						if k.Typ.Compare(pmn, lo) < 0 {
							lo = pmn
							moves++
						}
						if k.Typ.Compare(pmx, hi) > 0 {
							hi = pmx
							moves++
						}
					}
					c.Case("file/"+label+"/deprecated-stats", fmt.Sprintf("%s|%s|%v|%d|%s|%s", label, col.Kind, col.Dict, len(pages), k.tok(dmn), k.tok(dmx)), moves >= 1)
				}
			}
			// size statistics
			ss := &cm.SizeStatistics
			if len(ss.DefinitionLevelHistogram) > 0 {
				if want := hist(all, maxDef, true); !eqInts(ss.DefinitionLevelHistogram, want) {
					viol("chunk-def-histogram", fmt.Sprintf("%s: definition level histogram %v, real %v", where, ss.DefinitionLevelHistogram, want))
					ok = false
				}
			}
			if len(ss.RepetitionLevelHistogram) > 0 {
				if want := hist(all, maxRep, false); !eqInts(ss.RepetitionLevelHistogram, want) {
					viol("chunk-rep-histogram", fmt.Sprintf("%s: repetition level histogram %v, real %v", where, ss.RepetitionLevelHistogram, want))
					ok = false
				}
			}
			if k.Typ.Kind() == parquet.ByteArray && ss.UnencodedByteArrayDataBytes != 0 {
				var sz int64
				for _, v := range all {
					if !v.IsNull() {
						sz += int64(len(v.ByteArray()))
					}
				}
				if ss.UnencodedByteArrayDataBytes != sz {
					viol("chunk-unencoded-bytes", fmt.Sprintf("%s: unencoded_byte_array_data_bytes %d, real %d", where, ss.UnencodedByteArrayDataBytes, sz))
					ok = false
				}
			}

			// ---- column index
			raw, rerr := rawColumnIndex(data, &md.RowGroups[rgi].Columns[ci])
			if raw == nil && rerr == nil && skipBounds {
				// no column index for a column whose bounds are withheld: nothing can mislead a reader
				c.Case("file/"+label+"/no-index", fmt.Sprintf("%s|%s|%d", label, col.Kind, len(pages)), len(pages) >= 2)
				continue
			}
			ix, ierr := cc.ColumnIndex()
			if ierr != nil || ix == nil || raw == nil {
				viol("column-index-missing", fmt.Sprintf("%s: %v %v", where, ierr, rerr))
				ok = false
				continue
			}
			np := len(pages)
			if len(raw.NullPages) != np || len(raw.NullCounts) != np || len(raw.MinValues) != np || len(raw.MaxValues) != np {
				viol("index-misaligned", fmt.Sprintf("%s: %d pages, index has %d null_pages %d null_counts %d min_values %d max_values", where, np,
					len(raw.NullPages), len(raw.NullCounts), len(raw.MinValues), len(raw.MaxValues)))
				ok = false
				continue
			}
			if ix.NumPages() != np {
				viol("index-not-read", fmt.Sprintf("%s: ColumnChunk.ColumnIndex() has %d pages, the column index stored in the file has %d", where, ix.NumPages(), np))
				ok = false
				continue
			}
			chunkPages[rgi][ci] = pages
			mins, maxs := make([]parquet.Value, np), make([]parquet.Value, np)
			accessOK := true
			func() {
				defer func() {
					if r := recover(); r != nil {
						viol("index-access-panic", fmt.Sprintf("%s: %v", where, r))
						ok, accessOK = false, false
					}
				}()
				for p := range pages {
					mins[p], maxs[p] = ix.MinValue(p), ix.MaxValue(p)
				}
			}()
			if !accessOK {
				continue
			}
			var idxPages []string
			for p, pg := range pages {
				nulls := countNulls(pg.vals)
				allNull := nulls == int64(len(pg.vals))
				if ix.NullCount(p) != nulls {
					viol("index-null-count", fmt.Sprintf("%s page %d: null_count %d, real %d", where, p, ix.NullCount(p), nulls))
					ok = false
				}
				if ix.NullPage(p) != allNull {
					viol("index-null-page", fmt.Sprintf("%s page %d: null_page %v, %d of %d values are null", where, p, ix.NullPage(p), nulls, len(pg.vals)))
					ok = false
					continue
				}
				if allNull {
					idxPages = append(idxPages, fmt.Sprintf("%x:%x:N", len(pg.vals), nulls))
					continue
				}
				if why := boundsPredicate(k, mins[p], maxs[p], true, pg.vals, false); why != "" {
					viol("index-bound-not-bound", fmt.Sprintf("%s page %d (size limit %d): %s", where, p, fc.Limit, why))
					ok = false
				}
				var nonNull []parquet.Value
				for _, v := range pg.vals {
					if !v.IsNull() {
						nonNull = append(nonNull, v)
					}
				}
				pmn, pmx, _, _ := pageBoundsOf(k, nonNull)
				idxPages = append(idxPages, fmt.Sprintf("%x:%x:%s:%s", len(pg.vals), nulls, k.tok(pmn), k.tok(pmx)))
			}
			order := format.Unordered
			if ix.IsAscending() {
				order = format.Ascending
			} else if ix.IsDescending() {
				order = format.Descending
			}
			if good, why := orderClaimTrue(k, order, ix.NullPage, mins, maxs); !good {
				viol("order-claim-false", where+": "+why)
				ok = false
			}
			// level histograms per page
			if n := len(raw.DefinitionLevelHistogram); n > 0 {
				var want []int64
				for _, pg := range pages {
					want = append(want, hist(pg.vals, maxDef, true)...)
				}
				if !eqInts(raw.DefinitionLevelHistogram, want) {
					viol("index-def-histogram", fmt.Sprintf("%s: %v, real %v", where, raw.DefinitionLevelHistogram, want))
					ok = false
				}
			}
			if n := len(raw.RepetitionLevelHistogram); n > 0 {
				var want []int64
				for _, pg := range pages {
					want = append(want, hist(pg.vals, maxRep, false)...)
				}
				if !eqInts(raw.RepetitionLevelHistogram, want) {
					viol("index-rep-histogram", fmt.Sprintf("%s: %v, real %v", where, raw.RepetitionLevelHistogram, want))
					ok = false
				}
			}
			// skip safety: Search never goes past the page of a present value
			func() {
				defer func() {
					if r := recover(); r != nil {
						viol("search-panic", fmt.Sprintf("%s: %v", where, r))
						ok = false
					}
				}()
				for p, pg := range pages {
					seen := map[string]bool{}
					for _, v := range pg.vals {
						if v.IsNull() || k.isNaN(v) || seen[k.tok(v)] {
							continue
						}
						seen[k.tok(v)] = true
						c.Res.Evaluations++
						if r := parquet.Search(ix, v, typ); r > p {
							viol("skip-unsafe", fmt.Sprintf("%s: value %s is in page %d of %d but Search returned %d (order %v, page bounds [%s,%s])", where, k.show(v), p, np, r, order, k.show(mins[p]), k.show(maxs[p])))
							ok = false
							return
						}
					}
				}
			}()
			// the model's index from the page values
			if c.HasOracle() && !skipBounds {
				lim := fc.Limit
				req := "c05.index " + k.Model + " " + core.Zs(int64(lim)) + " " + strings.Join(idxPages, ",")
				if want, got := c.Ask(req), canonIndex(k, raw); k.normZero(want) != k.normZero(got) && len(idxPages) == np {
					c.Mismatch("corr:C05.file_index", req, got, want, fc)
					ok = false
				}
			}
			key := fmt.Sprintf("%s|%s|%s|%v|%d|%d|%v|%s", label, col.Kind, col.Rep, col.Dict, np, fc.Limit, fc.V2, strings.Join(idxPages, ","))
			nullPages := 0
			for p := range pages {
				if ix.NullPage(p) {
					nullPages++
				}
			}
			bucket := fmt.Sprintf("file/%s/order=%d", label, order)
			if nullPages > 0 {
				bucket += "/nullpages"
			}
			if rgi > 0 || fc.Reuse > 0 {
				// the column writer and its indexer were used and reset before
				bucket += "/after-reset"
				key += fmt.Sprintf("|rg%d|reuse%d", rgi, fc.Reuse)
			}
			c.Case(bucket, key, np >= 2)
		}
		// the sorting columns recorded for rows that were handed over sorted are true of the rows
		if sc := md.RowGroups[rgi].SortingColumns; exp.truth && len(sc) > 0 {
			if why := sortedWhy(cols, sc, rgVals); why != "" {
				viol("sorting-claim-false", fmt.Sprintf("row group %d records sorting columns %s but %s", rgi, showSorting(sc), why))
				ok = false
			}
		}
	}
	// the column indexes of MultiRowGroup(...) over the row groups of the file
	if !multiChecks(c, fc, f, label, cols, chunkPages) {
		ok = false
	}
	return ok
}

// pageBoundsOf computes min/max of non-null values by Type.Compare the way the
// pages do (first NaN-free value, strict comparisons): used only to feed the
// model's indexer and chunk fold with page bounds.
func pageBoundsOf(k *kind, vals []parquet.Value) (mn, mx parquet.Value, ok bool, allNaN bool) {
	first := -1
	for i, v := range vals {
		if !k.isNaN(v) {
			first = i
			break
		}
	}
	if first < 0 {
		if len(vals) == 0 {
			return mn, mx, false, false
		}
		return vals[0], vals[0], true, true
	}
	mn, mx = vals[first], vals[first]
	for _, v := range vals[first+1:] {
		if k.isNaN(v) {
			continue
		}
		if k.Typ.Compare(v, mn) < 0 {
			mn = v
		}
		if k.Typ.Compare(v, mx) > 0 {
			mx = v
		}
	}
	return mn, mx, true, false
}

func fileCheck(c *core.Ctx, fc *fcase) bool {
	if fc.Via != "" {
		return viaCheck(c, fc)
	}
	data, err := fc.write()
	if err != "" {
		c.Violation("file-write-error", err, fc)
		return false
	}
	ok := checkFile(c, fc, data, "written", fc.Cols, fc.writerSortExpect())
	if fc.Copy {
		cp, copied, err := fc.copyFile(data)
		if err != "" {
			c.Violation("file-copy-error", err, fc)
			return false
		}
		label := "copied"
		if copied == 0 {
			label = "rewritten"
		}
		if !checkFile(c, fc, cp, label, fc.Cols, fc.writerSortExpect()) {
			ok = false
		}
	}
	return ok
}

func fileShrink(c *core.Ctx, fc *fcase) *fcase {
	cur := *fc
	fails := func(t *fcase) bool { return c.Probe(func() { fileCheck(c, t) }) }
	// one column
	if len(cur.Cols) > 1 {
		for i := range cur.Cols {
			t := cur
			t.Cols = []fcol{cur.Cols[i]}
			if t.Sort != "" && i != 0 {
				t.Sort = ""
			}
			if t.SkipBounds && i != cur.SkipCol {
				t.SkipBounds = false
			}
			t.SkipCol = 0
			t.Project = nil
			t.Keys = nil
			for _, key := range cur.Keys {
				if key.Col == i {
					key.Col = 0
					t.Keys = append(t.Keys, key)
				}
			}
			if fails(&t) {
				cur = t
				break
			}
		}
	}
	cut := func(t *fcase, from, to int) {
		cols := make([]fcol, len(t.Cols))
		for i, col := range t.Cols {
			col.Rows = append(append([][]string(nil), col.Rows[:from]...), col.Rows[to:]...)
			cols[i] = col
		}
		t.Cols = cols
	}
	budget := 600
	for progress := true; progress && budget > 0; {
		progress = false
		// shorter row groups (the later row groups survive with fewer rows)
		for _, f := range []func(t *fcase) bool{
			func(t *fcase) bool { t.PageBuf /= 2; return t.PageBuf >= 1 }, // smaller pages: fewer rows are needed
			func(t *fcase) bool { t.Batch /= 2; return t.PageBuf == 1 && t.Batch >= 1 },
			func(t *fcase) bool { t.MaxRows /= 2; return t.MaxRows >= 1 },
			func(t *fcase) bool { t.Flush /= 2; return t.Flush >= 1 },
			func(t *fcase) bool { t.MaxRows--; return t.MaxRows >= 1 },
			func(t *fcase) bool { t.Flush--; return t.Flush >= 1 },
		} {
			for budget > 0 {
				t := cur
				budget--
				if !f(&t) || !fails(&t) {
					break
				}
				cur, progress = t, true
			}
		}
		for size := cur.numRows() / 2; size >= 1 && budget > 0; {
			removed := false
			for from := 0; from+size <= cur.numRows() && budget > 0; {
				t := cur
				cut(&t, from, from+size)
				budget--
				if t.numRows() > 0 && fails(&t) {
					cur, removed, progress = t, true, true
				} else {
					from += size
				}
			}
			if !removed || size > cur.numRows() {
				size /= 2
			}
		}
	}
	if cur.Copy {
		t := cur
		t.Copy = false
		if fails(&t) {
			cur = t
		}
	}
	// the way through WriteRowGroup: fewer source row groups, fewer sorting columns, a simpler way
	for cur.SrcGroups > 1 {
		t := cur
		t.SrcGroups--
		if !fails(&t) {
			break
		}
		cur = t
	}
	for i := 0; i < len(cur.Keys) && len(cur.Keys) > 1; {
		t := cur
		t.Keys = append(append([]skey(nil), cur.Keys[:i]...), cur.Keys[i+1:]...)
		if fails(&t) {
			cur = t
		} else {
			i++
		}
	}
	// the conversion on the way: not needed, or to fewer columns
	if len(cur.Project) > 0 {
		t := cur
		t.Project = nil
		if fails(&t) {
			cur = t
		}
		for i := 0; i < len(cur.Project) && len(cur.Project) > 1; {
			t := cur
			t.Project = append(append([]int(nil), cur.Project[:i]...), cur.Project[i+1:]...)
			if fails(&t) {
				cur = t
			} else {
				i++
			}
		}
	}
	if cur.Via != "" && cur.Via != "buffer" {
		for _, via := range []string{"buffer", "file"} {
			t := cur
			t.Via = via
			if via != cur.Via && fails(&t) {
				cur = t
				break
			}
		}
	}
	// the MultiRowGroup asked for: not needed, or fewer row groups of it
	if len(cur.Multi) > 0 {
		t := cur
		t.Multi, t.MultiNest = nil, 0
		if fails(&t) {
			cur = t
		} else {
			if cur.MultiNest != 0 {
				t := cur
				t.MultiNest = 0
				if fails(&t) {
					cur = t
				}
			}
			for i := 0; i < len(cur.Multi) && len(cur.Multi) > 2; {
				t := cur
				t.Multi = append(append([]int(nil), cur.Multi[:i]...), cur.Multi[i+1:]...)
				if fails(&t) {
					cur = t
				} else {
					i++
				}
			}
		}
	}
	// the history: keep only what the failure needs
	if cur.Reuse != 0 {
		t := cur
		t.Reuse = 0
		if fails(&t) {
			cur = t
		}
	}
	if cur.Flush != 0 {
		t := cur
		t.Flush = 0
		if fails(&t) {
			cur = t
		}
	}
	if cur.MaxRows != 0 {
		t := cur
		t.MaxRows = 0
		if fails(&t) {
			cur = t
		}
	}
	return &cur
}

func fileRun(c *core.Ctx, fc *fcase) bool {
	if c.Probe(func() { fileCheck(c, fc) }) {
		fileCheck(c, fileShrink(c, fc))
		return false
	}
	fileCheck(c, fc) // record coverage
	return true
}

// genColumn produces the rows of one column: runs of values following a
// pattern, runs of nulls long enough to fill whole pages, runs of NaN.
func genColumn(c *core.Ctx, k *kind, rep string, n int) [][]string {
	rows := make([][]string, 0, n)
	pattern := c.Rng.Intn(4)
	d := len(k.Domain)
	cur := c.Rng.Intn(d)
	if pattern == 0 {
		cur = 0
	} else if pattern == 1 {
		cur = d - 1
	}
	step := 1 + n/(2*d+1)
	next := func() string {
		switch pattern {
		case 0:
			if c.Rng.Intn(step) == 0 {
				cur += c.Rng.Intn(2)
			}
		case 1:
			if c.Rng.Intn(step) == 0 {
				cur -= c.Rng.Intn(2)
			}
		case 2:
		default:
			cur = c.Rng.Intn(d)
		}
		if cur < 0 {
			cur = 0
		}
		if cur >= d {
			cur = d - 1
		}
		return k.tok(k.Domain[cur])
	}
	for len(rows) < n {
		run := 1 + c.Rng.Intn(30)
		mode := c.Rng.Intn(10)
		for i := 0; i < run && len(rows) < n; i++ {
			switch {
			case mode < 3 && rep == "opt":
				rows = append(rows, []string{"N"})
			case mode < 3 && rep == "rep":
				rows = append(rows, []string{})
			case mode == 3 && len(k.NaNs) > 0:
				rows = append(rows, []string{k.tok(k.NaNs[c.Rng.Intn(len(k.NaNs))])})
			case rep == "rep":
				m := c.Rng.Intn(4)
				vals := []string{}
				for j := 0; j < m; j++ {
					vals = append(vals, next())
				}
				rows = append(rows, vals)
			default:
				if len(k.NaNs) > 0 && c.Rng.Intn(9) == 0 {
					rows = append(rows, []string{k.tok(k.NaNs[c.Rng.Intn(len(k.NaNs))])})
				} else {
					rows = append(rows, []string{next()})
				}
			}
		}
	}
	return rows
}

func canDict(k *kind) bool { return k.Name != "bool" }

func randFileCase(c *core.Ctx, i int) *fcase {
	fc := &fcase{PageBuf: []int{16, 32, 64, 128, 256}[c.Rng.Intn(5)], Limit: 1 + i%20, V2: c.Rng.Intn(2) == 0, Batch: 1 + c.Rng.Intn(12)}
	if c.Rng.Intn(6) == 0 {
		fc.Limit = []int{0, -1, 64}[c.Rng.Intn(3)]
	}
	n := 20 + c.Rng.Intn(c.N(120, 300))
	if c.Rng.Intn(3) == 0 {
		fc.MaxRows = int64(10 + c.Rng.Intn(n))
	}
	if c.Rng.Intn(4) == 0 {
		fc.Flush = 5 + c.Rng.Intn(n)
	}
	if c.Rng.Intn(4) == 0 {
		fc.Reuse = 1 + c.Rng.Intn(2)
	}
	fc.NoStats = c.Rng.Intn(12) == 0
	fc.Deprecated = i%3 == 1
	fc.SkipBounds = c.Rng.Intn(15) == 0
	fc.Copy = c.Rng.Intn(3) == 0
	switch c.Rng.Intn(8) {
	case 0:
		fc.Sort = "asc"
	case 1:
		fc.Sort = "desc"
	}
	ncols := 1 + c.Rng.Intn(4)
	// one file in two that is flushed explicitly restarts its value runs with every row group
	saw := fc.Flush > 0 && c.Rng.Intn(2) == 0
	for j := 0; j < ncols; j++ {
		k := kinds[(i*3+j*7+c.Rng.Intn(len(kinds)))%len(kinds)]
		rep := []string{"req", "opt", "opt", "rep"}[c.Rng.Intn(4)]
		col := fcol{Kind: k.Name, Rep: rep, Dict: canDict(k) && c.Rng.Intn(3) == 0}
		if saw {
			col.Rows = genColumnSaw(c, k, rep, n, fc.Flush, true)
		} else {
			col.Rows = genColumn(c, k, rep, n)
		}
		fc.Cols = append(fc.Cols, col)
	}
	if fc.SkipBounds {
		fc.SkipCol = c.Rng.Intn(len(fc.Cols))
	}
	if saw || c.Rng.Intn(4) == 0 {
		randMulti(c, fc)
	}
	if c.Rng.Intn(8) == 0 {
		randVia(c, fc)
	}
	return fc
}

// historySweep: for every kind (plain and dictionary encoded, required and
// optional) files of several row groups cut by MaxRowsPerRowGroup and by Flush,
// from a new writer and from writers that were reset after a complete and after
// an abandoned file: the statistics and the column index of later row groups
// come from column writers, indexers and buffers that were used before.
func historySweep(c *core.Ctx) {
	i := 0
	for round := c.N(1, 4); round > 0; round-- {
		for _, k := range kinds {
			for _, dict := range []bool{false, true} {
				if dict && !canDict(k) {
					continue
				}
				for mode := 0; mode < 3; mode++ {
					n := 60 + c.Rng.Intn(60)
					fc := &fcase{PageBuf: []int{16, 32, 64}[c.Rng.Intn(3)], Limit: []int{16, 3, 0}[i%3], V2: i%2 == 0, Batch: 1 + c.Rng.Intn(12), Reuse: mode}
					switch mode {
					case 0:
						fc.MaxRows = int64(n/4 + c.Rng.Intn(5))
					case 1:
						fc.Flush = n/3 + c.Rng.Intn(5)
					default:
						if i%2 == 0 {
							fc.MaxRows = int64(n/3 + c.Rng.Intn(5))
						}
					}
					rep := []string{"req", "opt"}[i%2]
					fc.Cols = []fcol{{Kind: k.Name, Rep: rep, Dict: dict, Rows: genColumn(c, k, rep, n)}}
					fileRun(c, fc)
					i++
				}
			}
		}
	}
}

// deprecatedSweep: the writer option DeprecatedDataPageStatistics(true) for
// every kind (plain and dictionary encoded, required and optional): column
// chunks of many small pages whose values walk up, walk down or jump through
// the domain of the kind, so that pages after the first one lower the minimum
// and raise the maximum of the chunk again and again - for the byte array kinds
// to values that are shorter, longer (beyond the capacity of what held the
// earlier bound) or of the same length -, from new and from reset writers, in
// one and in several row groups.
func deprecatedSweep(c *core.Ctx) {
	i := 0
	for round := c.N(1, 3); round > 0; round-- {
		for _, k := range kinds {
			for _, dict := range []bool{false, true} {
				if dict && !canDict(k) {
					continue
				}
				for _, pattern := range []int{0, 1, 3} {
					n := 30 + c.Rng.Intn(40)
					fc := &fcase{PageBuf: []int{16, 24, 48}[i%3], Limit: []int{16, 0, 2}[(i/3)%3], V2: i%2 == 0, Batch: 1 + c.Rng.Intn(6), Deprecated: true}
					if i%4 == 3 {
						fc.Reuse = 1 + (i/4)%2
					}
					if i%5 == 4 {
						fc.MaxRows = int64(n/2 + c.Rng.Intn(5))
					}
					fc.Copy = i%7 == 0
					rep := []string{"req", "opt"}[(i/2)%2]
					var rows [][]string
					for _, j := range walk(c, pattern, n, len(k.Domain)) {
						if rep == "opt" && c.Rng.Intn(6) == 0 {
							rows = append(rows, []string{"N"})
						} else if len(k.NaNs) > 0 && c.Rng.Intn(8) == 0 {
							rows = append(rows, []string{k.tok(k.NaNs[c.Rng.Intn(len(k.NaNs))])})
						} else {
							rows = append(rows, []string{k.tok(k.Domain[j])})
						}
					}
					fc.Cols = []fcol{{Kind: k.Name, Rep: rep, Dict: dict, Rows: rows}}
					fileRun(c, fc)
					i++
				}
			}
		}
	}
}

// ---------------------------------------------------------------- run

func runC05(c *core.Ctx) {
	c.Res.Rule = "(a) ColumnIndexer of every physical/logical type fed generated page lists (ordered, reversed, constant and random bounds from a per-type domain with extremes, -0, +-Inf, NaN payloads, long 0xFF prefixes; null pages at every position; size limits -1..21), on new indexers and on indexers that indexed 1-2 earlier lists and were Reset (random histories plus a sweep of every kind over histories shorter, equal and longer than the list; the column indexes handed out along the history are kept, as the writer keeps those of finished row groups until Close, and must still read as they did once the indexer has gone on), ascending and descending lists of every kind whose length is around the multiples of the strides of the vectorised order kernels (56, 112, 240 pages for every kind; 55..57, 111..113, 239..241 for the six kinds that have their own kernel, 447..449 / 479..481 for one kernel of each stride; all of these for every kind in the thorough tier; new and reset indexers), plus every list of <= 4 pages over a 3-value domain for int32 / byte arrays and every byte string over {00,01,fe,ff} up to length 5 with limits 1..4; Type.Compare on all domain pairs; Bounds of in-memory pages, plain and dictionary indexed: random pages, byte-position sweeps, position sweeps (every kind, pages of 65, 129 and 200 values — twelve lengths up to 257 in the thorough tier — holding the only smallest and the only largest value of the page at every position in turn: the first and last value of every batch of 64 the generic page code reads, every lane and tail position of the kernels), pages above 1 MiB, and every ordered pair of every domain (NaNs and both zeros included; for the kinds whose order has ties also the pair spread over a longer page), each followed by Search of every value of the page in the one-page index made of the page's own bounds. (b) files with generated schemas (1-4 columns, required / optional / repeated, plain / dictionary, data page v1 / v2, tiny page buffers, every ColumnIndexSizeLimit 1..20, with and without page statistics, sorting declared or not; row groups cut by MaxRowsPerRowGroup and by Flush; writers new or reused through Writer.Reset after a complete or an abandoned file; a sweep gives every kind, plain and dictionary, each of these histories), re-written through WriteRowGroup with identical settings; one file in three is written with DeprecatedDataPageStatistics(true), and a sweep gives every kind (plain / dictionary, required / optional, new and reset writers, one or several row groups) such files whose pages walk up, down or at random through the domain, so that later pages move the chunk bounds again and again (for byte arrays to shorter, longer and equally long values): the deprecated min / max of every page header and of every chunk, when present, are held to the same bounds predicate in the column order and, with the option set, must be present and values of the chunk wherever min_value / max_value are, and are compared with the model of recordPageStats (c05.chunkdep). (b') the rows sorted in 1-4 parquet.Buffers that declare 0-3 sorting columns (every combination of descending / nulls first) and written through Writer.WriteRowGroup by a writer without (or, sometimes, with) a sorting configuration of its own, on every way in: the Buffers (column-wise re-encode), an application-defined RowGroup around them (row path), row groups of a source file written with the same settings (verbatim copy), with the other data page version (column-wise re-encode), behind an application-defined RowGroup, larger than MaxRowsPerRowGroup (cut on the way), and one MultiRowGroup over them (segments); the source file and the file written are checked like every other file, the sorting columns recorded for every row group must be the declaration (none or the declaration where row groups are cut or packed on the way) and must be true of the rows read back (null placement included). (b'+) the same ways in with a conversion on the way: every source row group behind parquet.ConvertRowGroup to a schema made of some of the columns (1-3 sorting columns over up to 4 columns whose values repeat; the target lacks the first, the second, the third sorting column, the first two, a column that is no sorting column, or nothing; random subsets in the random cases): the converted row group may declare only the sorting columns that precede the first one its schema lacks, what it declares must be true of the rows it yields, and the file written from it is checked like the others against the rows of the kept columns. (b'') for every file of at least 2 row groups the column index of every column chunk of parquet.MultiRowGroup over the row groups in file order, reversed, and in a generated order (consecutive or random row groups, repetitions, an inner MultiRowGroup): page count, null counts, null pages and bounds against the values read back from the pages, IsAscending / IsDescending true of all pairs of non-null pages, Search of every value, and IsAscending / IsDescending against the model of isOrdered fed with what the chunks' own indexes say; a sweep gives every kind (required / optional / repeated, plain / dictionary) files whose row groups are ascending, descending, constant, random or null-only runs whose ranges are disjoint, touch, overlap partially or are nested. Every page header, chunk statistic, column index entry, histogram and boundary order of every row group is checked directly against the values read back and against the model. A case is one indexer call sequence, one page, or one column chunk; non-trivial = at least 2 pages / values; distinct by the canonical text of the case."

	var vmIdx, vmTrunc []string
	addVmIdx := func(cs *idxCase) {
		k := kindByName[cs.Kind]
		if !k.Num || len(vmIdx) >= 250 {
			return
		}
		ci := runIndexer(k, cs)
		vmIdx = append(vmIdx, vmIndexCase(k, cs, &ci))
	}

	// corpus first: the regressions
	corpusIdx := []idxCase{
		{Kind: "bytes", Limit: 2, Pages: []idxPage{{NV: 1, Min: "xffff01", Max: "xffff01"}}},
		{Kind: "bytes", Limit: 2, Pages: []idxPage{{NV: 2, Min: "x00", Max: "xffff"}, {NV: 2, Min: "xfffe", Max: "xffffff"}}},
		{Kind: "uuid", Pages: []idxPage{{NV: 2, NN: 2, Null: true}, {NV: 2, Min: "x" + strings.Repeat("00", 15) + "01", Max: "x" + ff(16)}}},
		{Kind: "flba5", Limit: 3, Pages: []idxPage{{NV: 2, Min: "x0000000001", Max: "xffffff0000"}, {NV: 3, NN: 3, Null: true}, {NV: 1, Min: "xffffffffff", Max: "xffffffffff"}}},
		{Kind: "float", Pages: []idxPage{{NV: 1, Min: "40a00000", Max: "40a00000"}, {NV: 1, Min: "7fc00000", Max: "7fc00000"}, {NV: 1, Min: "40400000", Max: "40400000"}, {NV: 1, Min: "40800000", Max: "40800000"}}},
		{Kind: "int32", Pages: []idxPage{{NV: 3, NN: 1, Min: "fffffffb", Max: "ffffffff"}, {NV: 2, NN: 2, Null: true}, {NV: 2, Min: "6", Max: "a"}}},
		{Kind: "decflba", Pages: []idxPage{{NV: 2, NN: 2, Null: true}, {NV: 1, Min: "xff000000000000", Max: "x00000000000001"}}},
	}
	for i := range corpusIdx {
		idxRun(c, &corpusIdx[i], "corpus/indexer")
		c.Sample(corpusIdx[i])
		addVmIdx(&corpusIdx[i])
	}
	nan32, one32, five32 := "7fc00000", "3f800000", "40a00000"
	corpusBounds := []boundsCase{
		{Kind: "float", Dict: true, Values: []string{one32, nan32, five32}},
		{Kind: "float", Dict: true, Values: []string{nan32, one32, five32}},
		{Kind: "double", Dict: true, Values: []string{"3ff0000000000000", "7ff8000000000000", "4014000000000000"}},
		{Kind: "float", Values: []string{nan32, "80000000", "0", "ff800000"}},
		{Kind: "float", Values: []string{nan32, "ffc00001"}},
	}
	for i := range corpusBounds {
		boundsRun(c, &corpusBounds[i], "corpus/bounds")
	}
	mk := func(kindName, rep string, dict bool, rows [][]string) fcol {
		return fcol{Kind: kindName, Rep: rep, Dict: dict, Rows: rows}
	}
	rowsOf := func(toks ...string) (r [][]string) {
		for _, t := range toks {
			r = append(r, []string{t})
		}
		return
	}
	corpusFiles := []fcase{
		// 5573cfe: max ff ff 01 with limit 2
		{PageBuf: 16, Limit: 2, Batch: 1, Cols: []fcol{mk("bytes", "req", false, rowsOf("xffff01", "xffff00", "x00"))}},
		// 218b949: optional UUID column whose first page is all null
		{PageBuf: 16, Limit: 16, Batch: 2, Cols: []fcol{mk("uuid", "opt", false, rowsOf("N", "N", "x"+strings.Repeat("00", 15)+"01", "x"+ff(16), "N", "N", "x"+ff(16)))}},
		{PageBuf: 16, Limit: 3, Batch: 2, Cols: []fcol{mk("flba5", "opt", false, rowsOf("N", "N", "x0000000001", "xffffff0000", "N", "N", "xffffffffff"))}},
		// 6707249: bounds 5, NaN, 3, 4
		{PageBuf: 1, Limit: 16, Batch: 1, Cols: []fcol{mk("float", "req", false, rowsOf(five32, nan32, "40400000", "40800000"))}},
		// 73b7e16: a first page of NaN only
		{PageBuf: 1, Limit: 16, Batch: 2, Cols: []fcol{mk("float", "req", false, rowsOf(nan32, nan32, one32, five32))}},
		// 14734b5: dictionary page 1, NaN, 5
		{PageBuf: 4096, Limit: 16, Batch: 3, Cols: []fcol{mk("double", "req", true, rowsOf("3ff0000000000000", "7ff8000000000000", "4014000000000000"))}},
		{PageBuf: 4096, Limit: 16, Batch: 3, V2: true, Copy: true, Cols: []fcol{mk("float", "opt", true, rowsOf(nan32, one32, "N", five32))}},
		// SkipPageBounds: no fake bounds may reach the column index
		{PageBuf: 1, Limit: 16, Batch: 2, SkipBounds: true, Cols: []fcol{mk("int32", "req", false, rowsOf("5", "7", "9"))}},
		// ... and the other columns keep their column index, wherever the skipped column is
		{PageBuf: 1, Limit: 16, Batch: 2, SkipBounds: true, SkipCol: 0, Cols: []fcol{mk("int32", "req", false, rowsOf("5", "7", "9")), mk("int32", "req", false, rowsOf("1", "2", "3"))}},
		{PageBuf: 1, Limit: 16, Batch: 2, SkipBounds: true, SkipCol: 1, Cols: []fcol{mk("int32", "req", false, rowsOf("5", "7", "9")), mk("int32", "req", false, rowsOf("1", "2", "3"))}},
	}
	for i := range corpusFiles {
		fileRun(c, &corpusFiles[i])
		if i < 2 {
			c.Sample(corpusFiles[i])
		}
	}

	// Type.Compare vs the model
	for _, k := range kinds {
		cmpCheck(c, k)
	}

	// exhaustive small scopes of the indexers
	for _, spec := range []struct {
		kind  string
		limit int
		dom   []string
	}{
		{"int32", 0, []string{"ffffffff", "0", "1"}},
		{"bytes", 1, []string{"x00ff", "xff", "xffff01"}},
		{"bytes", 2, []string{"xfffe", "xffff", "xffff01"}},
		{"flba5", 2, []string{"x00ffffffff", "xffff000000", "xffffffffff"}},
		{"uuid", 0, []string{"x" + strings.Repeat("00", 16), "x" + strings.Repeat("00", 8) + ff(8), "x" + ff(16)}},
		{"float", 0, []string{"80000000", "0", "3f800000"}},
	} {
		var opts []idxPage
		opts = append(opts, idxPage{NV: 2, NN: 2, Null: true})
		for a := range spec.dom {
			for b := a; b < len(spec.dom); b++ {
				opts = append(opts, idxPage{NV: 2, NN: int64(b - a), Min: spec.dom[a], Max: spec.dom[b]})
			}
		}
		maxPages := c.N(3, 4)
		count := 0
		var rec func(pages []idxPage)
		rec = func(pages []idxPage) {
			cs := &idxCase{Kind: spec.kind, Limit: spec.limit, Pages: append([]idxPage(nil), pages...)}
			idxRun(c, cs, "exhaustive/indexer/"+spec.kind)
			if count%53 == 0 {
				addVmIdx(cs)
			}
			count++
			if len(pages) == maxPages {
				return
			}
			for _, o := range opts {
				rec(append(pages, o))
			}
		}
		rec(nil)
	}
	// every byte string over {00,01,fe,ff} up to length 5, limits 1..4
	alpha := []byte{0x00, 0x01, 0xfe, 0xff}
	var strs [][]byte
	var gen func(p []byte)
	gen = func(p []byte) {
		strs = append(strs, append([]byte(nil), p...))
		if len(p) == c.N(4, 5) {
			return
		}
		for _, a := range alpha {
			gen(append(p, a))
		}
	}
	gen(nil)
	for _, s := range strs {
		for limit := 1; limit <= 4; limit++ {
			cs := &idxCase{Kind: "bytes", Limit: limit, Pages: []idxPage{{NV: 1, Min: core.Hexs(s), Max: core.Hexs(s)}}}
			idxRun(c, cs, "exhaustive/truncate")
			if len(vmTrunc) < 200 && len(s) >= 2 && (len(vmTrunc) < 40 || c.Rng.Intn(20) == 0) {
				ix := parquet.ByteArrayType.NewColumnIndexer(limit)
				ix.IndexPage(1, 0, parquet.ByteArrayValue(s), parquet.ByteArrayValue(s))
				ci := ix.ColumnIndex()
				vmTrunc = append(vmTrunc, fmt.Sprintf("(%d%%nat, %s, %s, %s)", limit, core.CoqBytes(s), core.CoqBytes(ci.MinValues[0]), core.CoqBytes(ci.MaxValues[0])))
			}
		}
	}
	c.Res.Exhaustive = true
	c.Note("exhaustive: indexers of int32, byte array (limits 1, 2), flba5 (limit 2), uuid, float over page lists of <= %d pages from a 3-value domain with null pages; all byte strings over {00,01,fe,ff} up to length %d at limits 1..4", c.N(3, 4), c.N(4, 5))

	resetSweep(c)
	lengthSweep(c)
	// random indexer cases
	nIdx := c.N(12000, 80000)
	for i := 0; i < nIdx; i++ {
		k := kinds[i%len(kinds)]
		cs := randIdxCase(c, k)
		bucket := "random/indexer/" + k.Model
		if len(cs.Prior) > 0 {
			bucket += "/after-reset"
		}
		idxRun(c, cs, bucket)
		if i%37 == 0 {
			addVmIdx(cs)
		}
		if i < 2 {
			c.Sample(cs)
		}
	}
	// byte-position sweep: pages of 15..70 equal values in which one value is
	// greater and one smaller in exactly one byte (vector kernels permute the
	// bytes of the values; a wrong permutation entry only shows when every
	// other byte ties)
	byteSweep(c)
	positionSweep(c)
	pairSweep(c)
	largeBounds(c)
	// page and dictionary bounds
	nB := c.N(8000, 50000)
	for i := 0; i < nB; i++ {
		k := kinds[i%len(kinds)]
		dict := i%2 == 1 && canDict(k)
		vals := randValues(c, k, c.Rng.Intn(24), 3+c.Rng.Intn(6))
		cs := &boundsCase{Kind: k.Name, Dict: dict}
		for _, v := range vals {
			cs.Values = append(cs.Values, k.tok(v))
		}
		boundsRun(c, cs, fmt.Sprintf("random/bounds/dict=%v", dict))
	}
	// files
	nFiles := c.N(450, 3000)
	copiedChunks := parquet.VerifCopyPathCount()
	historySweep(c)
	deprecatedSweep(c)
	multiSweep(c)
	transferSweep(c)
	convertSweep(c)
	for i := 0; i < nFiles; i++ {
		fc := randFileCase(c, i)
		fileRun(c, fc)
	}
	c.Note("column chunks written through the verbatim copy path: %d", parquet.VerifCopyPathCount()-copiedChunks)

	// (c) vm_compute sample
	c.Vm("From Coq Require Import List NArith ZArith Bool.\nFrom PQ Require Import Base.Bytes Stats.Order Stats.Model.\nImport ListNotations.\nOpen Scope Z_scope.")
	c.Vm("Fixpoint leqb {A} (e : A -> A -> bool) (a b : list A) : bool := match a, b with [] , [] => true | x :: a', y :: b' => e x y && leqb e a' b' | _, _ => false end.")
	c.Vm("Definition pg (nv nn : Z) (b : option (N * N)) : page_info N := {| pi_num_values := nv; pi_num_nulls := nn; pi_bounds := b |}.")
	c.Vm("Definition icases : list (numkind * list (page_info N) * (list bool * list Z * list N * list N * Z)) := [\n  " + strings.Join(vmIdx, ";\n  ") + "].")
	c.Vm("Definition tcases : list (nat * list N * list N * list N) := [\n  " + strings.Join(vmTrunc, ";\n  ") + "].")
	c.Vm("Definition iok (x : numkind * list (page_info N) * (list bool * list Z * list N * list N * Z)) : bool := let '(k, ps, (np, nc, mn, mx, o)) := x in let ci := index_num k ps in leqb Bool.eqb (ci_null_pages ci) np && leqb Z.eqb (ci_null_counts ci) nc && leqb N.eqb (ci_min_values ci) mn && leqb N.eqb (ci_max_values ci) mx && (ci_order ci =? o).")
	c.Vm("Definition tok (x : nat * list N * list N * list N) : bool := let '(l, v, mn, mx) := x in leqb N.eqb (truncate_min l v) mn && leqb N.eqb (truncate_max l v) mx.")
	c.Vm("Definition mismatches := (filter (fun x => negb (iok x)) icases, filter (fun x => negb (tok x)) tcases).")
	c.Vm("Definition M := Eval vm_compute in ((length icases + length tcases)%nat, match mismatches with ([], []) => @nil nat | _ => [1%nat] end).\nPrint M.")
	c.Res.VmCases = len(vmIdx) + len(vmTrunc)
}

func coqN(tok string) string {
	x, _ := new(big.Int).SetString(tok, 16)
	return x.String() + "%N"
}

func vmIndexCase(k *kind, cs *idxCase, ci *format.ColumnIndex) string {
	kn := map[string]string{"bool": "NBool", "int32": "NInt32", "int64": "NInt64", "uint32": "NUint32", "uint64": "NUint64", "float": "NFloat", "double": "NDouble", "int96": "NInt96"}[k.Model]
	var ps []string
	for _, p := range cs.Pages {
		b := "None"
		if !p.Null {
			b = fmt.Sprintf("(Some (%s, %s))", coqN(p.Min), coqN(p.Max))
		}
		ps = append(ps, fmt.Sprintf("pg %d %d %s", p.NV, p.NN, b))
	}
	var np, nc, mn, mx []string
	for i := range ci.NullPages {
		np = append(np, core.CoqBool(ci.NullPages[i]))
		nc = append(nc, strconv.FormatInt(ci.NullCounts[i], 10))
		mn = append(mn, coqN(k.tokBytes(ci.MinValues[i])))
		mx = append(mx, coqN(k.tokBytes(ci.MaxValues[i])))
	}
	return fmt.Sprintf("(%s, %s, (%s, %s, %s, %s, %d))", kn, core.CoqList(ps), core.CoqList(np), core.CoqList(nc), core.CoqList(mn), core.CoqList(mx), int(ci.BoundaryOrder))
}

func replayC05(c *core.Ctx, raw json.RawMessage) {
	var probe struct {
		Cols   []json.RawMessage `json:"cols"`
		Pages  []json.RawMessage `json:"pages"`
		Values []string          `json:"values"`
		Kind   string            `json:"kind"`
	}
	_ = json.Unmarshal(raw, &probe)
	switch {
	case probe.Cols != nil:
		var fc fcase
		if err := json.Unmarshal(raw, &fc); err == nil {
			fileCheck(c, &fc)
			c.Case("replay/file", string(raw), true)
		}
	case probe.Kind != "" && probe.Values != nil:
		var bc boundsCase
		if err := json.Unmarshal(raw, &bc); err == nil {
			boundsCheck(c, &bc)
			c.Case("replay/bounds", string(raw), true)
		}
	case probe.Kind != "":
		var ic idxCase
		if err := json.Unmarshal(raw, &ic); err == nil {
			idxCheck(c, &ic)
			c.Case("replay/indexer", string(raw), true)
		}
	default:
		c.Note("replay is not a C05 case; rerun the check with the recorded seed")
	}
}
