package main

// A call of WriteRowGroup that fails before it writes anything must leave
// nothing behind.
//
//   - while the verbatim copy is being staged: the source file is opened with
//     SkipPageIndex through a ReaderAt that, once armed, refuses to read the
//     column index (or the offset index) of one column, so loadCopiedChunk fails
//     at that column after the columns before it were staged;
//   - while the values are written column by column (FaultAt "pages": one row
//     group into a destination with another codec; "pack": a concatenation of
//     the faulty row group and a healthy one, packed into one output row
//     group): the ReaderAt refuses the pages of one column, so copyColumnValues
//     fails at that column after the values of the columns before it went into
//     their column writers.
//
// The writer is then used further (rows one by one, or a healthy row group) and
// closed.  Predicate: the file holds exactly the rows written before the
// failed call (buffered ones included: they are flushed first) followed by the
// rows written after it, in order; when the call did not fail, the rows of the
// row group as well.

import (
	"bytes"
	"errors"
	"fmt"
	"strings"

	"github.com/parquet-go/parquet-go"

	"verif/harness/core"
)

var errInjected = errors.New("injected read failure")

type faultyReader struct {
	data   []byte
	armed  bool
	ranges [][2]int64
	hits   int
}

func (f *faultyReader) ReadAt(p []byte, off int64) (int, error) {
	if f.armed {
		for _, r := range f.ranges {
			if off < r[1] && off+int64(len(p)) > r[0] {
				f.hits++
				return 0, errInjected
			}
		}
	}
	return bytes.NewReader(f.data).ReadAt(p, off)
}

func checkFault(c *core.Ctx, cs c11Case) (bucket string, nontrivial bool) {
	bucket = fmt.Sprintf("fault:%s/%s", cs.Shape, cs.After)
	defer func() {
		if r := recover(); r != nil {
			violation(c, "panic", fmt.Sprintf("%s: the library panicked: %v", bucket, core.Trunc(fmt.Sprint(r), 300)), cs)
		}
	}()
	cs.Src = "file"
	b, err := build(cs)
	if err != nil {
		return "rejected:" + core.Trunc(err.Error(), 50), false
	}
	clean, err := b.mk()
	if err != nil || len(clean) == 0 || b.srcOpts.Encrypt {
		return "fault:empty", false
	}
	data := b.registry[clean[0]].sf.data
	md := b.registry[clean[0]].sf.file.Metadata()
	ncols := len(md.RowGroups[0].Columns)
	col := (cs.Fault - 1) % ncols
	if col < 0 {
		col = 0
	}
	fr := &faultyReader{data: data}
	pagesFault := cs.FaultAt == "pages" || cs.FaultAt == "pack"
	if pagesFault {
		bucket = fmt.Sprintf("fault-%s:%s/%s", cs.FaultAt, cs.Shape, cs.After)
	}
	for _, rg := range md.RowGroups {
		ch := rg.Columns[col]
		if pagesFault {
			start := ch.MetaData.DataPageOffset
			if d := ch.MetaData.DictionaryPageOffset; d != 0 && d < start {
				start = d
			}
			fr.ranges = append(fr.ranges, [2]int64{start, start + ch.MetaData.TotalCompressedSize})
			break // the row group written by the failing call
		}
		if cs.FaultOI {
			fr.ranges = append(fr.ranges, [2]int64{ch.OffsetIndexOffset, ch.OffsetIndexOffset + int64(ch.OffsetIndexLength)})
		} else {
			fr.ranges = append(fr.ranges, [2]int64{ch.ColumnIndexOffset, ch.ColumnIndexOffset + int64(ch.ColumnIndexLength)})
		}
	}
	ff, err := parquet.OpenFile(fr, int64(len(data)), parquet.SkipPageIndex(true))
	if err != nil {
		return "rejected:open " + core.Trunc(err.Error(), 40), false
	}
	var perRG [][]parquet.Row
	for _, rg := range clean {
		rows, err := readAll(rg.Rows())
		if err != nil {
			return "rejected:read", false
		}
		perRG = append(perRG, rows)
	}

	dstOpts := b.srcOpts
	source, callRows := ff.RowGroups()[0], perRG[0]
	if pagesFault {
		if dstOpts.Codec == "snappy" {
			dstOpts.Codec = "gzip"
		} else {
			dstOpts.Codec = "snappy"
		}
		healthy := parquet.RowGroup(clean[0])
		if cs.FaultAt == "pack" {
			source = parquet.MultiRowGroup(ff.RowGroups()[0], clean[len(clean)-1])
			healthy = parquet.MultiRowGroup(clean[0], clean[len(clean)-1])
			callRows = append(append([]parquet.Row(nil), perRG[0]...), perRG[len(perRG)-1]...)
		}
		// the same call without the fault is written column by column in one piece
		var scratch bytes.Buffer
		sw := parquet.NewGenericWriter[any](&scratch, append([]parquet.WriterOption{schemaOf(b.srcRoot)}, dstOpts.writerOptions(b.srcRoot, b.sortKey)...)...)
		c0, r0 := parquet.VerifCopyPathCount(), parquet.VerifReencodePathCount()
		_, herr := sw.WriteRowGroup(healthy)
		dc, dr := parquet.VerifCopyPathCount()-c0, parquet.VerifReencodePathCount()-r0
		sw.Close()
		if herr != nil || dc != 0 || dr != 1 {
			return bucket + "=not-column-wise", false
		}
	}
	var outBuf bytes.Buffer
	w := parquet.NewGenericWriter[any](&outBuf, append([]parquet.WriterOption{schemaOf(b.srcRoot)}, dstOpts.writerOptions(b.srcRoot, b.sortKey)...)...)
	var expect []parquet.Row
	npend := cs.Pending
	if npend > len(perRG[0]) {
		npend = len(perRG[0])
	}
	for _, r := range perRG[0][:npend] {
		if _, err := w.WriteRows([]parquet.Row{r.Clone()}); err != nil {
			return "rejected:pending", false
		}
		expect = append(expect, r)
	}
	fr.armed = true
	c0, r0 := parquet.VerifCopyPathCount(), parquet.VerifReencodePathCount()
	n, werr := w.WriteRowGroup(source)
	dc, dr := parquet.VerifCopyPathCount()-c0, parquet.VerifReencodePathCount()-r0
	outcome := "written"
	switch {
	case werr == nil:
		expect = append(expect, callRows...)
		if n != int64(len(callRows)) {
			violation(c, "rows-written-count", fmt.Sprintf("%s: WriteRowGroup returned %d, the row group holds %d rows", bucket, n, len(callRows)), cs)
			return bucket, true
		}
	case pagesFault && dc == 0 && dr == 0 && fr.hits > 0:
		// the values were being written column by column: those of the columns before the faulty
		// one are in their column writers, no row group was written
		outcome = "column-wise-failed"
		if n != 0 {
			violation(c, "rows-written-count", fmt.Sprintf("%s: WriteRowGroup failed (%v) and returned %d rows", bucket, werr, n), cs)
			return bucket, true
		}
	case dr == 0 && int(dc) == col && fr.hits > 0:
		// the copy was being staged: columns 0..col-1 were loaded, nothing was written
		outcome = "copy-failed"
		if n != 0 {
			violation(c, "rows-written-count", fmt.Sprintf("%s: WriteRowGroup failed (%v) and returned %d rows", bucket, werr, n), cs)
			return bucket, true
		}
	default:
		// the failure arose on another path, possibly after part of the rows was written: out of scope
		return bucket + "=failed-elsewhere", false
	}
	last := len(perRG) - 1
	switch cs.After {
	case "rowgroup":
		if _, err := w.WriteRowGroup(clean[last]); err != nil {
			violation(c, "write-error", fmt.Sprintf("%s: WriteRowGroup of a healthy row group after a failed call (%v) failed: %v", bucket, werr, err), cs)
			return bucket, true
		}
		expect = append(expect, perRG[last]...)
	default:
		for _, r := range perRG[last] {
			if _, err := w.WriteRows([]parquet.Row{r.Clone()}); err != nil {
				violation(c, "write-error", fmt.Sprintf("%s: WriteRows after a failed call of WriteRowGroup (%v) failed: %v", bucket, werr, err), cs)
				return bucket, true
			}
		}
		expect = append(expect, perRG[last]...)
	}
	if err := w.Close(); err != nil {
		violation(c, "close-error", fmt.Sprintf("%s: Close failed: %v (WriteRowGroup: %v)", bucket, err, werr), cs)
		return bucket, true
	}
	out, err := openFile(outBuf.Bytes(), false)
	if err != nil {
		violation(c, "output-open-error", fmt.Sprintf("%s: the file cannot be opened: %v (WriteRowGroup: %v)", bucket, err, werr), cs)
		return bucket, true
	}
	got, err := fileRows(out)
	if err != nil {
		violation(c, "output-read-error", fmt.Sprintf("%s: the file cannot be read back: %v (WriteRowGroup staged %d columns, then: %v)", bucket, err, dc, werr), cs)
		return bucket, true
	}
	cg, ce := canonRows(got), canonRows(expect)
	if strings.Join(cg, "\n") != strings.Join(ce, "\n") {
		i := 0
		for i < len(cg) && i < len(ce) && cg[i] == ce[i] {
			i++
		}
		violation(c, "rows-after-failed-call-differ", fmt.Sprintf("%s: %d rows were written (%d buffered before the call, outcome %s: %v, then %d), the file holds %d rows; first difference at row %d", bucket, len(ce), npend, outcome, werr, len(perRG[last]), len(cg), i), cs)
		return bucket, true
	}
	return bucket + "=" + outcome, outcome != "written"
}
