package main

// Fixed-schema shapes added to the generated schemas of gen:
//
//   - "dict": every kind of dictionary (byte array, 32/64-bit, fixed length,
//     double, below a repeated node) with a chosen number of distinct values
//     that either keep arriving through the chunk (the dictionary outgrows a
//     DictionaryMaxBytes limit in the middle of the chunk: RLE_DICTIONARY pages
//     followed by PLAIN pages) or cycle (the dictionary is complete early);
//     source limits {none, 8, 64, 300, 2000 bytes}.
//   - "geo": GEOMETRY and GEOGRAPHY columns (optional, required, repeated)
//     holding WKB points, line strings, polygons and multi-points in the XY,
//     XYZ, XYM and XYZM layouts, empty geometries and (in some cases) bytes
//     that are not WKB: the column chunks carry GeospatialStatistics.
//
//   - "edge": columns whose chunk bounds sit at the edge of their type: the
//     empty string as minimum (and as maximum when every value is empty), a
//     zero-length byte array, float and double columns holding NaNs with both
//     payload signs, -0 and +0, infinities, an optional column that is all
//     null, a repeated string column with empty lists and empty strings, a
//     fixed-length column of all-zero and all-0xFF values.  The statistics
//     of such a chunk distinguish a bound that is set and empty from a bound
//     that is absent.
//
// gen.Node has no leaf for the geospatial logical types: a leaf "bytes" with
// Logical "geometry" / "geography" stands for them, schemaOf builds the
// library's schema.

import (
	"encoding/binary"
	"fmt"
	"math"
	"math/rand"

	"github.com/parquet-go/parquet-go"
	"github.com/parquet-go/parquet-go/format"

	"verif/harness/gen"
)

func pnode(n *gen.Node) parquet.Node {
	switch {
	case n.Leaf != "" && (n.Logical == "geometry" || n.Logical == "geography"):
		var p parquet.Node
		if n.Logical == "geometry" {
			p = parquet.Geometry("OGC:CRS84")
		} else {
			p = parquet.Geography("OGC:CRS84", format.Spherical)
		}
		if n.Encoding != "" {
			m := *n
			m.Logical = ""
			p = parquet.Encoded(p, m.ParquetNode().Encoding())
		}
		if n.Codec != "" {
			p = parquet.Compressed(p, gen.Codecs[n.Codec])
		}
		return p
	case n.Leaf != "":
		return n.ParquetNode()
	case n.Logical == "list":
		return parquet.List(pnodeRep(n.Fields[0].Fields[0]))
	}
	g := parquet.Group{}
	for _, f := range n.Fields {
		g[f.Name] = pnodeRep(f)
	}
	return g
}

func pnodeRep(n *gen.Node) parquet.Node {
	p := pnode(n)
	switch n.Rep {
	case gen.Opt:
		return parquet.Optional(p)
	case gen.Rpt:
		return parquet.Repeated(p)
	}
	return parquet.Required(p)
}

// schemaOf is gen's ParquetSchema extended with the geospatial leaves.
func schemaOf(n *gen.Node) *parquet.Schema {
	g := parquet.Group{}
	for _, f := range n.Fields {
		g[f.Name] = pnodeRep(f)
	}
	return parquet.NewSchema("root", g)
}

func posMod(a int64, m int) int {
	r := int(a % int64(m))
	if r < 0 {
		r += m
	}
	return r
}

// ---- shape dict ----

var dictLimits = []int64{0, 8, 64, 300, 2000}

func dictRoot() *gen.Node {
	return &gen.Node{Name: "root", Fields: []*gen.Node{
		{Name: "a_id", Rep: gen.Req, Leaf: "int64"},
		{Name: "b_s", Rep: gen.Opt, Leaf: "string", Encoding: "dict"},
		{Name: "c_n", Rep: gen.Req, Leaf: "int32", Encoding: "dict"},
		{Name: "d_u", Rep: gen.Req, Leaf: "flba", Size: 6, Encoding: "dict"},
		{Name: "e_d", Rep: gen.Opt, Leaf: "double", Encoding: "dict"},
		{Name: "f_l", Rep: gen.Rpt, Leaf: "int64", Encoding: "dict"},
	}}
}

// dictRows: row i holds the t-th distinct value of every column, t growing
// with i (seed not divisible by 3) or cycling.
func dictRows(cs c11Case) []parquet.Row {
	root := dictRoot()
	n, k := cs.Gen.NRows, cs.Card
	if k < 1 {
		k = 16
	}
	grow := posMod(cs.Gen.Seed, 3) != 0
	var rows []parquet.Row
	for i := 0; i < n; i++ {
		t := i % k
		if grow {
			t = i * k / n
		}
		s := &gen.Val{IsOpt: true, Null: true}
		if (i+int(posMod(cs.Gen.Seed, 7)))%6 != 0 {
			s = &gen.Val{IsOpt: true, Some: leafVal(parquet.ByteArrayValue([]byte(fmt.Sprintf("val-%05d", t))))}
		}
		u := make([]byte, 6)
		binary.BigEndian.PutUint32(u[2:], uint32(t))
		d := &gen.Val{IsOpt: true, Null: true}
		if (i+int(posMod(cs.Gen.Seed, 5)))%5 != 0 {
			d = &gen.Val{IsOpt: true, Some: leafVal(parquet.DoubleValue(float64(t) / 2))}
		}
		l := &gen.Val{IsRpt: true}
		for j := 0; j < i%3; j++ {
			l.List = append(l.List, leafVal(parquet.Int64Value(int64(t+j))))
		}
		rows = append(rows, gen.Shred(root, &gen.Val{Group: []*gen.Val{
			leafVal(parquet.Int64Value(int64(i))), s, leafVal(parquet.Int32Value(int32(t * 7))), leafVal(parquet.FixedLenByteArrayValue(u)), d, l,
		}}))
	}
	return rows
}

// ---- shape geo ----

func geoRoot() *gen.Node {
	return &gen.Node{Name: "root", Fields: []*gen.Node{
		{Name: "a_id", Rep: gen.Req, Leaf: "int64"},
		{Name: "b_g", Rep: gen.Opt, Leaf: "bytes", Logical: "geometry"},
		{Name: "c_h", Rep: gen.Req, Leaf: "bytes", Logical: "geography"},
		{Name: "d_p", Rep: gen.Rpt, Leaf: "bytes", Logical: "geometry"},
	}}
}

func wkbHeader(b []byte, typ uint32) []byte {
	b = append(b, 1)
	return binary.LittleEndian.AppendUint32(b, typ)
}

func wkbCoord(b []byte, rng *rand.Rand, dims int) []byte {
	for d := 0; d < dims; d++ {
		b = binary.LittleEndian.AppendUint64(b, math.Float64bits(float64(rng.Intn(720)-360)/4))
	}
	return b
}

// wkbGeom: one geometry in ISO WKB, little endian.
func wkbGeom(rng *rand.Rand) []byte {
	layout := rng.Intn(4) // XY, XYZ, XYM, XYZM
	dims := []int{2, 3, 3, 4}[layout]
	code := []uint32{0, 1000, 2000, 3000}[layout]
	var b []byte
	switch rng.Intn(6) {
	case 0, 1:
		b = wkbCoord(wkbHeader(b, code+1), rng, dims)
	case 2:
		np := rng.Intn(5) // 0: an empty line string
		b = binary.LittleEndian.AppendUint32(wkbHeader(b, code+2), uint32(np))
		for i := 0; i < np; i++ {
			b = wkbCoord(b, rng, dims)
		}
	case 3:
		b = binary.LittleEndian.AppendUint32(wkbHeader(b, code+3), 1)
		b = binary.LittleEndian.AppendUint32(b, 4)
		first := wkbCoord(nil, rng, dims)
		b = append(b, first...)
		b = wkbCoord(b, rng, dims)
		b = wkbCoord(b, rng, dims)
		b = append(b, first...)
	case 4:
		np := 1 + rng.Intn(3)
		b = binary.LittleEndian.AppendUint32(wkbHeader(b, code+4), uint32(np))
		for i := 0; i < np; i++ {
			b = wkbCoord(wkbHeader(b, code+1), rng, dims)
		}
	default:
		// the empty point: NaN coordinates
		b = wkbHeader(b, code+1)
		for d := 0; d < dims; d++ {
			b = binary.LittleEndian.AppendUint64(b, math.Float64bits(math.NaN()))
		}
	}
	return b
}

func geoRows(cs c11Case) []parquet.Row {
	root := geoRoot()
	rng := rand.New(rand.NewSource(cs.Gen.Seed ^ 0x6e0))
	bad := posMod(cs.Gen.Seed, 7) == 0 // some values are not WKB: the statistics of their chunks are suppressed
	val := func(i int) *gen.Val {
		b := wkbGeom(rng)
		if bad && i%11 == 5 {
			b = []byte{1, 2, 3}
		}
		return leafVal(parquet.ByteArrayValue(b))
	}
	var rows []parquet.Row
	for i := 0; i < cs.Gen.NRows; i++ {
		g := &gen.Val{IsOpt: true, Null: true}
		if rng.Intn(10) >= cs.Gen.NullBias {
			g = &gen.Val{IsOpt: true, Some: val(i)}
		}
		h := val(i + 3)
		p := &gen.Val{IsRpt: true}
		for j := rng.Intn(4); j > 0; j-- {
			p.List = append(p.List, val(i+7))
		}
		rows = append(rows, gen.Shred(root, &gen.Val{Group: []*gen.Val{leafVal(parquet.Int64Value(int64(i))), g, h, p}}))
	}
	return rows
}

// geoStatsText renders the geospatial statistics of a column chunk (NaN-safe).
func geoStatsText(s format.GeospatialStatistics) string {
	if len(s.GeoSpatialTypes) == 0 && s.BBox == (format.BoundingBox{}) {
		return "none"
	}
	opt := func(v interface{}) string { return fmt.Sprintf("%v", v) }
	bb := s.BBox
	return fmt.Sprintf("types=%v x=[%x,%x] y=[%x,%x] z=[%s,%s] m=[%s,%s]", []int32(s.GeoSpatialTypes),
		math.Float64bits(bb.XMin), math.Float64bits(bb.XMax), math.Float64bits(bb.YMin), math.Float64bits(bb.YMax),
		opt(bb.ZMin), opt(bb.ZMax), opt(bb.MMin), opt(bb.MMax))
}

// ---- shape edge ----

func edgeRoot() *gen.Node {
	return &gen.Node{Name: "root", Fields: []*gen.Node{
		{Name: "a_id", Rep: gen.Req, Leaf: "int64"},
		{Name: "b_s", Rep: gen.Opt, Leaf: "string"},
		{Name: "c_b", Rep: gen.Req, Leaf: "bytes"},
		{Name: "d_f", Rep: gen.Opt, Leaf: "float"},
		{Name: "e_d", Rep: gen.Req, Leaf: "double"},
		{Name: "f_l", Rep: gen.Rpt, Leaf: "string"},
		{Name: "g_n", Rep: gen.Opt, Leaf: "int32"},
		{Name: "h_u", Rep: gen.Req, Leaf: "flba", Size: 3},
	}}
}

// edgeRows: the seed selects, column by column, whether every value sits at
// the edge (both bounds there) or only some do (one bound there).
func edgeRows(cs c11Case) []parquet.Row {
	root := edgeRoot()
	rng := rand.New(rand.NewSource(cs.Gen.Seed ^ 0xed6e))
	all := func(k int) bool { return posMod(cs.Gen.Seed>>uint(k), 2) == 0 } // column k holds edge values only
	str := func(k int) []byte {
		if all(k) || rng.Intn(4) == 0 {
			return []byte{}
		}
		return []byte(fmt.Sprintf("s%02d", rng.Intn(40)))
	}
	f32 := []uint32{0x7fc00000, 0xffc00000, 0x7fc00001, 0x80000000, 0, 0x7f800000, 0xff800000}
	f64 := []uint64{0x7ff8000000000000, 0xfff8000000000000, 0x7ff8000000000001, 0x8000000000000000, 0, 0x7ff0000000000000, 0xfff0000000000000}
	var rows []parquet.Row
	for i := 0; i < cs.Gen.NRows; i++ {
		s := &gen.Val{IsOpt: true, Null: true}
		if rng.Intn(10) >= cs.Gen.NullBias {
			s = &gen.Val{IsOpt: true, Some: leafVal(parquet.ByteArrayValue(str(1)))}
		}
		f := &gen.Val{IsOpt: true, Null: true}
		if rng.Intn(10) >= cs.Gen.NullBias {
			switch {
			case all(3):
				// NaNs only, or zeros of both signs only
				pick := f32[:3]
				if posMod(cs.Gen.Seed>>8, 2) == 0 {
					pick = f32[3:5]
				}
				f = &gen.Val{IsOpt: true, Some: leafVal(parquet.FloatValue(math.Float32frombits(pick[rng.Intn(len(pick))])))}
			case rng.Intn(3) == 0:
				f = &gen.Val{IsOpt: true, Some: leafVal(parquet.FloatValue(math.Float32frombits(f32[rng.Intn(len(f32))])))}
			default:
				f = &gen.Val{IsOpt: true, Some: leafVal(parquet.FloatValue(float32(rng.Intn(9)-4) / 2))}
			}
		}
		var d parquet.Value
		switch {
		case all(4):
			pick := f64[3:5]
			if posMod(cs.Gen.Seed>>9, 2) == 0 {
				pick = f64[:3]
			}
			d = parquet.DoubleValue(math.Float64frombits(pick[rng.Intn(len(pick))]))
		case rng.Intn(3) == 0:
			d = parquet.DoubleValue(math.Float64frombits(f64[rng.Intn(len(f64))]))
		default:
			d = parquet.DoubleValue(float64(rng.Intn(9)-4) / 2)
		}
		l := &gen.Val{IsRpt: true}
		for j := rng.Intn(4); j > 0; j-- {
			l.List = append(l.List, leafVal(parquet.ByteArrayValue(str(5))))
		}
		u := []byte{0, 0, 0}
		if !all(7) {
			u = [][]byte{{0, 0, 0}, {0xff, 0xff, 0xff}, {0, 0xff, 0}, {0x80, 0, 0}}[rng.Intn(4)]
		}
		rows = append(rows, gen.Shred(root, &gen.Val{Group: []*gen.Val{
			leafVal(parquet.Int64Value(int64(i))), s, leafVal(parquet.ByteArrayValue(str(2))), f, leafVal(d), l,
			{IsOpt: true, Null: true}, leafVal(parquet.FixedLenByteArrayValue(u)),
		}}))
	}
	return rows
}
