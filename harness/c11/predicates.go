package main

// Predicates on the bytes of the written file that compare the fast paths with
// the row path beyond the footer: the bloom filter of every column chunk
// (header and bit set), the encoding of every data page against the
// destination's DictionaryMaxBytes.

import (
	"bytes"
	"errors"
	"fmt"
	"io"
	"os"
	"reflect"
	"strings"

	"github.com/parquet-go/parquet-go"
	"github.com/parquet-go/parquet-go/encoding/thrift"
	"github.com/parquet-go/parquet-go/format"
)

// bloomRaw returns a rendering of the bloom filter header of a column chunk
// and the bit set that follows it.
func bloomRaw(data []byte, m *format.ColumnMetaData) (string, []byte, error) {
	off := m.BloomFilterOffset
	if off <= 0 || off >= int64(len(data)) {
		return "", nil, fmt.Errorf("bloom filter offset %d outside the file (%d bytes)", off, len(data))
	}
	var h format.BloomFilterHeader
	r := bytes.NewReader(data[off:])
	p := thrift.CompactProtocol{}
	if err := thrift.NewDecoder(p.NewReader(r)).Decode(&h); err != nil {
		return "", nil, fmt.Errorf("bloom filter header at %d: %v", off, err)
	}
	start := int64(len(data)) - int64(r.Len())
	end := start + int64(h.NumBytes)
	if h.NumBytes < 0 || end > int64(len(data)) {
		return "", nil, fmt.Errorf("bloom filter of %d bytes at %d exceeds the file", h.NumBytes, start)
	}
	_, sb := h.Algorithm.Value.(*format.SplitBlockAlgorithm)
	_, xx := h.Hash.Value.(*format.XxHash)
	_, un := h.Compression.Value.(*format.BloomFilterUncompressed)
	return fmt.Sprintf("bytes=%d split-block=%v xxhash=%v uncompressed=%v", h.NumBytes, sb, xx, un), data[start:end], nil
}

// dataPageEncodings walks the page headers of a column chunk and returns the
// encoding of each data page.
func dataPageEncodings(data []byte, m *format.ColumnMetaData) ([]format.Encoding, error) {
	start := m.DataPageOffset
	if m.DictionaryPageOffset != 0 && m.DictionaryPageOffset < start {
		start = m.DictionaryPageOffset
	}
	end := start + m.TotalCompressedSize
	var encs []format.Encoding
	for off := start; off < end; {
		h, hl, err := pageHeaderAt(data, off)
		if err != nil {
			return encs, fmt.Errorf("page header at %d: %v", off, err)
		}
		switch h.Type {
		case format.DataPage:
			encs = append(encs, h.DataPageHeader.V.Encoding)
		case format.DataPageV2:
			encs = append(encs, h.DataPageHeaderV2.V.Encoding)
		}
		if h.CompressedPageSize < 0 {
			return encs, fmt.Errorf("page header at %d: compressed size %d", off, h.CompressedPageSize)
		}
		off += int64(hl) + int64(h.CompressedPageSize)
	}
	return encs, nil
}

// dictLimitVerdict decides whether the data pages of a dictionary-encoded
// column chunk are what a writer limited to maxBytes of dictionary produces for
// the chunk's own page boundaries (ColumnWriter.Flush): the size of the
// dictionary is compared with the limit when a page is flushed, the page itself
// is still written with dictionary indexes and the pages after it are PLAIN.
// So page 0 is dictionary-encoded and page j+1 is PLAIN exactly when the
// distinct values of pages 0..j take more than maxBytes (never when maxBytes
// is 0).  The size is that of the library's own Dictionary (Size()).  Returns
// "" when the chunk conforms, else the class of the failure and its description.
func dictLimitVerdict(data []byte, m *format.ColumnMetaData, chunk parquet.ColumnChunk, maxBytes int64) (string, string) {
	encs, err := dataPageEncodings(data, m)
	if err != nil {
		return "pages-unreadable", "the pages cannot be walked: " + err.Error()
	}
	plainSeen := false
	for _, e := range encs {
		plainSeen = plainSeen || e == format.Plain
	}
	if maxBytes <= 0 {
		if plainSeen {
			return "plain-pages-within-dictionary-limit", fmt.Sprintf("PLAIN data pages (page encodings %v) although the destination sets no DictionaryMaxBytes", encs)
		}
		return "", ""
	}
	typ := chunk.Type()
	dict := typ.NewDictionary(0, 0, typ.NewValues(make([]byte, 0, 64), nil))
	pages := chunk.Pages()
	defer pages.Close()
	var sizes []int64
	for j := 0; ; j++ {
		p, err := pages.ReadPage()
		if err != nil {
			if !errors.Is(err, io.EOF) {
				return "pages-unreadable", "the pages cannot be read: " + err.Error()
			}
			break
		}
		vals := make([]parquet.Value, p.NumValues())
		n, _ := p.Values().ReadValues(vals)
		var nonNull []parquet.Value
		for _, v := range vals[:n] {
			if !v.IsNull() {
				nonNull = append(nonNull, v)
			}
		}
		parquet.Release(p)
		if len(nonNull) > 0 {
			dict.Insert(make([]int32, len(nonNull)), nonNull)
		}
		sizes = append(sizes, dict.Size())
	}
	if len(sizes) != len(encs) {
		return "pages-unreadable", fmt.Sprintf("%d data page headers, %d pages read", len(encs), len(sizes))
	}
	for j, e := range encs {
		wantPlain := j > 0 && sizes[j-1] > maxBytes
		switch {
		case wantPlain && e != format.Plain:
			return "dictionary-limit-exceeded", fmt.Sprintf("data page %d is %v although the distinct values of pages 0..%d take %d bytes of dictionary, more than DictionaryMaxBytes=%d (page encodings %v, dictionary bytes after each page %v)", j, e, j-1, sizes[j-1], maxBytes, encs, sizes)
		case !wantPlain && e == format.Plain:
			prev := int64(0)
			if j > 0 {
				prev = sizes[j-1]
			}
			return "plain-pages-within-dictionary-limit", fmt.Sprintf("data page %d is PLAIN although the distinct values of the pages before it take %d bytes of dictionary, within DictionaryMaxBytes=%d (page encodings %v, dictionary bytes after each page %v)", j, prev, maxBytes, encs, sizes)
		}
	}
	return "", ""
}

// statsText renders the statistics of a column chunk: which of the optional
// bounds are set (nil: the field is absent from the footer; an empty bound is
// set) and their bytes, the counts.  Bounds are compared as values of the
// column's order: a FLOAT / DOUBLE bound that is a zero is rendered without its
// sign (-0 and +0 compare equal, which of them a page reports as its minimum
// depends on where the page boundaries fall, and those may differ).
func statsText(s format.Statistics, typ int) string {
	b := func(v []byte) string {
		if v == nil {
			return "unset"
		}
		if os.Getenv("C11_RAWZERO") == "" && (typ == int(format.Float) && len(v) == 4 || typ == int(format.Double) && len(v) == 8) && v[len(v)-1]&0x7f == 0 {
			zero := true
			for _, x := range v[:len(v)-1] {
				zero = zero && x == 0
			}
			if zero {
				return "zero"
			}
		}
		return fmt.Sprintf("x%x", v)
	}
	return fmt.Sprintf("min_value=%s max_value=%s min=%s max=%s null_count=%d distinct_count=%d", b(s.MinValue), b(s.MaxValue), b(s.Min), b(s.Max), s.NullCount, s.DistinctCount)
}

// chunkCounts: for every column chunk of rg, whether its declared value count
// is exact (a row-range view of a repeated column cut inside a page only knows
// an upper bound: rangeColumnChunk.exact), the declared count and the number
// of values its pages deliver, as "e.declared.delivered" (hex).
func chunkCounts(rg parquet.RowGroup) []string {
	var out []string
	for _, ch := range rg.ColumnChunks() {
		exact := true
		if fmt.Sprintf("%T", ch) == "*parquet.rangeColumnChunk" {
			exact = field(reflect.ValueOf(ch).Elem(), "exact").Bool()
		}
		delivered := int64(0)
		pages := ch.Pages()
		for {
			p, err := pages.ReadPage()
			if err != nil {
				break
			}
			delivered += p.NumValues()
			parquet.Release(p)
		}
		pages.Close()
		out = append(out, fmt.Sprintf("%s.%x.%x", b01(exact), ch.NumValues(), delivered))
	}
	return out
}

// sortingNotTrue evaluates the sorting_columns a row group of the output
// records on the rows it holds: "" when consecutive rows are in the recorded
// lexicographic order (direction and placement of nulls of every recorded
// column), else a description of the first pair of rows that is not.  A
// recorded column that is no column of the schema, or a repeated one, is
// itself a false record.
func sortingNotTrue(schema *parquet.Schema, recorded []format.SortingColumn, rows []parquet.Row) string {
	if len(recorded) == 0 {
		return ""
	}
	paths := schema.Columns()
	type col struct {
		idx  int
		typ  parquet.Type
		desc bool
		nf   bool
	}
	var cols []col
	var names []string
	for _, sc := range recorded {
		ci := int(sc.ColumnIdx)
		if ci < 0 || ci >= len(paths) {
			return fmt.Sprintf("recorded sorting column index %d is no column of the schema (%d columns)", ci, len(paths))
		}
		leaf, ok := schema.Lookup(paths[ci]...)
		if !ok {
			return fmt.Sprintf("recorded sorting column %v cannot be looked up", paths[ci])
		}
		if leaf.MaxRepetitionLevel > 0 {
			return fmt.Sprintf("recorded sorting column %v is repeated", paths[ci])
		}
		cols = append(cols, col{ci, leaf.Node.Type(), sc.Descending, sc.NullsFirst})
		dir := "ascending"
		if sc.Descending {
			dir = "descending"
		}
		names = append(names, fmt.Sprintf("%s(%s)", dir, strings.Join(paths[ci], ".")))
	}
	valueOf := func(r parquet.Row, ci int) (parquet.Value, bool) {
		for _, v := range r {
			if v.Column() == ci {
				return v, true
			}
		}
		return parquet.Value{}, false
	}
	for i := 1; i < len(rows); i++ {
		for _, sc := range cols {
			a, oka := valueOf(rows[i-1], sc.idx)
			b, okb := valueOf(rows[i], sc.idx)
			if !oka || !okb {
				break
			}
			cmp := 0
			switch {
			case a.IsNull() && b.IsNull():
			case a.IsNull():
				cmp = 1
				if sc.nf {
					cmp = -1
				}
			case b.IsNull():
				cmp = -1
				if sc.nf {
					cmp = 1
				}
			default:
				cmp = sc.typ.Compare(a, b)
				if sc.desc {
					cmp = -cmp
				}
			}
			if cmp < 0 {
				break
			}
			if cmp > 0 {
				return fmt.Sprintf("records sorting columns [%s]; row %d holds %v in column %d, the row before it %v", strings.Join(names, ", "), i, b, sc.idx, a)
			}
		}
	}
	return ""
}
