package main

// C11: Writer.WriteRowGroup — verbatim copy, column-wise re-encode, packed
// segments and the row path — is indistinguishable from writing the same rows
// one by one.
//
// For each case a source row group (file-backed, buffers, MultiRowGroup — also
// over members that compute their rows, nested, with a member without rows —,
// MergeRowGroups of disjoint / overlapping / partially overlapping sorted
// inputs (range views, alone and next to whole row groups), of concatenations,
// deduplicating merges, ConvertRowGroup, a foreign RowGroup implementation, a
// type embedding a row group of the library and replacing its Rows()) is
// written with w.WriteRowGroup into a destination
// writer whose options equal the source's or differ in one attribute, and the
// rows src.Rows() delivers are written one by one into a reference writer with
// the same options.  Predicates: both files read back to exactly those rows,
// in order; the destination's settings are honoured in the output (codec,
// page version, encodings, dictionary, page index, statistics, bloom filter,
// MaxRowsPerRowGroup); the offset index of the output points at page headers;
// wrapper semantics are observed; chunk by chunk the statistics (which bounds
// are set — an empty bound is set —, their bytes, the counts), the bloom filter
// (header and bits) and the geospatial statistics equal the reference's — when
// the output's row groups are not those of the reference, those of a second
// reference flushed where the output ends its row groups; every data page
// of a dictionary column is PLAIN exactly when the dictionary of the pages
// before it exceeds the destination's DictionaryMaxBytes (predicates.go);
// rows still buffered in the writer when WriteRowGroup is called end up in row
// groups of their own; a call that fails while the copy is staged or while the
// values are written column by column leaves no trace in the file (fault.go).  Shapes with dictionary fallbacks and
// geospatial columns: shapes.go.  Correspondence: the path taken (hook
// counters, output row groups) equals the plan of the Coq model
// (CopyPath/Decision.v) for the attribute vector derived from the source's
// metadata and the destination's options; the pages of a destination flushing
// after every WriteRowValues call equal the model's batches
// (CopyPath/Batches.v); the offset index of copied chunks equals the model's
// re-based locations (CopyPath/Splice.v); the bloom filters of row groups
// written column-wise have the size of the model's sizing rule for the declared
// (exact / upper bound) and delivered value counts of the source chunks
// (CopyPath/Filters.v).  The destination's BloomFilterCompression is part of the
// options (dst kinds bloomcodec*): the model's c_dst_bloom_codec; the header of
// every output filter is compressed exactly when configured so.  When the
// destination declares no order of its own, the sorting_columns each output
// row group records (taken from the row group given to WriteRowGroup) must be
// true of the rows it holds (predicates.go sortingNotTrue).

import (
	"bytes"
	"encoding/json"
	"errors"
	"fmt"
	"io"
	"math"
	"os"
	"reflect"
	"sort"
	"strconv"
	"strings"
	"time"
	"unsafe"

	"github.com/parquet-go/parquet-go"
	"github.com/parquet-go/parquet-go/compress"
	"github.com/parquet-go/parquet-go/encoding/thrift"
	"github.com/parquet-go/parquet-go/format"

	"verif/harness/core"
	"verif/harness/gen"
)

func main() { core.Main("C11", run, replay) }

// ---- cases ----

type c11Case struct {
	Gen    gen.Case `json:"gen"`
	Shape  string   `json:"shape"`            // "" (generated schema) | "sorted" | "repeated" | "dict" | "geo" | "edge"
	Src    string   `json:"src"`              // see sources
	Dst    string   `json:"dst"`              // see dstFor
	Switch string   `json:"switch,omitempty"` // "" | nocopy | noreencode | none
	Parts  int      `json:"parts,omitempty"`  // number of inputs of multi / merge sources
	RowLen int      `json:"row_len,omitempty"` // shape repeated: typical number of values of a row
	// Pending rows are written with WriteRows and still buffered when WriteRowGroup is called
	// (they are the first rows the source delivers, written a second time)
	Pending int `json:"pending,omitempty"`
	// SrcBloom: "" = the source has bloom filters when its generated options say so, "on" / "off" = it has / has not
	SrcBloom string `json:"src_bloom,omitempty"`
	Card     int    `json:"card,omitempty"` // shape dict: number of distinct values of each column
	Fault   int `json:"fault,omitempty"` // fault scenario: 1 + the column whose page index cannot be read
	FaultOI bool `json:"fault_oi,omitempty"` // the offset index (else the column index) is unreadable
	After   string `json:"after,omitempty"` // fault scenario: what is written after the failed call: rows | rowgroup
	FaultAt string `json:"fault_at,omitempty"` // fault scenario: "" the page index of the column (copy being staged) | "pages" its pages (column-wise write) | "pack" (column-wise packing of two segments)
}

var srcKinds = []string{"file", "buffer", "genericbuffer", "multi", "multi-mixed", "multi-wrapped", "convert-add", "convert-first", "convert-drop", "foreign", "foreign-plain", "foreign-embed"}
var sortedSrcKinds = []string{"file", "merge-disjoint", "merge-overlap", "merge-dedup", "dedup", "merge-nosort", "merge-multi", "multi", "multi-wrapped", "foreign",
	"convert-dropkey", "convert-dropsecond", "convert-sorted-add", "convert-sorted-buffer"}
var dstKinds = []string{"same", "codec", "nocodec", "version", "encoding", "colenc", "dictmax", "dictmore", "dictless", "stats", "bloom", "bloomsize", "bloomoff", "bloomcodec", "bloomcodec-snappy", "maxrows", "sorting", "encrypt", "pagebuf", "indexlimit"}

// dstOpts: the writer options of a destination (or source) file.
type dstOpts struct {
	gen.Options
	BloomBits int  `json:"bloom_bits"`
	Sorting   bool `json:"sorting"`
	Encrypt   bool `json:"encrypt"`
	ColEnc    bool `json:"col_enc"` // the first leaf gets another encoding in the schema
	// BloomCodec: BloomFilterCompression of the writer ("" = not set: filters are stored uncompressed)
	BloomCodec string `json:"bloom_codec,omitempty"`
	// Sort2: a second sorting column (top-level leaf, ascending) declared after the sort key
	Sort2 string `json:"sort2,omitempty"`
}

// bloomCodecs: the compression of bloom filters a writer may be configured
// with, and the thrift code the model knows it by.
var bloomCodecs = map[string]struct {
	codec compress.Codec
	code  int
}{"snappy": {&parquet.Snappy, 1}, "gzip": {&parquet.Gzip, 2}, "zstd": {&parquet.Zstd, 6}}

var footerKey = []byte("0123456789abcdef")

type keys struct{}

func (keys) FooterKey([]byte) ([]byte, error)           { return footerKey, nil }
func (keys) ColumnKey([]string, []byte) ([]byte, error) { return footerKey, nil }

func leafPaths(n *gen.Node, prefix []string) [][]string {
	if n.Leaf != "" {
		return [][]string{append(append([]string(nil), prefix...), n.Name)}
	}
	var out [][]string
	p := prefix
	if n.Name != "root" {
		p = append(append([]string(nil), prefix...), n.Name)
	}
	for _, f := range n.Fields {
		out = append(out, leafPaths(f, p)...)
	}
	return out
}

func (o dstOpts) writerOptions(root *gen.Node, sortKey []string) []parquet.WriterOption {
	g := o.Options
	g.Bloom = false
	opts := g.WriterOptions(root)
	if o.BloomBits > 0 {
		var filters []parquet.BloomFilterColumn
		for _, p := range leafPaths(root, nil) {
			filters = append(filters, parquet.SplitBlockFilter(uint(o.BloomBits), p...))
		}
		opts = append(opts, parquet.BloomFilters(filters...))
	}
	if bc, ok := bloomCodecs[o.BloomCodec]; ok {
		opts = append(opts, parquet.BloomFilterCompression(bc.codec))
	}
	if o.Sorting && len(sortKey) > 0 {
		cols := []parquet.SortingColumn{parquet.Ascending(sortKey...)}
		if o.Sort2 != "" {
			cols = append(cols, parquet.Ascending(o.Sort2))
		}
		opts = append(opts, parquet.SortingWriterConfig(parquet.SortingColumns(cols...)))
	}
	if o.Encrypt {
		opts = append(opts, parquet.WithEncryption(&parquet.EncryptionConfig{FooterKey: footerKey, EncryptedFooter: true}))
	}
	return opts
}

var otherEnc = map[string][]string{
	"bool": {"plain", "rle"}, "int32": {"plain", "delta"}, "int64": {"plain", "delta"}, "uint32": {"plain", "delta"}, "uint64": {"plain", "delta"},
	"date": {"plain", "delta"}, "ts": {"plain", "delta"}, "int96": {"plain", "dict"}, "float": {"plain", "split"}, "double": {"plain", "split"},
	"bytes": {"plain", "dba"}, "string": {"plain", "dba"}, "flba": {"plain", "dba"}, "uuid": {"plain", "dict"},
}

// cloneRoot copies the schema tree; with colEnc the first leaf's encoding is
// replaced by another one (EqualNodes ignores encodings, so the schemas stay equal).
func cloneRoot(n *gen.Node, colEnc bool) *gen.Node {
	done := !colEnc
	var rec func(n *gen.Node) *gen.Node
	rec = func(n *gen.Node) *gen.Node {
		m := *n
		m.Fields = nil
		for _, f := range n.Fields {
			m.Fields = append(m.Fields, rec(f))
		}
		if m.Leaf != "" && !done {
			done = true
			alt := otherEnc[m.Leaf]
			if m.Encoding == alt[1] {
				m.Encoding = alt[0]
			} else {
				m.Encoding = alt[1]
			}
		}
		return &m
	}
	return rec(n)
}

func dstFor(kind string, src dstOpts, maxSrcRows int64) dstOpts {
	d := src
	switch kind {
	case "same":
	case "codec":
		if d.Codec == "snappy" {
			d.Codec = "gzip"
		} else {
			d.Codec = "snappy"
		}
	case "nocodec":
		// a compressed source into an uncompressed destination (and the reverse)
		if d.Codec == "none" || d.Codec == "" {
			d.Codec = "zstd"
		} else {
			d.Codec = "none"
		}
	case "regress":
		// the configuration the defect repaired by bdd71f3 was found with: another codec, 1 KiB pages
		if d.Codec == "snappy" {
			d.Codec = "gzip"
		} else {
			d.Codec = "snappy"
		}
		d.PageBuffer = 1024
	case "version":
		d.PageVersion = 3 - d.PageVersion
	case "encoding":
		if d.DefaultEnc == "dict" {
			d.DefaultEnc = "plain"
		} else {
			d.DefaultEnc = "dict"
		}
	case "colenc":
		d.ColEnc = !d.ColEnc
	case "dictmax":
		if d.DictMaxBytes > 0 {
			d.DictMaxBytes = 0
		} else {
			d.DictMaxBytes = 48
		}
	case "dictmore":
		// a larger limit than the source's (or a limit no dictionary of a case reaches)
		if d.DictMaxBytes > 0 {
			d.DictMaxBytes = d.DictMaxBytes*8 + 100
		} else {
			d.DictMaxBytes = 1 << 20
		}
	case "dictless":
		if d.DictMaxBytes == 0 || d.DictMaxBytes > 40 {
			d.DictMaxBytes = 20
		} else {
			d.DictMaxBytes = 9
		}
	case "stats":
		d.PageStats = !d.PageStats
	case "bloom":
		if d.BloomBits == 0 {
			d.BloomBits = 10
		} else {
			d.BloomBits = 0
		}
	case "bloomoff":
		d.BloomBits = 0
	case "bloomsize":
		if d.BloomBits == 16 {
			d.BloomBits = 10
		} else {
			d.BloomBits = 16
		}
	case "bloomcodec", "bloomcodec-snappy":
		// the filters of the destination are stored compressed (those of the source are not, and
		// the reverse); the pages keep the codec of the source
		if d.BloomBits == 0 {
			d.BloomBits = 10
		}
		if d.BloomCodec != "" {
			d.BloomCodec = ""
		} else if kind == "bloomcodec" {
			d.BloomCodec = "gzip"
		} else {
			d.BloomCodec = "snappy"
		}
	case "maxrows":
		d.MaxRows = maxSrcRows/2 + 1
		if maxSrcRows <= 1 {
			d.MaxRows = 1
		}
	case "sorting":
		d.Sorting = !d.Sorting
	case "encrypt":
		d.Encrypt = !d.Encrypt
	case "pagebuf":
		if d.PageBuffer == 256 {
			d.PageBuffer = 4096
		} else {
			d.PageBuffer = 256
		}
	case "indexlimit":
		if d.IndexSizeLim == 0 {
			d.IndexSizeLim = 3
		} else {
			d.IndexSizeLim = 0
		}
	default:
		panic("dst kind " + kind)
	}
	return d
}

// ---- shapes with fixed schemas ----

func sortedRoot() *gen.Node {
	return &gen.Node{Name: "root", Fields: []*gen.Node{
		{Name: "k", Rep: gen.Req, Leaf: "int64"},
		{Name: "l", Rep: gen.Rpt, Leaf: "int32"},
		{Name: "v", Rep: gen.Opt, Leaf: "string"},
	}}
}

func repeatedRoot() *gen.Node {
	return &gen.Node{Name: "root", Fields: []*gen.Node{
		{Name: "id", Rep: gen.Req, Leaf: "int64"},
		{Name: "l", Rep: gen.Rpt, Leaf: "int32"},
	}}
}

func leafVal(v parquet.Value) *gen.Val { return &gen.Val{Leaf: &v} }

func sortedRow(k int64, seed int64) *gen.Val {
	l := &gen.Val{IsRpt: true}
	for i := int64(0); i < (k+seed)%4; i++ {
		l.List = append(l.List, leafVal(parquet.Int32Value(int32(k*10+i))))
	}
	v := &gen.Val{IsOpt: true, Null: true}
	if (k+seed)%3 != 0 {
		v = &gen.Val{IsOpt: true, Some: leafVal(parquet.ByteArrayValue([]byte(fmt.Sprintf("v%04d", (k*7+seed)%50))))}
	}
	return &gen.Val{Group: []*gen.Val{leafVal(parquet.Int64Value(k)), l, v}}
}

// ---- a foreign implementation of parquet.RowGroup ----

// foreignRG wraps a row group: its ColumnChunks are the inner chunks, its
// Rows() delivers the inner rows in reverse order (or unchanged).
type foreignRG struct {
	inner   parquet.RowGroup
	reverse bool
}

func (f *foreignRG) NumRows() int64                          { return f.inner.NumRows() }
func (f *foreignRG) ColumnChunks() []parquet.ColumnChunk     { return f.inner.ColumnChunks() }
func (f *foreignRG) Schema() *parquet.Schema                 { return f.inner.Schema() }
func (f *foreignRG) SortingColumns() []parquet.SortingColumn { return nil }
func (f *foreignRG) Rows() parquet.Rows {
	rows, err := readAll(f.inner.Rows())
	if f.reverse {
		for i, j := 0, len(rows)-1; i < j; i, j = i+1, j-1 {
			rows[i], rows[j] = rows[j], rows[i]
		}
	}
	return &sliceRows{rows: rows, schema: f.inner.Schema(), err: err}
}

// Types that embed a row group of the library and replace its Rows(): the
// embedded value's methods (the unexported marker of the chunk-level fast paths
// included) are promoted, the rows are not those of the column chunks.
type embedBuffer struct{ *parquet.Buffer }
type embedGeneric struct{ *parquet.GenericBuffer[any] }
type embedFile struct{ *parquet.FileRowGroup }

func reversedRows(inner parquet.Rows, schema *parquet.Schema) parquet.Rows {
	rows, err := readAll(inner)
	for i, j := 0, len(rows)-1; i < j; i, j = i+1, j-1 {
		rows[i], rows[j] = rows[j], rows[i]
	}
	return &sliceRows{rows: rows, schema: schema, err: err}
}

func (e *embedBuffer) Rows() parquet.Rows  { return reversedRows(e.Buffer.Rows(), e.Buffer.Schema()) }
func (e *embedGeneric) Rows() parquet.Rows { return reversedRows(e.GenericBuffer.Rows(), e.GenericBuffer.Schema()) }
func (e *embedFile) Rows() parquet.Rows    { return reversedRows(e.FileRowGroup.Rows(), e.FileRowGroup.Schema()) }

// embedded wraps rg (a *Buffer, *GenericBuffer[any] or *FileRowGroup) in the embedding type.
func embedded(rg parquet.RowGroup) parquet.RowGroup {
	switch r := rg.(type) {
	case *parquet.Buffer:
		return &embedBuffer{r}
	case *parquet.GenericBuffer[any]:
		return &embedGeneric{r}
	case *parquet.FileRowGroup:
		return &embedFile{r}
	}
	return &foreignRG{inner: rg, reverse: true}
}

// innerOf: the row group a foreign wrapper of the harness wraps
func innerOf(rg parquet.RowGroup) parquet.RowGroup {
	switch r := rg.(type) {
	case *foreignRG:
		return r.inner
	case *embedBuffer:
		return r.Buffer
	case *embedGeneric:
		return r.GenericBuffer
	case *embedFile:
		return r.FileRowGroup
	}
	return rg
}

type sliceRows struct {
	rows   []parquet.Row
	pos    int
	schema *parquet.Schema
	err    error
}

func (s *sliceRows) ReadRows(rows []parquet.Row) (int, error) {
	if s.err != nil {
		return 0, s.err
	}
	n := 0
	for n < len(rows) && s.pos < len(s.rows) {
		rows[n] = append(rows[n][:0], s.rows[s.pos]...)
		n++
		s.pos++
	}
	if s.pos >= len(s.rows) {
		return n, io.EOF
	}
	return n, nil
}
func (s *sliceRows) SeekToRow(i int64) error  { s.pos = int(i); return nil }
func (s *sliceRows) Close() error             { return nil }
func (s *sliceRows) Schema() *parquet.Schema { return s.schema }

// ---- helpers ----

func readAll(rows parquet.Rows) ([]parquet.Row, error) {
	defer rows.Close()
	var out []parquet.Row
	buf := make([]parquet.Row, 37)
	for {
		n, err := rows.ReadRows(buf)
		for _, r := range buf[:n] {
			out = append(out, r.Clone())
		}
		if err != nil {
			if errors.Is(err, io.EOF) {
				return out, nil
			}
			return out, err
		}
		if n == 0 {
			return out, fmt.Errorf("ReadRows returned 0 rows and no error")
		}
	}
}

// a file kept with what is needed to derive the attributes of its row groups
type srcFile struct {
	data []byte
	file *parquet.File
	opts dstOpts
}

type fileRG struct {
	sf    *srcFile
	index int
}

func openFile(data []byte, encrypted bool) (*parquet.File, error) {
	if encrypted {
		return parquet.OpenFile(bytes.NewReader(data), int64(len(data)), parquet.WithDecryption(keys{}))
	}
	return parquet.OpenFile(bytes.NewReader(data), int64(len(data)))
}

// what a case is built from
type built struct {
	root     *gen.Node // schema of the destination
	srcRoot  *gen.Node
	rows     []parquet.Row
	srcOpts  dstOpts
	sortKey  []string
	registry map[parquet.RowGroup]fileRG
	mk       func() ([]parquet.RowGroup, error) // fresh source row groups, written in this order
	wantKind string                             // expected model kind of the (single) top-level source, "" = any
	maxRows  int64                              // largest source row group
}

func writeRows(root *gen.Node, o dstOpts, sortKey []string, rows []parquet.Row, history []int) ([]byte, error) {
	var buf bytes.Buffer
	schema := schemaOf(cloneRoot(root, o.ColEnc))
	w := parquet.NewGenericWriter[any](&buf, append([]parquet.WriterOption{schema}, o.writerOptions(root, sortKey)...)...)
	if history == nil {
		history = []int{len(rows)}
	}
	i := 0
	for _, h := range history {
		if h < 0 {
			if err := w.Flush(); err != nil {
				return nil, err
			}
			continue
		}
		for j := 0; j < h; j++ {
			if _, err := w.WriteRows([]parquet.Row{rows[i+j].Clone()}); err != nil {
				return nil, err
			}
		}
		i += h
	}
	if err := w.Close(); err != nil {
		return nil, err
	}
	return buf.Bytes(), nil
}

func (b *built) addFile(rows []parquet.Row, history []int) ([]parquet.RowGroup, error) {
	data, err := writeRows(b.srcRoot, b.srcOpts, b.sortKey, rows, history)
	if err != nil {
		return nil, fmt.Errorf("source write: %w", err)
	}
	f, err := openFile(data, b.srcOpts.Encrypt)
	if err != nil {
		return nil, fmt.Errorf("source open: %w", err)
	}
	sf := &srcFile{data: data, file: f, opts: b.srcOpts}
	rgs := f.RowGroups()
	for i, rg := range rgs {
		b.registry[rg] = fileRG{sf, i}
		if rg.NumRows() > b.maxRows {
			b.maxRows = rg.NumRows()
		}
	}
	return rgs, nil
}

func (b *built) buffer(rows []parquet.Row, generic bool) (parquet.RowGroup, error) {
	schema := schemaOf(b.srcRoot)
	cl := make([]parquet.Row, len(rows))
	for i := range rows {
		cl[i] = rows[i].Clone()
	}
	if int64(len(rows)) > b.maxRows {
		b.maxRows = int64(len(rows))
	}
	if generic {
		buf := parquet.NewGenericBuffer[any](schema)
		_, err := buf.WriteRows(cl)
		return buf, err
	}
	buf := parquet.NewBuffer(schema)
	_, err := buf.WriteRows(cl)
	return buf, err
}

func splitRows(rows []parquet.Row, parts int) [][]parquet.Row {
	if parts < 1 {
		parts = 1
	}
	var out [][]parquet.Row
	n := len(rows)
	for p := 0; p < parts; p++ {
		out = append(out, rows[p*n/parts:(p+1)*n/parts])
	}
	return out
}

func sortingOpt(drop bool) parquet.RowGroupOption {
	return parquet.SortingRowGroupConfig(parquet.SortingColumns(parquet.Ascending("k")), parquet.DropDuplicatedRows(drop))
}

func build(cs c11Case) (*built, error) {
	b := &built{registry: map[parquet.RowGroup]fileRG{}}
	var history []int
	switch cs.Shape {
	case "":
		g := cs.Gen.Build()
		b.srcRoot, b.rows, history = g.Root, g.Rows, g.History
		b.srcOpts = dstOpts{Options: g.Opts}
		if g.Opts.Bloom {
			b.srcOpts.BloomBits = 10
		}
		b.srcOpts.Bloom = false
	case "dict", "geo", "edge":
		g := cs.Gen.Build() // only the options and the history are used
		history = g.History
		b.srcOpts = dstOpts{Options: g.Opts}
		if g.Opts.Bloom {
			b.srcOpts.BloomBits = 10
		}
		b.srcOpts.Bloom = false
		b.srcOpts.DefaultEnc = ""
		if cs.Shape == "dict" {
			b.srcRoot = dictRoot()
			b.rows = dictRows(cs)
			b.srcOpts.MaxRows = 0
			// from the seed: the dictionary limit, bloom filters, and whether a chunk has several pages
			// (a fallback in the middle) or one (a limit exceeded when the last page is flushed)
			b.srcOpts.DictMaxBytes = dictLimits[posMod(cs.Gen.Seed/3, len(dictLimits))]
			b.srcOpts.BloomBits = 0
			if posMod(cs.Gen.Seed/15, 2) == 0 {
				b.srcOpts.BloomBits = 10
			}
			if posMod(cs.Gen.Seed/30, 3) == 0 {
				b.srcOpts.PageBuffer = 1 << 18
			} else if b.srcOpts.PageBuffer > 1024 {
				b.srcOpts.PageBuffer = 256
			}
		} else if cs.Shape == "edge" {
			b.srcRoot = edgeRoot()
			b.rows = edgeRows(cs)
		} else {
			b.srcRoot = geoRoot()
			b.rows = geoRows(cs)
		}
	case "sorted", "repeated":
		g := cs.Gen.Build() // only the options are used
		b.srcOpts = dstOpts{Options: g.Opts}
		if g.Opts.Bloom {
			b.srcOpts.BloomBits = 10
		}
		b.srcOpts.Bloom = false
		b.srcOpts.DefaultEnc = ""
		if cs.Shape == "sorted" {
			b.srcRoot = sortedRoot()
			b.sortKey = []string{"k"}
			b.srcOpts.Sorting = true
			b.srcOpts.MaxRows = 0
			if cs.Src == "merge-partial" || cs.Src == "merge-mixed" {
				b.srcOpts.PageBuffer = 1024 // several pages per chunk: the merge planner cuts at page boundaries
			}
		} else {
			b.srcRoot = repeatedRoot()
			rl := cs.RowLen
			if rl == 0 {
				rl = 150
			}
			s := cs.Gen.Seed
			for i := 0; i < cs.Gen.NRows; i++ {
				s = s*6364136223846793005 + 1442695040888963407
				n := int(uint64(s)>>33) % (2 * rl)
				switch (uint64(s) >> 20) % 7 {
				case 0:
					n = 0
				case 1:
					n = 1
				case 2:
					n = rl*8 + int(uint64(s)>>40)%rl // a row larger than the batch of 1024 values when rl >= 128
				}
				l := &gen.Val{IsRpt: true}
				for j := 0; j < n; j++ {
					l.List = append(l.List, leafVal(parquet.Int32Value(int32(i*100000+j))))
				}
				b.rows = append(b.rows, gen.Shred(b.srcRoot, &gen.Val{Group: []*gen.Val{leafVal(parquet.Int64Value(int64(i))), l}}))
			}
		}
	default:
		return nil, fmt.Errorf("shape %q", cs.Shape)
	}
	switch cs.SrcBloom {
	case "on":
		b.srcOpts.BloomBits = 10
	case "off":
		b.srcOpts.BloomBits = 0
	}
	b.root = b.srcRoot
	parts := cs.Parts
	if parts < 2 {
		parts = 2
	}

	if cs.Shape == "sorted" {
		// inputs of merges: sorted on k; keys depend on the source kind
		n := cs.Gen.NRows
		mkInputs := func(keys [][]int64) func() ([]parquet.RowGroup, error) {
			var files [][]parquet.RowGroup
			var ferr error
			for _, ks := range keys {
				var rows []parquet.Row
				for _, k := range ks {
					rows = append(rows, gen.Shred(b.srcRoot, sortedRow(k, cs.Gen.Seed)))
				}
				rgs, err := b.addFile(rows, nil)
				if err != nil {
					ferr = err
				}
				files = append(files, rgs)
			}
			return func() ([]parquet.RowGroup, error) {
				var all []parquet.RowGroup
				for _, f := range files {
					all = append(all, f...)
				}
				return all, ferr
			}
		}
		seqKeys := func(from, count, step int64) []int64 {
			var ks []int64
			for i := int64(0); i < count; i++ {
				ks = append(ks, from+i*step)
			}
			return ks
		}
		per := int64(n / parts)
		if per < 1 {
			per = 1
		}
		var inputs func() ([]parquet.RowGroup, error)
		merge := func(opts ...parquet.RowGroupOption) func() ([]parquet.RowGroup, error) {
			return func() ([]parquet.RowGroup, error) {
				in, err := inputs()
				if err != nil {
					return nil, err
				}
				m, err := parquet.MergeRowGroups(in, opts...)
				if err != nil {
					return nil, fmt.Errorf("MergeRowGroups: %w", err)
				}
				return []parquet.RowGroup{m}, nil
			}
		}
		switch cs.Src {
		case "file":
			inputs = mkInputs([][]int64{seqKeys(0, int64(n), 1)})
			b.mk = inputs
		case "convert-dropkey", "convert-dropsecond", "convert-sorted-add", "convert-sorted-buffer":
			// ConvertRowGroup over row groups sorted by (k, v) - distinct increasing keys, so that
			// the rows are in no order of v alone - to a target without the leading sorting column,
			// without the second one, or with all of them and one column more: whatever the wrapper
			// declares is what WriteRowGroup records when the writer declares no order of its own
			b.srcOpts.Sort2 = "v"
			var inner []parquet.RowGroup
			var ierr error
			var bufParts [][]parquet.Row
			if cs.Src == "convert-sorted-buffer" {
				var rows []parquet.Row
				for _, k := range seqKeys(0, int64(n), 1) {
					rows = append(rows, gen.Shred(b.srcRoot, sortedRow(k, cs.Gen.Seed)))
				}
				bufParts = splitRows(rows, parts)
				for _, part := range bufParts {
					if int64(len(part)) > b.maxRows {
						b.maxRows = int64(len(part))
					}
				}
			} else {
				var ks [][]int64
				for p := 0; p < parts; p++ {
					ks = append(ks, seqKeys(int64(p)*(per+5), per, 1))
				}
				inner, ierr = mkInputs(ks)()
			}
			// the destination declares no order of its own
			b.srcOpts.Sorting, b.srcOpts.Sort2, b.sortKey = false, "", nil
			target := cloneRoot(b.srcRoot, false)
			switch cs.Src {
			case "convert-dropkey", "convert-sorted-buffer":
				target.Fields = target.Fields[1:]
			case "convert-dropsecond":
				target.Fields = target.Fields[:2]
			default:
				target.Fields = append(target.Fields, &gen.Node{Name: "zz_added", Rep: gen.Opt, Leaf: "int64"})
			}
			b.root = target
			b.mk = func() ([]parquet.RowGroup, error) {
				if ierr != nil {
					return nil, ierr
				}
				conv, cerr := parquet.Convert(schemaOf(target), schemaOf(b.srcRoot))
				if cerr != nil {
					return nil, fmt.Errorf("skip: Convert: %w", cerr)
				}
				members := inner
				for _, part := range bufParts {
					buf := parquet.NewBuffer(schemaOf(b.srcRoot), parquet.SortingRowGroupConfig(parquet.SortingColumns(parquet.Ascending("k"), parquet.Ascending("v"))))
					cl := make([]parquet.Row, len(part))
					for i := range part {
						cl[i] = part[i].Clone()
					}
					if _, err := buf.WriteRows(cl); err != nil {
						return nil, err
					}
					members = append(members, buf)
				}
				var out []parquet.RowGroup
				for _, rg := range members {
					out = append(out, parquet.ConvertRowGroup(rg, conv))
				}
				return out, nil
			}
			b.wantKind = "C"
		case "merge-disjoint":
			var ks [][]int64
			for p := 0; p < parts; p++ {
				ks = append(ks, seqKeys(int64(p)*(per+5), per, 1))
			}
			inputs = mkInputs(ks)
			b.mk = merge(sortingOpt(false))
			b.wantKind = "S0"
		case "merge-overlap":
			var ks [][]int64
			for p := 0; p < parts; p++ {
				ks = append(ks, seqKeys(int64(p), per, int64(parts)))
			}
			inputs = mkInputs(ks)
			b.mk = merge(sortingOpt(false))
			b.wantKind = "G"
		case "merge-partial":
			// long inputs that overlap around their boundaries: the lone stretches become range views
			var ks [][]int64
			for p := 0; p < parts; p++ {
				ks = append(ks, seqKeys(int64(p)*(per-per/8), per, 1))
			}
			inputs = mkInputs(ks)
			b.mk = merge(sortingOpt(false))
		case "merge-mixed":
			// two long inputs that overlap around their boundary, a short input before them and/or one
			// after them that overlaps nothing: the planner's segments mix whole row groups with
			// row-range views of the lone stretches, and writeSegmentsPacked packs a whole row group with
			// the view next to it (in both orders)
			long := int64(n) * 2 / 5
			short := int64(n) - 2*long
			var ks [][]int64
			if parts != 3 {
				ks = append(ks, seqKeys(-short/2-5, short/2, 1))
			}
			ks = append(ks, seqKeys(0, long, 1), seqKeys(long-long/8, long, 1))
			if parts != 2 {
				ks = append(ks, seqKeys(2*long+5, short-short/2, 1))
			}
			inputs = mkInputs(ks)
			b.mk = merge(sortingOpt(false))
		case "merge-dedup":
			// overlapping inputs with equal keys, duplicates dropped
			var ks [][]int64
			for p := 0; p < parts; p++ {
				ks = append(ks, seqKeys(int64(p%2), per, 2))
			}
			inputs = mkInputs(ks)
			b.mk = merge(sortingOpt(true))
		case "merge-dedup-disjoint":
			var ks [][]int64
			for p := 0; p < parts; p++ {
				k := seqKeys(int64(p)*(per+5), per, 1)
				if len(k) > 2 {
					k[1] = k[0] // duplicate rows inside an input
				}
				ks = append(ks, k)
			}
			inputs = mkInputs(ks)
			b.mk = merge(sortingOpt(true))
			b.wantKind = "S1"
		case "dedup":
			// one sorted row group holding duplicated rows, behind the deduplicating wrapper
			k := seqKeys(0, int64(n), 1)
			for i := 1; i < len(k); i += 3 {
				k[i] = k[i-1]
			}
			inputs = mkInputs([][]int64{k})
			b.mk = merge(sortingOpt(true))
			b.wantKind = "D"
		case "merge-nosort":
			var ks [][]int64
			for p := 0; p < parts; p++ {
				ks = append(ks, seqKeys(int64(p)*(per+5), per, 1))
			}
			inputs = mkInputs(ks)
			b.mk = merge()
			b.wantKind = "M"
		case "multi":
			var ks [][]int64
			for p := 0; p < parts; p++ {
				ks = append(ks, seqKeys(int64(p)*(per+5), per, 1))
			}
			inputs = mkInputs(ks)
			b.mk = func() ([]parquet.RowGroup, error) {
				in, err := inputs()
				if err != nil {
					return nil, err
				}
				return []parquet.RowGroup{parquet.MultiRowGroup(in...)}, nil
			}
		case "multi-wrapped":
			// MultiRowGroup over a deduplicating merge of one input, an overlapping merge of two, a file
			// row group, a foreign implementation: members whose rows are not their column chunks
			dup := seqKeys(0, per, 1)
			for i := 1; i < len(dup); i += 3 {
				dup[i] = dup[i-1]
			}
			inputs = mkInputs([][]int64{dup, seqKeys(per+5, per, 2), seqKeys(per+6, per, 2), seqKeys(3*per+10, per, 1), seqKeys(4*per+20, per, 1)})
			b.mk = func() ([]parquet.RowGroup, error) {
				in, err := inputs()
				if err != nil || len(in) != 5 {
					return nil, err
				}
				dd, err := parquet.MergeRowGroups(in[:1], sortingOpt(true))
				if err != nil {
					return nil, fmt.Errorf("MergeRowGroups: %w", err)
				}
				ov, err := parquet.MergeRowGroups(in[1:3], sortingOpt(false))
				if err != nil {
					return nil, fmt.Errorf("MergeRowGroups: %w", err)
				}
				members := []parquet.RowGroup{dd, ov, in[3], &foreignRG{inner: in[4], reverse: true}}
				// the seed rotates the members: every kind comes first for some seed
				r := posMod(cs.Gen.Seed, len(members))
				members = append(members[r:], members[:r]...)
				return []parquet.RowGroup{parquet.MultiRowGroup(members[:2+posMod(cs.Gen.Seed/4, 3)]...)}, nil
			}
		case "merge-multi":
			// the inputs of the merge are concatenations: two consecutive sorted files (some seeds: with a
			// member without rows before or after them, or nested in a second concatenation) and a file
			// that overlaps both, lies above both, below both or inside one of them; the keys straddle zero
			base := -per
			other := seqKeys(base+per/2, per, 2)
			switch posMod(cs.Gen.Seed/4, 5) {
			case 1:
				other = seqKeys(base+2*per+20, per, 1)
			case 2:
				other = seqKeys(base-per-20, per, 1)
			case 3:
				other = seqKeys(base+per/4, per/2+1, 1) // inside the first file: negative keys
			case 4:
				other = seqKeys(base+per+5+per/4, per/2+1, 1) // inside the second file: positive keys
			}
			inputs = mkInputs([][]int64{seqKeys(base, per, 1), seqKeys(base+per+5, per, 1), other})
			b.mk = func() ([]parquet.RowGroup, error) {
				in, err := inputs()
				if err != nil || len(in) != 3 {
					return nil, err
				}
				empty := parquet.NewBuffer(schemaOf(b.srcRoot), parquet.SortingRowGroupConfig(parquet.SortingColumns(parquet.Ascending("k"))))
				members := []parquet.RowGroup{in[0], in[1]}
				switch posMod(cs.Gen.Seed, 4) {
				case 1:
					members = []parquet.RowGroup{empty, in[0], in[1]}
				case 2:
					members = []parquet.RowGroup{in[0], in[1], empty}
				case 3:
					members = []parquet.RowGroup{parquet.MultiRowGroup(in[0]), in[1]}
				}
				m, err := parquet.MergeRowGroups([]parquet.RowGroup{parquet.MultiRowGroup(members...), in[2]}, sortingOpt(false))
				if err != nil {
					return nil, fmt.Errorf("MergeRowGroups: %w", err)
				}
				return []parquet.RowGroup{m}, nil
			}
		case "foreign":
			inputs = mkInputs([][]int64{seqKeys(0, int64(n), 1)})
			b.mk = func() ([]parquet.RowGroup, error) {
				in, err := inputs()
				if err != nil || len(in) == 0 {
					return nil, err
				}
				return []parquet.RowGroup{&foreignRG{inner: in[0], reverse: true}}, nil
			}
			b.wantKind = "X"
		default:
			return nil, fmt.Errorf("sorted source %q", cs.Src)
		}
		return b, nil
	}

	switch cs.Src {
	case "file":
		rgs, err := b.addFile(b.rows, history)
		b.mk = func() ([]parquet.RowGroup, error) { return rgs, err }
	case "buffer", "genericbuffer":
		b.mk = func() ([]parquet.RowGroup, error) {
			rg, err := b.buffer(b.rows, cs.Src == "genericbuffer")
			return []parquet.RowGroup{rg}, err
		}
		b.wantKind = "B"
	case "multi", "multi-mixed":
		var segs []parquet.RowGroup
		var ferr error
		for i, part := range splitRows(b.rows, parts) {
			if cs.Src == "multi-mixed" && i%2 == 1 {
				continue
			}
			rgs, err := b.addFile(part, nil)
			if err != nil {
				ferr = err
			}
			segs = append(segs, rgs...)
		}
		b.mk = func() ([]parquet.RowGroup, error) {
			if ferr != nil {
				return nil, ferr
			}
			all := segs
			if cs.Src == "multi-mixed" {
				all = nil
				fi := 0
				for i, part := range splitRows(b.rows, parts) {
					if i%2 == 1 {
						rg, err := b.buffer(part, i%4 == 1)
						if err != nil {
							return nil, err
						}
						all = append(all, rg)
					} else if len(part) > 0 {
						if fi < len(segs) {
							all = append(all, segs[fi])
						}
						fi++
					}
				}
			}
			return []parquet.RowGroup{parquet.MultiRowGroup(all...)}, nil
		}
	case "convert-add", "convert-first", "convert-drop":
		rgs, err := b.addFile(b.rows, history)
		target := cloneRoot(b.srcRoot, false)
		switch cs.Src {
		case "convert-add":
			target.Fields = append(target.Fields, &gen.Node{Name: "zz_added", Rep: gen.Opt, Leaf: "int64"})
		case "convert-first":
			target.Fields = append([]*gen.Node{{Name: "aa_added", Rep: gen.Opt, Leaf: "string"}}, target.Fields...)
		case "convert-drop":
			if len(target.Fields) < 2 {
				return nil, fmt.Errorf("skip: nothing to drop")
			}
			target.Fields = target.Fields[:len(target.Fields)-1]
		}
		b.root = target
		b.mk = func() ([]parquet.RowGroup, error) {
			if err != nil {
				return nil, err
			}
			conv, cerr := parquet.Convert(schemaOf(target), schemaOf(b.srcRoot))
			if cerr != nil {
				return nil, fmt.Errorf("skip: Convert: %w", cerr)
			}
			var out []parquet.RowGroup
			for _, rg := range rgs {
				out = append(out, parquet.ConvertRowGroup(rg, conv))
			}
			return out, nil
		}
		b.wantKind = "C"
	case "foreign-embed":
		// a type of the application embedding *Buffer, *GenericBuffer or *FileRowGroup and reversing Rows()
		rgs, err := b.addFile(b.rows, history)
		b.mk = func() ([]parquet.RowGroup, error) {
			if err != nil {
				return nil, err
			}
			switch posMod(cs.Gen.Seed, 3) {
			case 0:
				var out []parquet.RowGroup
				for _, rg := range rgs {
					out = append(out, embedded(rg))
				}
				return out, nil
			default:
				rg, err := b.buffer(b.rows, posMod(cs.Gen.Seed, 3) == 1)
				if err != nil {
					return nil, err
				}
				return []parquet.RowGroup{embedded(rg)}, nil
			}
		}
		b.wantKind = "X"
	case "multi-wrapped":
		// MultiRowGroup over members some of which compute their rows (foreign implementations reversing
		// them, embedding types), nested concatenations, and (some seeds) a member without rows
		type member struct {
			kind int
			rgs  []parquet.RowGroup
			rows []parquet.Row
		}
		var members []member
		var ferr error
		for i, part := range splitRows(b.rows, parts+1) {
			m := member{kind: posMod(cs.Gen.Seed/7+int64(i)*3, 6), rows: part}
			switch m.kind {
			case 0, 1, 2: // a file row group: plain, behind a foreign wrapper, behind an embedding type
				m.rgs, ferr = b.addFile(part, nil)
			case 3: // a nested concatenation of two files
				for _, half := range splitRows(part, 2) {
					rgs, err := b.addFile(half, nil)
					if err != nil {
						ferr = err
					}
					m.rgs = append(m.rgs, rgs...)
				}
			}
			if ferr != nil {
				break
			}
			members = append(members, m)
		}
		b.mk = func() ([]parquet.RowGroup, error) {
			if ferr != nil {
				return nil, ferr
			}
			var all []parquet.RowGroup
			for i, m := range members {
				switch m.kind {
				case 0:
					all = append(all, m.rgs...)
				case 1:
					for _, rg := range m.rgs {
						all = append(all, &foreignRG{inner: rg, reverse: true})
					}
				case 2:
					for _, rg := range m.rgs {
						all = append(all, embedded(rg))
					}
				case 3:
					if len(m.rgs) > 0 {
						all = append(all, parquet.MultiRowGroup(m.rgs...))
					}
				default: // 4: a buffer, 5: a buffer behind an embedding type
					rg, err := b.buffer(m.rows, i%2 == 1)
					if err != nil {
						return nil, err
					}
					if m.kind == 5 {
						rg = embedded(rg)
					}
					all = append(all, rg)
				}
				if posMod(cs.Gen.Seed, 5) == 0 && i == 0 {
					rg, err := b.buffer(nil, false) // a member without rows
					if err != nil {
						return nil, err
					}
					all = append(all, rg)
				}
			}
			if len(all) == 0 {
				return nil, fmt.Errorf("skip: no members")
			}
			return []parquet.RowGroup{parquet.MultiRowGroup(all...)}, nil
		}
	case "foreign", "foreign-plain":
		rgs, err := b.addFile(b.rows, history)
		b.mk = func() ([]parquet.RowGroup, error) {
			var out []parquet.RowGroup
			for _, rg := range rgs {
				out = append(out, &foreignRG{inner: rg, reverse: cs.Src == "foreign"})
			}
			return out, err
		}
		b.wantKind = "X"
	default:
		return nil, fmt.Errorf("source %q", cs.Src)
	}
	return b, nil
}

// lyingSource: source kinds in which a type of the HARNESS reverses the rows of a row group of
// the library and inherits its SortingColumns() (embedding types): what such a row group
// declares is not the library's doing.
func lyingSource(src string) bool {
	return src == "foreign-embed" || src == "multi-wrapped"
}

// ---- attribute vectors ----

func field(v reflect.Value, name string) reflect.Value {
	f := v.FieldByName(name)
	if !f.IsValid() {
		return f
	}
	return reflect.NewAt(f.Type(), unsafe.Pointer(f.UnsafeAddr())).Elem()
}

// kindOf maps the dynamic type of a row group to the model's kind and returns
// its segments (for the concatenating types).
func kindOf(rg parquet.RowGroup) (string, []parquet.RowGroup) {
	t := fmt.Sprintf("%T", rg)
	switch {
	case t == "*parquet.FileRowGroup":
		return "F", nil
	case t == "*parquet.Buffer" || strings.HasPrefix(t, "*parquet.GenericBuffer["):
		return "B", nil
	case t == "*parquet.rowRangeRowGroup":
		return "R", nil
	case t == "*parquet.multiRowGroup":
		v := reflect.ValueOf(rg).Elem()
		return "M", field(v, "rowGroups").Interface().([]parquet.RowGroup)
	case t == "*parquet.mergedRowGroup":
		return "G", nil
	case t == "*parquet.sortedSegmentRowGroup":
		v := reflect.ValueOf(rg).Elem()
		segs := field(v, "segments").Interface().([]parquet.RowGroup)
		if field(v, "dropDuplicatedRows").Bool() {
			return "S1", segs
		}
		return "S0", segs
	case t == "*parquet.convertedRowGroup":
		return "C", nil
	case t == "*parquet.dedupRowGroup":
		return "D", nil
	case t == "*parquet.emptyRowGroup":
		return "E", nil
	}
	return "X", nil
}

func classOf(c parquet.ColumnChunk) string {
	t := fmt.Sprintf("%T", c)
	switch {
	case t == "*parquet.FileColumnChunk":
		return "F"
	case t == "*parquet.rangeColumnChunk":
		base := field(reflect.ValueOf(c).Elem(), "base").Interface().(parquet.ColumnChunk)
		return "R" + classOf(base)
	}
	if _, ok := c.(parquet.ColumnBuffer); ok {
		return "B"
	}
	return "O"
}

// what the destination asks of each column, read off the reference file (the
// same rows written one by one with the destination's options)
type dstCol struct {
	typ      int
	codec    int
	pageType int // 0 v1, 3 v2
	encoding int
	dict     bool
	encs     map[int]bool // encodings of data pages seen in the reference
	hasCI    bool
	hasOI    bool
	hasStats bool
}

func dstColumns(ref *parquet.File, o dstOpts) []dstCol {
	md := ref.Metadata()
	if len(md.RowGroups) == 0 {
		return nil
	}
	cols := make([]dstCol, len(md.RowGroups[0].Columns))
	for i := range cols {
		cols[i].encs = map[int]bool{}
		cols[i].pageType = 0
		if o.PageVersion == 2 {
			cols[i].pageType = 3
		}
	}
	for _, rg := range md.RowGroups {
		for i, ch := range rg.Columns {
			m := ch.MetaData
			d := &cols[i]
			d.typ, d.codec = int(m.Type), int(m.Codec)
			for _, s := range m.EncodingStats {
				if s.PageType == format.DictionaryPage {
					d.dict = true
				} else {
					d.encs[int(s.Encoding)] = true
					d.encoding = int(s.Encoding)
				}
			}
			d.hasCI = d.hasCI || ch.ColumnIndexOffset != 0
			d.hasOI = d.hasOI || ch.OffsetIndexOffset != 0
			d.hasStats = d.hasStats || len(m.Statistics.MinValue) > 0 || len(m.Statistics.MaxValue) > 0
		}
	}
	for i := range cols {
		if cols[i].dict {
			cols[i].encoding = int(format.RLEDictionary)
		}
	}
	return cols
}

func b01(b bool) string {
	if b {
		return "1"
	}
	return "0"
}

// colToken derives the attributes of source column chunk i of rg paired with
// destination column i.
func colToken(b *built, rg parquet.RowGroup, i int, chunk parquet.ColumnChunk, dcols []dstCol, dst dstOpts, paths [][]string) string {
	class := classOf(chunk)
	var d dstCol
	if i < len(dcols) {
		d = dcols[i]
	}
	flags := make([]byte, 16)
	for j := range flags {
		flags[j] = '0'
	}
	set := func(j int, v bool) {
		if v {
			flags[j] = '1'
		}
	}
	styp, scodec, numBytes, filterSize, dictSize, dictFilterSize := 0, 0, 0, 0, 0, 0
	stats := "_"
	set(1, dst.Encrypt)
	set(2, dst.BloomBits > 0)
	set(11, d.dict)
	set(13, dst.PageStats)
	if fr, ok := b.registry[rg]; ok && class == "F" {
		ch := fr.sf.file.Metadata().RowGroups[fr.index].Columns[i]
		m := ch.MetaData
		styp, scodec = int(m.Type), int(m.Codec)
		set(0, fr.sf.opts.Encrypt)
		set(3, m.BloomFilterOffset != 0)
		set(4, m.BloomFilterLength > 0)
		if m.BloomFilterOffset != 0 && m.BloomFilterLength > 0 && !fr.sf.opts.Encrypt {
			var h format.BloomFilterHeader
			end := m.BloomFilterOffset + int64(m.BloomFilterLength)
			if end <= int64(len(fr.sf.data)) {
				p := thrift.CompactProtocol{}
				if err := thrift.NewDecoder(p.NewReader(bytes.NewReader(fr.sf.data[m.BloomFilterOffset:end]))).Decode(&h); err == nil {
					set(5, true)
					_, sb := h.Algorithm.Value.(*format.SplitBlockAlgorithm)
					_, xx := h.Hash.Value.(*format.XxHash)
					_, un := h.Compression.Value.(*format.BloomFilterUncompressed)
					set(6, sb)
					set(7, xx)
					set(8, un)
					numBytes = int(h.NumBytes)
				}
			}
		}
		if dst.BloomBits > 0 && i < len(paths) {
			filterSize = parquet.SplitBlockFilter(uint(dst.BloomBits), paths[i]...).Size(m.NumValues)
		}
		set(9, ch.ColumnIndexOffset != 0)
		set(10, ch.OffsetIndexOffset != 0)
		var ss []string
		for _, s := range m.EncodingStats {
			ss = append(ss, fmt.Sprintf("%d.%x", int(s.PageType), int(s.Encoding)))
		}
		if len(ss) > 0 {
			stats = strings.Join(ss, "/")
		}
		set(12, fr.sf.opts.PageStats)
		// the dictionary page of the source: present, header decodes, declared uncompressed size
		if m.DictionaryPageOffset != 0 && m.DataPageOffset-m.DictionaryPageOffset > 0 {
			set(14, true)
			if h, _, err := pageHeaderAt(fr.sf.data, m.DictionaryPageOffset); err == nil && h.Type == format.DictionaryPage && h.DictionaryPageHeader.Valid && !fr.sf.opts.Encrypt {
				set(15, true)
				dictSize = int(h.UncompressedPageSize)
				if dst.BloomBits > 0 && i < len(paths) {
					dictFilterSize = parquet.SplitBlockFilter(uint(dst.BloomBits), paths[i]...).Size(int64(h.DictionaryPageHeader.V.NumValues))
				}
			}
		}
	} else {
		styp, scodec = d.typ, 0
	}
	bloomCodec := "N"
	if bc, ok := bloomCodecs[dst.BloomCodec]; ok {
		bloomCodec = fmt.Sprintf("%x", bc.code)
	}
	return fmt.Sprintf("%s:%s:%x:%x:%x:%x:%s:%x:%x:%s:%d:%x:%x:%x:%x", class, flags, styp, d.typ, scodec, d.codec, bloomCodec, numBytes, filterSize, stats, d.pageType, d.encoding, dst.DictMaxBytes, dictSize, dictFilterSize)
}

// treeToken renders rg and its segments in preorder; returns the nesting depth.
func treeToken(b *built, rg parquet.RowGroup, dcols []dstCol, dst dstOpts, paths [][]string, sb *[]string) int {
	kind, segs := kindOf(rg)
	var cols []string
	for i, ch := range rg.ColumnChunks() {
		cols = append(cols, colToken(b, rg, i, ch, dcols, dst, paths))
	}
	ct := "_"
	if len(cols) > 0 {
		ct = strings.Join(cols, ",")
	}
	*sb = append(*sb, fmt.Sprintf("%s!1!1!%x!%d!%s", kind, rg.NumRows(), len(segs), ct))
	depth := 1
	for _, s := range segs {
		if d := 1 + treeToken(b, s, dcols, dst, paths, sb); d > depth {
			depth = d
		}
	}
	return depth
}

// leafLevels returns the maximum repetition and definition level of each leaf.
func leafLevels(n *gen.Node, r, d int, out *[][2]int) {
	if n.Name != "root" {
		switch n.Rep {
		case gen.Opt:
			d++
		case gen.Rpt:
			r++
			d++
		}
	}
	if n.Leaf != "" {
		*out = append(*out, [2]int{r, d})
		return
	}
	for _, f := range n.Fields {
		leafLevels(f, r, d, out)
	}
}

// rowWellFormed: every column has values, starts at repetition level 0, stays
// within its maximum levels, and holds one value when it is not repeated.
func rowWellFormed(root *gen.Node, row parquet.Row) bool {
	var lv [][2]int
	leafLevels(root, 0, 0, &lv)
	counts := make([]int, len(lv))
	for _, v := range row {
		ci := v.Column()
		if ci < 0 || ci >= len(lv) {
			return false
		}
		if counts[ci] == 0 && v.RepetitionLevel() != 0 {
			return false
		}
		if counts[ci] > 0 && v.RepetitionLevel() == 0 {
			return false
		}
		if v.RepetitionLevel() > lv[ci][0] || v.DefinitionLevel() > lv[ci][1] {
			return false
		}
		counts[ci]++
	}
	for _, n := range counts {
		if n == 0 {
			return false
		}
	}
	return true
}

// ---- Coq syntax of the attribute vectors (cases.v) ----

func coqBoolCh(ch byte) string {
	if ch == '1' {
		return "true"
	}
	return "false"
}

func coqHexN(h string) string {
	v, _ := strconv.ParseUint(h, 16, 64)
	return fmt.Sprintf("%d%%N", v)
}

func coqClass(s string) string {
	switch {
	case s == "F":
		return "CFile"
	case s == "B":
		return "CBuf"
	case s == "O":
		return "COther"
	case strings.HasPrefix(s, "R"):
		return "(CRange " + coqClass(s[1:]) + ")"
	}
	return "COther"
}

var coqPageType = map[string]string{"0": "PTData", "1": "PTIndex", "2": "PTDict", "3": "PTDataV2"}

func coqCol(tok string) string {
	f := strings.Split(tok, ":")
	fl := f[1]
	var stats []string
	if f[9] != "_" {
		for _, s := range strings.Split(f[9], "/") {
			pe := strings.Split(s, ".")
			stats = append(stats, fmt.Sprintf("(%s, %s)", coqPageType[pe[0]], coqHexN(pe[1])))
		}
	}
	bc := "None"
	if f[6] != "N" {
		bc = "(Some " + coqHexN(f[6]) + ")"
	}
	return fmt.Sprintf("{| c_class := %s; c_src_encrypted := %s; c_dst_enc_key := %s; c_src_type := %s; c_dst_type := %s; c_src_codec := %s; c_dst_codec := %s; "+
		"c_dst_filter := %s; c_src_bloom_offset := %s; c_src_bloom_length := %s; c_dst_bloom_codec := %s; c_src_bloom_header_ok := %s; c_src_bloom_split_block := %s; "+
		"c_src_bloom_xxhash := %s; c_src_bloom_uncompressed := %s; c_src_bloom_num_bytes := %s; c_dst_filter_size := %s; c_dst_filter_size_dict := %s; c_src_column_index := %s; c_src_offset_index := %s; "+
		"c_src_encoding_stats := [%s]; c_dst_page_type := %s; c_dst_encoding := %s; c_dst_dict := %s; "+
		"c_dst_dict_max := %s; c_src_dict_page := %s; c_src_dict_header_ok := %s; c_src_dict_uncompressed := %s; c_src_page_header_stats := %s; c_dst_page_header_stats := %s |}",
		coqClass(f[0]), coqBoolCh(fl[0]), coqBoolCh(fl[1]), coqHexN(f[2]), coqHexN(f[3]), coqHexN(f[4]), coqHexN(f[5]),
		coqBoolCh(fl[2]), coqBoolCh(fl[3]), coqBoolCh(fl[4]), bc, coqBoolCh(fl[5]), coqBoolCh(fl[6]),
		coqBoolCh(fl[7]), coqBoolCh(fl[8]), coqHexN(f[7]), coqHexN(f[8]), coqHexN(f[14]), coqBoolCh(fl[9]), coqBoolCh(fl[10]),
		strings.Join(stats, "; "), coqPageType[f[10]], coqHexN(f[11]), coqBoolCh(fl[11]),
		coqHexN(f[12]), coqBoolCh(fl[14]), coqBoolCh(fl[15]), coqHexN(f[13]), coqBoolCh(fl[12]), coqBoolCh(fl[13]))
}

var coqKind = map[string]string{"F": "KFile", "B": "KBuffer", "R": "KRange", "M": "KMulti", "G": "KMerged", "S0": "(KSortedSegments false)", "S1": "(KSortedSegments true)",
	"C": "KConverted", "D": "KDedup", "E": "KEmpty", "X": "KForeign"}

// coqTree consumes the preorder node list produced by treeToken.
func coqTree(nodes *[]string) string {
	t := (*nodes)[0]
	*nodes = (*nodes)[1:]
	f := strings.Split(t, "!")
	var cols []string
	if f[5] != "_" {
		for _, c := range strings.Split(f[5], ",") {
			cols = append(cols, coqCol(c))
		}
	}
	n, _ := strconv.Atoi(f[4])
	var segs []string
	for i := 0; i < n; i++ {
		segs = append(segs, coqTree(nodes))
	}
	return fmt.Sprintf("(RG %s %s %s %s [%s] [%s])", coqKind[f[0]], coqBoolCh(f[1][0]), coqBoolCh(f[2][0]), coqHexN(f[3]), strings.Join(cols, "; "), strings.Join(segs, "; "))
}

// coqPlanCase renders one call of WriteRowGroup: switches, writer, tree, fuel and the counters observed.
func coqPlanCase(sw string, encrypt bool, maxRows int64, ncols int, nodes []string, fuel int, copies, reenc int64) string {
	ns := append([]string(nil), nodes...)
	return fmt.Sprintf("({| sw_disable_copy := %s; sw_disable_reencode := %s |}, {| w_schema_set := true; w_encryption := %s; w_max_rows := %d%%N; w_ncols := %d |}, %s, %d, %d, %d)",
		coqBoolCh(sw[0]), coqBoolCh(sw[1]), core.CoqBool(encrypt), maxRows, ncols, coqTree(&ns), fuel, copies, reenc)
}

// ---- reading the output ----

func canonRows(rows []parquet.Row) []string {
	out := make([]string, len(rows))
	for i, r := range rows {
		out[i] = gen.CanonRow(r)
	}
	return out
}

func fileRows(f *parquet.File) ([]parquet.Row, error) {
	var all []parquet.Row
	for _, rg := range f.RowGroups() {
		rows, err := readAll(rg.Rows())
		if err != nil {
			return all, err
		}
		all = append(all, rows...)
	}
	return all, nil
}

func pageHeaderAt(data []byte, off int64) (format.PageHeader, int, error) {
	var h format.PageHeader
	if off < 0 || off >= int64(len(data)) {
		return h, 0, fmt.Errorf("offset %d outside the file (%d bytes)", off, len(data))
	}
	r := bytes.NewReader(data[off:])
	p := thrift.CompactProtocol{}
	err := thrift.NewDecoder(p.NewReader(r)).Decode(&h)
	return h, int(int64(len(data)) - off - int64(r.Len())), err
}

type outcome struct {
	data    []byte
	file    *parquet.File
	copies  int64
	reenc   int64
	written int64
}

// ---- the check of one case ----

func setSwitches(s string) {
	parquet.VerifSetDisableWriteCopy(s == "nocopy" || s == "none")
	parquet.VerifSetDisableWriteReencode(s == "noreencode" || s == "none")
}

func swToken(s string) string {
	return b01(s == "nocopy" || s == "none") + b01(s == "noreencode" || s == "none")
}

func check(c *core.Ctx, cs c11Case) (bucket string, nontrivial bool) {
	bucket = fmt.Sprintf("%s%s>%s/%s", cs.Shape, cs.Src, cs.Dst, cs.Switch)
	defer setSwitches("")
	parquet.VerifSetDisableMergeRefinement(cs.Switch == "norefine")
	defer parquet.VerifSetDisableMergeRefinement(false)
	defer func() {
		if r := recover(); r != nil {
			violation(c, "panic", fmt.Sprintf("%s: the library panicked: %v", bucket, core.Trunc(fmt.Sprint(r), 300)), cs)
		}
	}()
	b, err := build(cs)
	if err != nil {
		if strings.HasPrefix(err.Error(), "skip:") {
			return "skipped", false
		}
		return "rejected:" + core.Trunc(err.Error(), 50), false
	}
	srcs, err := b.mk()
	if err != nil {
		if strings.Contains(err.Error(), "skip:") {
			return "skipped", false
		}
		return "rejected:" + core.Trunc(err.Error(), 50), false
	}
	if len(srcs) == 0 {
		return "empty", false
	}
	// the rows the source delivers through Rows(): the reference
	var want []parquet.Row
	var perSrc [][]parquet.Row
	for _, rg := range srcs {
		rows, err := readAll(rg.Rows())
		if err != nil {
			violation(c, "source-read-error", fmt.Sprintf("%s: reading the rows of the source failed: %v", bucket, err), cs)
			return bucket, false
		}
		perSrc = append(perSrc, rows)
		want = append(want, rows...)
	}
	if len(want) == 0 {
		return "empty", false
	}
	if strings.HasPrefix(cs.Src, "convert") {
		// the rows a conversion delivers must have the shape of the target schema (one value in
		// a column that is not repeated): otherwise there is nothing to compare a written file with
		for i, r := range want {
			if !rowWellFormed(b.root, r) {
				violation(c, "conversion-delivers-malformed-rows", fmt.Sprintf("%s: row %d delivered by ConvertRowGroup(...).Rows() does not have the shape of the target schema %s: [%s]", bucket, i, b.root.Text(), core.Trunc(gen.CanonRow(r), 300)), cs)
				return bucket, false
			}
		}
	}
	// wrapper semantics, observed on the rows themselves
	switch cs.Src {
	case "foreign":
		var inner []parquet.Row
		for _, rg := range srcs {
			r, _ := readAll(rg.(*foreignRG).inner.Rows())
			for i, j := 0, len(r)-1; i < j; i, j = i+1, j-1 {
				r[i], r[j] = r[j], r[i]
			}
			inner = append(inner, r...)
		}
		if strings.Join(canonRows(inner), "\n") != strings.Join(canonRows(want), "\n") {
			violation(c, "harness-foreign", "the foreign row group does not deliver the reversed rows", cs)
			return bucket, false
		}
	case "foreign-embed":
		var inner []parquet.Row
		for _, rg := range srcs {
			r, _ := readAll(innerOf(rg).Rows())
			for i, j := 0, len(r)-1; i < j; i, j = i+1, j-1 {
				r[i], r[j] = r[j], r[i]
			}
			inner = append(inner, r...)
		}
		if strings.Join(canonRows(inner), "\n") != strings.Join(canonRows(want), "\n") {
			violation(c, "harness-foreign", "the embedding row group does not deliver the reversed rows", cs)
			return bucket, false
		}
	case "dedup", "merge-dedup", "merge-dedup-disjoint":
		for i := 1; i < len(want); i++ {
			if want[i][0].Int64() == want[i-1][0].Int64() {
				violation(c, "dedup-not-applied-by-rows", fmt.Sprintf("%s: Rows() of a deduplicating merge delivers key %d twice", bucket, want[i][0].Int64()), cs)
				return bucket, false
			}
		}
	}

	// a sorted merge delivers its rows in the order of the key
	if cs.Shape == "sorted" && strings.HasPrefix(cs.Src, "merge-") && cs.Src != "merge-nosort" {
		for i := 1; i < len(want); i++ {
			if want[i][0].Int64() < want[i-1][0].Int64() {
				violation(c, "merge-rows-unsorted", fmt.Sprintf("%s: Rows() of the merge delivers key %d after key %d (row %d)", bucket, want[i][0].Int64(), want[i-1][0].Int64(), i), cs)
				return bucket, false
			}
		}
	}
	// the rows of a concatenation are the rows of its members, each read through its own Rows()
	for _, rg := range srcs {
		if kind, segs := kindOf(rg); len(srcs) == 1 && (kind == "M" || kind == "S0") && len(segs) > 0 {
			var cat []parquet.Row
			for _, s := range segs {
				r, err := readAll(s.Rows())
				if err != nil {
					violation(c, "source-read-error", fmt.Sprintf("%s: reading the rows of a member of the source failed: %v", bucket, err), cs)
					return bucket, false
				}
				cat = append(cat, r...)
			}
			cc, cw := canonRows(cat), canonRows(want)
			if strings.Join(cc, "\n") != strings.Join(cw, "\n") {
				i := 0
				for i < len(cc) && i < len(cw) && cc[i] == cw[i] {
					i++
				}
				violation(c, "concatenation-bypasses-member-rows", fmt.Sprintf("%s: Rows() of the %d-member concatenation delivers %d rows, its members' Rows() deliver %d; first difference at row %d", bucket, len(segs), len(cw), len(cc), i), cs)
				return bucket, false
			}
		}
	}

	dst := dstFor(cs.Dst, b.srcOpts, b.maxRows)
	dstRoot := cloneRoot(b.root, dst.ColEnc)
	paths := leafPaths(b.root, nil)
	sortKey := b.sortKey
	if sortKey == nil && len(paths) > 0 {
		sortKey = paths[0]
	}
	mkWriter := func(buf *bytes.Buffer) *parquet.GenericWriter[any] {
		return parquet.NewGenericWriter[any](buf, append([]parquet.WriterOption{schemaOf(dstRoot)}, dst.writerOptions(b.root, sortKey)...)...)
	}

	// rows written with WriteRows before the calls of WriteRowGroup, still buffered then:
	// "Buffered rows will be flushed prior to writing rows from the group"
	npend := cs.Pending
	if npend > len(want) {
		npend = len(want)
	}
	if npend > 0 {
		var pend []parquet.Row
		for _, r := range want[:npend] {
			pend = append(pend, r.Clone())
		}
		want = append(pend, want...)
		bucket = fmt.Sprintf("%s+pending", bucket)
	}

	// reference: the same rows one by one
	var refBuf bytes.Buffer
	rw := mkWriter(&refBuf)
	// the reference ends a row group where WriteRowGroup necessarily does: after the buffered rows
	// and after the rows of each call, so that the chunks can be compared one to one
	cuts := map[int]bool{npend: npend > 0}
	acc := npend
	for _, rows := range perSrc {
		acc += len(rows)
		cuts[acc] = true
	}
	for i, r := range want {
		if cuts[i] {
			if err := rw.Flush(); err != nil {
				return "rejected:ref flush " + core.Trunc(err.Error(), 40), false
			}
		}
		if _, err := rw.WriteRows([]parquet.Row{r.Clone()}); err != nil {
			return "rejected:ref " + core.Trunc(err.Error(), 40), false
		}
	}
	if err := rw.Close(); err != nil {
		return "rejected:ref close " + core.Trunc(err.Error(), 40), false
	}
	ref, err := openFile(refBuf.Bytes(), dst.Encrypt)
	if err != nil {
		violation(c, "reference-open-error", fmt.Sprintf("%s: the reference file cannot be opened: %v", bucket, err), cs)
		return bucket, false
	}
	dcols := dstColumns(ref, dst)

	// the model's plan, from the attribute vectors (derived before the write: buffers are consumed)
	maxRows := int64(math.MaxInt64)
	if dst.MaxRows > 0 {
		maxRows = dst.MaxRows
	}
	wTok := fmt.Sprintf("1.%s.%x.%d", b01(dst.Encrypt), maxRows, len(paths))
	type planned struct {
		req     string
		actions []string
		copies  int64
		reenc   int64
		kind    string
		nodes   []string
		fuel    int
		// for the sizing of bloom filters (CopyPath/Filters.v): the batches of writeSegmentsPacked and,
		// per written unit (the row group itself, or each of its segments) and column, exact.declared.delivered
		batches []int
		units   [][]string
		nested  bool
	}
	var plans []planned
	fresh, err := b.mk()
	if err != nil || len(fresh) != len(srcs) {
		return "rejected:rebuild", false
	}
	for _, rg := range fresh {
		var nodes []string
		depth := treeToken(b, rg, dcols, dst, paths, &nodes)
		kind, _ := kindOf(rg)
		p := planned{req: fmt.Sprintf("c11.plan %s %s %s %d", swToken(cs.Switch), wTok, strings.Join(nodes, ";"), depth+1), kind: kind, nodes: nodes, fuel: depth + 1}
		if c.HasOracle() {
			ans := strings.Split(c.Ask(p.req), " ")
			if len(ans) != 3 {
				mismatch(c, "corr:C11.plan", core.Trunc(p.req, 600), "", strings.Join(ans, " "), cs)
				return bucket, false
			}
			if ans[0] != "_" {
				p.actions = strings.Split(ans[0], ",")
			}
			p.copies, _ = strconv.ParseInt(ans[1], 10, 64)
			p.reenc, _ = strconv.ParseInt(ans[2], 10, 64)
			if dst.BloomBits > 0 && !dst.Encrypt && (p.reenc > 0) {
				units := []parquet.RowGroup{rg}
				if pk := c.Ask(fmt.Sprintf("c11.packs %s %s %s", swToken(cs.Switch), wTok, strings.Join(nodes, ";"))); pk != "_" {
					_, units = kindOf(rg)
					for _, t := range strings.Split(pk, ",") {
						n, _ := strconv.Atoi(t)
						p.batches = append(p.batches, n)
					}
				}
				for _, u := range units {
					if _, inner := kindOf(u); len(inner) > 0 {
						p.nested = true
					}
					p.units = append(p.units, chunkCounts(u))
				}
			}
		}
		plans = append(plans, p)
	}

	// the implementation
	var outBuf bytes.Buffer
	w := mkWriter(&outBuf)
	for _, r := range want[:npend] {
		if _, err := w.WriteRows([]parquet.Row{r.Clone()}); err != nil {
			violation(c, "write-error", fmt.Sprintf("%s: WriteRows before WriteRowGroup failed: %v", bucket, err), cs)
			return bucket, false
		}
	}
	setSwitches(cs.Switch)
	var implPaths []string
	var rowsPerCall []int64
	pathsOK := true
	for i, rg := range fresh {
		c0, r0 := parquet.VerifCopyPathCount(), parquet.VerifReencodePathCount()
		n, err := w.WriteRowGroup(rg)
		dc, dr := parquet.VerifCopyPathCount()-c0, parquet.VerifReencodePathCount()-r0
		if err != nil {
			setSwitches("")
			violation(c, "write-error", fmt.Sprintf("%s: WriteRowGroup failed: %v", bucket, err), cs)
			return bucket, false
		}
		rowsPerCall = append(rowsPerCall, n)
		implPaths = append(implPaths, fmt.Sprintf("copy=%d reencode=%d", dc, dr))
		if c.HasOracle() && (dc != plans[i].copies || dr != plans[i].reenc) {
			pathsOK = false
		}
		if n != int64(len(perSrc[i])) {
			violation(c, "rows-written-count", fmt.Sprintf("%s: WriteRowGroup returned %d, the source delivers %d rows (paths %v)", bucket, n, len(perSrc[i]), implPaths), cs)
		}
	}
	setSwitches("")
	if err := w.Close(); err != nil {
		violation(c, "close-error", fmt.Sprintf("%s: Close after WriteRowGroup failed: %v", bucket, err), cs)
		return bucket, false
	}
	out, err := openFile(outBuf.Bytes(), dst.Encrypt)
	if err != nil {
		violation(c, "output-open-error", fmt.Sprintf("%s: the file written through WriteRowGroup cannot be opened: %v", bucket, err), cs)
		return bucket, false
	}

	ok := true
	// (1) rows: equal and in order
	got, err := fileRows(out)
	if err != nil {
		violation(c, "output-read-error", fmt.Sprintf("%s: the file written through WriteRowGroup cannot be read back: %v (paths %v)", bucket, err, implPaths), cs)
		return bucket, true
	}
	refRows, err := fileRows(ref)
	if err != nil {
		violation(c, "reference-read-error", fmt.Sprintf("%s: the reference file cannot be read back: %v", bucket, err), cs)
		return bucket, true
	}
	cw, cg, cr := canonRows(want), canonRows(got), canonRows(refRows)
	if len(cg) != len(cw) {
		class := "row-count-differs"
		if cs.Src == "dedup" || strings.HasPrefix(cs.Src, "merge-dedup") {
			class = "dedup-bypassed"
		}
		violation(c, class, fmt.Sprintf("%s: WriteRowGroup wrote %d rows, the source's Rows() delivers %d (paths %v)", bucket, len(cg), len(cw), implPaths), cs)
		ok = false
	} else {
		for i := range cw {
			if cw[i] != cg[i] {
				class := "rows-differ"
				switch {
				case strings.HasPrefix(cs.Src, "foreign"), cs.Src == "multi-wrapped":
					class = "foreign-rows-bypassed"
				case strings.HasPrefix(cs.Src, "convert"):
					class = "conversion-bypassed"
				}
				violation(c, class, fmt.Sprintf("%s: row %d differs: Rows() delivers [%s], the written file holds [%s] (paths %v)", bucket, i, core.Trunc(cw[i], 200), core.Trunc(cg[i], 200), implPaths), cs)
				ok = false
				break
			}
		}
	}
	if strings.Join(cr, "\n") != strings.Join(cw, "\n") {
		violation(c, "reference-rows-differ", fmt.Sprintf("%s: the rows written one by one do not read back equal", bucket), cs)
		ok = false
	}
	if !ok {
		return bucket, true
	}

	// (2) the destination's settings in the output
	md := out.Metadata()
	oix := out.OffsetIndexes()
	ncols := len(paths)
	from := 0
	if npend > 0 {
		// the buffered rows are flushed before the row group is written: they share no row group with its rows
		acc, cut := int64(0), false
		var sizes []int64
		for _, rgm := range md.RowGroups {
			acc += rgm.NumRows
			cut = cut || acc == int64(npend)
			sizes = append(sizes, rgm.NumRows)
		}
		if !cut {
			violation(c, "buffered-rows-not-flushed", fmt.Sprintf("%s: %d rows were buffered in the writer when WriteRowGroup was called; the output row groups %v do not end after them (paths %v)", bucket, npend, sizes, implPaths), cs)
			return bucket, true
		}
	}
	samePartition := len(md.RowGroups) == len(ref.Metadata().RowGroups)
	if samePartition {
		for g := range md.RowGroups {
			samePartition = samePartition && md.RowGroups[g].NumRows == ref.Metadata().RowGroups[g].NumRows
		}
	}
	// the file the chunks are compared with: the reference when it has the output's row groups, else
	// the same rows written one by one with a Flush where the output ends a row group ("only page
	// boundaries and row-group partitioning below the configured maximum may differ": for the
	// partition the output chose, every chunk holds the rows of the reference's chunk)
	cmpRef, cmpData := ref, refBuf.Bytes()
	if !samePartition {
		var total int64
		ends := map[int64]bool{}
		for _, rgm := range md.RowGroups {
			total += rgm.NumRows
			ends[total] = true
		}
		if total == int64(len(want)) {
			var abuf bytes.Buffer
			aw := mkWriter(&abuf)
			aerr := error(nil)
			for i, r := range want {
				if ends[int64(i)] && aerr == nil {
					aerr = aw.Flush()
				}
				if aerr == nil {
					_, aerr = aw.WriteRows([]parquet.Row{r.Clone()})
				}
			}
			if aerr == nil {
				aerr = aw.Close()
			}
			if aerr == nil {
				if af, err := openFile(abuf.Bytes(), dst.Encrypt); err == nil && len(af.Metadata().RowGroups) == len(md.RowGroups) {
					samePartition = true
					for g := range md.RowGroups {
						samePartition = samePartition && md.RowGroups[g].NumRows == af.Metadata().RowGroups[g].NumRows
					}
					if samePartition {
						cmpRef, cmpData = af, abuf.Bytes()
						alignedRefs++
					}
				}
			}
		}
	}
	for g, rgm := range md.RowGroups {
		if dst.MaxRows > 0 && rgm.NumRows > dst.MaxRows {
			violation(c, "max-rows-exceeded", fmt.Sprintf("%s: output row group %d has %d rows, MaxRowsPerRowGroup is %d (paths %v)", bucket, g, rgm.NumRows, dst.MaxRows, implPaths), cs)
			ok = false
		}
		to := from + int(rgm.NumRows)
		if to > len(want) {
			break
		}
		// the order the row group records: when the writer declares none of its own, WriteRowGroup
		// records the sorting columns of the row group it is given (the reference, written row by
		// row, records none): what is recorded must be true of the rows written
		if !(dst.Sorting && len(sortKey) > 0) && !lyingSource(cs.Src) {
			if what := sortingNotTrue(schemaOf(dstRoot), rgm.SortingColumns, want[from:to]); what != "" {
				violation(c, "recorded-sorting-columns-not-true", fmt.Sprintf("%s: output row group %d (rows %d..%d) %s (paths %v)", bucket, g, from, to-1, what, implPaths), cs)
				ok = false
			}
		}
		for ci, ch := range rgm.Columns {
			if ci >= len(dcols) {
				break
			}
			d := dcols[ci]
			m := ch.MetaData
			where := fmt.Sprintf("%s: output row group %d column %d (%s)", bucket, g, ci, strings.Join(paths[ci], "."))
			if int(m.Codec) != d.codec {
				violation(c, "codec-not-honoured", fmt.Sprintf("%s: codec %v, the destination is configured for %v (paths %v)", where, m.Codec, format.CompressionCodec(d.codec), implPaths), cs)
				ok = false
			}
			sawDict := false
			for _, s := range m.EncodingStats {
				switch s.PageType {
				case format.DictionaryPage:
					sawDict = true
				case format.DataPage, format.DataPageV2:
					if int(s.PageType) != d.pageType {
						violation(c, "page-version-not-honoured", fmt.Sprintf("%s: data pages of type %v, the destination is configured for version %d (paths %v)", where, s.PageType, dst.PageVersion, implPaths), cs)
						ok = false
					}
					if !d.encs[int(s.Encoding)] && !(d.dict && dst.DictMaxBytes > 0 && s.Encoding == format.Plain) {
						violation(c, "encoding-not-honoured", fmt.Sprintf("%s: data pages encoded %v, the destination writes %v (paths %v)", where, s.Encoding, encNames(d.encs), implPaths), cs)
						ok = false
					}
				}
			}
			if sawDict != d.dict {
				violation(c, "dictionary-not-honoured", fmt.Sprintf("%s: dictionary page present=%v, the destination's configuration gives %v (paths %v)", where, sawDict, d.dict, implPaths), cs)
				ok = false
			}
			if ok && d.dict && !dst.Encrypt {
				// the encoding of every data page against the destination's DictionaryMaxBytes, for the
				// page boundaries of the output itself (page boundaries may differ from the row path's)
				if class, v := dictLimitVerdict(outBuf.Bytes(), &ch.MetaData, out.RowGroups()[g].ColumnChunks()[ci], dst.DictMaxBytes); class != "" {
					violation(c, class, fmt.Sprintf("%s: %s; rows written one by one with the destination's options fall back to PLAIN exactly when the limit is exceeded (paths %v)", where, v, implPaths), cs)
					ok = false
				}
			}
			if d.hasCI && ch.ColumnIndexOffset == 0 || d.hasOI && ch.OffsetIndexOffset == 0 {
				violation(c, "page-index-missing", fmt.Sprintf("%s: no column/offset index although the destination writes one (paths %v)", where, implPaths), cs)
				ok = false
			}
			nonNull := 0
			for _, r := range want[from:to] {
				for _, v := range r {
					if v.Column() == ci && !v.IsNull() {
						nonNull++
					}
				}
			}
			if samePartition {
				rm := &cmpRef.Metadata().RowGroups[g].Columns[ci].MetaData
				// chunk statistics: the same fields set (an empty bound is a bound: min_value = "" is not an
				// absent min_value), the same bytes, the same counts
				if ss, rs := statsText(m.Statistics, d.typ), statsText(rm.Statistics, d.typ); ss != rs {
					violation(c, "statistics-differ:"+pathOf(implPaths), fmt.Sprintf("%s: statistics {%s}, the same rows written one by one give {%s} (paths %v)", where, ss, rs, implPaths), cs)
					ok = false
				}
				if gs, rgs := geoStatsText(m.GeospatialStatistics), geoStatsText(rm.GeospatialStatistics); gs != rgs {
					violation(c, "geospatial-statistics-differ", fmt.Sprintf("%s: geospatial statistics %s, the same rows written one by one give %s (paths %v)", where, gs, rgs, implPaths), cs)
					ok = false
				}
				if !dst.Encrypt && m.BloomFilterOffset != 0 && rm.BloomFilterOffset != 0 {
					// same rows in the chunk: the row path's filter, bit for bit
					oh, ob, oerr := bloomRaw(outBuf.Bytes(), &m)
					rh, rb, rerr := bloomRaw(cmpData, rm)
					switch {
					case oerr != nil || rerr != nil:
						violation(c, "bloom-filter-unreadable", fmt.Sprintf("%s: bloom filter: output %v, reference %v (paths %v)", where, oerr, rerr, implPaths), cs)
						ok = false
					case oh != rh:
						violation(c, "bloom-filter-size-differs:"+pathOf(implPaths), fmt.Sprintf("%s: bloom filter header {%s}, the same rows written one by one give {%s} (%d values in the chunk, %d bits per value configured) (paths %v)", where, oh, rh, m.NumValues, dst.BloomBits, implPaths), cs)
						ok = false
					case !bytes.Equal(ob, rb):
						violation(c, "bloom-filter-bits-differ", fmt.Sprintf("%s: the %d bytes of the bloom filter differ from those the same rows written one by one give (paths %v)", where, len(ob), implPaths), cs)
						ok = false
					}
				}
			}
			// bloom filter
			if m.BloomFilterOffset != 0 && dst.BloomBits == 0 || m.BloomFilterOffset == 0 && dst.BloomBits > 0 && nonNull > 0 {
				violation(c, "bloom-filter-not-honoured", fmt.Sprintf("%s: bloom filter present=%v, the destination is configured with BloomBits=%d (paths %v)", where, m.BloomFilterOffset != 0, dst.BloomBits, implPaths), cs)
				ok = false
			} else if dst.BloomBits > 0 && m.BloomFilterOffset != 0 {
				bf := out.RowGroups()[g].ColumnChunks()[ci].BloomFilter()
				if bf == nil {
					violation(c, "bloom-filter-not-honoured", fmt.Sprintf("%s: the bloom filter cannot be loaded (paths %v)", where, implPaths), cs)
					ok = false
				} else {
					if want := int64(parquet.SplitBlockFilter(uint(dst.BloomBits), paths[ci]...).Size(m.NumValues)); !dst.Encrypt && bf.Size() != want && m.NumValues > 0 {
						// only a note: the row path sizes the filter from the source's value count, which may span several output row groups
						_ = want
					}
					for _, r := range want[from:to] {
						for _, v := range r {
							if v.Column() == ci && !v.IsNull() {
								if hit, err := bf.Check(v); err != nil || !hit {
									violation(c, "bloom-filter-misses-value", fmt.Sprintf("%s: the bloom filter answers %v (err %v) for a value of the column (paths %v)", where, hit, err, implPaths), cs)
									ok = false
									break
								}
							}
						}
					}
				}
			}
			// the representation of the filter: compressed exactly when the destination is configured so
			if dst.BloomBits > 0 && m.BloomFilterOffset != 0 && !dst.Encrypt {
				if oh, _, oerr := bloomRaw(outBuf.Bytes(), &m); oerr == nil {
					if un := strings.Contains(oh, "uncompressed=true"); un != (dst.BloomCodec == "") {
						violation(c, "bloom-filter-compression-not-honoured:"+pathOf(implPaths), fmt.Sprintf("%s: bloom filter header {%s}, the destination is configured with BloomFilterCompression %q (paths %v)", where, oh, dst.BloomCodec, implPaths), cs)
						ok = false
					}
				}
			}
			// the offset index points at page headers of this chunk
			if !dst.Encrypt && g*ncols+ci < len(oix) && ch.OffsetIndexOffset != 0 {
				locs := oix[g*ncols+ci].PageLocations
				var total int64
				for j, loc := range locs {
					h, hl, err := pageHeaderAt(outBuf.Bytes(), loc.Offset)
					switch {
					case err != nil:
						violation(c, "offset-index-wrong", fmt.Sprintf("%s: page location %d (offset %d) does not point at a page header: %v (paths %v)", where, j, loc.Offset, err, implPaths), cs)
						ok = false
					case h.Type != format.DataPage && h.Type != format.DataPageV2 || int64(hl)+int64(h.CompressedPageSize) != int64(loc.CompressedPageSize):
						violation(c, "offset-index-wrong", fmt.Sprintf("%s: page location %d (offset %d, size %d) points at a %v header of %d+%d bytes (paths %v)", where, j, loc.Offset, loc.CompressedPageSize, h.Type, hl, h.CompressedPageSize, implPaths), cs)
						ok = false
					case j == 0 && loc.Offset != m.DataPageOffset:
						violation(c, "offset-index-wrong", fmt.Sprintf("%s: the first page location is %d, data_page_offset is %d (paths %v)", where, loc.Offset, m.DataPageOffset, implPaths), cs)
						ok = false
					case j > 0 && loc.Offset != locs[j-1].Offset+int64(locs[j-1].CompressedPageSize):
						violation(c, "offset-index-wrong", fmt.Sprintf("%s: page location %d at %d does not follow location %d (paths %v)", where, j, loc.Offset, j-1, implPaths), cs)
						ok = false
					}
					if !ok {
						break
					}
					total += int64(loc.CompressedPageSize)
				}
				if ok && m.DictionaryPageOffset != 0 {
					total += m.DataPageOffset - m.DictionaryPageOffset
				}
				if ok && len(locs) > 0 && total != m.TotalCompressedSize {
					violation(c, "offset-index-wrong", fmt.Sprintf("%s: pages (and dictionary) span %d bytes, total_compressed_size is %d (paths %v)", where, total, m.TotalCompressedSize, implPaths), cs)
					ok = false
				}
			}
			if !ok {
				return bucket, true
			}
		}
		// a seek through the offset index of each column lands on the right row
		if !ok {
			break
		}
		if rgm.NumRows > 1 {
			for _, r := range []int64{rgm.NumRows - 1, rgm.NumRows / 2} {
				rows := out.RowGroups()[g].Rows()
				buf := make([]parquet.Row, 1)
				err := rows.SeekToRow(r)
				n := 0
				if err == nil {
					n, err = rows.ReadRows(buf)
				}
				if n == 1 && gen.CanonRow(buf[0]) != cw[from+int(r)] {
					violation(c, "seek-reads-wrong-row", fmt.Sprintf("%s: output row group %d: SeekToRow(%d) then ReadRows gives [%s], row %d is [%s] (paths %v)", bucket, g, r, core.Trunc(gen.CanonRow(buf[0]), 200), r, core.Trunc(cw[from+int(r)], 200), implPaths), cs)
					ok = false
				} else if n != 1 && !errors.Is(err, io.EOF) {
					violation(c, "seek-reads-wrong-row", fmt.Sprintf("%s: output row group %d: SeekToRow(%d) then ReadRows: %d rows, %v (paths %v)", bucket, g, r, n, err, implPaths), cs)
					ok = false
				}
				rows.Close()
			}
		}
		from = to
	}
	if !ok {
		return bucket, true
	}

	// (3) the path taken == the model's decision
	if c.HasOracle() {
		var modelPaths, reqs []string
		for _, p := range plans {
			modelPaths = append(modelPaths, fmt.Sprintf("copy=%d reencode=%d", p.copies, p.reenc))
			reqs = append(reqs, p.req)
		}
		if !pathsOK {
			mismatch(c, "corr:C11.path", core.Trunc(strings.Join(reqs, " | "), 1500), strings.Join(implPaths, ","), strings.Join(modelPaths, ","), cs)
			return bucket, true
		}
		// a sample re-evaluated inside coqc (cases.v)
		for i, p := range plans {
			key := bucket + "/" + p.kind
			if vmSeen[key] || len(vmPlans) >= 60 || len(p.req) > 6000 {
				continue
			}
			vmSeen[key] = true
			dc, dr := int64(0), int64(0)
			fmt.Sscanf(implPaths[i], "copy=%d reencode=%d", &dc, &dr)
			vmPlans = append(vmPlans, coqPlanCase(swToken(cs.Switch), dst.Encrypt, maxRows, len(paths), p.nodes, p.fuel, dc, dr))
		}
		// row groups of the output (CopyPath/Groups.v): those of the rows written before the call,
		// then one per non-empty copy / re-encode / pack action
		var wantGroups []int64
		pendGroups := 0
		exact := true
		for i, p := range plans {
			written := 0
			if i == 0 {
				written = npend
			}
			ans := c.Ask(fmt.Sprintf("c11.groups%s %x", strings.TrimPrefix(p.req, "c11.plan"), written))
			if ans == "INEXACT" {
				exact = false
				continue
			}
			n := 0
			if ans != "_" {
				for _, t := range strings.Split(ans, ",") {
					v, err := strconv.ParseInt(t, 16, 64)
					if err != nil {
						mismatch(c, "corr:C11.row-groups", core.Trunc(p.req, 600), "", ans, cs)
						return bucket, true
					}
					wantGroups = append(wantGroups, v)
					n++
				}
			}
			if i == 0 {
				// the groups of the first call that are not those of its actions
				pendGroups = n
				for _, a := range p.actions {
					if j := strings.IndexByte(a, ':'); j >= 0 && a[j+1:] != "0" {
						pendGroups--
					}
				}
			}
		}
		if exact {
			var gotGroups []int64
			for _, rgm := range md.RowGroups {
				gotGroups = append(gotGroups, rgm.NumRows)
			}
			if fmt.Sprint(gotGroups) != fmt.Sprint(wantGroups) {
				mismatch(c, "corr:C11.row-groups", core.Trunc(strings.Join(reqs, " | "), 1500), fmt.Sprint(gotGroups), fmt.Sprint(wantGroups), cs)
				return bucket, true
			}
			if npend > 0 && len(plans) == 1 && len(vmGroups) < 25 && len(plans[0].req) <= 6000 && !vmSeen["groups/"+bucket] {
				vmSeen["groups/"+bucket] = true
				var gs []string
				for _, g := range gotGroups {
					gs = append(gs, fmt.Sprintf("%d%%N", g))
				}
				ns := append([]string(nil), plans[0].nodes...)
				vmGroups = append(vmGroups, fmt.Sprintf("({| sw_disable_copy := %s; sw_disable_reencode := %s |}, {| w_schema_set := true; w_encryption := %s; w_max_rows := %d%%N; w_ncols := %d |}, %s, %d, %d%%N, [%s])",
					coqBoolCh(swToken(cs.Switch)[0]), coqBoolCh(swToken(cs.Switch)[1]), core.CoqBool(dst.Encrypt), maxRows, len(paths), coqTree(&ns), plans[0].fuel, npend, strings.Join(gs, "; ")))
			}
		}
		// row groups written column-wise: the bloom filter of every column without dictionary has the
		// size of the model's sizing rule (Filters.v) for the declared (exact or upper bound) and
		// delivered value counts of the source chunks
		if exact {
			var lv [][2]int
			leafLevels(b.root, 0, 0, &lv)
			g := pendGroups
			for _, p := range plans {
				batches := p.batches
				if batches == nil {
					batches = []int{1}
				}
				usable := len(p.units) > 0 && !p.nested && len(batches) == len(p.actions)
				u := 0
				for bi, a := range p.actions {
					j := strings.IndexByte(a, ':')
					if j < 0 || a[j+1:] == "0" {
						if usable {
							u += batches[bi]
						}
						continue
					}
					if usable && g < len(md.RowGroups) && u+batches[bi] <= len(p.units) && (a[0] == 'P' || a[0] == 'R') {
						for ci := range md.RowGroups[g].Columns {
							m := md.RowGroups[g].Columns[ci].MetaData
							if ci >= len(dcols) || ci >= len(lv) || dcols[ci].dict || m.BloomFilterOffset == 0 {
								continue
							}
							var chunks []string
							for _, unit := range p.units[u : u+batches[bi]] {
								if ci < len(unit) {
									chunks = append(chunks, unit[ci])
								}
							}
							req := fmt.Sprintf("c11.packfilter %x %s", dst.BloomBits, strings.Join(chunks, ","))
							if a[0] == 'R' && len(chunks) == 1 {
								req = fmt.Sprintf("c11.rgfilter %x %s %s %x %s", dst.BloomBits, b01(lv[ci][0] > 0), a[j+1:], maxRows, chunks[0])
							}
							_, bits, err := bloomRaw(outBuf.Bytes(), &m)
							if err != nil {
								continue
							}
							if bc, ok := bloomCodecs[dst.BloomCodec]; ok {
								// the sizing rule speaks of the bit set: the stored bytes, decompressed
								if bits, err = bc.codec.Decode(nil, bits); err != nil {
									violation(c, "bloom-filter-unreadable", fmt.Sprintf("%s: output row group %d column %d: the bloom filter does not decompress with the configured codec %s: %v", bucket, g, ci, dst.BloomCodec, err), cs)
									return bucket, true
								}
							}
							if ans := c.Ask(req); ans != fmt.Sprintf("%x", len(bits)) {
								mismatch(c, "corr:C11.filter-size", fmt.Sprintf("output row group %d column %d: %s", g, ci, req), fmt.Sprintf("%x", len(bits)), ans, cs)
								return bucket, true
							}
							filterSizes++
						}
					}
					if usable {
						u += batches[bi]
					}
					g++
				}
			}
		}
		// copied chunks: the offset index is the source's, re-based (Splice.v)
		if len(plans) == len(fresh) {
			g := pendGroups
			for i, p := range plans {
				if len(p.actions) == 1 && p.actions[0][0] == 'C' {
					if fr, isFile := b.registry[fresh[i]]; isFile && g < len(md.RowGroups) && !dst.Encrypt {
						if !checkRebase(c, cs, bucket, fr, md.RowGroups[g], oix, g, ncols) {
							return bucket, true
						}
					}
				}
				if exact {
					for _, a := range p.actions {
						if j := strings.IndexByte(a, ':'); j >= 0 && a[j+1:] != "0" {
							g++
						}
					}
				} else {
					break
				}
			}
		}
	}
	if os.Getenv("C11_DEBUG") != "" {
		oj, _ := json.Marshal(dst)
		fmt.Fprintf(os.Stderr, "DEBUG %s destination options %s schema %s\n", bucket, oj, dstRoot.Text())
		for i, p := range plans {
			fmt.Fprintf(os.Stderr, "DEBUG %s call %d: returned %d impl %s model %v req %s\n", bucket, i, rowsPerCall[i], implPaths[i], p.actions, core.Trunc(p.req, 3000))
		}
	}
	pathKind := "rows"
	for _, p := range plans {
		for _, a := range p.actions {
			switch a[0] {
			case 'C':
				pathKind = "copy"
			case 'R':
				if pathKind == "rows" {
					pathKind = "reencode"
				}
			case 'P':
				if pathKind == "rows" {
					pathKind = "pack"
				}
			}
		}
	}
	bucket = bucket + "=" + pathKind
	return bucket, len(want) >= 2
}

// pathOf names the path the calls of a case took, from the hook counters.
func pathOf(implPaths []string) string {
	kind := "rows"
	for _, p := range implPaths {
		var dc, dr int64
		fmt.Sscanf(p, "copy=%d reencode=%d", &dc, &dr)
		switch {
		case dc > 0:
			return "copy"
		case dr > 0:
			kind = "column-wise"
		}
	}
	return kind
}

func encNames(m map[int]bool) string {
	var l []string
	for e := range m {
		l = append(l, format.Encoding(e).String())
	}
	sort.Strings(l)
	return strings.Join(l, ",")
}

// checkRebase compares the offset index written for a copied row group with
// the model's re-based locations.
func checkRebase(c *core.Ctx, cs c11Case, bucket string, fr fileRG, outRG format.RowGroup, oix []format.OffsetIndex, g, ncols int) bool {
	srcMD := fr.sf.file.Metadata().RowGroups[fr.index]
	srcIx := fr.sf.file.OffsetIndexes()
	for ci, ch := range srcMD.Columns {
		if fr.index*ncols+ci >= len(srcIx) || g*ncols+ci >= len(oix) || ci >= len(outRG.Columns) {
			return true
		}
		m := ch.MetaData
		var offs []string
		for _, loc := range srcIx[fr.index*ncols+ci].PageLocations {
			offs = append(offs, core.Zs(loc.Offset))
		}
		o := outRG.Columns[ci].MetaData
		start := o.DataPageOffset
		if o.DictionaryPageOffset != 0 {
			start = o.DictionaryPageOffset
		}
		lt := "_"
		if len(offs) > 0 {
			lt = strings.Join(offs, ",")
		}
		req := fmt.Sprintf("c11.rebase %s %s %s %s %s", core.Zs(m.DictionaryPageOffset), core.Zs(m.DataPageOffset), core.Zs(m.TotalCompressedSize), lt, core.Zs(start))
		var got []string
		for _, loc := range oix[g*ncols+ci].PageLocations {
			got = append(got, core.Zs(loc.Offset))
		}
		gt := "_"
		if len(got) > 0 {
			gt = strings.Join(got, ",")
		}
		impl := fmt.Sprintf("%s %s %s", core.Zs(o.DictionaryPageOffset), core.Zs(o.DataPageOffset), gt)
		if ans := c.Ask(req); ans != impl {
			mismatch(c, "corr:C11.rebase", req, impl, ans, cs)
			return false
		}
	}
	return true
}

// ---- batches of the re-encode path (Batches.v) ----

// checkBatches: a file-backed repeated column re-encoded into a destination
// that flushes a page after every WriteRowValues call: the pages of the output
// are the batches of copyColumnValues.
func checkBatches(c *core.Ctx, cs c11Case) bool {
	defer func() {
		if r := recover(); r != nil {
			violation(c, "panic", fmt.Sprintf("batches: the library panicked: %v", core.Trunc(fmt.Sprint(r), 300)), cs)
		}
	}()
	b, err := build(cs)
	if err != nil {
		return true
	}
	rgs, err := b.addFile(b.rows, nil)
	if err != nil || len(rgs) != 1 {
		return true
	}
	src := rgs[0]
	dst := b.srcOpts
	dst.PageBuffer = 1
	dst.MaxRows = 0
	dst.BloomBits = 0
	if dst.Codec == "snappy" {
		dst.Codec = "gzip"
	} else {
		dst.Codec = "snappy"
	}
	var outBuf bytes.Buffer
	w := parquet.NewGenericWriter[any](&outBuf, append([]parquet.WriterOption{schemaOf(b.srcRoot)}, dst.writerOptions(b.srcRoot, nil)...)...)
	r0 := parquet.VerifReencodePathCount()
	if _, err := w.WriteRowGroup(src); err != nil {
		violation(c, "write-error", fmt.Sprintf("batches: WriteRowGroup failed: %v", err), cs)
		return false
	}
	if err := w.Close(); err != nil {
		violation(c, "close-error", fmt.Sprintf("batches: Close failed: %v", err), cs)
		return false
	}
	if parquet.VerifReencodePathCount()-r0 != 1 {
		mismatch(c, "corr:C11.batches-path", "file-backed source, another codec", fmt.Sprint(parquet.VerifReencodePathCount()-r0), "1", cs)
		return false
	}
	out, err := openFile(outBuf.Bytes(), false)
	if err != nil {
		violation(c, "output-open-error", fmt.Sprintf("batches: the re-encoded file cannot be opened: %v", err), cs)
		return false
	}
	got, err := fileRows(out)
	if err != nil {
		violation(c, "output-read-error", fmt.Sprintf("batches: the re-encoded file cannot be read back: %v", err), cs)
		return false
	}
	if strings.Join(canonRows(got), "\n") != strings.Join(canonRows(b.rows), "\n") {
		violation(c, "rows-differ", "batches: the re-encoded file does not hold the rows of the source", cs)
		return false
	}
	ok := true
	for ci := range src.ColumnChunks() {
		pageCounts := func(ch parquet.ColumnChunk) ([]int64, [][]int) {
			var counts []int64
			var firstReps [][]int
			pages := ch.Pages()
			defer pages.Close()
			for {
				p, err := pages.ReadPage()
				if err != nil {
					break
				}
				counts = append(counts, p.NumValues())
				vals := make([]parquet.Value, p.NumValues())
				n, _ := p.Values().ReadValues(vals)
				reps := make([]int, n)
				for i := range vals[:n] {
					reps[i] = vals[i].RepetitionLevel()
				}
				firstReps = append(firstReps, reps)
				parquet.Release(p)
			}
			return counts, firstReps
		}
		srcCounts, srcReps := pageCounts(src.ColumnChunks()[ci])
		outCounts, outReps := pageCounts(out.RowGroups()[0].ColumnChunks()[ci])
		// predicate: no page of the output starts inside a row
		for j, reps := range outReps {
			if len(reps) > 0 && reps[0] != 0 {
				violation(c, "page-starts-mid-row", fmt.Sprintf("batches: column %d: page %d of the re-encoded file starts at repetition level %d", ci, j, reps[0]), cs)
				return false
			}
		}
		var reps, pages, cuts []string
		for _, p := range srcReps {
			for _, r := range p {
				reps = append(reps, strconv.Itoa(r))
			}
		}
		for _, n := range srcCounts {
			pages = append(pages, strconv.FormatInt(n, 10))
		}
		acc := int64(0)
		for _, n := range outCounts {
			acc += n
			cuts = append(cuts, strconv.FormatInt(acc, 10))
		}
		if c.HasOracle() && len(reps) > 0 {
			repeated := b01(ci == 1)
			req := fmt.Sprintf("c11.batches %s 1024 %s %s", repeated, strings.Join(pages, ","), strings.Join(reps, ","))
			ans := c.Ask(req)
			if ans != strings.Join(cuts, ",") {
				mismatch(c, "corr:C11.batches", core.Trunc(req, 400), strings.Join(cuts, ","), ans, cs)
				ok = false
			} else if ci == 1 && len(reps) <= 2600 && len(vmBatches) < 12 {
				vmBatches = append(vmBatches, fmt.Sprintf("(%s, [%s], [%s], [%s])", "true", strings.Join(pages, "; "), strings.Join(reps, "; "), strings.Join(cuts, "; ")))
			}
		}
	}
	return ok
}

var vmBatches []string

// cases whose chunks were compared with a reference written for the output's own row groups
var alignedRefs int

// bloom filters whose size was compared with the model's sizing rule
var filterSizes int

// the class of the first failure reported by the check in progress: the
// shrinkers keep a smaller case only when it fails in the same way
var failClass string

func violation(c *core.Ctx, class, what string, replay any) {
	if failClass == "" {
		failClass = class
	}
	c.Violation(class, what, replay)
}

func mismatch(c *core.Ctx, corr, cs, impl, model string, replay any) {
	if failClass == "" {
		failClass = corr
	}
	c.Mismatch(corr, cs, impl, model, replay)
}

func probeClass(c *core.Ctx, f func()) string {
	failClass = ""
	c.Probe(f)
	r := failClass
	failClass = ""
	return r
}
var vmPlans []string
var vmGroups []string
var vmSeen = map[string]bool{}

// ---- running ----

func runCase(c *core.Ctx, cs c11Case, sample bool) {
	check := check
	if cs.Fault > 0 {
		check = checkFault
	}
	var bucket string
	var nontrivial bool
	if class := probeClass(c, func() { bucket, nontrivial = check(c, cs) }); class != "" {
		fails := func(t c11Case) bool { return probeClass(c, func() { check(c, t) }) == class }
		for cs.Gen.NRows > 1 {
			t := cs
			t.Gen.NRows = cs.Gen.NRows / 2
			if !fails(t) {
				break
			}
			cs = t
		}
		// between the last size that fails and its half (which does not): bisection, then single steps
		for lo, i := cs.Gen.NRows/2, 0; i < 14 && cs.Gen.NRows-lo > 1; i++ {
			t := cs
			t.Gen.NRows = (lo + cs.Gen.NRows) / 2
			if fails(t) {
				cs = t
			} else {
				lo = t.Gen.NRows
			}
		}
		for i := 0; i < 10 && cs.Gen.NRows > 1; i++ {
			t := cs
			t.Gen.NRows--
			if !fails(t) {
				break
			}
			cs = t
		}
		if cs.Parts > 2 {
			t := cs
			t.Parts = 2
			if fails(t) {
				cs = t
			}
		}
		if cs.Switch != "" {
			t := cs
			t.Switch = ""
			if fails(t) {
				cs = t
			}
		}
		for cs.Pending > 0 {
			t := cs
			t.Pending = cs.Pending / 2
			if !fails(t) {
				break
			}
			cs = t
		}
		if cs.Card > 2 {
			t := cs
			t.Card = 2
			if fails(t) {
				cs = t
			}
		}
		bucket, nontrivial = check(c, cs) // reports the shrunk case
	}
	key, _ := json.Marshal(cs)
	c.Case(bucket, string(key), nontrivial)
	if sample {
		c.Sample(cs)
	}
}

func runBatches(c *core.Ctx, cs c11Case) {
	if class := probeClass(c, func() { checkBatches(c, cs) }); class != "" {
		fails := func(t c11Case) bool { return probeClass(c, func() { checkBatches(c, t) }) == class }
		for cs.Gen.NRows > 1 {
			t := cs
			t.Gen.NRows = cs.Gen.NRows / 2
			if !fails(t) {
				break
			}
			cs = t
		}
		for i := 0; i < 40 && cs.Gen.NRows > 1; i++ {
			t := cs
			t.Gen.NRows--
			if !fails(t) {
				break
			}
			cs = t
		}
		checkBatches(c, cs)
	}
	key, _ := json.Marshal(cs)
	c.Case("batches", "batches"+string(key), cs.Gen.NRows >= 2)
}

var tlast = time.Now()

func tmark(i int) {
	if os.Getenv("C11_TIMING") != "" {
		fmt.Fprintf(os.Stderr, "TIMING before %d: %.1fs\n", i, time.Since(tlast).Seconds())
	}
	tlast = time.Now()
}

func run(c *core.Ctx) {
	c.Res.Rule = "source row groups {file-backed (generated schemas/options/Write-Flush histories), Buffer, GenericBuffer, MultiRowGroup of files and buffers, MergeRowGroups of sorted inputs (disjoint, overlapping, partially overlapping with range views, with and without DropDuplicatedRows, unsorted), the deduplicating wrapper, ConvertRowGroup to a schema with an added/dropped column, a foreign RowGroup implementation reversing the rows} x destination options {equal to the source's, or differing in one of codec, page version, default encoding, column encoding, dictionary limit (none / larger / smaller), page statistics, bloom filter present/absent/size, MaxRowsPerRowGroup, sorting, encryption, page buffer size, column index size limit} x switches; each written with WriteRowGroup and, row by row, into a reference writer. Added shapes: dictionary columns of every kind (byte array, 32/64-bit, fixed length, double, below a repeated node) with 2..1000 distinct values arriving through the chunk or cycling, source DictionaryMaxBytes in {none, 8, 64, 300, 2000} (chunks with RLE_DICTIONARY pages followed by PLAIN pages) x destination limit larger / none / smaller, bloom filters on and off; GEOMETRY / GEOGRAPHY columns (optional, required, repeated; WKB points, line strings, polygons, multi-points in XY/XYZ/XYM/XYZM, empty geometries, bytes that are not WKB). Added sources: merges whose segments mix whole row groups with row-range views (4 600..7 300 rows, several pages per chunk, bloom filters on the repeated and the optional leaf among the destinations), merges of concatenations (a member without rows first or last, nested, the other input overlapping / above / below / inside), MultiRowGroup over foreign, embedding, deduplicating and merged members, types embedding *Buffer / *GenericBuffer / *FileRowGroup that reverse Rows(); shape edge: chunk bounds at the edge of the type (empty strings as minimum and as both bounds, NaNs, signed zeros, infinities, all-null, all-zero fixed length) x every source kind. Chunk statistics are compared field by field (set / unset, bytes, counts; a zero FLOAT/DOUBLE bound without its sign) with the row path's, for the output's own row groups. Histories: 1..40 rows written with WriteRows and still buffered when WriteRowGroup is called (every source kind, segmented ones whose first batch packs several segments included); a call of WriteRowGroup that fails while the verbatim copy is staged (source opened with SkipPageIndex through a ReaderAt that refuses the column index or the offset index of one column) or while the values are written column by column (the ReaderAt refuses the pages of one column: one row group into another codec, or two segments packed), followed by rows written one by one or a healthy row group. Destination BloomFilterCompression (gzip / snappy / not set) x page codec {none, snappy, gzip, zstd} x sources with and without filters (file, multi, buffer): the header of every filter of the output says compressed exactly when the destination is configured so, header and bytes equal the row path's, the sizing rule holds of the decompressed bit set. Sorted shape, added sources: ConvertRowGroup over files / Buffers sorted by (k, v) with distinct keys to a target without k, without v, or with one column more; on every case whose destination declares no order of its own the sorting_columns recorded in each output row group must be true of its rows. Non-trivial = at least 2 rows (fault histories: the call failed while staging); distinct by the JSON of the case."
	codecs := []string{"none", "snappy", "gzip", "zstd"}

	// corpus first: the defect repaired by bdd71f3 (repeated column, rows of 100+ values,
	// small pages, another codec)
	for i, rl := range []int{150, 400, 130} {
		cs := c11Case{Gen: gen.Case{Seed: int64(101 + i), NRows: 40, MaxDepth: 1, MaxFields: 1, Codecs: []string{"snappy"}}, Shape: "repeated", Src: "file", Dst: "codec", RowLen: rl}
		runBatches(c, cs)
		// the same source through the ordinary check, with the page buffer the defect was found with
		cs2 := cs
		cs2.Dst = "regress"
		runCase(c, cs2, i == 0)
		cs2.Gen.NRows = 400
		cs2.RowLen = 110
		runCase(c, cs2, false)
		cs2.Dst = "version"
		runCase(c, cs2, false)
	}
	// corpus: each source kind with equal options and with another codec
	for i, src := range srcKinds {
		for _, dstk := range []string{"same", "codec", "nocodec"} {
			runCase(c, c11Case{Gen: gen.Case{Seed: int64(500 + i), NRows: 60, MaxDepth: 2, MaxFields: 4, Codecs: codecs, NullBias: 2}, Src: src, Dst: dstk, Parts: 3}, src == "foreign" && dstk == "same")
		}
	}
	for i, src := range append(append([]string(nil), sortedSrcKinds...), "merge-dedup-disjoint") {
		for _, dstk := range []string{"same", "codec", "maxrows"} {
			runCase(c, c11Case{Gen: gen.Case{Seed: int64(700 + i), NRows: 90, MaxDepth: 1, MaxFields: 1, Codecs: codecs}, Shape: "sorted", Src: src, Dst: dstk, Parts: 3}, src == "dedup" && dstk == "same")
		}
	}
	// the representation of the destination's bloom filters (BloomFilterCompression) x the codec of the
	// pages x filters in the source or not: a filter is carried over verbatim only into a destination
	// that stores its filters uncompressed, whatever the codec of its pages
	for ci, codec := range codecs {
		for bi, sb := range []string{"on", "off"} {
			for di, dstk := range []string{"bloomcodec", "bloomcodec-snappy"} {
				for si, src := range []string{"file", "multi", "buffer"} {
					if src != "file" && (sb == "off" || di == 1) {
						continue
					}
					runCase(c, c11Case{Gen: gen.Case{Seed: c.Seed*131 + int64(2000+ci*16+bi*8+di*4+si), NRows: 70, MaxDepth: 2, MaxFields: 3, Codecs: []string{codec}, NullBias: 2}, Src: src, Dst: dstk, SrcBloom: sb, Parts: 2}, false)
				}
			}
		}
	}
	// partially overlapping long inputs: range views
	for i := 0; i < c.N(3, 8); i++ {
		cs := c11Case{Gen: gen.Case{Seed: int64(900 + i), NRows: 5200 + 700*i, MaxDepth: 1, MaxFields: 1, Codecs: []string{"snappy"}}, Shape: "sorted", Src: "merge-partial", Dst: []string{"same", "codec", "bloom"}[i%3], Parts: 2 + i%2}
		if i == 2 {
			cs.Switch = "norefine" // VerifSetDisableMergeRefinement: no range views, the overlapping merge is read through Rows()
		}
		runCase(c, cs, false)
	}
	// whole row groups next to range views: packs mixing exact and inexact value counts (the sorted
	// shape has a repeated and an optional leaf; "bloom" / "bloomsize" put a filter on every leaf)
	mixedDst := []string{"bloom", "same", "bloomsize", "codec", "bloom", "version", "bloom", "pagebuf", "encrypt", "maxrows"}
	for i := 0; i < c.N(10, 30); i++ {
		cs := c11Case{Gen: gen.Case{Seed: c.Seed*31 + int64(950+i), NRows: 4600 + 450*(i%7), MaxDepth: 1, MaxFields: 1, Codecs: []string{"snappy"}}, Shape: "sorted", Src: "merge-mixed", Dst: mixedDst[i%len(mixedDst)], Parts: 2 + i%3}
		if i%5 == 3 {
			cs.Pending = 1 + c.Rng.Intn(30)
		}
		runCase(c, cs, i == 0)
	}

	tmark(0)
	// dictionary shapes: every source limit x the destination's limit larger / none / smaller, and the other attributes
	// (bloom filters of dictionary columns on the column-wise and row paths among them)
	x := 0
	for li := range dictLimits {
		for bl := 0; bl < 2; bl++ { // 0: the source has bloom filters
			for pg := 0; pg < 2; pg++ { // 0: one page per chunk
				for _, dstk := range []string{"dictmax", "dictmore", "dictless", "bloom"} {
					for _, src := range []string{"file", "multi", "buffer"} {
						if src != "file" && (dstk != "bloom" || pg == 0) {
							continue
						}
						// seed: seed/3 selects the limit, seed/15 the bloom filters, seed/30 the page size;
						// seed%3 != 0 makes the dictionary grow through the chunk
						x++
						seed := int64(3*(li+5*(bl+2*(pg+3*x))) + 1)
						runCase(c, c11Case{Gen: gen.Case{Seed: seed, NRows: 240, MaxDepth: 1, MaxFields: 1, Codecs: []string{"snappy"}}, Shape: "dict", Card: []int{40, 12}[x%2], Src: src, Dst: dstk, Parts: 2}, x == 1)
					}
				}
			}
		}
	}
	dictDst := []string{"same", "same", "dictmax", "dictmore", "dictless", "bloom", "bloom", "bloomsize", "codec", "version", "pagebuf", "maxrows", "encrypt", "stats"}
	dictSrc := []string{"file", "file", "file", "buffer", "genericbuffer", "multi", "multi-mixed", "foreign-plain", "foreign", "convert-add"}
	for i := 0; i < c.N(130, 900); i++ {
		cs := c11Case{Gen: gen.Case{Seed: c.Seed*15485863 + int64(i), NRows: []int{30, 120, 400}[c.Rng.Intn(3)], MaxDepth: 1, MaxFields: 1, Codecs: codecs}, Shape: "dict",
			Card: []int{2, 9, 40, 1000}[c.Rng.Intn(4)], Src: dictSrc[c.Rng.Intn(len(dictSrc))], Dst: dictDst[c.Rng.Intn(len(dictDst))], Parts: 2 + c.Rng.Intn(2)}
		if c.Rng.Intn(5) == 0 {
			cs.Pending = 1 + c.Rng.Intn(20)
		}
		runCase(c, cs, false)
	}
	tmark(2)
	// geospatial columns among the columns written
	geoDst := []string{"same", "same", "same", "codec", "stats", "version", "maxrows", "sorting", "bloomoff", "pagebuf", "indexlimit"}
	geoSrc := []string{"file", "file", "file", "multi", "multi-mixed", "buffer", "foreign-plain", "convert-add"}
	for i := 0; i < c.N(60, 400); i++ {
		cs := c11Case{Gen: gen.Case{Seed: c.Seed*32452843 + int64(i), NRows: []int{1, 5, 40, 130}[c.Rng.Intn(4)], MaxDepth: 1, MaxFields: 1, Codecs: codecs, NullBias: c.Rng.Intn(8)}, Shape: "geo",
			Src: geoSrc[c.Rng.Intn(len(geoSrc))], Dst: geoDst[c.Rng.Intn(len(geoDst))], Parts: 2 + c.Rng.Intn(2)}
		if c.Rng.Intn(6) == 0 {
			cs.Pending = 1 + c.Rng.Intn(10)
		}
		runCase(c, cs, i == 0)
	}
	// chunk bounds at the edge of the type (empty strings, NaN, signed zeros, all null): statistics of the
	// output chunk == the row path's, field by field
	edgeDst := []string{"same", "same", "same", "codec", "version", "stats", "pagebuf", "maxrows", "bloom", "encoding", "indexlimit", "sorting"}
	edgeSrc := []string{"file", "file", "file", "multi", "multi-mixed", "buffer", "genericbuffer", "foreign-plain", "convert-add"}
	for i := 0; i < c.N(70, 500); i++ {
		cs := c11Case{Gen: gen.Case{Seed: c.Seed*86028121 + int64(i), NRows: []int{1, 2, 7, 60, 200}[c.Rng.Intn(5)], MaxDepth: 1, MaxFields: 1, Codecs: codecs, NullBias: c.Rng.Intn(9)}, Shape: "edge",
			Src: edgeSrc[c.Rng.Intn(len(edgeSrc))], Dst: edgeDst[c.Rng.Intn(len(edgeDst))], Parts: 2 + c.Rng.Intn(2)}
		if i < len(edgeSrc) {
			cs.Src, cs.Dst = edgeSrc[i], "same" // every source kind once with equal options
		}
		if c.Rng.Intn(6) == 0 {
			cs.Pending = 1 + c.Rng.Intn(10)
		}
		runCase(c, cs, i == 0)
	}
	tmark(3)
	// rows still buffered in the writer when WriteRowGroup is called: every source kind
	for i, src := range srcKinds {
		for _, dstk := range []string{"same", "maxrows"} {
			runCase(c, c11Case{Gen: gen.Case{Seed: int64(1300 + i), NRows: 60, MaxDepth: 2, MaxFields: 4, Codecs: codecs, NullBias: 2}, Src: src, Dst: dstk, Parts: 3, Pending: 7}, false)
		}
	}
	for i, src := range append(append([]string(nil), sortedSrcKinds...), "merge-dedup-disjoint") {
		for _, dstk := range []string{"same", "maxrows", "bloom"} {
			runCase(c, c11Case{Gen: gen.Case{Seed: int64(1400 + i), NRows: 90, MaxDepth: 1, MaxFields: 1, Codecs: codecs}, Shape: "sorted", Src: src, Dst: dstk, Parts: 3, Pending: 11}, src == "multi" && dstk == "same")
		}
	}
	tmark(4)
	// a call that fails while the copy is staged, then further writes
	for i := 0; i < c.N(120, 600); i++ {
		cs := c11Case{Gen: gen.Case{Seed: c.Seed*49979687 + int64(i), NRows: []int{5, 40, 130}[c.Rng.Intn(3)], MaxDepth: 1 + c.Rng.Intn(2), MaxFields: 2 + c.Rng.Intn(4), Codecs: codecs, NullBias: c.Rng.Intn(8)},
			Shape: []string{"", "", "", "geo", "dict"}[c.Rng.Intn(5)], Src: "file", Dst: "same", Fault: 1 + c.Rng.Intn(6), FaultOI: c.Rng.Intn(2) == 0, After: []string{"rows", "rowgroup"}[c.Rng.Intn(2)]}
		if c.Rng.Intn(3) == 0 {
			cs.Pending = 1 + c.Rng.Intn(10)
		}
		cs.FaultAt = []string{"", "", "pages", "pack"}[c.Rng.Intn(4)]
		runCase(c, cs, i == 0)
	}

	tmark(5)
	// generated cases
	n := c.N(1250, 9000)
	for i := 0; i < n; i++ {
		cs := c11Case{Gen: gen.Case{Seed: c.Seed*7919 + int64(i), NRows: []int{1, 5, 40, 130, 300}[c.Rng.Intn(5)], MaxDepth: 1 + c.Rng.Intn(3), MaxFields: 1 + c.Rng.Intn(5), Codecs: codecs, NullBias: c.Rng.Intn(8)}}
		cs.Parts = 2 + c.Rng.Intn(3)
		switch c.Rng.Intn(10) {
		case 0, 1, 2:
			cs.Shape = "sorted"
			cs.Src = sortedSrcKinds[c.Rng.Intn(len(sortedSrcKinds))]
			if c.Rng.Intn(6) == 0 {
				cs.Src = "merge-dedup-disjoint"
			}
		case 3:
			cs.Shape = "repeated"
			cs.Src = "file"
			cs.Gen.NRows = 20 + c.Rng.Intn(40)
			cs.RowLen = []int{20, 150, 300}[c.Rng.Intn(3)]
		default:
			cs.Src = srcKinds[c.Rng.Intn(len(srcKinds))]
			if c.Rng.Intn(2) == 0 {
				cs.Src = "file"
			}
		}
		cs.Dst = dstKinds[c.Rng.Intn(len(dstKinds))]
		if c.Rng.Intn(3) == 0 {
			cs.Dst = "same"
		}
		if c.Rng.Intn(6) == 0 {
			cs.Switch = []string{"nocopy", "noreencode", "none"}[c.Rng.Intn(3)]
		}
		if c.Rng.Intn(6) == 0 {
			cs.Pending = 1 + c.Rng.Intn(40)
		}
		runCase(c, cs, i < 2)
	}
	tmark(6)
	// batches of the re-encode path
	for i := 0; i < c.N(25, 300); i++ {
		cs := c11Case{Gen: gen.Case{Seed: c.Seed*104729 + int64(i), NRows: 10 + c.Rng.Intn(50), MaxDepth: 1, MaxFields: 1, Codecs: []string{"none", "snappy"}}, Shape: "repeated", Src: "file", Dst: "codec", RowLen: []int{3, 60, 150, 300}[c.Rng.Intn(4)]}
		runBatches(c, cs)
	}

	c.Note("%s", fmt.Sprintf("%d cases whose output row groups differ from the reference's were compared chunk by chunk with a second reference flushed where the output ends its row groups; %d bloom filters of row groups written column-wise had the size of the model's sizing rule (CopyPath/Filters.v)", alignedRefs, filterSizes))
	// a sample of the cases re-evaluated inside coqc
	c.Vm("From Coq Require Import List Arith Bool NArith.\nFrom PQ Require Import CopyPath.Batches CopyPath.Decision CopyPath.Groups.\nImport ListNotations.")
	c.Vm("Definition cases : list (bool * list nat * list nat * list nat) := [\n  " + strings.Join(vmBatches, ";\n  ") + "].")
	c.Vm("Definition same (a b : list nat) := if list_eq_dec Nat.eq_dec a b then true else false.")
	c.Vm("Definition mismatches := filter (fun '(rep, pages, reps, cuts) => match batch_cuts rep 1024 pages reps with Some l => negb (same l cuts) | None => true end) cases.")
	c.Vm("Definition plan_cases : list (switches * writer * rg * nat * nat * nat) := [\n  " + strings.Join(vmPlans, ";\n  ") + "].")
	c.Vm("Definition plan_mismatches := filter (fun '(sw, w, r, fuel, cc, rc) => negb (Nat.eqb (copy_count (plan fuel sw w r)) cc && Nat.eqb (reencode_count (plan fuel sw w r)) rc)) plan_cases.")
	c.Vm("Definition group_cases : list (switches * writer * rg * nat * N * list N) := [\n  " + strings.Join(vmGroups, ";\n  ") + "].")
	c.Vm("Definition same_groups (a b : list N) := if list_eq_dec N.eq_dec a b then true else false.")
	c.Vm("Definition group_mismatches := filter (fun '(sw, w, r, fuel, written, groups) => match out_row_groups w written (plan fuel sw w r) with Some l => negb (same_groups l groups) | None => true end) group_cases.")
	c.Vm("Definition M := Eval vm_compute in (length cases + length plan_cases + length group_cases, map (fun _ => 0) mismatches ++ map (fun '(_, _, _, _, cc, rc) => cc + rc) plan_mismatches ++ map (fun _ => 0) group_mismatches).\nPrint M.")
	c.Res.VmCases = len(vmBatches) + len(vmPlans) + len(vmGroups)
}

func replay(c *core.Ctx, raw json.RawMessage) {
	var cs c11Case
	if err := json.Unmarshal(raw, &cs); err != nil {
		c.Note("replay does not hold a C11 case")
		return
	}
	if cs.Shape == "repeated" {
		runBatches(c, cs)
	}
	runCase(c, cs, true)
}
